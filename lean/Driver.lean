/-
  Line-protocol driver. stdin: `<Prop> <op> <args…> => <impl output>` per line.
  stdout per line: `ok <tag>` | `DIFF <tag> model=<m> prop=<0|1>` | `BADLINE`.
-/
import SygmaModel.Drv.All

open Sygma.Drv

def processLine (line : String) : String :=
  match line.splitOn " => " with
  | [lhs, impl] =>
    match (lhs.splitOn " ").filter (· ≠ "") with
    | prop :: op :: args =>
      match dispatch prop op args impl with
      | some v =>
        if v.model == impl then s!"ok {v.tag}"
        else s!"DIFF {v.tag} model={v.model} prop={if v.propOk then 1 else 0}"
      | none => "BADLINE unknown-op"
    | _ => "BADLINE"
  | _ => "BADLINE"

partial def loop (h : IO.FS.Stream) (out : IO.FS.Stream) : IO Unit := do
  let line ← h.getLine
  if line.isEmpty then return ()
  let l := (line.dropEndWhile (fun c => c == '\n' || c == '\r')).toString
  out.putStrLn (processLine l)
  loop h out

def main : IO Unit := do
  let out ← IO.getStdout
  loop (← IO.getStdin) out
  out.flush
