/-
  C16 — obligations tying the REGENERATED facts (Generated/C16.lean, rewritten from the Go source on every run) to the
  hand-written model.  A source change to the fee formula or its constants, to either refusal test, to the change
  condition, to the input loop's exit test, to the arguments of the two fee calls or to the comparator's key list makes
  one of these fail to check.
-/
import SygmaModel.Model.C16
import SygmaModel.Generated.C16
namespace Sygma.C16

/-- the source's fee expression (sizes 180/34, rounding factor 5), reduced mod 2^64, is the model's `feeOf` -/
theorem gen_fee (rate nin nout : Nat) : Generated.C16.feeFormula nin nout rate % M = feeOf rate nin nout := by
  simp [Generated.C16.feeFormula, feeOf]

/-- rawTx refuses exactly on `inAmt < outAmt` and on `inAmt < outAmt + fee` (the model's two tests, absent wrap) -/
theorem gen_refuse (inAmt outAmt fee : Nat) :
    Generated.C16.refuse inAmt outAmt fee = [decide (inAmt < outAmt), decide (inAmt < outAmt + fee)] := by
  simp [Generated.C16.refuse]

/-- consequently, past both tests the inputs cover amounts plus fee: the change is a true difference, never a wrapped one -/
theorem gen_refuse_sound (inAmt outAmt fee : Nat) (h : ∀ b ∈ Generated.C16.refuse inAmt outAmt fee, b = false) :
    outAmt + fee ≤ inAmt := by
  rw [gen_refuse] at h
  have := h (decide (inAmt < outAmt + fee)) (by simp)
  simp at this; omega

/-- a change output is appended exactly for a positive remainder -/
theorem gen_change (ret : Nat) : Generated.C16.changeCond ret = decide (ret > 0) := by
  simp [Generated.C16.changeCond]

/-- the input loop stops as soon as the running total exceeds the target (`select`) -/
theorem gen_stop (acc target : Nat) : Generated.C16.stopCond acc target = decide (acc > target) := by
  simp [Generated.C16.stopCond]

/-- estimate = fee(#proposals, #proposals); final quote = fee(#selected UTXOs, #proposals + 1) -/
theorem gen_fee_calls : Generated.C16.feeCalls =
    ["uint64(len(proposals)) | uint64(len(proposals))", "uint64(len(utxos)) | uint64(len(proposals)) + 1"] := by decide

/-- the service-side comparator consults block time, then txid, then vout — the key of `keyLe` — each with `<` -/
theorem gen_comparator :
    Generated.C16.comparatorKeys = ["Status.BlockTime", "TxID", "Vout"] ∧
    Generated.C16.comparatorReturns = ["utxos[i].Vout < utxos[j].Vout", "utxos[i].TxID < utxos[j].TxID",
      "utxos[i].Status.BlockTime < utxos[j].Status.BlockTime"] := by decide

/-- `outputs` refuses exactly when this amount or the running total (tested after the addition) exceeds the supply; with
    the total before the addition within the supply this is the model's `sumAmounts > maxSat` -/
theorem gen_supply_cap (amt total : Nat) :
    Generated.C16.supplyCap amt total = (decide (amt > maxSat) || decide (total > maxSat)) ∧
    Generated.C16.supplyCapAfterAddition = true := by
  simp [Generated.C16.supplyCap, Generated.C16.supplyCapAfterAddition, maxSat]

/-- the message handler tests `IsUint64` and returns before `.Uint64()` can truncate (`msgAmount = none`) -/
theorem gen_handler_uint64 : Generated.C16.handlerChecksUint64 = true := by decide

end Sygma.C16
