/-
  C16 — obligations tying the REGENERATED facts (Generated/C16.lean, rewritten from the Go source on every run) to the
  hand-written model.

  Every fact is an `Option`: `none` = the translator could not locate the anchor in the current source in a shape it
  understands (the obligation is then vacuous, bin/check prints `T-TIE-UNAVAILABLE`, and the correspondence ops — rawtx,
  build, utxos, utxoperm, buildperm, fee, withdraw, multi, batch — carry the property alone).  A fact that IS located must
  satisfy its obligation, and the obligations are SEMANTIC (equalities of functions, uint64 wrap-around kept where it
  matters): renaming locals / parameters / receivers, swapping the operands of a comparison, `x = x + y` for `x += y`, an
  indexed loop for a range loop, inlining or naming sub-expressions of the fee, an early return instead of an `if` around
  the change output, extracting the sort or the change output into a helper … all still satisfy them; another fee
  formula or constant, a dropped or weakened refusal test, a change output for a zero remainder, another exit test of the
  selection, other fee-call arguments, a comparator that is not (block time, txid, vout) do not.
-/
import SygmaModel.Model.C16
import SygmaModel.Proofs.C16Lemmas
import SygmaModel.Generated.C16
import Mathlib.Tactic.Ring
namespace Sygma.C16

/-- closes an equation between a translated source expression and the model's (Bool or Nat valued, linear arithmetic) -/
macro "fact_eq" : tactic => `(tactic| first
  | (with_reducible rfl)
  | omega
  | (simp <;> omega)
  | (rw [Bool.eq_iff_iff] <;> simp <;> omega)
  | (simp only [Prod.mk.injEq] <;> omega))

/-- the source's fee expression (sizes 180/34, rounding factor 5), reduced mod 2^64, is the model's `feeOf` -/
theorem gen_fee : ∀ f, Generated.C16.feeFormula = some f →
    ∀ nin nout rate, f nin nout rate % M = feeOf rate nin nout := by
  intro f hf
  unfold Generated.C16.feeFormula at hf
  cases hf
  all_goals (intro nin nout rate; unfold feeOf; try dsimp only)
  all_goals first
    | (with_reducible rfl)
    | (congr 1 <;> first | ring1 | (congr 1 <;> first | ring1 | omega))

/-- rawTx refuses exactly when `inAmt < outAmt` or `inAmt < (outAmt + fee) mod 2^64` — the model's two tests, with the
    uint64 wrap of the sum (so dropping the first test is NOT equivalent) -/
theorem gen_refuse : ∀ g, Generated.C16.refuse = some g →
    ∀ inAmt outAmt fee, inAmt < M → outAmt < M → fee < M →
      g inAmt outAmt fee = (decide (inAmt < outAmt) || decide (inAmt < (outAmt + fee) % M)) := by
  intro g hg
  unfold Generated.C16.refuse at hg
  cases hg
  all_goals (intro inAmt outAmt fee h1 h2 h3; rw [M_val] at *; fact_eq)

/-- what is left for the change is `inAmt - fee - outAmt` in uint64 -/
theorem gen_change_amount : ∀ r, Generated.C16.changeAmount = some r →
    ∀ inAmt outAmt fee, inAmt < M → outAmt < M → fee < M → r inAmt outAmt fee = (inAmt + 2 * M - fee - outAmt) % M := by
  intro r hr
  unfold Generated.C16.changeAmount at hr
  cases hr
  all_goals (intro inAmt outAmt fee h1 h2 h3; rw [M_val] at *; fact_eq)

/-- a change output is appended exactly for a positive remainder -/
theorem gen_change : ∀ c, Generated.C16.changeCond = some c → ∀ ret, c ret = decide (ret > 0) := by
  intro c hc
  unfold Generated.C16.changeCond at hc
  cases hc
  all_goals (intro ret; fact_eq)

/-- estimate = fee(#proposals, #proposals); final quote = fee(#selected UTXOs, #proposals + 1) -/
theorem gen_fee_calls : ∀ fc, Generated.C16.feeCalls = some fc → ∀ np nu, fc np nu = (np, np, nu, np + 1) := by
  intro fc hfc
  unfold Generated.C16.feeCalls at hfc
  cases hfc
  all_goals (intro np nu; fact_eq)

/-- the input loop stops as soon as the running total exceeds the target (`select`) -/
theorem gen_stop : ∀ c, Generated.C16.stopCond = some c → ∀ acc target, c acc target = decide (acc > target) := by
  intro c hc
  unfold Generated.C16.stopCond at hc
  cases hc
  all_goals (intro acc target; fact_eq)

/-- `outputs` refuses exactly when this amount or the running total (tested after the addition) exceeds the supply -/
theorem gen_supply_cap : ∀ c, Generated.C16.supplyCap = some c →
    (∀ amt total, c.1 amt total = (decide (amt > maxSat) || decide (total > maxSat))) ∧ c.2 = true := by
  intro c hc
  unfold Generated.C16.supplyCap at hc
  cases hc
  all_goals (refine ⟨?_, by decide⟩; intro amt total; simp only [maxSat]; fact_eq)

/-- the message handler tests `IsUint64` and returns an error before `.Uint64()` can truncate (`msgAmount = none`) -/
theorem gen_handler_uint64 : ∀ b, Generated.C16.handlerChecksUint64 = some b → b = true := by
  intro b hb
  unfold Generated.C16.handlerChecksUint64 at hb
  cases hb
  all_goals decide

/-- the listing is sorted with the strict lexicographic order on (block time, txid, vout) — `lexLt` -/
theorem gen_comparator : ∀ less, Generated.C16.comparator = some less →
    ∀ a b : Utxo, less natsLt a.btime a.txid a.vout a.confirmed b.btime b.txid b.vout b.confirmed = lexLt a b := by
  intro less hl
  unfold Generated.C16.comparator at hl
  cases hl
  all_goals (
    intro a b
    simp only [lexLt]
    by_cases h1 : a.btime = b.btime <;> by_cases h2 : a.txid = b.txid <;>
      first
      | (simp [h1, h2, natsLt_irrefl] <;> omega)
      | (rw [Bool.eq_iff_iff] <;> simp [h1, h2, natsLt_irrefl] <;> omega))

/-- `lexLt` is the strict part of the model's `keyLe`: `a` may stand before `b` iff `b` is not strictly before `a` -/
theorem keyLe_eq_not_lexLt (a b : Utxo) : keyLe a b = !lexLt b a := by
  simp only [keyLe, lexLt]
  rcases Nat.lt_trichotomy a.btime b.btime with h | h | h
  · have h' : ¬ b.btime < a.btime := by omega
    have h'' : ¬ b.btime = a.btime := by omega
    simp [h, h', h'']
  · rcases natsLt_trichotomy a.txid b.txid with t | t | t
    · have := natsLt_asymm _ _ t
      have hne : ¬ b.txid = a.txid := by intro e; rw [e, natsLt_irrefl] at t; cases t
      simp [h, t, this, hne]
    · rw [Bool.eq_iff_iff]
      simp [h, t, natsLt_irrefl]
    · have := natsLt_asymm _ _ t
      have hne : ¬ a.txid = b.txid := by intro e; rw [e, natsLt_irrefl] at t; cases t
      simp [h, t, this, hne]
  · have h' : ¬ a.btime < b.btime := by omega
    have h'' : ¬ a.btime = b.btime := by omega
    simp [h, h', h'']

end Sygma.C16
