/-
  C06 — obligations about facts REGENERATED from the Go source on every run (Generated/C06.lean):
  the skeleton model of Model/C06.lean puts every deposit inside its own recovered closure; these obligations check that
  the source still does, that the RetryV1 error branch does not touch the nil message, and that parseDeposit guards
  `Topics[1]`.
-/
import SygmaModel.Model.C06
import SygmaModel.Generated.C06
namespace Sygma.C06

/-- in all five loops every `HandleDeposit` call sits in a closure that begins with `defer … recover()` and is called once
    per deposit: no loop lies between the call and the closure, except Bitcoin's loop over the configured resources
    inside the per-transaction closure (`btcTx` in the model) -/
theorem gen_isolated : Generated.C06.isolated =
    [("evm.ProcessDeposits", true, 0), ("evm.RetryV1", true, 0), ("substrate.ProcessDeposits", true, 0),
     ("substrate.Retry", true, 0), ("btc.ProcessDeposits", true, 1)] := by decide

/-- RetryV1's error branch exists and does not mention the message that is nil there -/
theorem gen_retryV1_err_branch :
    Generated.C06.retryV1ErrBranchFound = true ∧ Generated.C06.retryV1ErrBranchUsesMsg = false := by decide

/-- `parseDeposit` returns an error for logs with fewer than two topics before it reads `Topics[1]` -/
theorem gen_topics_guard : Generated.C06.topicsGuard = some 2 := by decide

end Sygma.C06
