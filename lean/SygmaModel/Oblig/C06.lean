/-
  C06 — obligations about facts REGENERATED from the Go source on every run (Generated/C06.lean).
  Each fact is `some …` when its anchor was located (by shape, not by names) and `none` when it moved out of the extractor's
  reach (then the obligation is vacuous, bin/check prints T-TIE-UNAVAILABLE and the correspondence ops carry the property).
  The skeleton model of Model/C06.lean puts every deposit inside its own recovered closure; a located fact must agree.
-/
import SygmaModel.Model.C06
import SygmaModel.Generated.C06
namespace Sygma.C06

/-- a located loop isolates every `HandleDeposit` call: its isolation unit (closure, or helper called from the loop) begins with
    `defer … recover()`, is invoked once per item, and no loop lies between the call and the unit -/
def Isolated (f : Option (Bool × Nat)) (innerLoops : Nat) : Prop := ∀ x, f = some x → x = (true, innerLoops)

instance (f : Option (Bool × Nat)) (k : Nat) : Decidable (Isolated f k) := by
  unfold Isolated
  cases f with
  | none => exact isTrue (by intro x h; cases h)
  | some y => exact decidable_of_iff (y = (true, k)) ⟨fun h x hx => by cases hx; exact h, fun h => h y rfl⟩

theorem gen_isolated_evm_process : Isolated Generated.C06.isoEvmProcess 0 := by decide
theorem gen_isolated_evm_retryV1 : Isolated Generated.C06.isoEvmRetryV1 0 := by decide
theorem gen_isolated_sub_process : Isolated Generated.C06.isoSubProcess 0 := by decide
theorem gen_isolated_sub_retry : Isolated Generated.C06.isoSubRetry 0 := by decide
/-- Bitcoin: the unit is per transaction; the one inner loop is the loop over the configured resources (`btcTx` in the model) -/
theorem gen_isolated_btc_process : Isolated Generated.C06.isoBtcProcess 1 := by decide

/-- RetryV1's error branch after `HandleDeposit` does not touch the message that is nil there -/
theorem gen_retryV1_err_branch : ∀ b, Generated.C06.retryV1ErrUsesMsg = some b → b = false := by decide

/-- before `Topics[1]` is read, `parseDeposit` returns for every log with fewer than two topics -/
theorem gen_topics_guard : ∀ n, Generated.C06.topicsGuard = some n → 2 ≤ n := by
  intro n h
  have : Generated.C06.topicsGuard.all (fun n => decide (2 ≤ n)) = true := by decide
  rw [h] at this
  simpa using this

end Sygma.C06
