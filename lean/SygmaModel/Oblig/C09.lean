/-
  C09 — obligations about the REGENERATED admission facts (Generated/C09.lean, rewritten from tss/coordinator.go on
  every run): the model's atomic `yield → running | refused` step is justified only if the test and the set of the
  pending flag sit in ONE critical section of the coordinator's mutex, and no other access to the map is unlocked.

  Every fact is an `Option` (`none` = the prologue is not a sequence of direct statements of Execute any more, or the
  mutex / map fields were not found by type: T-TIE-UNAVAILABLE, vacuous obligation, the `race` / `stress` / `excl` ops
  carry the clause). The fields are found by TYPE (sync.Mutex, map[string]bool) and the statements by shape, so renamed
  receivers, locals and fields, a flag first read into a local, or a deferred Unlock leave the facts intact.
-/
import SygmaModel.Generated.C09
namespace Sygma.C09

/-- ONE critical section holds both the test and the set of the pending flag: nothing touches the flag before the
    first `lock`; between that `lock` and the next `unlock` the flag is tested and then set (a `read` into a local may
    precede the test); nothing touches it afterwards; nothing the translator could not classify (`other`); and the
    replay hook, where present, sits before the lock -/
def atomicAdmission (a : List String) : Bool :=
  let pre := a.takeWhile (· != "lock")
  let rest := (a.dropWhile (· != "lock")).drop 1
  let cs := rest.takeWhile (· != "unlock")
  let post := rest.dropWhile (· != "unlock")
  let touches (xs : List String) : Bool := xs.any fun x => x == "test" || x == "set" || x == "read"
  !touches pre && !a.contains "other" &&
  (cs.filter fun x => x == "test" || x == "set") == ["test", "set"] && !cs.contains "lock" &&
  post.head? == some "unlock" && !touches (post.drop 1) &&
  (!a.contains "yield" || pre.contains "yield")

theorem gen_admission_atomic : ∀ a, Generated.C09.admission = some a → atomicAdmission a = true := by
  intro a ha
  unfold Generated.C09.admission at ha
  cases ha
  all_goals decide

/-- the refusing branch gives the lock back and returns -/
theorem gen_refusal_branch :
    ∀ b, Generated.C09.refusalBranch = some b → (b.contains "unlock" && b.contains "ret") = true := by
  intro b hb
  unfold Generated.C09.refusalBranch at hb
  cases hb
  all_goals decide

/-- every access to the pending map in tss/coordinator.go happens with the coordinator's mutex held -/
theorem gen_no_unlocked_access : ∀ u, Generated.C09.unlockedAccesses = some u → u = [] := by
  intro u hu
  unfold Generated.C09.unlockedAccesses at hu
  cases hu
  all_goals decide

end Sygma.C09
