/-
  C09 — obligations about the REGENERATED admission facts (Generated/C09.lean, rewritten from tss/coordinator.go on
  every run): the model's atomic `yield → running | refused` step is justified only if the test and the set of
  `pendingProcesses` sit in ONE critical section of `processLock`, and no other access to the map is unlocked.
-/
import SygmaModel.Generated.C09
namespace Sygma.C09

/-- Execute's prologue is: hook, lock, test, set, unlock — test and set of the pending flag are ONE critical section
    (no unlock between them) and the replay hook sits immediately before it; the refusing branch reads the flag in its
    condition, releases the lock and returns -/
theorem gen_admission_atomic :
    Generated.C09.admission = ["yield", "lock", "test", "set", "unlock"] ∧
    "read" ∈ Generated.C09.refusalBranch ∧ "unlock" ∈ Generated.C09.refusalBranch ∧
    "ret" ∈ Generated.C09.refusalBranch := by decide

/-- every access to `pendingProcesses` in tss/coordinator.go happens with `processLock` held -/
theorem gen_no_unlocked_access : Generated.C09.unlockedAccesses = [] := by decide

end Sygma.C09
