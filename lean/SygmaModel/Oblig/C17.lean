/-
  C17 — obligations about the REGENERATED facts (Generated/C17.lean): lock balance of the BTC executor's two
  critical sections on every return path, and the status tests of the two `isExecuted` copies.
-/
import SygmaModel.Model.C17
import SygmaModel.Generated.C17
namespace Sygma.C17
open Sygma.C03 (Status)

/-- a critical section is balanced if the unlock is deferred right after the (single) lock, or no return path and
    not the end of the function is reached with the mutex held -/
def balanced (locks : Nat) (deferred : Bool) (returnsHeld : List Bool) (endHeld : Bool) : Bool :=
  locks == 1 && (deferred || (returnsHeld.all (! ·) && !endHeld))

/-- `proposalsForExecution` releases propMutex on every path — the model's `hstep true` (`unlockOnErr = true`) -/
theorem gen_forExec_balanced :
    balanced Generated.C17.forExecLocks Generated.C17.forExecDeferUnlock Generated.C17.forExecReturnsHeld
      Generated.C17.forExecEndHeld = true := by decide

/-- `storeProposalsStatus` releases propMutex on every path -/
theorem gen_storeStatus_balanced :
    balanced Generated.C17.storeStatusLocks Generated.C17.storeStatusDeferUnlock Generated.C17.storeStatusReturnsHeld
      Generated.C17.storeStatusEndHeld = true := by decide

/-- the as-found shape (lock, two early returns with the mutex held, unlock before the last return) is rejected -/
theorem asFound_unbalanced : balanced 1 false [true, true, false] false = false := by decide

def statusCode : Status → Nat
  | .missing => 0 | .pending => 1 | .failed => 2 | .executed => 3

/-- retry.go `isExecuted`: "executed" exactly for status executed; a record is rewritten exactly when pending, to
    failed (model: `isExecuted`) -/
theorem gen_retry_status (v : Status) :
    Generated.C17.retryExecuted (statusCode v) = decide (v = .executed) ∧
    Generated.C17.retryRelease (statusCode v) = decide (v = .pending) ∧
    Generated.C17.retryWrites = statusCode .failed := by
  cases v <;> decide

/-- the copy inside RetryV1EventHandler agrees -/
theorem gen_retryV1_status (v : Status) :
    Generated.C17.retryV1Executed (statusCode v) = decide (v = .executed) ∧
    Generated.C17.retryV1Release (statusCode v) = decide (v = .pending) ∧
    Generated.C17.retryV1Writes = statusCode .failed := by
  cases v <;> decide

end Sygma.C17
