/-
  C17 — obligations about the REGENERATED facts (Generated/C17.lean): lock balance of the BTC executor's two critical
  sections on every return path, and the status tests of the two `isExecuted` copies.

  Every fact is an `Option`: `none` = the translator could not locate the anchor in a shape it understands (obligation
  vacuous, bin/check prints `T-TIE-UNAVAILABLE`, the correspondence ops — hist / race / filter / retryv1 … — carry the
  clause alone). Located facts are compared semantically: the status tests as functions of the status (an `if` chain and
  a `switch` give the same function), the lock facts as a balance computation; anchors are found by shape.
-/
import SygmaModel.Model.C17
import SygmaModel.Generated.C17
namespace Sygma.C17
open Sygma.C03 (Status)

/-- a critical section is balanced if the unlock is deferred right after the (single) lock, or no return path and
    not the end of the function is reached with the mutex held -/
def balanced (t : Nat × Bool × List Bool × Bool) : Bool :=
  t.1 == 1 && (t.2.1 || (t.2.2.1.all (! ·) && !t.2.2.2))

/-- `proposalsForExecution` takes propMutex once around the whole check-and-mark loop and releases it on every path —
    the model's `hstep true` (`unlockOnErr = true`) -/
theorem gen_forExec_balanced : ∀ t, Generated.C17.forExecLock = some t → balanced t = true := by
  intro t ht
  unfold Generated.C17.forExecLock at ht
  cases ht
  all_goals decide

/-- `storeProposalsStatus` releases propMutex on every path -/
theorem gen_storeStatus_balanced : ∀ t, Generated.C17.storeStatusLock = some t → balanced t = true := by
  intro t ht
  unfold Generated.C17.storeStatusLock at ht
  cases ht
  all_goals decide

/-- the as-found shape (lock, two early returns with the mutex held, unlock before the last return) is rejected -/
theorem asFound_unbalanced : balanced (1, false, [true, true, false], false) = false := by decide

def statusCode : Status → Nat
  | .missing => 0 | .pending => 1 | .failed => 2 | .executed => 3

/-- retry.go `isExecuted`: "executed" exactly for status executed; a record is rewritten exactly when pending, to
    failed (model: `isExecuted`) -/
theorem gen_retry_status :
    ∀ t, Generated.C17.retryStatus = some t → ∀ v : Status,
      t.1 (statusCode v) = decide (v = .executed) ∧ t.2.1 (statusCode v) = decide (v = .pending) ∧
      t.2.2 = statusCode .failed := by
  intro t ht
  unfold Generated.C17.retryStatus at ht
  cases ht
  all_goals (intro v; cases v <;> decide)

/-- the copy inside RetryV1EventHandler agrees -/
theorem gen_retryV1_status :
    ∀ t, Generated.C17.retryV1Status = some t → ∀ v : Status,
      t.1 (statusCode v) = decide (v = .executed) ∧ t.2.1 (statusCode v) = decide (v = .pending) ∧
      t.2.2 = statusCode .failed := by
  intro t ht
  unfold Generated.C17.retryV1Status at ht
  cases ht
  all_goals (intro v; cases v <;> decide)

end Sygma.C17
