/-
  C05 — obligations about the start-block wiring of `app.Run`, RE-EXTRACTED from app/app.go and chains/btc/chain.go
  on every run (Generated/C05.lean). They state that each chain-type branch composes exactly the calls that the
  model's `startOf` (Model/C05.lean) and the harness (`wireChain`) compose:
    evm, substrate:  GetStartBlock → nil ⇒ boot head → CalculateStartingBlock → New…Chain(…, startBlock)
    btc:             GetStartBlock → NewBtcChain(…, startBlock); the chain stores it and PollEvents passes it on
  A branch that stops reading the store, stops aligning, or does not hand the result to the chain object fails here.
-/
import SygmaModel.Generated.C05
namespace Sygma.C05

theorem gen_wiring_evm : Generated.C05.evm = ⟨true, true, true, true, true⟩ := by decide
theorem gen_wiring_substrate : Generated.C05.substrate = ⟨true, true, true, true, true⟩ := by decide
theorem gen_wiring_btc : Generated.C05.btc = ⟨true, false, false, true, true⟩ := by decide
theorem gen_btc_chain : Generated.C05.btcChainStoresStart = true ∧ Generated.C05.btcPollPassesStart = true := by decide

end Sygma.C05
