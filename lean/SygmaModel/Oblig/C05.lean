/-
  C05 — obligations about the start-block wiring of `app.Run`, RE-EXTRACTED from app/app.go and chains/btc/chain.go
  on every run (Generated/C05.lean). They state that each chain-type branch composes exactly the calls that the
  model's `startOf` (Model/C05.lean) and the harness (`wireChain`) compose:
    evm, substrate:  GetStartBlock → nil ⇒ boot head → CalculateStartingBlock(·, BlockInterval) → New…Chain(…, start)
    btc:             GetStartBlock → NewBtcChain(…, start); the chain stores it and PollEvents passes it on
  The facts are located by shape (exported API names, not names of locals) and are `Option`s: `none` = the branch was
  not located (e.g. moved into a helper) — the obligation is vacuous, bin/check prints `T-TIE-UNAVAILABLE` and the
  behavioural ops (`life`/`lifereal` through the real chain objects, C19 `appboot` through the real app.Run) carry it.
  A branch that IS located and stops reading the store, stops aligning, or does not hand the result on fails here.
-/
import SygmaModel.Generated.C05
namespace Sygma.C05

theorem gen_wiring_evm : ∀ w, Generated.C05.evm = some w → w = ⟨true, true, true, true, true⟩ := by
  intro w hw; unfold Generated.C05.evm at hw; cases hw; all_goals decide
theorem gen_wiring_substrate : ∀ w, Generated.C05.substrate = some w → w = ⟨true, true, true, true, true⟩ := by
  intro w hw; unfold Generated.C05.substrate at hw; cases hw; all_goals decide
theorem gen_wiring_btc : ∀ w, Generated.C05.btc = some w → w = ⟨true, false, false, true, true⟩ := by
  intro w hw; unfold Generated.C05.btc at hw; cases hw; all_goals decide
theorem gen_btc_chain : ∀ p, Generated.C05.btcChain = some p → p = (true, true) := by
  intro p hp; unfold Generated.C05.btcChain at hp; cases hp; all_goals decide

end Sygma.C05
