/-
  C04 — obligations tying the guard expressions RE-EXTRACTED from the Go source on every run
  (Generated/C04.lean; six files of the repository plus the two sygma-core listeners at the pinned version)
  to the hand-written model.

  Every fact is an `Option`: `none` = the guard was not located in a shape the translator understands (a helper more
  than one level deep, a restructured loop …); the obligation is then vacuous, bin/check prints `T-TIE-UNAVAILABLE`
  and the correspondence ops (scan, the retry ops, seq, retrypair …) carry the property alone. A guard that IS located
  must satisfy its obligation, stated SEMANTICALLY as an `↔` with the model's decision and closed by `omega`: an
  equivalent re-spelling (operands swapped, `a − b < c` ⇄ `a < b + c`, `Cmp(..) == -1` ⇄ `< 0`, `!= 1` ⇄ `<= 0`, a
  local introduced or renamed, the test moved into a helper) still satisfies it, while `<` → `≤`, a dropped `conf`,
  a swapped operand do not.
-/
import SygmaModel.Model.C04
import SygmaModel.Generated.C04
namespace Sygma.C04
open Sygma.Generated.C04

theorem gen_btc_scan (head c conf k : Int) (nh : Nat) :
    ∀ f, btcScanSleep = some f → (f head c conf = true ↔ ready ⟨.btc, k, conf, nh⟩ head c = false) := by
  intro f hf; unfold btcScanSleep at hf; cases hf
  all_goals (simp [ready] <;> omega)

theorem gen_evm_scan (head c conf k : Int) (nh : Nat) :
    ∀ f, evmScanSleep = some f → (f head c k conf = true ↔ ready ⟨.evm, k, conf, nh⟩ head c = false) := by
  intro f hf; unfold evmScanSleep at hf; cases hf
  all_goals (simp [ready] <;> omega)

theorem gen_sub_scan (fin c conf k : Int) (nh : Nat) :
    ∀ f, subScanSleep = some f → (f fin c k = true ↔ ready ⟨.sub, k, conf, nh⟩ fin c = false) := by
  intro f hf; unfold subScanSleep at hf; cases hf
  all_goals (simp [ready] <;> omega)

theorem gen_evm_retry_tx (latest r conf : Int) :
    ∀ f, evmRetryTxReject = some f → (f latest r conf = true ↔ retryReady latest r conf = false) := by
  intro f hf; unfold evmRetryTxReject at hf; cases hf
  all_goals (simp [retryReady] <;> omega)

theorem gen_evm_retry_msg (latest h conf : Int) :
    ∀ f, evmRetryMsgReject = some f → (f latest h conf = true ↔ retryReady latest h conf = false) := by
  intro f hf; unfold evmRetryMsgReject at hf; cases hf
  all_goals (simp [retryReady] <;> omega)

theorem gen_btc_retry_msg (latest h conf : Int) :
    ∀ f, btcRetryMsgReject = some f → (f latest h conf = true ↔ retryReady latest h conf = false) := by
  intro f hf; unfold btcRetryMsgReject at hf; cases hf
  all_goals (simp [retryReady] <;> omega)

theorem gen_sub_retry_msg (fin h : Int) :
    ∀ f, subRetryMsgReject = some f → (f fin h = true ↔ subRetryMsgReady fin h = false) := by
  intro f hf; unfold subRetryMsgReject at hf; cases hf
  all_goals (simp [subRetryMsgReady] <;> omega)

theorem gen_sub_retry_event (fin h : Int) :
    ∀ f, subRetryEventSkip = some f → (f fin h = true ↔ subRetryEventReady fin h = false) := by
  intro f hf; unfold subRetryEventSkip at hf; cases hf
  all_goals (simp [subRetryEventReady] <;> omega)

end Sygma.C04
