/-
  C04 — obligations tying the guard expressions RE-EXTRACTED from the Go source on every run
  (Generated/C04.lean; six files of the repository plus the two sygma-core listeners at the pinned version)
  to the hand-written model. Stated as `iff`s and closed by `omega`, so algebraically equivalent rewrites of a
  guard (`a − b < c` ⇄ `a < b + c`) pass, while `<` → `≤`, a dropped `conf`, a swapped operand fail to check.
-/
import SygmaModel.Model.C04
import SygmaModel.Generated.C04
namespace Sygma.C04
open Sygma.Generated.C04

theorem gen_all_translated : allTranslated = true := by decide

theorem gen_btc_scan (head c conf k : Int) (nh : Nat) :
    btcScanSleep head c conf = true ↔ ready ⟨.btc, k, conf, nh⟩ head c = false := by
  simp [btcScanSleep, ready] <;> omega

theorem gen_evm_scan (head c conf k : Int) (nh : Nat) :
    evmScanSleep head c k conf = true ↔ ready ⟨.evm, k, conf, nh⟩ head c = false := by
  simp [evmScanSleep, ready] <;> omega

theorem gen_sub_scan (fin c conf k : Int) (nh : Nat) :
    subScanSleep fin c k = true ↔ ready ⟨.sub, k, conf, nh⟩ fin c = false := by
  simp [subScanSleep, ready] <;> omega

theorem gen_evm_retry_tx (latest r conf : Int) :
    evmRetryTxReject latest r conf = true ↔ retryReady latest r conf = false := by
  simp [evmRetryTxReject, retryReady] <;> omega

theorem gen_evm_retry_msg (latest h conf : Int) :
    evmRetryMsgReject latest h conf = true ↔ retryReady latest h conf = false := by
  simp [evmRetryMsgReject, retryReady] <;> omega

theorem gen_btc_retry_msg (latest h conf : Int) :
    btcRetryMsgReject latest h conf = true ↔ retryReady latest h conf = false := by
  simp [btcRetryMsgReject, retryReady] <;> omega

theorem gen_sub_retry_msg (fin h : Int) :
    subRetryMsgReject fin h = true ↔ subRetryMsgReady fin h = false := by
  simp [subRetryMsgReject, subRetryMsgReady] <;> omega

theorem gen_sub_retry_event (fin h : Int) :
    subRetryEventSkip fin h = true ↔ subRetryEventReady fin h = false := by
  simp [subRetryEventSkip, subRetryEventReady] <;> omega

end Sygma.C04
