/-
  C15 — obligations about the REGENERATED facts (Generated/C15.lean, rewritten from the Go source on every run).

  Every fact is an `Option`: `none` = the translator could not locate the anchor in the current source in a shape it
  understands (the obligation is then vacuous, bin/check prints `T-TIE-UNAVAILABLE`, and the correspondence ops — decode,
  convrange, handle, process, events — carry the property alone).  A fact that IS located must satisfy its obligation, and
  the obligations are semantic: renaming locals / the conversion helper / the receiver, swapping the operands of a
  comparison, `Cmp(..) == -1` vs `< 0`, one `||` test vs two early returns, a named constant for 1e8 … all still satisfy
  them; truncating instead of rounding, converting one use without rounding, another fee comparison, another multiplier,
  another ParseUint width do not.
-/
import SygmaModel.Model.C15
import SygmaModel.Generated.C15
namespace Sygma.C15

/-- every use of an output's float value goes through `int64(math.Round(v * 1e8))` — the conversion `conversion_exact` is about -/
theorem gen_conversion : ∀ c, Generated.C15.conversion = some c → 0 < c.1 ∧ c.2.1 = c.1 ∧ c.2.2 = 0 := by
  intro c hc
  unfold Generated.C15.conversion at hc
  cases hc
  all_goals decide

/-- "not a deposit" ⇔ the bridge address is not paid, or the fee sum is below the threshold: the model's
    `!s.bridge || s.fee < feeAmount`, however the source spells it -/
theorem gen_fee_test : ∀ f, Generated.C15.notDeposit = some f →
    ∀ (b : Bool) (fee thr : Int), f b fee thr = (!b || decide (fee < thr)) := by
  intro f hf
  unfold Generated.C15.notDeposit at hf
  cases hf
  all_goals (intro b fee thr; cases b <;> first | rfl | (simp <;> omega) | (rw [Bool.eq_iff_iff] <;> simp <;> omega))

theorem gen_types : ∀ t, Generated.C15.scriptTypes = some t → t = ("witness_v1_taproot", "nulldata") := by
  intro t ht
  unfold Generated.C15.scriptTypes at ht
  cases ht
  all_goals decide

/-- the multiplier is 10^10, the factor `handleDeposit` applies -/
theorem gen_scale : ∀ s, Generated.C15.scale = some s → s.1 ^ s.2 = 10 ^ 10 := by
  intro s hs
  unfold Generated.C15.scale at hs
  cases hs
  all_goals decide

/-- destination = `ParseUint(second field, 10, 8)`, fields separated by `_` (0x5f) -/
theorem gen_payload : ∀ p, Generated.C15.payload = some p → p = (1, "_", 10, 8) := by
  intro p hp
  unfold Generated.C15.payload at hp
  cases hp
  all_goals decide

end Sygma.C15
