/-
  C15 — obligations about the REGENERATED facts (Generated/C15.lean, rewritten from the Go source on every run).
  A source change that replaces the rounding conversion (or converts some output value without it), alters the
  "not a deposit" test, the script-type constants, the 10^10 multiplier, the destination parser's base/width or the
  payload separator makes one of these fail to check.
-/
import SygmaModel.Model.C15
import SygmaModel.Generated.C15
namespace Sygma.C15

/-- every use of an output's float value goes through `int64(math.Round(v * 1e8))` — the conversion `conversion_exact` is about -/
theorem gen_conversion : Generated.C15.convRoundsProduct = true ∧ Generated.C15.roundedUses = Generated.C15.valueUses ∧
    Generated.C15.valueUses = 2 := by decide

/-- not a deposit ⇔ the bridge address is not paid, or the fee sum compares below (`Cmp = -1`) the threshold: the model's
    `!s.bridge || s.fee < feeAmount` -/
theorem gen_fee_test :
    Generated.C15.notDepositCond = "!isBridgeDeposit || (feeAmount.Cmp(resource.FeeAmount) == -1)" := by decide

theorem gen_types : Generated.C15.taprootType = "witness_v1_taproot" ∧ Generated.C15.nulldataType = "nulldata" := by decide

/-- the multiplier is 10^10, the factor `handleDeposit` applies -/
theorem gen_scale : Generated.C15.scaleBase ^ Generated.C15.scaleExp = 10 ^ 10 := by decide

/-- destination = `ParseUint(second field, 10, 8)`, fields separated by `_` (0x5f) -/
theorem gen_payload : Generated.C15.parseUintArgs = ["parsedData[1]", "10", "8"] ∧ Generated.C15.separator = "_" := by decide

end Sygma.C15
