/-
  C08 — obligations about REGENERATED source facts (Generated/C08.lean is rewritten from the Go source on every run).
  They pin the places where one identifier decides an orchestration clause of the property and where a quick run
  cannot always exhibit the consequence (a wrong new threshold only shows when a refresh LOWERS it and the new committee
  then signs; a shared session id only shows with two or more inputs running real FROST rounds).
-/
import SygmaModel.Model.C08
import SygmaModel.Generated.C08
namespace Sygma.C08

/-- ecdsa `Resharing.Run` gives the library: old committee size and the OLD threshold of the start parameters, new
    committee size and the process's own NEW threshold — the four fields of the model's `reshareParams`, in this order -/
theorem gen_reshare_args :
    Generated.C08.reshareArgs.drop 4 =
      ["len(oldParties)", "startParams.OldThreshold", "len(newParties)", "r.newThreshold"] ∧
    Generated.C08.reshareArgs.take 3 = ["tss.S256()", "oldCtx", "newCtx"] := by decide

/-- the constructor's threshold is what `r.newThreshold` holds (ecdsa, frost) and, for frost, what the refreshed
    configuration handed to `RefreshTaproot` carries -/
theorem gen_ctor_threshold :
    "newThreshold: threshold" ∈ Generated.C08.ecdsaCtorThreshold ∧
    "newThreshold: threshold" ∈ Generated.C08.frostCtorThreshold ∧
    "key.Key.Threshold = threshold" ∈ Generated.C08.frostCtorThreshold ∧
    Generated.C08.frostRefreshConfig = ["r.key.Key"] := by decide

/-- `Signing.Run` ASSIGNS the coordinator flag exactly once, unconditionally (the model's `SigningObj.run`) -/
theorem gen_coordinator_assigned :
    Generated.C08.coordinatorAssignments = ["s.coordinator = coordinator", "any:s.coordinator = coordinator"] := by decide

/-- inside the per-input loop of the BTC executor the session id is re-declared as the hex of THAT input's signing
    hash, and `NewSigning` gets (input index, that hash, the resource's tweak, message id, that session id, …): the
    model's `btcSignings` -/
theorem gen_btc_sessions :
    "sessionID := hex.EncodeToString(signingHash)" ∈ Generated.C08.btcLoopDecls ∧
    Generated.C08.btcNewSigningArgs.take 5 = ["i", "signingHash", "resource.Tweak", "messageID", "sessionID"] := by decide

end Sygma.C08
