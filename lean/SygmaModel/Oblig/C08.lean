/-
  C08 — obligations about REGENERATED source facts (Generated/C08.lean is rewritten from the Go source on every run).
  They pin the places where one identifier decides an orchestration clause of the property and where a quick run
  cannot always exhibit the consequence.

  Every fact is an `Option`: `none` = the translator could not locate the anchor or does not understand its shape; the
  obligation is then vacuous, bin/check prints `T-TIE-UNAVAILABLE`, and the correspondence ops (reshareparams, resharerun,
  release2, btcsessions, the real signing runs) carry the clause alone. Facts are stated by ROLE — which value reaches
  which argument — not by the names of locals, receivers or unexported fields.
-/
import SygmaModel.Model.C08
import SygmaModel.Generated.C08
namespace Sygma.C08

/-- ecdsa `Resharing.Run` gives the library: the size of the old committee built from the announced old subset, the
    announced OLD threshold, the size of the new committee, and the process's own NEW threshold (the field its constructor
    filled) — the four fields of the model's `reshareParams`, in this order -/
theorem gen_reshare_roles : ∀ r, Generated.C08.reshareRoles = some r →
    r = ["old-count", "announced-old-threshold", "new-count", "own-new-threshold"] := by
  intro r hr
  unfold Generated.C08.reshareRoles at hr
  cases hr
  all_goals decide

/-- frost: the constructor's threshold is written into the key configuration and kept by the process, and `Run` refreshes
    with exactly that configuration -/
theorem gen_frost_threshold : ∀ l, Generated.C08.frostThreshold = some l →
    l = ["config-threshold-set", "stored-threshold-field-set", "refresh-uses-that-config"] := by
  intro l hl
  unfold Generated.C08.frostThreshold at hl
  cases hl
  all_goals decide

/-- `Signing.Run` ASSIGNS the coordinator flag exactly once, unconditionally (the model's `SigningObj.run`) -/
theorem gen_coordinator_assigned : ∀ s, Generated.C08.coordinatorFlag = some s → s = "assigned-unconditionally-once" := by
  intro s hs
  unfold Generated.C08.coordinatorFlag at hs
  cases hs
  all_goals decide

/-- inside the per-input loop of the BTC executor `NewSigning` gets THAT input's signature hash as message, the
    resource's tweak, and a session id declared in the loop as the hex of that hash: the model's `btcSignings` -/
theorem gen_btc_sessions : ∀ l, Generated.C08.btcSession = some l →
    l = ["msg=this-input's-signature-hash", "tweak=resource-tweak", "session=hex(msg),per-input"] := by
  intro l hl
  unfold Generated.C08.btcSession at hl
  cases hl
  all_goals decide

end Sygma.C08
