/-
  C07 — obligations pinning the REGENERATED decision expressions (Generated/C07.lean, rewritten from the Go source on
  every run) to the ones the hand-written model was transcribed from. These are source-text pins: a behaviour-preserving
  rewrite of one of these expressions also makes the obligation fail (reported as `no-failing-input-found`; the
  correspondence runs then carry the property alone), a behaviour-changing one additionally shows up there.
-/
import SygmaModel.Generated.C07
namespace Sygma.C07

/-- `Less`: descending by the big-endian uint64 prefix of Keccak256(Pretty ++ SessionID) (model: `sortDesc`, `electionKey`) -/
theorem gen_less : Generated.C07.lessReturn = "binary.BigEndian.Uint64(iHash) > binary.BigEndian.Uint64(jHash)" ∧
    Generated.C07.lessHashes =
      ["iHash=crypto.Keccak256(append([]byte(sps[i].ID.Pretty()), []byte(sps[i].SessionID)...))",
       "jHash=crypto.Keccak256(append([]byte(sps[j].ID.Pretty()), []byte(sps[j].SessionID)...))"] := by decide

/-- the three sender guards (model: `accepts`, `failFrom`) -/
theorem gen_sender_guards :
    Generated.C07.waitGuards = ["coordinator != \"\" && wMsg.From != coordinator", "coordinator != \"\" && startMsg.From != coordinator"] ∧
    Generated.C07.watchGuards = ["msg.From.Pretty() != coordinator.Pretty()"] := by decide

/-- admission of a ready message and the Ready test of both Signing types (model: `addReady`, `isReady`) -/
theorem gen_ready : Generated.C07.readyAdmission =
      ["!slices.Contains(excludedPeers, wMsg.From) && !slices.Contains(readyPeers, wMsg.From)"] ∧
    Generated.C07.readyTests = ["len(readyPeers) == s.key.Threshold+1", "len(readyPeers) == s.key.Threshold+1"] := by decide

end Sygma.C07
