/-
  C07 — obligations tying the REGENERATED decision expressions (Generated/C07.lean, rewritten from the Go source on
  every run) to the model. Every fact is an `Option`: `none` = the translator could not locate the anchor or does not
  understand its shape (T-TIE-UNAVAILABLE; the obligation is vacuous and the correspondence ops carry the property).
  A located fact must satisfy its obligation, which is stated SEMANTICALLY — as an equation / equivalence against the
  model's decision over the Boolean / natural-number variables the source test depends on — so that an equivalent
  re-spelling (operands swapped, De Morgan, renamed locals, Pretty() on both sides …) still satisfies it.
-/
import SygmaModel.Model.C07
import SygmaModel.Generated.C07
namespace Sygma.C07

/-- `Less` orders by the Keccak key, descending (model: `sortDesc`, `electionKey`) -/
theorem gen_less : ∀ b, Generated.C07.lessDescending = some b → b = true := by
  intro b hb
  unfold Generated.C07.lessDescending at hb
  cases hb
  all_goals rfl

/-- the initiate and the start case of waitForStart ignore a message exactly when a coordinator is known and the
    sender is not it (model: `accepts c f = (c = none ∨ f = c)`) -/
theorem gen_wait_guards : ∀ gs, Generated.C07.waitGuards = some gs →
    gs.length = 2 ∧ ∀ g ∈ gs, ∀ known same : Bool, g known same = (known && !same) := by
  intro gs h
  unfold Generated.C07.waitGuards at h
  cases h
  all_goals (refine ⟨rfl, ?_⟩; intro g hg known same; simp at hg; rcases hg with rfl | rfl <;> cases known <;> cases same <;> rfl)

/-- the fail case of watchExecution ignores a message exactly when the sender is not the coordinator it was given —
    also when it was given the empty id (model: `failFrom`) -/
theorem gen_watch_guard : ∀ g, Generated.C07.watchGuard = some g → ∀ known same : Bool, g known same = !same := by
  intro g h
  unfold Generated.C07.watchGuard at h
  cases h
  all_goals (intro known same; cases known <;> cases same <;> rfl)

/-- a ready sender is admitted exactly when it is neither excluded nor already in the ready set (model: `addReady`) -/
theorem gen_ready_admission : ∀ f, Generated.C07.readyAdmission = some f →
    ∀ excl present : Bool, f excl present = (!excl && !present) := by
  intro f h
  unfold Generated.C07.readyAdmission at h
  cases h
  all_goals (intro excl present; cases excl <;> cases present <;> rfl)

/-- `Ready` of both Signing types: exactly threshold+1 ready key holders (model: `isReady`) -/
theorem gen_ready_tests : ∀ fs, Generated.C07.readyTests = some fs →
    fs.length = 2 ∧ ∀ f ∈ fs, ∀ n t : Nat, (f n t = true ↔ n = t + 1) := by
  intro fs h
  unfold Generated.C07.readyTests at h
  cases h
  all_goals (refine ⟨rfl, ?_⟩; intro f hf n t; simp at hf; rcases hf with rfl | rfl <;> simp <;> omega)

end Sygma.C07
