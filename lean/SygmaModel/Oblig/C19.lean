/-
  C19 — obligations about facts RE-EXTRACTED from the source on every run (Generated/C19.lean). All facts are located
  by SHAPE and NORMALISED (harness/sygx/c19.go): an argument of an id-building `fmt.Sprintf` is recorded as what it IS —
  `p<i>` the i-th parameter of the exported method, `recv:<type>` a field of the receiver, `.<Field>` an exported field
  of some value, `local` a value computed locally, `hex(…)`, `sighash` — so renaming receivers / locals / unexported
  helpers or moving the statements into a same-file helper does not change them. Every fact is an `Option`: `none` =
  not located (obligation vacuous, bin/check prints `T-TIE-UNAVAILABLE`, the behavioural ops carry the clause).
    * the evm and substrate branches of app.Run align the start block with CalculateStartingBlock(·, BlockInterval)
      before handing it to the chain object (the premise of `runAll_aligned`), the btc branch hands it over as is;
    * message ids are built from: the handler's own domain, the deposit's destination, and the two range parameters of
      the exported method (BTC: source parameter, parsed destination, block parameter); RetryV2: the event's own source
      and destination;
    * the Bitcoin executor's transfer-wide session id is `<messageID parameter>-<hex resource id>`, the per-input id the
      hex of that input's sighash; the Substrate executor hands the first pending proposal's message id to NewSigning as
      message id AND session id;
    * the Bitcoin matching loop ranges over the slice handed to sort.Slice, not over the resources map.
-/
import SygmaModel.Generated.C19
namespace Sygma.C19
open Sygma.Generated.C19

theorem gen_wiring_aligns :
    (∀ w, evm = some w → w = ⟨true, true, true, true, true⟩) ∧ (∀ w, substrate = some w → w = ⟨true, true, true, true, true⟩) ∧
    (∀ w, btc = some w → w = ⟨true, false, false, true, true⟩) := by
  refine ⟨?_, ?_, ?_⟩ <;> intro w hw
  · unfold evm at hw; cases hw; all_goals decide
  · unfold substrate at hw; cases hw; all_goals decide
  · unfold btc at hw; cases hw; all_goals decide

theorem gen_msgid_formats :
    (∀ p, evmDepositFmt = some p → p = ("%d-%d-%d-%d", "recv:uint8,.DestinationDomainID,p0,p1")) ∧
    (∀ p, subDepositFmt = some p → p = ("%d-%d-%d-%d", "recv:uint8,.DestDomainID,p0,p1")) ∧
    (∀ p, btcDepositFmt = some p → p = ("%d-%d-%d", "p0,local,p5")) := by
  refine ⟨?_, ?_, ?_⟩ <;> intro p hp
  · unfold evmDepositFmt at hp; cases hp; all_goals decide
  · unfold subDepositFmt at hp; cases hp; all_goals decide
  · unfold btcDepositFmt at hp; cases hp; all_goals decide

theorem gen_retry_formats :
    (∀ p, evmRetryV1Fmt = some p → p = ("retry-%d-%d-%d-%d", "recv:uint8,.DestinationDomainID,p0,p1")) ∧
    (∀ p, evmRetryV2Fmt = some p → p = ("retry-%d-%d", ".SourceDomainID,.DestinationDomainID")) ∧
    (∀ p, subRetryFmt = some p → p = ("retry-%d-%d-%d-%d", "recv:uint8,.DestDomainID,p0,p1")) := by
  refine ⟨?_, ?_, ?_⟩ <;> intro p hp
  · unfold evmRetryV1Fmt at hp; cases hp; all_goals decide
  · unfold evmRetryV2Fmt at hp; cases hp; all_goals decide
  · unfold subRetryFmt at hp; cases hp; all_goals decide

/-- the transfer-wide Bitcoin session id is NOT observable behaviourally in the harness (it is only broadcast after a
    completed signing whose transaction cannot be sent): when this fact is unavailable nothing covers that id -/
theorem gen_executor_session_ids :
    (∀ p, btcTransferSession = some p → p = ("%s-%s", "p2,hex(.ResourceID)")) ∧
    (∀ s, btcInputSession = some s → s = "hex(sighash)") ∧
    (∀ s, subSessionArgs = some s → s = "[0].MessageID,[0].MessageID") := by
  refine ⟨?_, ?_, ?_⟩
  · intro p hp; unfold btcTransferSession at hp; cases hp; all_goals decide
  · intro s hs; unfold btcInputSession at hs; cases hs; all_goals decide
  · intro s hs; unfold subSessionArgs at hs; cases hs; all_goals decide

theorem gen_btc_sorted_matching : ∀ b, btcMatchLoopOverSortedSlice = some b → b = true := by
  intro b hb; unfold btcMatchLoopOverSortedSlice at hb; cases hb; all_goals decide

end Sygma.C19
