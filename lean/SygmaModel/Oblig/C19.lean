/-
  C19 — obligations about facts RE-EXTRACTED from the source on every run (Generated/C19.lean):
    * the evm and substrate branches of app.Run align the start block with CalculateStartingBlock before handing it
      to the chain object (the premise of `runAll_aligned`: `startOf` aligns), the btc branch hands it over as is;
    * the message-id format strings and their arguments (ids are functions of source, destination and the range);
    * the Bitcoin matching loop ranges over a slice sorted with sort.Slice, not over the resources map.
-/
import SygmaModel.Generated.C19
namespace Sygma.C19

theorem gen_wiring_aligns :
    Generated.C19.evm = ⟨true, true, true, true, true⟩ ∧ Generated.C19.substrate = ⟨true, true, true, true, true⟩ ∧
    Generated.C19.btc = ⟨true, false, false, true, true⟩ := by decide

theorem gen_msgid_formats :
    Generated.C19.evmDepositFmt = ("%d-%d-%d-%d", "eh.domainID,d.DestinationDomainID,startBlock,endBlock") ∧
    Generated.C19.subDepositFmt = ("%d-%d-%d-%d", "eh.domainID,d.DestDomainID,startBlock,endBlock") ∧
    Generated.C19.btcDepositFmt = ("%d-%d-%d", "sourceID,destDomainID,blockNumber") := by decide

theorem gen_btc_sorted_matching : Generated.C19.btcMatchLoopOverSortedSlice = true := by decide

end Sygma.C19
