/-
  C19 — obligations about facts RE-EXTRACTED from the source on every run (Generated/C19.lean):
    * the evm and substrate branches of app.Run align the start block with CalculateStartingBlock before handing it
      to the chain object (the premise of `runAll_aligned`: `startOf` aligns), the btc branch hands it over as is;
    * the message-id format strings and their arguments (ids are functions of source, destination and the range);
    * the Bitcoin matching loop ranges over a slice sorted with sort.Slice, not over the resources map.
-/
import SygmaModel.Generated.C19
namespace Sygma.C19

theorem gen_wiring_aligns :
    Generated.C19.evm = ⟨true, true, true, true, true⟩ ∧ Generated.C19.substrate = ⟨true, true, true, true, true⟩ ∧
    Generated.C19.btc = ⟨true, false, false, true, true⟩ := by decide

theorem gen_msgid_formats :
    Generated.C19.evmDepositFmt = ("%d-%d-%d-%d", "eh.domainID,d.DestinationDomainID,startBlock,endBlock") ∧
    Generated.C19.subDepositFmt = ("%d-%d-%d-%d", "eh.domainID,d.DestDomainID,startBlock,endBlock") ∧
    Generated.C19.btcDepositFmt = ("%d-%d-%d", "sourceID,destDomainID,blockNumber") := by decide

/-- the retry handlers' ids: the same arguments as the deposit ids under the constant prefix `retry-`; RetryV2: the
    event's own source and destination -/
theorem gen_retry_formats :
    Generated.C19.evmRetryV1Fmt = ("retry-%d-%d-%d-%d", "eh.domainID,d.DestinationDomainID,startBlock,endBlock") ∧
    Generated.C19.evmRetryV2Fmt = ("retry-%d-%d", "e.SourceDomainID,e.DestinationDomainID") ∧
    Generated.C19.subRetryFmt = ("retry-%d-%d-%d-%d", "rh.domainID,d.DestDomainID,startBlock,endBlock") := by decide

/-- Bitcoin executor: the transfer-wide session id is `<messageID>-<hex resource id>` (this one is NOT observable
    behaviourally in the harness: it is only broadcast after a completed signing whose transaction cannot be sent), the
    per-input session id is the hex of the input's sighash; Substrate executor: message id and session id handed to
    NewSigning are both the message id of the first pending proposal -/
theorem gen_executor_session_ids :
    Generated.C19.btcSessionAssignments =
      ["fmt.Sprintf(\"%s-%s\", messageID, hex.EncodeToString(resource.ResourceID[:]))", "hex.EncodeToString(signingHash)"] ∧
    Generated.C19.subSessionArgs = ["transferProposals[0].MessageID", "messageID", "messageID"] := by decide

theorem gen_btc_sorted_matching : Generated.C19.btcMatchLoopOverSortedSlice = true := by decide

end Sygma.C19
