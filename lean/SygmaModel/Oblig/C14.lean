/-
  C14 — obligations tying the REGENERATED facts (Generated/C14.lean, rewritten from the Go source on every run)
  to the hand-written model. A source change that alters the roll-over test, the statement order or the session
  id construction makes one of these fail to check.
-/
import SygmaModel.Model.C14
import SygmaModel.Generated.C14
namespace Sygma.C14

/-- the source's roll-over test is the model's (`packStep`), as long as the uint64 sum does not wrap -/
theorem gen_rollover (ms : List (Nat × Nat)) (gas g cap : Nat) (h : gas + g < M) :
    Generated.C14.rollover ms.length gas g cap = true ↔ (ms ≠ [] ∧ cap ≤ (gas + g) % M) := by
  rw [Nat.mod_eq_of_lt h]
  -- written to survive an equivalent re-spelling of the source test (operands swapped, `0 < n`, `cap <= sum` …)
  cases ms <;> simp [Generated.C14.rollover] <;> omega

/-- the gas is added *after* the roll-over decision and before the proposal is appended -/
theorem gen_order : Generated.C14.order = ["rollover", "gas-add", "append"] := by decide

/-- session id = message id, '-', decimal batch index; the index is copied per iteration -/
theorem gen_session : Generated.C14.sessionFmt = "%s-%d" ∧ Generated.C14.sessionIndexCopied = true := by decide

end Sygma.C14
