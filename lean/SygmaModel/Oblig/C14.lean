/-
  C14 — obligations tying the REGENERATED facts (Generated/C14.lean, rewritten from the Go source on every run)
  to the hand-written model. A source change that alters the roll-over test, the statement order or the session
  id construction makes one of these fail to check.

  Every fact is an `Option`: `none` means the translator could not locate the anchor in the current source (a helper was
  extracted, the loop restructured beyond the shapes it understands); the obligation is then vacuous, bin/check prints
  `T-TIE-UNAVAILABLE` and the correspondence ops (batches / submit / exec / sigsession …) carry the property alone.
  A fact that IS located must satisfy its obligation, which is stated semantically: an equivalent re-spelling of the
  source test (operands swapped, De Morgan, `0 < n` for `n > 0`, `cap <= sum` …) still satisfies it.
-/
import SygmaModel.Model.C14
import SygmaModel.Generated.C14
namespace Sygma.C14

/-- the source's roll-over test is the model's (`packStep`), as long as the uint64 sum does not wrap -/
theorem gen_rollover (ms : List (Nat × Nat)) (gas g cap : Nat) (h : gas + g < M) :
    ∀ f, Generated.C14.rollover = some f → (f ms.length gas g cap = true ↔ (ms ≠ [] ∧ cap ≤ (gas + g) % M)) := by
  intro f hf
  unfold Generated.C14.rollover at hf
  cases hf
  all_goals (rw [Nat.mod_eq_of_lt h]; cases ms <;> simp <;> omega)

/-- the gas is added *after* the roll-over decision and before the proposal is appended -/
theorem gen_order : ∀ o, Generated.C14.order = some o → o = ["rollover", "gas-add", "append"] := by
  intro o ho
  unfold Generated.C14.order at ho
  cases ho
  all_goals decide

/-- session id = message id, '-', decimal batch index; the index is a per-iteration value -/
theorem gen_session : ∀ s, Generated.C14.session = some s → s = ("%s-%d", true) := by
  intro s hs
  unfold Generated.C14.session at hs
  cases hs
  all_goals decide

end Sygma.C14
