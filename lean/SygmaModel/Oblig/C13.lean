/-
  C13 — obligations about the REGENERATED facts (Generated/C13.lean is rewritten from the Go source on every run).
  They pin the syntactic facts the model's shape relies on and that a behavioural run cannot cheaply reveal.
-/
import SygmaModel.Model.C13
import SygmaModel.Generated.C13
namespace Sygma.C13
open Sygma.Generated

/-- `From` is never populated by `encoding/json` (the model's `Wire` has no sender field) -/
theorem gen_from_tag : C13.fromTag = "json:\"-\"" := by decide

/-- the remote peer is the connection's; `From` is overwritten with it after unmarshalling and before the subscribers of
    the message are looked up (`attributeMsg` = decode, then set sender) -/
theorem gen_process_steps :
    C13.processSteps = ["remote:s.Conn().RemotePeer()", "unmarshal", "from:remotePeerID", "subscribers"] := by decide

/-- the hooks: the two that see the peer ask the topology, the other three admit (`gate`) -/
theorem gen_gater :
    C13.gaterReturns = ["InterceptPeerDial: cg.topology.IsAllowedPeer(p)", "InterceptSecured: cg.topology.IsAllowedPeer(p)",
      "InterceptAddrDial: true", "InterceptAccept: true", "InterceptUpgraded: true, 0"] ∧
    C13.isAllowedPeer = "{ for _, p := range nt.Peers { if p.ID == peer { return true } } return false }" := by decide

/-- `NetworkTopology`: the hash is compared BEFORE anything is decrypted or parsed (`provider`) -/
theorem gen_provider_steps :
    C13.providerSteps = ["fetch", "read", "trim", "hexdecode", "sha256", "hexencode", "compare", "decrypt", "unmarshal", "process"] := by
  decide

/-- `HandleEvents`: last event's hash, empty hash refused, provider → store → gate → peerstore (`refresh`) -/
theorem gen_refresh_steps :
    C13.refreshSteps = ["events", "hash:refreshEvents[len(refreshEvents)-1].Hash", "empty-check", "provider", "store", "gate",
      "peers", "resharing"] := by decide

end Sygma.C13
