/-
  C13 — obligations about the REGENERATED facts (Generated/C13.lean is rewritten from the Go source on every run).

  Every fact is an `Option`. `none` = the extractor could not locate the anchor in a shape it understands (helper
  extracted, statements restructured): the obligation is vacuous, bin/check prints `T-TIE-UNAVAILABLE`, and the
  correspondence ops (gate / attr / refresh / refreshseq / refresh2 / conn) carry the clause alone. A located fact must
  satisfy its obligation. The facts are relations between statements found by SHAPE (exported API names, statement forms,
  identifiers related to each other), not the text of expressions: renaming locals / receivers, rewording logs and errors,
  `== ""` vs `len(..) == 0`, an intermediate variable for the last event … leave them unchanged.
-/
import SygmaModel.Model.C13
import SygmaModel.Generated.C13
namespace Sygma.C13

/-- `From` is never populated by `encoding/json` (the model's `Wire` has no sender field) -/
theorem gen_from_tag : ∀ s, Generated.C13.fromTag = some s → s = "-" := by
  intro s hs; unfold Generated.C13.fromTag at hs; cases hs; all_goals decide

/-- `From` is overwritten with the connection's `RemotePeer()` after unmarshalling and before the subscribers of the
    message are looked up (`attributeMsg` = decode, then set sender) -/
theorem gen_process_steps : ∀ s, Generated.C13.processSteps = some s → s = ["unmarshal", "from:=remote", "subscribers"] := by
  intro s hs; unfold Generated.C13.processSteps at hs; cases hs; all_goals decide

/-- how the model's `gate` decides for the hook with that Go name: by membership of the peer, or always true -/
def hookKind (name : String) : Option String :=
  let h? : Option Hook := match name with
    | "InterceptPeerDial" => some .peerDial | "InterceptSecured" => some .securedIn
    | "InterceptAddrDial" => some .addrDial | "InterceptAccept" => some .accept | "InterceptUpgraded" => some .upgraded
    | _ => none
  h?.map fun h => if gate ⟨[], 1⟩ h 0 then "true" else "member"   -- the empty topology separates the two kinds

/-- each hook decides as the model's `gate` does (and `InterceptSecured` does so for both directions in the model) -/
theorem gen_gater : ∀ g, Generated.C13.gater = some g →
    g.length = 5 ∧ (∀ x ∈ g, hookKind x.1 = some x.2) ∧
    gate ⟨[], 1⟩ .securedOut 0 = gate ⟨[], 1⟩ .securedIn 0 := by
  intro g hg; unfold Generated.C13.gater at hg; cases hg; all_goals decide

/-- `NetworkTopology`: the ciphertext is compared with the announced hash BEFORE anything is decrypted or parsed -/
theorem gen_provider_steps : ∀ s, Generated.C13.providerSteps = some s →
    s = ["hexdecode", "compare", "decrypt", "unmarshal"] := by
  intro s hs; unfold Generated.C13.providerSteps at hs; cases hs; all_goals decide

/-- `HandleEvents`: the LAST event's hash, empty hash refused, provider → store → gate → peerstore (`refresh`, `writesOf`) -/
theorem gen_refresh_steps : ∀ s, Generated.C13.refreshSteps = some s →
    s = ("last", ["events", "empty-check", "provider", "store", "gate", "peers"]) := by
  intro s hs; unfold Generated.C13.refreshSteps at hs; cases hs; all_goals decide

end Sygma.C13
