/-
  C01 — obligations about constants REGENERATED from the Go source on every run (Generated/C01.lean).
-/
import SygmaModel.Model.C01
import SygmaModel.Generated.C01
namespace Sygma.C01

/-- the model's revert-gas allowance is the source's `OPTIONAL_REVERT_GAS`, and it is the documented 100000 -/
theorem gen_revert_gas : Generated.C01.optionalRevertGas = some optionalRevertGas ∧ optionalRevertGas = 100000 := by decide

/-- minimum calldata lengths used by the model (`erc20Deposit`, `erc721Deposit`, `genericDeposit`, `subDeposit`) -/
theorem gen_min_calldata : Generated.C01.minCalldata =
    [("erc20", some 84), ("erc721", some 64), ("generic", some 76), ("substrate", some 84)] := by decide

/-- both Bitcoin handlers scale by 10^10 -/
theorem gen_btc_scale : Generated.C01.btcListenerScale = some (10, 10) ∧ Generated.C01.btcExecutorScale = some (10, 10) := by
  decide

end Sygma.C01
