/-
  C01 — obligations about constants REGENERATED from the Go source on every run (Generated/C01.lean). Each is `some …` when its
  anchor was located by shape, `none` when it is out of the extractor's reach (then vacuous; bin/check prints T-TIE-UNAVAILABLE).
-/
import SygmaModel.Model.C01
import SygmaModel.Generated.C01
namespace Sygma.C01

/-- a located fact equals the value the model uses -/
def Agrees {α : Type} [DecidableEq α] (f : Option α) (v : α) : Prop := ∀ x, f = some x → x = v

instance {α : Type} [DecidableEq α] (f : Option α) (v : α) : Decidable (Agrees f v) := by
  unfold Agrees
  cases f with
  | none => exact isTrue (by intro x h; cases h)
  | some y => exact decidable_of_iff (y = v) ⟨fun h x hx => by cases hx; exact h, fun h => h y rfl⟩

/-- the allowance added to the optional message's fee word is the model's, and that is the documented 100000 -/
theorem gen_revert_gas : Agrees Generated.C01.optionalRevertGas optionalRevertGas ∧ optionalRevertGas = 100000 := by decide

/-- minimum calldata lengths used by the model (`erc20Deposit`, `erc721Deposit`, `genericDeposit`, `subDeposit`) -/
theorem gen_min_calldata :
    Agrees Generated.C01.minErc20 84 ∧ Agrees Generated.C01.minErc721 64 ∧ Agrees Generated.C01.minGeneric 76 ∧
    Agrees Generated.C01.minSubstrate 84 := by decide

/-- both Bitcoin handlers scale by 10^10 (whatever base and exponent spell it) -/
theorem gen_btc_scale :
    (∀ p, Generated.C01.btcListenerScale = some p → p.1 ^ p.2 = 10 ^ 10) ∧
    (∀ p, Generated.C01.btcExecutorScale = some p → p.1 ^ p.2 = 10 ^ 10) := by
  constructor <;> intro p h
  · have : Generated.C01.btcListenerScale.all (fun p => decide (p.1 ^ p.2 = 10 ^ 10)) = true := by decide
    rw [h] at this; simpa using this
  · have : Generated.C01.btcExecutorScale.all (fun p => decide (p.1 ^ p.2 = 10 ^ 10)) = true := by decide
    rw [h] at this; simpa using this

end Sygma.C01
