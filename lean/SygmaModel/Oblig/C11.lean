/-
  C11 — obligations tying the REGENERATED facts (Generated/C11.lean, rewritten from the Go source on every run) to the
  model. Every fact is an `Option`: `none` = the translator could not locate the anchor or does not understand its shape
  (T-TIE-UNAVAILABLE: the obligation is vacuous, the correspondence ops carry the property). A located fact must satisfy
  its obligation. The facts are found by shape — names of locals, receivers, parameters and import aliases are free;
  the Retryable guard is accepted in either of its two equivalent forms, the election may sit one helper call away.
-/
import SygmaModel.Model.C11
import SygmaModel.Generated.C11
namespace Sygma.C11

/-- handleError looks the cause up with errors.As, in the order the model's `classify` uses -/
theorem gen_classify_cases : ∀ cs, Generated.C11.classifyCases = some cs →
    cs = ["As:CoordinatorError", "As:CommunicationError", "As:Error", "As:SubsetError"] := by
  intro cs h
  unfold Generated.C11.classifyCases at h
  cases h
  all_goals decide

/-- retry() elects among ExcludePeers(ValidCoordinators(), excluded) and starts with the same excluded list -/
theorem gen_retry_excludes : ∀ b, Generated.C11.retryExcludes = some b → b = true := by
  intro b h
  unfold Generated.C11.retryExcludes at h
  cases h
  all_goals rfl

/-- Execute reaches handleError only for a process that is Retryable() -/
theorem gen_retryable_guard : ∀ b, Generated.C11.retryableGuard = some b → b = true := by
  intro b h
  unfold Generated.C11.retryableGuard at h
  cases h
  all_goals rfl

/-- conc aggregates task errors with errors.Join under the installed toolchain (the model's `wrap` / `pair`) -/
theorem gen_conc_join : ∀ j, Generated.C11.concJoin = some j → j = "errors.Join" := by
  intro j h
  unfold Generated.C11.concJoin at h
  cases h
  all_goals decide

/-- `Retryable()` of the six process kinds, as the model's `retryableOf` has it: only the two signings are retryable -/
theorem gen_retryable : ∀ r, Generated.C11.retryable = some r →
    r = ["ecdsa/keygen=false", "ecdsa/signing=true", "ecdsa/resharing=false",
         "frost/keygen=false", "frost/signing=true", "frost/resharing=false"] ∧
    (retryableOf .ecdsaKeygen, retryableOf .ecdsaSigning, retryableOf .ecdsaResharing,
     retryableOf .frostKeygen, retryableOf .frostSigning, retryableOf .frostResharing) =
      (false, true, false, false, true, false) := by
  intro r h
  unfold Generated.C11.retryable at h
  cases h
  all_goals decide

end Sygma.C11
