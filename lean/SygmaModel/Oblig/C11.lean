/-
  C11 — obligations tying the REGENERATED facts (Generated/C11.lean, rewritten from the Go source on every run) to the
  hand-written model. A source change that classifies differently (type switch on the outermost error, another case
  order, a dropped case), stops excluding the culprits in retry(), drops the Retryable() guard, or a toolchain / conc
  version whose pools aggregate differently makes one of these fail to check.
-/
import SygmaModel.Model.C11
import SygmaModel.Generated.C11
namespace Sygma.C11

/-- handleError looks the cause up with errors.As, in the order the model's `classify` uses -/
theorem gen_classify_cases : Generated.C11.classifyCases =
    ["As:CoordinatorError", "As:comm.CommunicationError", "As:tss.Error", "As:SubsetError"] := by decide

/-- retry() elects among ExcludePeers(ValidCoordinators(), excluded) and starts with the same excluded list -/
theorem gen_retry_excludes : Generated.C11.retryExcludes = true := by decide

/-- Execute returns the error of a non-retryable process before handleError is reached -/
theorem gen_retryable_guard : Generated.C11.retryableGuard = true := by decide

/-- conc aggregates task errors with errors.Join under the installed toolchain (the model's `wrap` / `pair`) -/
theorem gen_conc_join : Generated.C11.concJoin = "errors.Join" := by decide

/-- `Retryable()` of the six process kinds, as the model's `retryableOf` has it: only the two signings are retryable -/
theorem gen_retryable : Generated.C11.retryable =
    ["ecdsa/keygen=false", "ecdsa/signing=true", "ecdsa/resharing=false",
     "frost/keygen=false", "frost/signing=true", "frost/resharing=false"] ∧
    (retryableOf .ecdsaKeygen, retryableOf .ecdsaSigning, retryableOf .ecdsaResharing,
     retryableOf .frostKeygen, retryableOf .frostSigning, retryableOf .frostResharing) =
      (false, true, false, false, true, false) := by decide

end Sygma.C11
