/-
  C03 — obligations tying the REGENERATED facts (Generated/C03.lean, rewritten from the Go source on every run) to the
  hand-written model.

  Every fact is an `Option`: `none` means the translator could not locate the anchor in the current source in a shape it
  understands (a helper was extracted, a loop restructured, …); the obligation is then vacuous, bin/check prints
  `T-TIE-UNAVAILABLE` and the correspondence ops (sub / evm / btc / hist / tick / watch / sigwatch / submit …) carry the
  clause alone. A fact that IS located must satisfy its obligation, which is stated semantically: the extractor locates
  anchors by shape (not by the names of locals, receivers or unexported helpers) and normalises equivalent spellings
  (`if x { continue }; append` and `if !x { append }`; `if` chain and `switch`; range and indexed loop; operand order),
  and the translated decisions are compared with the model's as functions, not as text.
-/
import SygmaModel.Model.C03
import SygmaModel.Generated.C03
namespace Sygma.C03

def statusCode : Status → Nat
  | .missing => 0 | .pending => 1 | .failed => 2 | .executed => 3

/-- Substrate: lookup, error return, skip-if-executed, and only then the collection into the signed slice
    (model: `subLoop`) -/
theorem gen_sub_filter :
    ∀ o, Generated.C03.subFilter = some o → o = ["lookup", "err-return", "skip-executed", "append"] := by
  intro o ho
  unfold Generated.C03.subFilter at ho
  cases ho
  all_goals decide

/-- Substrate: "nothing to sign" is decided on the COLLECTED slice being empty (model: `sub`, case `some []`),
    whatever other slices look like -/
theorem gen_sub_empty_test :
    ∀ f, Generated.C03.subEmptyTest = some f → ∀ n other, (f n other = true ↔ n = 0) := by
  intro f hf
  unfold Generated.C03.subEmptyTest at hf
  cases hf
  all_goals (intro n other; first | (simp; done) | (simp; omega) | omega)

/-- EVM: same order in the batching function (model: `evm` = filter, then `C14.pack`) -/
theorem gen_evm_filter :
    ∀ o, Generated.C03.evmFilter = some o → o = ["lookup", "err-return", "skip-executed", "append"] := by
  intro o ho
  unfold Generated.C03.evmFilter at ho
  cases ho
  all_goals decide

/-- EVM / Substrate `Execute`: the proposals handed to hashing (signed) are those of the batch handed to the watch
    loop (submitted) (model: `submitted`) -/
theorem gen_signed_is_submitted_evm : ∀ b, Generated.C03.evmSignedIsSubmitted = some b → b = true := by
  intro b hb; unfold Generated.C03.evmSignedIsSubmitted at hb; cases hb; all_goals rfl

theorem gen_signed_is_submitted_sub : ∀ b, Generated.C03.subSignedIsSubmitted = some b → b = true := by
  intro b hb; unfold Generated.C03.subSignedIsSubmitted at hb; cases hb; all_goals rfl

/-- the periodic executed-check sweeps the WHOLE slice it is given, a member that errs or is not executed answers
    "not yet" (model: `allExecuted`), and the watch loop hands it the session's whole batch -/
theorem gen_tick_evm :
    (∀ b, Generated.C03.evmTickWhole = some b → b = true) ∧
    (∀ f, Generated.C03.evmTickMember = some f → ∀ e x, f e x = (e || !x)) ∧
    (∀ b, Generated.C03.evmTickArg = some b → b = true) := by
  refine ⟨?_, ?_, ?_⟩
  · intro b hb; unfold Generated.C03.evmTickWhole at hb; cases hb; all_goals rfl
  · intro f hf; unfold Generated.C03.evmTickMember at hf; cases hf
    all_goals (intro e x; cases e <;> cases x <;> rfl)
  · intro b hb; unfold Generated.C03.evmTickArg at hb; cases hb; all_goals rfl

theorem gen_tick_sub :
    (∀ b, Generated.C03.subTickWhole = some b → b = true) ∧
    (∀ f, Generated.C03.subTickMember = some f → ∀ e x, f e x = (e || !x)) ∧
    (∀ b, Generated.C03.subTickArg = some b → b = true) := by
  refine ⟨?_, ?_, ?_⟩
  · intro b hb; unfold Generated.C03.subTickWhole at hb; cases hb; all_goals rfl
  · intro f hf; unfold Generated.C03.subTickMember at hf; cases hf
    all_goals (intro e x; cases e <;> cases x <;> rfl)
  · intro b hb; unfold Generated.C03.subTickArg at hb; cases hb; all_goals rfl

/-- BTC: the source's executable-status decision is the model's `canExec` -/
theorem gen_btc_canExec :
    ∀ f, Generated.C03.btcCanExec = some f → ∀ v : Status, f (statusCode v) = canExec v := by
  intro f hf
  unfold Generated.C03.btcCanExec at hf
  cases hf
  all_goals (intro v; cases v <;> decide)

end Sygma.C03
