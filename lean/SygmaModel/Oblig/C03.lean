/-
  C03 — obligations tying the REGENERATED facts (Generated/C03.lean, rewritten from the Go source on every run) to the
  hand-written model. A source change that moves the collection in front of the executed test, drops the error
  return, tests the wrong slice for emptiness or alters the executable-status predicate makes one of these fail.
-/
import SygmaModel.Model.C03
import SygmaModel.Generated.C03
namespace Sygma.C03

def statusCode : Status → Nat
  | .missing => 0 | .pending => 1 | .failed => 2 | .executed => 3

/-- Substrate: lookup, error return, skip-if-executed, and only then the collection into the signed slice
    (model: `subLoop`) -/
theorem gen_sub_order :
    Generated.C03.subOrder = ["lookup", "err-return", "skip-executed", "append:transferProposals"] := by decide

/-- Substrate: "nothing to sign" is decided on the collected slice (model: `sub`, case `some []`) -/
theorem gen_sub_empty_test : Generated.C03.subEmptyTest = "len(transferProposals) == 0" := by decide

/-- EVM: same order in `proposalBatches` (model: `evm` = filter, then `C14.pack`) -/
theorem gen_evm_order :
    Generated.C03.evmOrder = ["lookup", "err-return", "skip-executed", "append:currentBatch.proposals"] := by decide

/-- EVM / Substrate `Execute`: the proposals handed to hashing (signed) and to watchExecution (submitted) are the
    same variable (model: `submitted`) -/
theorem gen_signed_is_submitted :
    Generated.C03.evmHashArg = Generated.C03.evmWatchArg ++ ".proposals" ∧ Generated.C03.evmWatchArg ≠ "" ∧
    Generated.C03.subHashArg = Generated.C03.subWatchArg ∧ Generated.C03.subWatchArg ≠ "" := by decide

/-- the periodic executed-check sweeps the WHOLE slice it is given, a member that errs or is not executed answers
    "not yet", and the watch loop hands it the session's whole batch (model: `allExecuted` over every member) -/
theorem gen_tick_whole_batch :
    Generated.C03.evmTickRange = "proposals" ∧ Generated.C03.subTickRange = "proposals" ∧
    Generated.C03.evmTickMemberTest = "err != nil || !isExecuted => { return false }" ∧
    Generated.C03.subTickMemberTest = "err != nil || !isExecuted => { return false }" ∧
    Generated.C03.evmTickArg = "batch.proposals" ∧ Generated.C03.subTickArg = "proposals" := by decide

/-- BTC: the source's executable-status predicate is the model's `canExec` -/
theorem gen_btc_canExec (v : Status) : Generated.C03.btcCanExec (statusCode v) = canExec v := by
  cases v <;> decide

end Sygma.C03
