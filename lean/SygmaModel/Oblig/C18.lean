/-
  C18 — obligations tying the REGENERATED call sequences (Generated/C18.lean, rewritten from the Go source on every
  run) to the hand-written model. Behaviour cannot reveal a dropped `Sync`, a `Close` moved behind the `Rename`, a temp
  file created in another directory (rename no longer atomic across file systems) or a second, direct write to the
  target; these obligations do.
-/
import SygmaModel.Model.C18
import SygmaModel.Generated.C18
namespace Sygma.C18

/-- the success path of `util.WriteFileAtomic` is, call for call, the model's `storeAtomic` -/
theorem gen_main : Generated.C18.atomicMain = (storeAtomic "p" "t" []).main.map Op.name := by decide

/-- its deferred error handler is the model's clean-up (after a successful CreateTemp) -/
theorem gen_cleanup : Generated.C18.atomicCleanup = ((storeAtomic "p" "t" []).cleanup 1).map Op.name ∧
    Generated.C18.deferAfterCreate = true := by decide

/-- the temp file lives next to the target, the rename goes onto the target, the handler removes the temp file -/
theorem gen_paths : Generated.C18.tempInSameDir = true ∧ Generated.C18.renameOntoPath = true ∧
    Generated.C18.removesTemp = true := by decide

/-- each of the three Store functions marshals first and then does nothing to the file system except one
    `WriteFileAtomic` on its own path (no `OpenFile(O_TRUNC)`, no direct write) -/
theorem gen_stores : Generated.C18.storeCalls =
    List.replicate 3 ["json.Marshal", "util.WriteFileAtomic", "path-ok"] := by decide

/-- `LockKeyshare` / `UnlockKeyshare` of both key-share stores do nothing but take / release the mutex: no file-system
    call hides in the bracket every reader and writer puts around its access (model: `ObjOp.get` = Lock, Get, Unlock) -/
theorem gen_lock_bodies : Generated.C18.lockCalls =
    [["ks.mu.Lock"], ["ks.mu.Unlock"], ["ks.mu.Lock"], ["ks.mu.Unlock"]] := by decide

end Sygma.C18
