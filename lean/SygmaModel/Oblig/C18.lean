/-
  C18 — obligations tying the REGENERATED facts (Generated/C18.lean, rewritten from the Go source on every run) to the
  hand-written model. Behaviour cannot reveal a dropped `Sync`, a `Close` moved behind the `Rename`, a temp file created
  in another directory (rename no longer atomic across file systems) or a second, direct write to the target; these do.

  Every fact is an `Option`: `none` = the translator could not locate the anchor or does not understand its shape (the
  calls moved into helpers it does not follow, a method disappeared): the obligation is then vacuous, bin/check prints
  `T-TIE-UNAVAILABLE` and the correspondence ops carry the property alone. A fact that IS located must satisfy its
  obligation. The facts name calls by package function / method name and refer to parameters, receivers and the temp-file
  variable by ROLE, so renaming locals, receivers or the mutex field changes nothing.
-/
import SygmaModel.Model.C18
import SygmaModel.Generated.C18
namespace Sygma.C18

/-- the success path of `util.WriteFileAtomic` is, call for call, the model's `storeAtomic`, and its deferred error
    handler the model's clean-up (after a successful CreateTemp). Call NAMES in source order — not arguments or control flow. -/
theorem gen_calls : ∀ c, Generated.C18.atomicCalls = some c →
    c = ((storeAtomic "p" "t" []).main.map Op.name, ((storeAtomic "p" "t" []).cleanup 1).map Op.name) := by
  intro c hc
  unfold Generated.C18.atomicCalls at hc
  cases hc
  all_goals decide

/-- the temp file lives next to the target, the rename goes from the temp file onto the target, the handler removes the
    temp file and is registered right after the successful CreateTemp -/
theorem gen_paths : ∀ p, Generated.C18.atomicPaths = some p → p = (true, true, true, true) := by
  intro p hp
  unfold Generated.C18.atomicPaths at hp
  cases hp
  all_goals decide

/-- each of the three Store functions does nothing to the file system except one `WriteFileAtomic` on a path held by
    its own store object (no `OpenFile(O_TRUNC)`, no direct write, no second target) -/
theorem gen_stores : ∀ s, Generated.C18.storeFsCalls = some s →
    s = List.replicate 3 ["util.WriteFileAtomic", "own-path"] := by
  intro s hs
  unfold Generated.C18.storeFsCalls at hs
  cases hs
  all_goals decide

/-- `LockKeyshare` / `UnlockKeyshare` of both key-share stores do nothing but take / release a mutex held in a field of
    the store: no file-system call hides in the bracket every reader and writer puts around its access -/
theorem gen_lock_bodies : ∀ l, Generated.C18.lockCalls = some l →
    l = [["recv._.Lock"], ["recv._.Unlock"], ["recv._.Lock"], ["recv._.Unlock"]] := by
  intro l hl
  unfold Generated.C18.lockCalls at hl
  cases hl
  all_goals decide

end Sygma.C18
