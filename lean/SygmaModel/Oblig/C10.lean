/-
  C10 — obligations about the REGENERATED lock facts (Generated/C10.lean, rewritten from the six process sources, the
  event handlers and tss/coordinator.go on every run).

  Every fact is an `Option`: `none` = the translator could not locate the anchor, or found it in a shape it does not
  understand (lock call inside a closure / loop, Run without a visible Wait, handler body moved into a helper …); the
  obligation is then vacuous, bin/check prints T-TIE-UNAVAILABLE and the correspondence ops (cell / ctor / seq / full /
  handler) carry the property alone. A fact that IS located must satisfy its obligation, and the obligations are
  SEMANTIC: they are about the paths the source has (enumerated over if / else / return by harness/sygx/c10.go), not
  about its spelling - a deferred unlock and an unlock written out on every exit are the same fact; one missing on a
  single exit is not.
-/
import SygmaModel.Model.C10
import SygmaModel.Generated.C10
namespace Sygma.C10

def evOf : String → Ev
  | "L" => .L | "U" => .U | "dU" => .dU | "G" => .G | "W" => .W | _ => .bad

def pathsWith (exit : String) (ps : List (String × List String)) : List (List Ev) :=
  (ps.filter (·.1 == exit)).map (·.2.map evOf)

def psetOf (t : List (String × List String) × List (String × List String) × List (String × List String)) : PSet :=
  ⟨pathsWith "full" t.1, pathsWith "ctorerr" t.1, pathsWith "early" t.2.1, pathsWith "full" t.2.1, pathsWith "full" t.2.2⟩

def balancedB (d : Delta) : Bool := decide (Balanced d)

/-- key generation and resharing must hold the lock while the protocol runs -/
def exclusiveName (n : String) : Bool := ["ekeygen", "fkeygen", "eresharing", "fresharing"].contains n

/-- everything Props/C10 proves of the model's table, demanded of the paths the source has:
    every outcome on every combination of paths balanced (table_balanced), a second Run (retried_balanced), the lock
    held by somebody else at the start (contended_balanced), every constructor error exit (constructor_failure_balanced),
    the lock state when the protocol runs and no release before Run ends (runs_under_lock, no_release_while_running) -/
def procOK (name : String) (ps : PSet) : Bool :=
  (Outcome.all.all fun o => (sessionFromP true ps o 0).all balancedB) &&
  (retriedFromP ps 0).all balancedB &&
  (Outcome.all.all fun o => (contendedFromP ps o).all fun c => balancedB c.d && !c.hHolds && decide (c.waited ≤ 1)) &&
  (ps.ctorErr.all fun p => balancedB (activation p (Delta.start 0))) &&
  ((sessionFromP true ps .ran 0).all fun d => d.runHeld == some (if exclusiveName name then 1 else 0)) &&
  (!exclusiveName name || ps.runFull.all noReleaseAfterW) &&
  !ps.runFull.isEmpty && !ps.ctorFull.isEmpty && !ps.stop.isEmpty

/-- **the sources' lock placement satisfies the property**: for every process kind whose three functions were located,
    all of the above holds of the paths they actually have -/
theorem gen_procs_balanced :
    (Generated.C10.procs.all fun e => match e.2 with
      | some t => procOK e.1 (psetOf t)
      | none => true) = true := by decide

/-- the coordinator stops the processes both when it refuses a duplicate and when a session exits -/
theorem gen_coordinator_stops :
    (∀ b, Generated.C10.refusalStops = some b → b = true) ∧ (∀ b, Generated.C10.deferStops = some b → b = true) := by
  constructor <;> intro b hb
  · unfold Generated.C10.refusalStops at hb
    cases hb
    all_goals rfl
  · unfold Generated.C10.deferStops at hb
    cases hb
    all_goals rfl

/-- a handler body, from the process constructor on: Execute follows the constructor directly (no return in between,
    which would leave a constructor-held lock behind) and nothing stops the process afterwards (Execute already has) -/
def handlerShape : List String → Bool
  | "new" :: "execute" :: rest => rest.all (· == "ret")
  | _ => false

/-- the production entry points that were located are "constructor, Execute, then only returns": what `handlerFrom false` models -/
theorem gen_handlers :
    (Generated.C10.handlers.all fun h => match h.2 with
      | some evs => handlerShape evs
      | none => true) = true := by decide

end Sygma.C10
