/-
  C10 — obligations tying the REGENERATED lock facts (Generated/C10.lean, rewritten from the six process sources and
  tss/coordinator.go on every run) to the table the theorems of Props/C10.lean are about. Moving, adding or dropping
  a LockKeyshare / UnlockKeyshare call (or making an unlock non-deferred before an early return) changes the
  generated table and this stops checking.
-/
import SygmaModel.Model.C10
import SygmaModel.Generated.C10
namespace Sygma.C10

def evName : Ev → String
  | .L => "L" | .U => "U" | .dU => "dU" | .G => "G" | .W => "W" | .ret => "ret" | .rete => "rete" | .fin => "end" | .bad => "?"

def kindName : Kind → String
  | .ekeygen => "ekeygen" | .fkeygen => "fkeygen" | .eresharing => "eresharing" | .fresharing => "fresharing"
  | .esigning => "esigning" | .fsigning => "fsigning"

def tableStrings : List (String × List String × List String × List String) :=
  Kind.all.map fun k => (kindName k, (table k).ctor.map evName, (table k).run.map evName, (table k).stop.map evName)

/-- the sources' lock events are the model's table -/
theorem gen_table : Generated.C10.facts = tableStrings := by decide

/-- the coordinator stops the processes both when it refuses a duplicate and when a session exits -/
theorem gen_coordinator_stops : Generated.C10.refusalStops = true ∧ Generated.C10.deferStops = true := by decide

/-- a handler body, from the process constructor on: Execute follows the constructor directly (no return in between,
    which would leave a constructor-held lock behind) and nothing stops the process afterwards (Execute already has) -/
def handlerShape : List String → Bool
  | "new" :: "execute" :: rest => rest.all (· == "ret")
  | _ => false

/-- the three production entry points are "constructor, Execute, return": what `handlerFrom false` models -/
theorem gen_handlers :
    Generated.C10.handlers.map (·.1) = ["KeygenEventHandler", "FrostKeygenEventHandler", "RefreshEventHandler"] ∧
    (Generated.C10.handlers.all fun h => handlerShape h.2) = true := by decide

end Sygma.C10
