/-
  C02 — obligations about the REGENERATED facts (Generated/C02.lean is rewritten from the Go source on every run).

  Every fact is an `Option`. `none` = the extractor could not locate the anchor in a shape it understands (a helper was
  extracted, statements restructured): the obligation is vacuous, bin/check prints `T-TIE-UNAVAILABLE`, and the
  correspondence ops (hash / evmhash / subhash / evmsig / subsig / watchsig / execwatch / execsign / bseq) carry the clause
  alone. A fact that IS located must satisfy its obligation. The facts are DATA extracted by shape (literal values with
  constants resolved, keys of composite literals, identifiers related to EACH OTHER) — never the text of an expression
  compared with an expected spelling, so renaming locals / receivers / unexported helpers or introducing named constants
  does not disturb them.
-/
import SygmaModel.Model.C02
import SygmaModel.Generated.C02
namespace Sygma.C02

/-- the source's type table is the model's, and go-ethereum's `EncodeType` on it yields the contract's type strings -/
theorem gen_types : ∀ t, Generated.C02.types = some t →
    t = typesTable.map (fun (n, fs) => (n, fs.map fun f => (f.name, f.type))) ∧
    (let tbl : Types := t.map (fun (n, fs) => (n, fs.map fun (a, b) => ⟨a, b⟩))
     encodeType tbl "EIP712Domain" = Spec.typeDomain ∧ encodeType tbl "Proposal" = Spec.typeProposal ∧
     encodeType tbl "Proposals" = Spec.typeProposals) := by
  intro t ht
  unfold Generated.C02.types at ht
  cases ht
  all_goals decide

theorem gen_primary : ∀ s, Generated.C02.primaryType = some s → s = primaryType := by
  intro s hs; unfold Generated.C02.primaryType at hs; cases hs; all_goals decide

theorem gen_domain_name : ∀ s, Generated.C02.domainName = some s → s = Spec.name := by
  intro s hs; unfold Generated.C02.domainName at hs; cases hs; all_goals decide

/-- both entry points sign for the contract's version -/
theorem gen_evm_version : ∀ s, Generated.C02.evmVersion = some s → s = Spec.version ∧ s = evmBridgeVersion := by
  intro s hs; unfold Generated.C02.evmVersion at hs; cases hs; all_goals decide

theorem gen_pallet_version : ∀ s, Generated.C02.palletVersion = some s → s = Spec.version ∧ s = palletBridgeVersion := by
  intro s hs; unfold Generated.C02.palletVersion at hs; cases hs; all_goals decide

/-- the pallet's verifying contract is the model's 20 bytes (hex, either case) -/
theorem gen_pallet_contract : ∀ s, Generated.C02.palletContract = some s → fromHexChars s.toList = some palletContract := by
  intro s hs; unfold Generated.C02.palletContract at hs; cases hs; all_goals decide

/-- each proposal contributes exactly the fields of the table's `Proposal` type, under its field names (any order: the
    map is consumed by key, `map_order_irrelevant`), and the message has the one key of the primary type's field -/
theorem gen_proposal_keys : ∀ ks, Generated.C02.proposalKeys = some ks →
    (ks.length == 4 && ((propMap ⟨0, 0, [], []⟩).map (·.1)).all (ks.contains ·)) = true := by
  intro ks hs; unfold Generated.C02.proposalKeys at hs; cases hs; all_goals decide

theorem gen_message_key : ∀ s, Generated.C02.messageKey = some s → s = "proposals" := by
  intro s hs; unfold Generated.C02.messageKey at hs; cases hs; all_goals decide

/-- 0x19 0x01 ‖ domain separator ‖ struct hash -/
theorem gen_framing : ∀ s, Generated.C02.framing = some s → s = "\x19\x01%s%s" := by
  intro s hs; unfold Generated.C02.framing at hs; cases hs; all_goals decide

/-- what the data-flow facts must satisfy, whatever the variables are called: the hash result is what `SetBytes` receives,
    the number it is set on is NewSigning's message, and what was hashed is (the proposals of) what the watcher is handed -/
def flowOk (suffix : String) : List String → Bool
  | [hashVar, hashed, sbArg, sbRecv, signArg, watched] =>
    hashVar == sbArg && sbRecv == signArg && hashed == watched ++ suffix && hashVar != "" && sbRecv != "" && watched != ""
  | _ => false

/-- EVM `Execute`: `ProposalsHash(b.proposals)` → `SetBytes` → `NewSigning`, and the watcher (which submits) gets `b` -/
theorem gen_evm_flow : ∀ fl, Generated.C02.evmFlow = some fl → flowOk ".proposals" fl = true := by
  intro fl hf; unfold Generated.C02.evmFlow at hf; cases hf; all_goals decide

/-- Substrate `Execute`: the same list is hashed, signed for and handed to the watcher -/
theorem gen_substrate_flow : ∀ fl, Generated.C02.substrateFlow = some fl → flowOk "" fl = true := by
  intro fl hf; unfold Generated.C02.substrateFlow at hf; cases hf; all_goals decide

/-- the signature assembly is the one `sigBytes` models: R and S left-padded to 32, the recovery bytes, 27 added to the
    last byte, and that buffer is what is submitted -/
def expectedSig : List (String × Nat) := [("R", 32), ("S", 32), ("SignatureRecovery", 0), ("last+", 27), ("submit", 0)]

theorem gen_evm_sig : ∀ ps, Generated.C02.evmSig = some ps → ps = expectedSig := by
  intro ps hs; unfold Generated.C02.evmSig at hs; cases hs; all_goals decide

theorem gen_substrate_sig : ∀ ps, Generated.C02.substrateSig = some ps → ps = expectedSig := by
  intro ps hs; unfold Generated.C02.substrateSig at hs; cases hs; all_goals decide

end Sygma.C02
