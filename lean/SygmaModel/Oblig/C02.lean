/-
  C02 — obligations about the REGENERATED facts (Generated/C02.lean is rewritten from the Go source on every run).
  A source change that alters the EIP-712 type table, a name, a version constant, the pallet's verifying contract, the
  per-proposal map, the 0x19 0x01 framing, what is hashed / signed / submitted, or a statement of the signature assembly
  makes one of these fail to check.
-/
import SygmaModel.Model.C02
import SygmaModel.Generated.C02
namespace Sygma.C02
open Sygma.Generated

/-- the source's type table is the model's -/
theorem gen_types :
    C02.types = typesTable.map (fun (n, fs) => (n, fs.map fun f => (f.name, f.type))) := by decide

/-- … and therefore encodes to exactly the contract's type strings (go-ethereum's `EncodeType` on the regenerated table) -/
theorem gen_type_strings :
    let tbl : Types := C02.types.map (fun (n, fs) => (n, fs.map fun (a, b) => ⟨a, b⟩))
    encodeType tbl "EIP712Domain" = Spec.typeDomain ∧ encodeType tbl "Proposal" = Spec.typeProposal ∧
    encodeType tbl C02.primaryType = Spec.typeProposals := by decide

theorem gen_names : C02.primaryType = primaryType ∧ C02.domainName = Spec.name := by decide

/-- both entry points sign for the contract's version -/
theorem gen_versions : C02.evmBridgeVersion = Spec.version ∧ C02.palletBridgeVersion = Spec.version ∧
    C02.evmBridgeVersion = evmBridgeVersion ∧ C02.palletBridgeVersion = palletBridgeVersion := by decide

/-- the pallet's verifying contract is the model's 20 bytes -/
theorem gen_pallet_contract : fromHexChars C02.palletVerifyingContract.toList = some palletContract := by decide

/-- the domain is filled from the chain id, the version and the contract handed in; the entry points hand in the client's
    chain id through `Int64()`, their address / the constant, and their version constant -/
theorem gen_domain_sources :
    C02.domainSources = ["math.NewHexOrDecimal256(chainID)", "bridgeVersion", "verifContract"] ∧
    C02.evmHashCall = "proposals | chainID.Int64() | c.ContractAddress().Hex() | bridgeVersion" ∧
    C02.palletHashCall = "proposals | p.ChainID.Int64() | verifyingContract | bridgeVersion" := by decide

/-- each proposal contributes exactly its origin domain, deposit nonce, resource id and data, under the table's field names -/
theorem gen_proposal_map :
    C02.proposalMap = [("originDomainID", "big.NewInt(int64(prop.Source))"),
      ("depositNonce", "new(big.Int).SetUint64(prop.Data.DepositNonce)"),
      ("resourceID", "hexutil.Encode(prop.Data.ResourceId[:])"), ("data", "prop.Data.Data")] ∧
    C02.proposalMap.map (·.1) = (propMap ⟨0, 0, [], []⟩).map (·.1) ∧
    C02.message = "proposals=formattedProps" := by decide

/-- 0x19 0x01 ‖ domain separator ‖ struct hash -/
theorem gen_framing : C02.framing = "\"\\x19\\x01%s%s\"|string(domainSeparator)|string(typedDataHash)" := by decide

/-- EVM: the value handed to threshold signing is `ProposalsHash` of the batch's own proposals (whatever the variables are
    called: the hash result flows into `msg.SetBytes`, `msg` is NewSigning's message), and the batch submitted with the
    signature is that same batch -/
theorem gen_evm_flow :
    ∃ hashVar batch, C02.evmFlow = [hashVar ++ "|" ++ batch ++ ".proposals", hashVar, "msg", batch] ∧ hashVar ≠ "" ∧ batch ≠ "" :=
  ⟨C02.evmFlow.getD 1 "", C02.evmFlow.getD 3 "", by decide, by decide, by decide⟩

/-- Substrate: the same list is hashed, signed for and submitted -/
theorem gen_substrate_flow :
    ∃ hashVar list, C02.substrateFlow = [hashVar ++ "|" ++ list, hashVar, "msg", list] ∧ hashVar ≠ "" ∧ list ≠ "" :=
  ⟨C02.substrateFlow.getD 1 "", C02.substrateFlow.getD 3 "", by decide, by decide, by decide⟩

/-- the signature assembly statements are the ones `sigBytes` models, in this order, in both executors -/
theorem gen_sig_assembly :
    C02.evmSig = ["sig := []byte{}", "sig = append(sig[:], ethCommon.LeftPadBytes(signatureData.R, 32)...)",
      "sig = append(sig[:], ethCommon.LeftPadBytes(signatureData.S, 32)...)",
      "sig = append(sig[:], signatureData.SignatureRecovery...)", "sig[len(sig)-1] += 27", "submit(batch.proposals, sig)"] ∧
    C02.substrateSig = ["sig := []byte{}", "sig = append(sig[:], ethCommon.LeftPadBytes(signatureData.R, 32)...)",
      "sig = append(sig[:], ethCommon.LeftPadBytes(signatureData.S, 32)...)",
      "sig = append(sig[:], signatureData.SignatureRecovery...)", "sig[len(sig)-1] += 27", "submit(proposals, sig)"] := by decide

end Sygma.C02
