/-
  Base: byte strings, big-endian naturals, Go slice semantics, hex / decimal text.
  Core Lean only (the compiled driver links this).
-/
namespace Sygma

abbrev Bytes := List UInt8

/-! ### big-endian naturals -/

/-- value of a big-endian byte string (Go: `new(big.Int).SetBytes(b)`) -/
def beToNat (b : Bytes) : Nat := b.foldl (fun a x => a * 256 + x.toNat) 0

def natToBEAux (n : Nat) (acc : Bytes) : Bytes :=
  if h : n = 0 then acc else natToBEAux (n / 256) (UInt8.ofNat (n % 256) :: acc)
termination_by n
decreasing_by omega

/-- minimal big-endian bytes (Go: `big.Int.Bytes()`; zero ↦ empty) -/
def natToBE (n : Nat) : Bytes := natToBEAux n []

/-- Go `common.LeftPadBytes(b, k)`: prepend zeros up to length `k`; longer input is returned unchanged -/
def leftPad (k : Nat) (b : Bytes) : Bytes := List.replicate (k - b.length) 0 ++ b

/-- Go `common.RightPadBytes` -/
def rightPad (k : Nat) (b : Bytes) : Bytes := b ++ List.replicate (k - b.length) 0

def pad32 (n : Nat) : Bytes := leftPad 32 (natToBE n)

/-- Go slice expression `b[lo:hi]` on a slice whose cap = len; `none` = run-time panic -/
def slice (b : Bytes) (lo hi : Nat) : Option Bytes :=
  if lo ≤ hi ∧ hi ≤ b.length then some ((b.drop lo).take (hi - lo)) else none

/-- Go `b[lo:]` -/
def sliceFrom (b : Bytes) (lo : Nat) : Option Bytes :=
  if lo ≤ b.length then some (b.drop lo) else none

theorem beToNat_foldl (b : Bytes) (a : Nat) :
    b.foldl (fun a x => a * 256 + x.toNat) a = a * 256 ^ b.length + beToNat b := by
  induction b generalizing a with
  | nil => simp [beToNat]
  | cons x xs ih =>
    simp only [List.foldl_cons, beToNat, List.length_cons]
    rw [ih, ih (0 * 256 + x.toNat)]
    simp only [Nat.zero_mul, Nat.zero_add, Nat.pow_succ]
    rw [Nat.add_mul, Nat.mul_assoc, Nat.add_assoc, Nat.mul_comm 256]

theorem beToNat_nil : beToNat [] = 0 := rfl

theorem beToNat_cons (x : UInt8) (xs : Bytes) :
    beToNat (x :: xs) = x.toNat * 256 ^ xs.length + beToNat xs := by
  simp only [beToNat, List.foldl_cons]
  rw [beToNat_foldl]; simp [beToNat]

theorem beToNat_append (a b : Bytes) :
    beToNat (a ++ b) = beToNat a * 256 ^ b.length + beToNat b := by
  simp only [beToNat, List.foldl_append]
  rw [beToNat_foldl]; simp [beToNat]

theorem beToNat_replicate_zero (k : Nat) : beToNat (List.replicate k (0:UInt8)) = 0 := by
  induction k with
  | zero => rfl
  | succ k ih => rw [List.replicate_succ, beToNat_cons, ih]; simp

theorem beToNat_lt (b : Bytes) : beToNat b < 256 ^ b.length := by
  induction b with
  | nil => simp [beToNat]
  | cons x xs ih =>
    rw [beToNat_cons, List.length_cons, Nat.pow_succ]
    have hx : x.toNat < 256 := x.toNat_lt
    have : x.toNat * 256 ^ xs.length + 256 ^ xs.length ≤ 256 * 256 ^ xs.length := by
      have := Nat.mul_le_mul_right (256 ^ xs.length) (show x.toNat + 1 ≤ 256 by omega)
      rw [Nat.add_mul] at this; omega
    rw [Nat.mul_comm (256 ^ xs.length)]; omega

theorem natToBEAux_spec (n : Nat) (acc : Bytes) :
    beToNat (natToBEAux n acc) = n * 256 ^ acc.length + beToNat acc := by
  induction n using Nat.strongRecOn generalizing acc with
  | _ n ih =>
    unfold natToBEAux
    split
    · next h => simp [h]
    · next h =>
      rw [ih (n / 256) (by omega)]
      rw [beToNat_cons, List.length_cons, Nat.pow_succ]
      have hb : (UInt8.ofNat (n % 256)).toNat = n % 256 := by
        simp [UInt8.toNat_ofNat']
      rw [hb]
      have := Nat.div_add_mod n 256
      calc n / 256 * (256 ^ acc.length * 256) + (n % 256 * 256 ^ acc.length + beToNat acc)
          = (256 * (n / 256) + n % 256) * 256 ^ acc.length + beToNat acc := by
            rw [Nat.add_mul, Nat.mul_comm 256 (n/256), Nat.mul_assoc, Nat.mul_comm 256]; omega
        _ = n * 256 ^ acc.length + beToNat acc := by rw [this]

/-- `SetBytes ∘ Bytes` is the identity -/
theorem beToNat_natToBE (n : Nat) : beToNat (natToBE n) = n := by
  rw [natToBE, natToBEAux_spec]; simp [beToNat]

theorem beToNat_leftPad (k : Nat) (b : Bytes) : beToNat (leftPad k b) = beToNat b := by
  simp [leftPad, beToNat_append, beToNat_replicate_zero]

theorem leftPad_length (k : Nat) (b : Bytes) : (leftPad k b).length = max k b.length := by
  simp [leftPad]; omega

theorem natToBEAux_length (n : Nat) (acc : Bytes) (k : Nat) (h : n < 256 ^ k) :
    (natToBEAux n acc).length ≤ k + acc.length := by
  induction n using Nat.strongRecOn generalizing acc k with
  | _ n ih =>
    unfold natToBEAux
    split
    · omega
    · next hn =>
      cases k with
      | zero => simp at h; omega
      | succ k =>
        have : n / 256 < 256 ^ k := by
          rw [Nat.pow_succ] at h
          exact Nat.div_lt_of_lt_mul (by rw [Nat.mul_comm]; exact h)
        have := ih (n / 256) (by omega) (UInt8.ofNat (n % 256) :: acc) k this
        simp only [List.length_cons] at this; omega

theorem natToBE_length_le (n k : Nat) (h : n < 256 ^ k) : (natToBE n).length ≤ k := by
  have := natToBEAux_length n [] k h; simpa [natToBE] using this

theorem pad32_length (n : Nat) (h : n < 2 ^ 256) : (pad32 n).length = 32 := by
  have h' : n < 256 ^ 32 := by
    have : (256:Nat) ^ 32 = 2 ^ 256 := by decide
    omega
  have := natToBE_length_le n 32 h'
  simp [pad32, leftPad_length]; omega

theorem beToNat_pad32 (n : Nat) : beToNat (pad32 n) = n := by
  simp [pad32, beToNat_leftPad, beToNat_natToBE]

theorem pad32_inj (a b : Nat) (h : pad32 a = pad32 b) : a = b := by
  have := congrArg beToNat h; simpa [beToNat_pad32] using this

/-! ### text helpers (driver side; nothing is proved about these except where stated) -/

def hexDigit (n : Nat) : Char := if n < 10 then Char.ofNat (48 + n) else Char.ofNat (87 + n)

def toHex (b : Bytes) : String :=
  String.ofList (b.flatMap fun x => [hexDigit (x.toNat / 16), hexDigit (x.toNat % 16)])

def hexVal (c : Char) : Option Nat :=
  if '0' ≤ c ∧ c ≤ '9' then some (c.toNat - 48)
  else if 'a' ≤ c ∧ c ≤ 'f' then some (c.toNat - 87)
  else if 'A' ≤ c ∧ c ≤ 'F' then some (c.toNat - 55)
  else none

def fromHexChars : List Char → Option Bytes
  | [] => some []
  | [_] => none
  | a :: b :: rest => do
    let x ← hexVal a
    let y ← hexVal b
    let r ← fromHexChars rest
    pure (UInt8.ofNat (x * 16 + y) :: r)

/-- strict hex decoding (Go `hex.DecodeString`); "-" denotes the empty string on the wire -/
def fromHex (s : String) : Option Bytes :=
  if s = "-" then some [] else fromHexChars s.toList

def toHexW (b : Bytes) : String := if b.isEmpty then "-" else toHex b

end Sygma
