/-
  C18 — key-share and topology stores (`keyshare/ecdsa.go`, `keyshare/frost.go`, `topology/store.go`, all three through
  `util/atomicfile.go: WriteFileAtomic` after the repair).

  A POSIX file-system model at the granularity the property needs: a file system maps paths to whole-file contents,
  a store operation is the list of system calls the Go code issues, and a fault stops that list at any call — for the
  `write` call after any number of bytes — either killing the process (nothing runs afterwards) or making the call
  return an error (the function's error path runs afterwards).

  Executable; core Lean only.
-/
import SygmaModel.Base
namespace Sygma.C18

abbrev Path := String

/-- whole-file contents by path; `none` = no such file -/
abbrev FS := Path → Option Bytes

def FS.set (fs : FS) (p : Path) (v : Option Bytes) : FS := fun q => if q = p then v else fs q

/-- the system calls issued by the store functions. A file handle is identified with the path it was opened under:
    in both programs below no path is renamed or removed between its open and its last write. -/
inductive Op where
  | openTrunc  (p : Path)               -- `os.OpenFile(p, O_RDWR|O_CREATE|O_TRUNC, _)`: p exists and is empty afterwards
  | createTemp (t : Path)               -- `os.CreateTemp(dir, pattern)`: a NEW name (O_EXCL), so `t` is empty afterwards
  | openKeep   (t : Path)               -- `os.OpenFile(t, O_WRONLY|O_CREATE, _)`: creates `t` if absent, KEEPS its content otherwise
  | write      (p : Path) (d : Bytes)   -- `f.Write(d)` on a freshly opened handle of p: offset 0, overwrites, never shortens
  | chmod      (p : Path)               -- `f.Chmod`: no effect on contents
  | sync       (p : Path)               -- `f.Sync`: no effect on contents seen by a reader of the running system
  | close      (p : Path)               -- `f.Close`
  | rename     (src dst : Path)         -- `os.Rename(src, dst)`: atomic; dst gets src's content, src disappears
  | remove     (p : Path)               -- `os.Remove(p)`
deriving Repr, DecidableEq

/-- complete effect of a call -/
def Op.run : Op → FS → FS
  | .openTrunc p, fs  => fs.set p (some [])
  | .createTemp t, fs => fs.set t (some [])
  | .openKeep t, fs   => fun q => match fs t with
                         | some _ => fs q
                         | none   => (fs.set t (some [])) q
  | .write p d, fs    => fs.set p ((fs p).map fun c => d ++ c.drop d.length)   -- (p always exists in the programs below)
  | .chmod _, fs      => fs
  | .sync _, fs       => fs
  | .close _, fs      => fs
  | .rename s d, fs   => fun q => match fs s with
                         | some c => ((fs.set d (some c)).set s none) q
                         | none   => fs q         -- ENOENT, nothing happens
  | .remove p, fs     => fs.set p none

/-- effect of a call that is interrupted: a `write` has put down its first `k` bytes, every other call is a single
    atomic system call that has not happened -/
def Op.interrupted (k : Nat) : Op → FS → FS
  | .write p d, fs => (Op.write p (d.take k)).run fs
  | _, fs          => fs

/-- the paths whose content a call can change -/
def Op.targets : Op → List Path
  | .openTrunc p  => [p]
  | .createTemp t => [t]
  | .openKeep t   => [t]
  | .write p _    => [p]
  | .chmod _      => []
  | .sync _       => []
  | .close _      => []
  | .rename s d   => [s, d]
  | .remove p     => [p]

def Op.name : Op → String
  | .openTrunc _  => "os.OpenFile:O_TRUNC"
  | .createTemp _ => "os.CreateTemp"
  | .openKeep _   => "os.OpenFile"
  | .write _ _    => "Write"
  | .chmod _      => "Chmod"
  | .sync _       => "Sync"
  | .close _      => "Close"
  | .rename _ _   => "os.Rename"
  | .remove _     => "os.Remove"

def runOps (ops : List Op) (fs : FS) : FS := ops.foldl (fun fs o => o.run fs) fs

/-- error-path calls; each may itself fail (`false` in the mask = that call had no effect).
    A mask shorter than the list means the remaining calls succeed. -/
def runMasked : List Op → List Bool → FS → FS
  | [], _, fs => fs
  | o :: os, [], fs => runMasked os [] (o.run fs)
  | o :: os, b :: bs, fs => runMasked os bs (if b then o.run fs else fs)

/-- a store function: the calls of its success path and, for a failure of call `i`, the calls of its error path -/
structure Prog where
  main    : List Op
  cleanup : Nat → List Op

/-- `util.WriteFileAtomic(p, d, perm)` with temp name `t` (the repaired stores: marshal first, then this) -/
def storeAtomic (p t : Path) (d : Bytes) : Prog where
  main    := [.createTemp t, .write t d, .chmod t, .sync t, .close t, .rename t p]
  cleanup := fun i => if i = 0 then [] else [.close t, .remove t]

/-- the stores as found: open with O_TRUNC, write in place, deferred close -/
def storeInPlace (p : Path) (d : Bytes) : Prog where
  main    := [.openTrunc p, .write p d, .close p]
  cleanup := fun i => if i = 0 then [] else [.close p]

/-- a variant that must NOT be written (kept for the theorem that says why): a FIXED temp name opened without O_TRUNC /
    O_EXCL, so a temp file left by a killed store is reused with its old content -/
def storeFixedTemp (p t : Path) (d : Bytes) : Prog where
  main    := [.openKeep t, .write t d, .chmod t, .sync t, .close t, .rename t p]
  cleanup := fun i => if i = 0 then [] else [.close t, .remove t]

/-- where and how a store operation is cut short -/
inductive Fault where
  | none
  | die  (i k : Nat)                      -- the process dies at call `i` (a write: after `k` bytes); nothing runs afterwards
  | fail (i k : Nat) (mask : List Bool)   -- call `i` returns an error (a write: after `k` bytes); the error path runs
deriving Repr

inductive Status where | ok | err | died
deriving Repr, DecidableEq

def exec (pr : Prog) : Fault → FS → FS
  | .none, fs => runOps pr.main fs
  | .die i k, fs =>
    match pr.main[i]? with
    | none   => runOps pr.main fs
    | some o => o.interrupted k (runOps (pr.main.take i) fs)
  | .fail i k mask, fs =>
    match pr.main[i]? with
    | none   => runOps pr.main fs
    | some o => runMasked (pr.cleanup i) mask (o.interrupted k (runOps (pr.main.take i) fs))

/-- what the caller (or the parent of the dead process) sees -/
def status (pr : Prog) : Fault → Status
  | .none => .ok
  | .die i _ => if i < pr.main.length then .died else .ok
  | .fail i _ _ => if i < pr.main.length then .err else .ok

/-! ### sequences of stores into one directory (nothing is cleaned up in between: a killed store leaves its temp file) -/

structure Step where
  new   : Bytes     -- the content to store
  tmp   : Path      -- the temp name `os.CreateTemp` picks for this store
  fault : Fault
deriving Repr

/-- the file-system states after each step -/
def runSeqTrace (p : Path) : List Step → FS → List FS
  | [], _ => []
  | s :: ss, fs =>
    let fs' := exec (storeAtomic p s.tmp s.new) s.fault fs
    fs' :: runSeqTrace p ss fs'

def runSeq (p : Path) : List Step → FS → FS
  | [], fs => fs
  | s :: ss, fs => runSeq p ss (exec (storeAtomic p s.tmp s.new) s.fault fs)

/-! ### one long-lived store object: stores and reads interleaved -/

/-- what the application does with its store object. The object holds nothing but the path (no cache): a read is a
    read of the file as it is at that moment. Every access of the key-share stores is bracketed by `LockKeyshare` /
    `UnlockKeyshare`; both only take / release the object's mutex and have NO effect on the file system (regenerated
    fact, Oblig/C18 `gen_lock_bodies`), so `get` stands for Lock, Get, Unlock and `store` for Lock, Store, Unlock.
    The path may be spelled in any way that names the same file; other files of the directory are other paths. -/
inductive ObjOp where
  | get
  | store (s : Step)
deriving Repr

/-- the results of the reads, in order -/
def runObj (p : Path) : List ObjOp → FS → List (Option Bytes)
  | [], _ => []
  | .get :: r, fs => fs p :: runObj p r fs
  | .store s :: r, fs => runObj p r (exec (storeAtomic p s.tmp s.new) s.fault fs)

/-- the file system after the sequence -/
def runObjFS (p : Path) : List ObjOp → FS → FS
  | [], fs => fs
  | .get :: r, fs => runObjFS p r fs
  | .store s :: r, fs => runObjFS p r (exec (storeAtomic p s.tmp s.new) s.fault fs)

/-- the specification: a read returns the last SUCCESSFULLY stored content (`cur`; `none` = nothing stored yet) -/
def specObj (p : Path) : List ObjOp → Option Bytes → List (Option Bytes)
  | [], _ => []
  | .get :: r, cur => cur :: specObj p r cur
  | .store s :: r, cur =>
    specObj p r (if status (storeAtomic p s.tmp s.new) s.fault = .ok then some s.new else cur)

/-- the getters: `os.ReadFile` then decode -/
def readBack {V : Type} (decode : Bytes → Option V) (fs : FS) (p : Path) : Option V :=
  match fs p with
  | some c => decode c
  | none   => none

/-! ### the property as an executable predicate on an observed file content -/

/-- the file at the store's path holds the complete previous content (or is still absent if there was none)
    or the complete new content -/
def Intact (old : Option Bytes) (new : Bytes) (observed : Option Bytes) : Prop :=
  observed = old ∨ observed = some new

instance (old : Option Bytes) (new : Bytes) (o : Option Bytes) : Decidable (Intact old new o) := by
  unfold Intact; infer_instance

/-- full predicate evaluated by the driver: intact, and a store that reported success left the new content -/
def P18 (old : Option Bytes) (new : Bytes) (st : Status) (observed : Option Bytes) : Prop :=
  Intact old new observed ∧ (st = .ok → observed = some new)

instance (old : Option Bytes) (new : Bytes) (st : Status) (o : Option Bytes) : Decidable (P18 old new st o) := by
  unfold P18; infer_instance

end Sygma.C18
