/-
  C03 — the executed-filter of the three executors. Executable model + executable property predicate. Core only.

  Modelled (the code AS IT IS after the two `fix:` commits of branch fix-a3):
    * `chains/evm/executor/executor.go`       Execute → proposalBatches (the batching loop is `C14.pack`, reused) →
                                              one signing session per non-empty batch
    * `chains/substrate/executor/executor.go` Execute: loop with early return on a failed lookup, collect AFTER the
                                              executed test, nothing signed for an empty collection
    * `chains/btc/executor/executor.go`       Execute → proposalsForExecution (status read; missing|failed are
                                              executable; marked `pending` before anything is signed) → one session
                                              per resource; `store/propstore.go` as a finite map with a fault stream
  Inputs of the model (universally quantified in the theorems): the delivery, the destination's answer to every
  executed-lookup (EVM/Substrate), the durable status map and the fault stream of the status store (BTC).
  Also: the lookup key (`lookupQuery`) and what is submitted when a signature arrives (`submitted`).
  Not modelled: the TSS signing between the start of a session and the arrival of its signature.
-/
import SygmaModel.Base
import SygmaModel.Model.C14
namespace Sygma.C03

/-- answer of the destination to "is this proposal executed?" -/
inductive Ans | notExec | exec | err
deriving DecidableEq, Repr

/-- what `Execute` returned -/
inductive Ret | nil | err | panic
deriving DecidableEq, Repr

/-- observable outcome of one delivery: the return class and the signing sessions started (each: deposit nonces) -/
structure Out where
  ret      : Ret
  sessions : List (List Nat)
deriving DecidableEq, Repr

/-- a delivery as EVM/Substrate see it: (deposit nonce, the destination's answer for it) -/
abbrev Delivery := List (Nat × Ans)

def hasErr (d : Delivery) : Bool := d.any (·.2 = .err)

/-- the proposals that are not yet executed, in delivery order -/
def wanted (d : Delivery) : List Nat := (d.filter (·.2 = .notExec)).map (·.1)

/-! ### the property, as a decidable predicate on ANY candidate set of sessions -/

/-- P03: a failed lookup ⇒ nothing is signed; otherwise the sessions together hold exactly the not-yet-executed
    proposals (each as often as it was delivered) and no session is empty -/
def P03 (lookupFailed : Bool) (want : List Nat) (sessions : List (List Nat)) : Prop :=
  if lookupFailed then sessions = []
  else sessions.flatten.Perm want ∧ ∀ s ∈ sessions, s ≠ []

instance (e : Bool) (w : List Nat) (ss : List (List Nat)) : Decidable (P03 e w ss) := by
  unfold P03; infer_instance

/-- stronger, for the kinds that keep the delivery order across sessions (EVM by batch index, Substrate) -/
def P03ord (lookupFailed : Bool) (want : List Nat) (sessions : List (List Nat)) : Prop :=
  if lookupFailed then sessions = []
  else sessions.flatten = want ∧ ∀ s ∈ sessions, s ≠ []

instance (e : Bool) (w : List Nat) (ss : List (List Nat)) : Decidable (P03ord e w ss) := by
  unfold P03ord; infer_instance

/-! ### Substrate -/

/-- the loop of `Execute`: `none` = a lookup failed (early return), else the collected proposals -/
def subLoop : Delivery → List Nat → Option (List Nat)
  | [], acc => some acc
  | (n, a) :: r, acc =>
    match a with
    | .err     => none
    | .exec    => subLoop r acc
    | .notExec => subLoop r (acc ++ [n])

def sub (d : Delivery) : Out :=
  match subLoop d [] with
  | none    => ⟨.err, []⟩
  | some [] => ⟨.nil, []⟩
  | some ns => ⟨.err, [ns]⟩      -- the harness' pallet refuses to hash, so `Execute` returns that error

/-- AS FOUND (before `fix:` 986f0b8): every delivered proposal is collected before the test, and the emptiness
    test looks at the delivery, so executed proposals are hashed and signed again -/
def subAsFound (d : Delivery) : Out :=
  if hasErr d then ⟨.err, []⟩
  else if d = [] then ⟨.nil, []⟩ else ⟨.err, [d.map (·.1)]⟩

/-! ### EVM -/

/-- `Execute`: lookups first (any failure aborts), then the batching loop of C14 over the pending proposals
    (here labelled by deposit nonce), one session per non-empty batch -/
def evm (cap tg : Nat) (d : Delivery) : Out :=
  if hasErr d then ⟨.err, []⟩
  else
    let bs := C14.pack cap ((wanted d).map fun n => (n, tg % C14.M))
    let ss := (bs.filter (·.members ≠ [])).map fun b => b.members.map (·.1)
    if ss = [] then ⟨.nil, []⟩ else ⟨.err, ss⟩

/-! ### BTC: the durable status store -/

inductive Status | missing | pending | failed | executed
deriving DecidableEq, Repr

/-- association list, first match wins; absent = `missing` (`PropStatus` maps leveldb.ErrNotFound to MissingProp) -/
def lookup : List (Nat × Status) → Nat → Status
  | [], _ => .missing
  | (k, v) :: r, n => if k = n then v else lookup r n

structure Store where
  m      : List (Nat × Status)
  faults : List Bool            -- head = "the next store call fails"; exhausted = no more failures
deriving Repr

def Store.tick (s : Store) : Bool × Store :=
  match s.faults with
  | []     => (false, s)
  | f :: r => (f, { s with faults := r })

/-- `PropStatus`: `none` = error -/
def Store.read (s : Store) (n : Nat) : Option Status × Store :=
  let (f, s') := s.tick
  if f then (none, s') else (some (lookup s.m n), s')

/-- `StorePropStatus`: `false` = error, nothing written -/
def Store.write (s : Store) (n : Nat) (v : Status) : Bool × Store :=
  let (f, s') := s.tick
  if f then (false, s') else (true, { s' with m := (n, v) :: s'.m })

/-- `isExecuted` of the BTC executor, negated: only missing and failed proposals may be executed -/
def canExec (v : Status) : Bool := v = .missing || v = .failed

/-- `proposalsForExecution`: `none` = a store call failed (Execute returns the error, nothing is signed) -/
def forExec : Store → List Nat → Option (List Nat) × Store
  | s, [] => (some [], s)
  | s, n :: r =>
    match s.read n with
    | (none, s1) => (none, s1)
    | (some v, s1) =>
      if canExec v then
        match s1.write n .pending with
        | (false, s2) => (none, s2)
        | (true, s2) =>
          let (o, s3) := forExec s2 r
          (o.map (n :: ·), s3)
      else forExec s1 r

/-- the fault-free selection: first occurrences of the executable nonces (a repeated nonce reads `pending`) -/
def executable : List (Nat × Status) → List Nat → List Nat
  | _, [] => []
  | m, n :: r => if canExec (lookup m n) then n :: executable ((n, .pending) :: m) r else executable m r

/-- number of store calls the fault-free run makes -/
def need (m : List (Nat × Status)) (d : List Nat) : Nat := d.length + (executable m d).length

/-- a fault hits this delivery iff one of the first `need` entries of the fault stream is set -/
def faulted (s : Store) (d : List Nat) : Bool := (s.faults.take (need s.m d)).any id

/-- `storeProposalsStatus`: write errors are logged and skipped -/
def storeStatus (s : Store) (ns : List Nat) (v : Status) : Store :=
  ns.foldl (fun s n => (s.write n v).2) s

/-- lexicographic order on sessions (the canonical order in which the harness prints concurrent sessions) -/
def lexLe : List Nat → List Nat → Bool
  | [], _ => true
  | _ :: _, [] => false
  | a :: x, b :: y => a < b || (a = b && lexLe x y)

def insertBy (x : List Nat) : List (List Nat) → List (List Nat)
  | [] => [x]
  | y :: r => if lexLe x y then x :: y :: r else y :: insertBy x r

def sortSessions (ss : List (List Nat)) : List (List Nat) := ss.foldr insertBy []

/-- `propsPerResource[r] = append(propsPerResource[r], prop)` -/
def addTo (res : Nat → Nat) (n : Nat) : List (List Nat) → List (List Nat)
  | [] => [[n]]
  | c :: cs => if res (c.headD 0) == res n then (c ++ [n]) :: cs else c :: addTo res n cs

/-- the classes of equal resource, each in delivery order -/
def classes (res : Nat → Nat) (ns : List Nat) : List (List Nat) :=
  ns.foldl (fun acc n => addTo res n acc) []

/-- group the selected nonces by resource, sessions in canonical order -/
def group (res : Nat → Nat) (ns : List Nat) : List (List Nat) := sortSessions (classes res ns)

/-- `Execute` of the BTC executor on a delivery of nonces whose resource is `res n` -/
def btc (res : Nat → Nat) (s : Store) (d : List Nat) : Out × Store :=
  if d = [] then (⟨.panic, []⟩, s)                     -- `proposals[0].MessageID` on an empty slice
  else match forExec s d with
    | (none, s')    => (⟨.err, []⟩, s')
    | (some [], s') => (⟨.nil, []⟩, s')
    | (some ns, s') => (⟨.err, group res ns⟩, s')      -- the harness' uploader refuses, so each session errs

/-! ### the lookup itself (bridge.go / pallet.go `IsProposalExecuted`) -/

/-- what the destination is asked: the proposal's ORIGIN domain and deposit nonce (never its destination) -/
structure Query where
  domain : Nat
  nonce  : Nat
deriving DecidableEq, Repr

def lookupQuery (source _destination nonce : Nat) : Query := ⟨source, nonce⟩

/-- the destination's answer is handed on unchanged (an RPC error stays an error) -/
def lookupAnswer (a : Ans) : Ans := a

/-- the lookup is faithful: asked about the proposal's own identity, answer unchanged -/
def PLookup (source nonce : Nat) (a : Ans) (q : Query) (r : Ans) : Prop :=
  q.domain = source ∧ q.nonce = nonce ∧ r = a

instance (s n : Nat) (a : Ans) (q : Query) (r : Ans) : Decidable (PLookup s n a q r) := by
  unfold PLookup; infer_instance

/-- one lookup of a SEQUENCE answered by one long-lived adapter (BridgeContract / Pallet). `earlier` = the lookups
    before it with the node's answers (source domain, nonce, answer); `asked` = what the node was asked now (`none` = the
    node was not asked). The lookup is faithful if the node is asked about exactly this proposal's (origin domain,
    nonce) and its answer is passed on; the only admissible shortcut is not to ask about a pair the node has ALREADY
    reported executed — the same domain AND the same nonce — and to answer "executed". -/
def PLookupStep (earlier : List (Nat × Nat × Ans)) (source nonce : Nat) (a : Ans) (asked : Option Query) (r : Ans) : Prop :=
  match asked with
  | some q => PLookup source nonce a q r
  | none => r = .exec ∧ (source, nonce, Ans.exec) ∈ earlier

instance (e : List (Nat × Nat × Ans)) (s n : Nat) (a : Ans) (q : Option Query) (r : Ans) :
    Decidable (PLookupStep e s n a q r) := by unfold PLookupStep; split <;> infer_instance

/-- the adapters of the code as it is keep no state: every lookup asks the node -/
def lookupSeq (qs : List (Nat × Nat × Ans)) : List (Option Query × Ans) :=
  qs.map fun q => (some (lookupQuery q.1 0 q.2.1), lookupAnswer q.2.2)

/-! ### submission (`watchExecution` → `executeBatch` / `executeProposal`) -/

/-- what is submitted when the signature of a session arrives: exactly the proposals of that session, once -/
def submitted (signed : List Nat) : List (List Nat) := [signed]

/-- PSubmit: one submission, of exactly the signed proposals, in order — so a proposal that was filtered out of
    every session is never submitted -/
def PSubmit (signed : List Nat) (subs : List (List Nat)) : Prop := subs = [signed]

instance (a : List Nat) (b : List (List Nat)) : Decidable (PSubmit a b) := by unfold PSubmit; infer_instance

/-! ### the periodic "already executed?" check of the EVM / Substrate watch loops

  `watchExecution` (both executors): on every tick of `executionCheckPeriod`, `areProposalsExecuted(batch)`; if true the
  session returns nil ("successfully executed") and its deferred `cancelExecution()` stops the signing. The answers
  of the destination at each tick are inputs: one vector per tick, one answer per member of the batch. -/

/-- `areProposalsExecuted`: every member is reported executed; a lookup error counts as "not yet" -/
def allExecuted : List Ans → Bool
  | [] => true
  | a :: r => a = .exec && allExecuted r

/-- the members the sweep asks about (it stops after the first answer that is not "executed") -/
def askedFrom : Nat → List Ans → List Nat
  | _, [] => []
  | i, a :: r => if a = .exec then i :: askedFrom (i+1) r else [i]

def asked (v : List Ans) : List Nat := askedFrom 0 v

/-- the watch loop without a signature arriving: the first tick (counted from `t`) at which the session is closed as
    executed; `none` = still waiting after the scripted ticks -/
def watchFrom : Nat → List (List Ans) → Option Nat
  | _, [] => none
  | t, v :: r => if allExecuted v then some t else watchFrom (t+1) r

def watch (script : List (List Ans)) : Option Nat := watchFrom 0 script

/-- the sweeps the loop performs: one per tick up to and including the closing one -/
def sweeps : List (List Ans) → List (List Nat)
  | [] => []
  | v :: r => if allExecuted v then [asked v] else asked v :: sweeps r

/-- PTick: one sweep says "all executed" iff every member is reported executed -/
def PTick (v : List Ans) (r : Bool) : Prop := r = true ↔ ∀ a ∈ v, a = .exec

instance (v : List Ans) (r : Bool) : Decidable (PTick v r) := by unfold PTick; infer_instance

/-- every member of the batch is reported executed at tick `t` of the script -/
def AllExecAt (script : List (List Ans)) (t : Nat) : Prop :=
  match script[t]? with
  | some v => ∀ a ∈ v, a = .exec
  | none => False

instance (script : List (List Ans)) (t : Nat) : Decidable (AllExecAt script t) := by
  unfold AllExecAt; split <;> infer_instance

/-- member `j` was reported executed at some tick before `t` (the destination never un-executes a proposal) -/
def seenExecBefore (script : List (List Ans)) (t j : Nat) : Bool :=
  (script.take t).any fun v => v[j]? == some Ans.exec

/-- closing at tick `t` is justified: every member is reported executed at `t`; the only exception is a member that
    was reported executed at an earlier tick AND is not asked about at `t` at all (`askedAt` = the members the closing
    sweep asked about) — a member that is asked at `t` and answers pending or error forbids closing -/
def ClosedOk (script : List (List Ans)) (t : Nat) (askedAt : List Nat) : Prop :=
  match script[t]? with
  | some v => ∀ j, j < v.length →
      (v[j]? = some Ans.exec ∨ (seenExecBefore script t j = true ∧ j ∉ askedAt))
  | none => False

instance (script : List (List Ans)) (t : Nat) (askedAt : List Nat) : Decidable (ClosedOk script t askedAt) := by
  unfold ClosedOk; split <;> infer_instance

/-- PWatch: the session is closed as executed at tick `t` only if every member has been reported executed by then
    (so a member that is still pending, or whose lookups have only failed, is never dropped), and it is not kept open
    past a tick at which all members are reported executed -/
def PWatch (script : List (List Ans)) (closed : Option Nat) (askedAt : List Nat) : Prop :=
  match closed with
  | some t => ClosedOk script t askedAt ∧ ∀ t' < t, ¬ AllExecAt script t'
  | none   => ∀ t' < script.length, ¬ AllExecAt script t'

instance (script : List (List Ans)) (closed : Option Nat) (askedAt : List Nat) :
    Decidable (PWatch script closed askedAt) := by
  unfold PWatch; split <;> infer_instance

/-- ticks that happen BEFORE the signature of a session arrives do not change what is submitted: if the session was
    not closed as executed by then, the submission is exactly the signed batch (the batch is never edited) -/
def submitAfterTicks (script : List (List Ans)) (signed : List Nat) : List (List Nat) :=
  match watch script with
  | some _ => []
  | none   => submitted signed

/-! ### histories -/

/-- EVM / Substrate: the destination's executed set only grows -/
inductive Op
  | deliver (ns : List Nat) (failAt : Option Nat)   -- failAt = index of the lookup that fails
  | execute (ns : List Nat)
deriving Repr

/-- the answers the destination gives to a delivery when `ex` are executed -/
def answersFrom (ex : List Nat) (failAt : Option Nat) : Nat → List Nat → Delivery
  | _, [] => []
  | i, n :: r => (n, if failAt = some i then .err else if n ∈ ex then .exec else .notExec) :: answersFrom ex failAt (i+1) r

def answers (ex : List Nat) (ns : List Nat) (failAt : Option Nat) : Delivery := answersFrom ex failAt 0 ns

/-- run a history; yields, per delivery: the executed set at that time, the delivered nonces, the failing
    lookup (if any) and the outcome -/
def runHist (exec : Delivery → Out) : List Nat → List Op → List (List Nat × List Nat × Option Nat × Out)
  | _, [] => []
  | ex, .deliver ns f :: r => (ex, ns, f, exec (answers ex ns f)) :: runHist exec ex r
  | ex, .execute ns :: r => runHist exec (ns ++ ex) r

/-- BTC -/
inductive BOp
  | deliver (ns : List Nat) (faults : List Bool)
  | outcome (ok : Bool) (ns : List Nat) (faults : List Bool)   -- storeProposalsStatus(executed | failed)
  | timeout (ns : List Nat)            -- a session holding `ns` hits its signing time-out: nothing is recorded
deriving Repr

/-- the operation does not concern record `k`: a delivery that does not contain it, an outcome recording that does
    not list it, a time-out -/
def BOp.quietFor (k : Nat) : BOp → Bool
  | .deliver ns _ => !ns.contains k
  | .outcome _ ns _ => !ns.contains k
  | .timeout _ => true

/-- no outcome recording in the list names record `k` -/
def BOp.noOutcomeFor (k : Nat) : BOp → Bool
  | .outcome _ ns _ => !ns.contains k
  | _ => true

/-- per delivery: the status map before it, the fault stream, the delivery, the outcome; and the final map -/
def runBtc (res : Nat → Nat) : List (Nat × Status) → List BOp → List (Store × List Nat × Out) × List (Nat × Status)
  | m, [] => ([], m)
  | m, .deliver ns f :: r =>
    let (o, s') := btc res ⟨m, f⟩ ns
    let (l, mf) := runBtc res s'.m r
    ((⟨m, f⟩, ns, o) :: l, mf)
  | m, .outcome ok ns f :: r =>
    runBtc res (storeStatus ⟨m, f⟩ ns (if ok then .executed else .failed)).m r
  | m, .timeout _ :: r => runBtc res m r

end Sygma.C03
