/-
  Executable SHA-256 (FIPS 180-4), core Lean only. Nothing is proved about it; it is validated against Go's
  crypto/sha256 on every run (op `C13 sha256`). Theorems of Props/C13 quantify over an arbitrary hash function.
-/
import SygmaModel.Base
namespace Sygma.Sha256

def K : Array UInt32 := #[
  0x428a2f98, 0x71374491, 0xb5c0fbcf, 0xe9b5dba5, 0x3956c25b, 0x59f111f1, 0x923f82a4, 0xab1c5ed5,
  0xd807aa98, 0x12835b01, 0x243185be, 0x550c7dc3, 0x72be5d74, 0x80deb1fe, 0x9bdc06a7, 0xc19bf174,
  0xe49b69c1, 0xefbe4786, 0x0fc19dc6, 0x240ca1cc, 0x2de92c6f, 0x4a7484aa, 0x5cb0a9dc, 0x76f988da,
  0x983e5152, 0xa831c66d, 0xb00327c8, 0xbf597fc7, 0xc6e00bf3, 0xd5a79147, 0x06ca6351, 0x14292967,
  0x27b70a85, 0x2e1b2138, 0x4d2c6dfc, 0x53380d13, 0x650a7354, 0x766a0abb, 0x81c2c92e, 0x92722c85,
  0xa2bfe8a1, 0xa81a664b, 0xc24b8b70, 0xc76c51a3, 0xd192e819, 0xd6990624, 0xf40e3585, 0x106aa070,
  0x19a4c116, 0x1e376c08, 0x2748774c, 0x34b0bcb5, 0x391c0cb3, 0x4ed8aa4a, 0x5b9cca4f, 0x682e6ff3,
  0x748f82ee, 0x78a5636f, 0x84c87814, 0x8cc70208, 0x90befffa, 0xa4506ceb, 0xbef9a3f7, 0xc67178f2]

def H0 : Array UInt32 := #[0x6a09e667, 0xbb67ae85, 0x3c6ef372, 0xa54ff53a, 0x510e527f, 0x9b05688c, 0x1f83d9ab, 0x5be0cd19]

@[inline] def rotr (x : UInt32) (n : UInt32) : UInt32 := (x >>> n) ||| (x <<< (32 - n))

def word (b : Bytes) : UInt32 := b.foldl (fun a x => (a <<< 8) ||| x.toUInt32) 0

/-- one 64-byte block -/
def compress (h : Array UInt32) (blk : Bytes) : Array UInt32 := Id.run do
  let mut w : Array UInt32 := Array.replicate 64 0
  let mut rest := blk
  for i in [0:16] do
    w := w.set! i (word (rest.take 4))
    rest := rest.drop 4
  for i in [16:64] do
    let x := w[i-15]!
    let y := w[i-2]!
    let s0 := rotr x 7 ^^^ rotr x 18 ^^^ (x >>> 3)
    let s1 := rotr y 17 ^^^ rotr y 19 ^^^ (y >>> 10)
    w := w.set! i (w[i-16]! + s0 + w[i-7]! + s1)
  let mut a := h[0]!; let mut b := h[1]!; let mut c := h[2]!; let mut d := h[3]!
  let mut e := h[4]!; let mut f := h[5]!; let mut g := h[6]!; let mut hh := h[7]!
  for i in [0:64] do
    let s1 := rotr e 6 ^^^ rotr e 11 ^^^ rotr e 25
    let ch := (e &&& f) ^^^ ((~~~ e) &&& g)
    let t1 := hh + s1 + ch + K[i]! + w[i]!
    let s0 := rotr a 2 ^^^ rotr a 13 ^^^ rotr a 22
    let mj := (a &&& b) ^^^ (a &&& c) ^^^ (b &&& c)
    let t2 := s0 + mj
    hh := g; g := f; f := e; e := d + t1; d := c; c := b; b := a; a := t1 + t2
  return #[h[0]! + a, h[1]! + b, h[2]! + c, h[3]! + d, h[4]! + e, h[5]! + f, h[6]! + g, h[7]! + hh]

def blocks (h : Array UInt32) (msg : Bytes) : Nat → Array UInt32
  | 0 => h
  | fuel + 1 => if msg.length < 64 then h else blocks (compress h (msg.take 64)) (msg.drop 64) fuel

def be8 (n : Nat) : Bytes := (List.range 8).reverse.map fun i => UInt8.ofNat (n / 256 ^ i % 256)

def wordBytes (x : UInt32) : Bytes := [(x >>> 24).toUInt8, (x >>> 16).toUInt8, (x >>> 8).toUInt8, x.toUInt8]

def sha256 (msg : Bytes) : Bytes :=
  let l := msg.length
  let padLen := (119 - l % 64) % 64   -- number of zero bytes so that l + 1 + padLen + 8 ≡ 0 (mod 64)
  let padded := msg ++ [0x80] ++ List.replicate padLen 0 ++ be8 (l * 8)
  let h := blocks H0 padded (padded.length / 64 + 1)
  wordBytes h[0]! ++ wordBytes h[1]! ++ wordBytes h[2]! ++ wordBytes h[3]! ++
  wordBytes h[4]! ++ wordBytes h[5]! ++ wordBytes h[6]! ++ wordBytes h[7]!

end Sygma.Sha256
