/-
  C20 (durations) — `time.ParseDuration` on texts made of integer terms: `[+-]? (digits unit)+` or `[+-]?0`.
  Fractions (`1.5s`) are not modelled. uint64 arithmetic written out (`% 2^64`). Core Lean only.
-/
import SygmaModel.Base
namespace Sygma.C20

inductive DUnit where
  | ns | us | ms | s | m | h
deriving DecidableEq, Repr

def DUnit.nanos : DUnit → Nat
  | .ns => 1 | .us => 1000 | .ms => 1000000 | .s => 1000000000 | .m => 60000000000 | .h => 3600000000000

/-- the loop of `ParseDuration` over the terms, `d` = the uint64 accumulator; `none` = error -/
def durGo (d : Nat) : List (Nat × DUnit) → Option Nat
  | [] => some d
  | (v, u) :: ts =>
    if v > 2 ^ 63 then none                       -- leadingInt overflow
    else if v > 2 ^ 63 / u.nanos then none        -- `v > 1<<63/unit`
    else
      let d' := (d + v * u.nanos) % 2 ^ 64        -- `d += v` in uint64
      if d' > 2 ^ 63 then none else durGo d' ts

/-- `time.ParseDuration` of `[sign] term…` (at least one term); the result in nanoseconds -/
def parseDur (neg : Bool) (terms : List (Nat × DUnit)) : Option Int :=
  if terms = [] then none else
  match durGo 0 terms with
  | none => none
  | some d => if neg then some (-(d : Int)) else if d > 2 ^ 63 - 1 then none else some (d : Int)

/-- what was written, as a number of nanoseconds -/
def durTotal : List (Nat × DUnit) → Nat
  | [] => 0
  | (v, u) :: ts => v * u.nanos + durTotal ts

/-- the written total fits a time.Duration (int64 nanoseconds; the most negative value included) -/
def durValid (neg : Bool) (terms : List (Nat × DUnit)) : Bool :=
  terms != [] && (if neg then decide (durTotal terms ≤ 2 ^ 63) else decide (durTotal terms ≤ 2 ^ 63 - 1))

/-- **P20 (durations)** on any candidate outcome: an accepted duration is the signed sum of the written terms, and a
    duration that fits int64 nanoseconds is accepted -/
def PDur (neg : Bool) (terms : List (Nat × DUnit)) (out : Option Int) : Bool :=
  match out with
  | none => !durValid neg terms          -- a duration that fits must be accepted
  | some x => x == (if neg then -(durTotal terms : Int) else (durTotal terms : Int))

end Sygma.C20
