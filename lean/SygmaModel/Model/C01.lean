/-
  C01 — deposit handlers, messages, destination message handlers (byte level).
  Transliterations of
    chains/evm/listener/depositHandlers/{erc20,erc721,erc1155,permissionless,deposit-handler}.go
    chains/substrate/listener/deposit-handler.go     chains/btc/listener/deposit-handler.go
    chains/evm/executor/message-handler.go           chains/substrate/executor/message-handler.go
    chains/btc/executor/message-handler.go
  plus the independent reference wire formats (`Src.*`, `Canon.*`) and the executable property predicate `P01`.
  Core Lean only.

  Conventions: Go slice expressions are checked against `len` (the harness hands the handlers slices with cap = len);
  every byte string is shorter than 2^63, so `64 + int64(len)` style index arithmetic cannot wrap once the first slice
  expression has succeeded (a wrapped, negative index panics exactly like the unwrapped, too large one).
-/
import SygmaModel.Base
namespace Sygma.C01

inductive Outcome (α : Type) where
  | ok (a : α)
  | err
  | panic
deriving DecidableEq, Repr

/-- `OPTIONAL_REVERT_GAS` (erc20.go); re-extracted from the source by sygx and compared in Oblig/C01 -/
def optionalRevertGas : Nat := 100000

/-- `big.Int.Int64()` of a non-negative value, when the result is non-negative (`none`: the int64 is negative) -/
def int64Len (w : Bytes) : Option Nat :=
  let m := beToNat w % 2 ^ 64
  if m < 2 ^ 63 then some m else none

inductive TType where
  | fungible | semiFungible | nonFungible | permissionedGeneric | permissionlessGeneric
deriving DecidableEq, Repr

inductive PItem where
  | bytes (b : Bytes)
  | ints (xs : List Nat)
deriving DecidableEq, Repr

/-- the identity of a transfer: origin domain, destination domain, deposit nonce, resource id -/
structure Ident where
  src : Nat
  dst : Nat
  nonce : Nat
  rid : Bytes
deriving DecidableEq, Repr

structure Msg where
  id : Ident
  typ : TType
  payload : List PItem
  gas : Option Nat          -- `Metadata["gasLimit"]`
deriving DecidableEq, Repr

inductive PData where
  | evm (data : Bytes)                       -- `TransferProposalData.Data` (EVM and Substrate destinations)
  | btc (amount : Nat) (recipient : Bytes)   -- `BtcTransferProposalData`
deriving DecidableEq, Repr

structure Proposal where
  id : Ident
  data : PData
  gas : Option Nat
deriving DecidableEq, Repr

/-! ## source side -/

/-- `Erc20DepositHandler.HandleDeposit` -/
def erc20Deposit (id : Ident) (cd resp : Bytes) : Outcome Msg :=
  if cd.length < 84 then .err else
  if 0 < resp.length ∧ resp.length < 32 then .panic else          -- handlerResponse[:32]
  let amount := if 0 < resp.length then resp.take 32 else cd.take 32
  match int64Len ((cd.drop 32).take 32) with
  | none => .panic
  | some rl =>
    match slice cd 64 (64 + rl) with
    | none => .panic
    | some recipient =>
      if 96 + rl < cd.length then
        let fee := beToNat ((cd.drop (64 + rl)).take 32)
        let maxFee := fee + optionalRevertGas
        -- copy(calldata[64+rl:96+rl], LeftPadBytes(maxFee.Bytes(), 32)) copies the first 32 bytes of its source
        let word := (leftPad 32 (natToBE maxFee)).take 32
        .ok ⟨id, .fungible, [.bytes amount, .bytes recipient, .bytes (word ++ cd.drop (96 + rl))], some (maxFee % 2 ^ 64)⟩
      else
        .ok ⟨id, .fungible, [.bytes amount, .bytes recipient], none⟩

/-- Substrate `SubstrateDepositHandler.HandleDeposit` + `FungibleTransferHandler`.
    `IntBytesToBigInt` decodes the length word as a signed 256-bit number; `.Int64()` of it equals the low 64 bits of the
    unsigned word read as int64 (2^256 ≡ 0 mod 2^64), which is what `int64Len` computes. -/
def subDeposit (id : Ident) (cd : Bytes) (transferType : Nat) : Outcome Msg :=
  if transferType ≠ 0 then .err else
  if cd.length < 84 then .err else
  match int64Len ((cd.drop 32).take 32) with
  | none => .panic
  | some rl =>
    match slice cd 64 (64 + rl) with
    | none => .panic
    | some recipient => .ok ⟨id, .fungible, [.bytes (cd.take 32), .bytes recipient], none⟩

/-- `Erc721DepositHandler.HandleDeposit` -/
def erc721Deposit (id : Ident) (cd : Bytes) : Outcome Msg :=
  if cd.length < 64 then .err else
  match int64Len ((cd.drop 32).take 32) with
  | none => .panic
  | some rl =>
    match slice cd 64 (64 + rl), slice cd (64 + rl) (96 + rl) with
    | some recipient, some mlw =>
      if beToNat mlw = 0 then
        .ok ⟨id, .nonFungible, [.bytes (cd.take 32), .bytes recipient, .bytes []], none⟩
      else
        match int64Len mlw with
        | none => .panic
        | some ml =>
          match slice cd (96 + rl) (96 + rl + ml) with
          | none => .panic
          | some md => .ok ⟨id, .nonFungible, [.bytes (cd.take 32), .bytes recipient, .bytes md], none⟩
    | _, _ => .panic

/-- `PermissionlessGenericDepositHandler.HandleDeposit` -/
def genericDeposit (id : Ident) (cd : Bytes) : Outcome Msg :=
  if cd.length < 76 then .err else
  let maxFee := cd.take 32
  let fsEnd := 34 + beToNat ((cd.drop 32).take 2)
  match slice cd 34 fsEnd, slice cd fsEnd (fsEnd + 1) with
  | some fs, some cal =>
    let caEnd := fsEnd + 1 + beToNat cal
    match slice cd (fsEnd + 1) caEnd, slice cd caEnd (caEnd + 1) with
    | some ca, some dl =>
      let dEnd := caEnd + 1 + beToNat dl
      match slice cd (caEnd + 1) dEnd with
      | some dep =>
        .ok ⟨id, .permissionlessGeneric, [.bytes fs, .bytes ca, .bytes maxFee, .bytes dep, .bytes (cd.drop dEnd)],
             some (beToNat maxFee % 2 ^ 64)⟩
      | none => .panic
    | _, _ => .panic
  | _, _ => .panic

/-! ### geth ABI codec restricted to `(uint256[], uint256[], bytes, bytes)` (accounts/abi/unpack.go, pack.go) -/

/-- `lengthPrefixPointsTo(index, output)`: start and length of a dynamic value; `none` = error -/
def abiLenPrefix (out : Bytes) (index : Nat) : Option (Nat × Nat) :=
  if out.length < index + 32 then none else
  let off := beToNat ((out.drop index).take 32) + 32
  if out.length < off then none else
  let len := beToNat ((out.drop (off - 32)).take 32)
  if out.length < off + len then none else some (off, len)

/-- `forEachUnpack` for `uint256` elements: `n` consecutive words (the loop advances by 32 bytes per element) -/
def words : Nat → Bytes → List Nat
  | 0, _ => []
  | n + 1, o => beToNat (o.take 32) :: words n (o.drop 32)

/-- `toGoType` of a `uint256[]` head slot -/
def abiUints (out : Bytes) (index : Nat) : Option (List Nat) :=
  match abiLenPrefix out index with
  | none => none
  | some (b, n) =>
    let o := out.drop b
    if o.length < 32 * n then none
    else some (words n o)

/-- `toGoType` of a `bytes` head slot -/
def abiBytes (out : Bytes) (index : Nat) : Option Bytes :=
  match abiLenPrefix out index with
  | none => none
  | some (b, n) => some ((out.drop b).take n)

structure Semi where
  ids : List Nat
  amounts : List Nat
  recipient : Bytes
  data : Bytes
deriving DecidableEq, Repr

/-- `Arguments.UnpackValues` for the ERC1155 tuple -/
def abiDecode1155 (cd : Bytes) : Option Semi :=
  match abiUints cd 0, abiUints cd 32, abiBytes cd 64, abiBytes cd 96 with
  | some a, some b, some c, some d => some ⟨a, b, c, d⟩
  | _, _, _, _ => none

def encUints (xs : List Nat) : Bytes := pad32 xs.length ++ xs.flatMap (fun x => pad32 (x % 2 ^ 256))

def ceil32 (n : Nat) : Nat := (n + 31) / 32 * 32

def encBytes (b : Bytes) : Bytes := pad32 b.length ++ rightPad (ceil32 b.length) b

/-- `Arguments.PackValues` for the ERC1155 tuple: four offsets, then the four tails in order -/
def abiEncode1155 (v : Semi) : Bytes :=
  let p0 := encUints v.ids
  let p1 := encUints v.amounts
  let p2 := encBytes v.recipient
  let p3 := encBytes v.data
  pad32 128 ++ pad32 (128 + p0.length) ++ pad32 (128 + p0.length + p1.length)
    ++ pad32 (128 + p0.length + p1.length + p2.length) ++ p0 ++ p1 ++ p2 ++ p3

/-- `Erc1155DepositHandler.HandleDeposit` -/
def erc1155Deposit (id : Ident) (cd : Bytes) : Outcome Msg :=
  match abiDecode1155 cd with
  | none => .err
  | some v => .ok ⟨id, .semiFungible, [.ints v.ids, .ints v.amounts, .bytes v.recipient, .bytes v.data], none⟩

/-! ### Bitcoin source -/

def splitBy (sep : UInt8) : Bytes → List Bytes
  | [] => [[]]
  | x :: xs =>
    if x = sep then [] :: splitBy sep xs
    else match splitBy sep xs with
      | [] => [[x]]
      | p :: ps => (x :: p) :: ps

def hexNib (c : UInt8) : Option Nat :=
  if 48 ≤ c.toNat ∧ c.toNat ≤ 57 then some (c.toNat - 48)
  else if 97 ≤ c.toNat ∧ c.toNat ≤ 102 then some (c.toNat - 87)
  else if 65 ≤ c.toNat ∧ c.toNat ≤ 70 then some (c.toNat - 55)
  else none

/-- Go `hex.DecodeString` as used by `common.Hex2Bytes` (error ignored): the bytes decoded before the first bad pair -/
def hexLenient : Bytes → Bytes
  | a :: b :: rest =>
    match hexNib a, hexNib b with
    | some x, some y => UInt8.ofNat (x * 16 + y) :: hexLenient rest
    | _, _ => []
  | _ => []

/-- `common.FromHex`: strip `0x`/`0X`, left-pad an odd number of digits with '0', decode leniently -/
def strip0x : Bytes → Bytes
  | 48 :: 120 :: r => r
  | 48 :: 88 :: r => r
  | s => s

def fromHexGo (s : Bytes) : Bytes :=
  let s := strip0x s
  hexLenient (if s.length % 2 = 1 then 48 :: s else s)

/-- `common.BytesToAddress(b).Bytes()` -/
def bytesToAddress (b : Bytes) : Bytes :=
  leftPad 20 (if 20 < b.length then b.drop (b.length - 20) else b)

def decValue (s : Bytes) : Nat := s.foldl (fun a c => a * 10 + (c.toNat - 48)) 0

/-- `strconv.ParseUint(s, 10, 8)` -/
def parseUint8 (s : Bytes) : Option Nat :=
  if s ≠ [] ∧ s.all (fun c => 48 ≤ c.toNat ∧ c.toNat ≤ 57) ∧ decValue s < 256 then some (decValue s) else none

/-- `BtcDepositHandler.HandleDeposit` (the destination domain comes from the OP_RETURN text) -/
def btcDeposit (src nonce : Nat) (rid : Bytes) (sat : Nat) (text : Bytes) : Outcome Msg :=
  match splitBy 95 text with
  | p0 :: p1 :: _ =>
    match parseUint8 p1 with
    | none => .err
    | some d => .ok ⟨⟨src, d, nonce, rid⟩, .fungible, [.bytes (natToBE (sat * 10 ^ 10)), .bytes (bytesToAddress (fromHexGo p0))], none⟩
  | _ => .panic                                                  -- parsedData[1] out of range

/-! ## destination side -/

def fungibleData (a r : Bytes) : Bytes := leftPad 32 a ++ pad32 r.length ++ r

/-- EVM `TransferMessageHandler.HandleMessage` -/
def evmHandle (m : Msg) : Outcome Proposal :=
  match m.typ, m.payload with
  | .fungible, [.bytes a, .bytes r] => .ok ⟨m.id, .evm (fungibleData a r), m.gas⟩
  | .fungible, [.bytes a, .bytes r, .bytes o] => .ok ⟨m.id, .evm (fungibleData a r ++ o), m.gas⟩
  | .fungible, _ => .err
  | .nonFungible, [.bytes t, .bytes r, .bytes md] =>
    .ok ⟨m.id, .evm (leftPad 32 t ++ pad32 r.length ++ r ++ pad32 md.length ++ md), m.gas⟩
  | .nonFungible, _ => .err
  | .semiFungible, [.ints ids, .ints ams, .bytes r, .bytes d] =>
    if r.length ≠ 20 then .err else .ok ⟨m.id, .evm (abiEncode1155 ⟨ids, ams, r, d⟩), m.gas⟩
  | .semiFungible, _ => .err
  | .permissionedGeneric, [.bytes md] => .ok ⟨m.id, .evm (pad32 md.length ++ md), m.gas⟩
  | .permissionedGeneric, _ => .err
  | .permissionlessGeneric, [.bytes fs, .bytes ca, .bytes fee, .bytes dep, .bytes ex] =>
    .ok ⟨m.id, .evm (leftPad 32 fee ++ leftPad 2 (natToBE fs.length) ++ fs
                      ++ [UInt8.ofNat ca.length] ++ ca ++ [UInt8.ofNat dep.length] ++ dep ++ ex), m.gas⟩
  | .permissionlessGeneric, p => if p.length < 5 then .panic else .err

/-- Substrate `SubstrateMessageHandler.HandleMessage` -/
def subHandle (m : Msg) : Outcome Proposal :=
  match m.typ, m.payload with
  | .fungible, [.bytes a, .bytes r] => .ok ⟨m.id, .evm (fungibleData a r), m.gas⟩
  | _, _ => .err

/-- Bitcoin `FungibleMessageHandler.HandleMessage` -/
def btcHandle (m : Msg) : Outcome Proposal :=
  match m.typ, m.payload with
  | .fungible, [.bytes a, .bytes r] =>
    -- (after `fix:` 97b0590) an amount that does not fit uint64 after the ÷10^10 rescaling is refused, not truncated
    if beToNat a / 10 ^ 10 < 2 ^ 64 then .ok ⟨m.id, .btc (beToNat a / 10 ^ 10) r, none⟩ else .err
  | _, _ => .err

/-! ## the relay pipeline as the driver runs it -/

inductive SrcKind where | erc20 | erc721 | erc1155 | generic | sub | btc
deriving DecidableEq, Repr

inductive DstKind where | evm | sub | btc
deriving DecidableEq, Repr

/-- one relay request: `a1`/`a2` are calldata/handler response (EVM), calldata/transfer type (Substrate),
    satoshi/OP_RETURN text (Bitcoin) -/
structure Input where
  sk : SrcKind
  dk : DstKind
  id : Ident
  cd : Bytes
  resp : Bytes
  num : Nat     -- transfer type (Substrate) or satoshi (Bitcoin)
deriving Repr

inductive Out where
  | ok (p : Proposal)
  | errSrc | panicSrc | errDst | panicDst
deriving DecidableEq, Repr

def source (i : Input) : Outcome Msg :=
  match i.sk with
  | .erc20 => erc20Deposit i.id i.cd i.resp
  | .erc721 => erc721Deposit i.id i.cd
  | .erc1155 => erc1155Deposit i.id i.cd
  | .generic => genericDeposit i.id i.cd
  | .sub => subDeposit i.id i.cd i.num
  | .btc => btcDeposit i.id.src i.id.nonce i.id.rid i.num i.cd

def dest (k : DstKind) (m : Msg) : Outcome Proposal :=
  match k with
  | .evm => evmHandle m
  | .sub => subHandle m
  | .btc => btcHandle m

def relay (i : Input) : Out :=
  match source i with
  | .err => .errSrc
  | .panic => .panicSrc
  | .ok m =>
    match dest i.dk m with
    | .err => .errDst
    | .panic => .panicDst
    | .ok p => .ok p

/-- a message handed directly to a destination handler (the driver's `msg` op) -/
def destOut (k : DstKind) (m : Msg) : Out :=
  match dest k m with
  | .ok p => .ok p
  | .err => .errDst
  | .panic => .panicDst

/-! ## reference wire formats (written from the Sygma handler formats, independent of the code above) -/

/-- a fungible deposit as the depositor meant it -/
structure Fungible where
  amount : Nat
  recipient : Bytes
  opt : Option (Nat × Bytes)      -- optional message: fee limit word, then the rest of the message
deriving DecidableEq, Repr

namespace Src

def optTail : Option (Nat × Bytes) → Bytes
  | none => []
  | some (fee, rest) => pad32 fee ++ rest

/-- ERC20/native handler deposit data: amount ‖ len(recipient) ‖ recipient ‖ [fee ‖ message] -/
def fungible (d : Fungible) : Bytes := pad32 d.amount ++ pad32 d.recipient.length ++ d.recipient ++ optTail d.opt

/-- ERC721 handler deposit data: tokenId ‖ len ‖ recipient ‖ len ‖ metadata -/
def nft (token : Nat) (recipient md : Bytes) : Bytes :=
  pad32 token ++ pad32 recipient.length ++ recipient ++ pad32 md.length ++ md

/-- permissionless generic handler deposit data -/
def generic (fee : Nat) (fs ca dep ex : Bytes) : Bytes :=
  pad32 fee ++ [UInt8.ofNat (fs.length / 256), UInt8.ofNat (fs.length % 256)] ++ fs
    ++ [UInt8.ofNat ca.length] ++ ca ++ [UInt8.ofNat dep.length] ++ dep ++ ex

def hexDigit (n : Nat) : UInt8 := if n < 10 then UInt8.ofNat (48 + n) else UInt8.ofNat (87 + n)

def hexBytes : Bytes → Bytes
  | [] => []
  | x :: xs => hexDigit (x.toNat / 16) :: hexDigit (x.toNat % 16) :: hexBytes xs

/-- decimal text of a domain id (< 256), no leading zeros -/
def dec3 (d : Nat) : Bytes :=
  if d < 10 then [UInt8.ofNat (48 + d)]
  else if d < 100 then [UInt8.ofNat (48 + d / 10), UInt8.ofNat (48 + d % 10)]
  else [UInt8.ofNat (48 + d / 100), UInt8.ofNat (48 + d / 10 % 10), UInt8.ofNat (48 + d % 10)]

/-- Bitcoin OP_RETURN text: `0x<40 lower-case hex digits>_<destination domain id>` -/
def btcText (addr : Bytes) (dst : Nat) : Bytes := [48, 120] ++ hexBytes addr ++ [95] ++ dec3 dst

/-- strict, case-insensitive hex decoding: every character must be a hex digit (reference; the code's decoder is lenient) -/
def hexStrict : Bytes → Option Bytes
  | [] => some []
  | [_] => none
  | a :: b :: rest =>
    match hexNib a, hexNib b, hexStrict rest with
    | some x, some y, some r => some (UInt8.ofNat (x * 16 + y) :: r)
    | _, _, _ => none

/-- the Bitcoin OP_RETURN text as a RELATION: `<EVM address>_<destination domain>` where the address is 40 hex digits of
    either case with an optional `0x`/`0X`, and the domain is a decimal uint8 (leading zeros allowed). Returns the
    20 address bytes and the domain. (`Src.btcText` is the canonical spelling of the same pair.) -/
def parseBtcText (text : Bytes) : Option (Bytes × Nat) :=
  match splitBy 95 text with
  | [p0, p1] =>
    match hexStrict (strip0x p0) with
    | some addr =>
      if addr.length = 20 ∧ p1 ≠ [] ∧ p1.all (fun c => 48 ≤ c.toNat ∧ c.toNat ≤ 57) = true ∧ decValue p1 < 256
      then some (addr, decValue p1) else none
    | none => none
  | _ => none

end Src

namespace Canon

/-- destination ERC721 handler data -/
def nft (token : Nat) (recipient md : Bytes) : Bytes :=
  pad32 token ++ pad32 recipient.length ++ recipient ++ pad32 md.length ++ md

/-- destination permissionless generic handler data -/
def generic (fee : Nat) (fs ca dep ex : Bytes) : Bytes :=
  pad32 fee ++ leftPad 2 (natToBE fs.length) ++ fs ++ [UInt8.ofNat ca.length] ++ ca ++ [UInt8.ofNat dep.length] ++ dep ++ ex


/-- destination ERC20 handler data; the fee limit of an optional message gains the revert-gas allowance -/
def evmFungible (amount : Nat) (recipient : Bytes) (opt : Option (Nat × Bytes)) : Bytes :=
  pad32 amount ++ pad32 recipient.length ++ recipient ++ Src.optTail (opt.map fun x => (x.1 + 100000, x.2))

def subFungible (amount : Nat) (recipient : Bytes) : Bytes := pad32 amount ++ pad32 recipient.length ++ recipient

end Canon

def Fungible.WF (d : Fungible) : Prop :=
  d.amount < 2 ^ 256 ∧ d.recipient.length < 2 ^ 63 ∧
  match d.opt with
  | none => 84 ≤ 64 + d.recipient.length                       -- the handler's minimum calldata length
  | some (fee, rest) => fee + 100000 < 2 ^ 256 ∧ rest ≠ [] ∧ 84 ≤ 64 + d.recipient.length + 32 + rest.length

instance (d : Fungible) : Decidable d.WF := by
  unfold Fungible.WF
  cases d.opt with
  | none => infer_instance
  | some x => cases x; infer_instance

def NftWF (token : Nat) (r md : Bytes) : Prop := token < 2 ^ 256 ∧ r.length < 2 ^ 63 ∧ md.length < 2 ^ 63

instance (t : Nat) (r md : Bytes) : Decidable (NftWF t r md) := by unfold NftWF; infer_instance

def GenericWF (fee : Nat) (fs ca dep ex : Bytes) : Prop :=
  fee < 2 ^ 256 ∧ fs.length < 65536 ∧ ca.length < 256 ∧ dep.length < 256 ∧
  76 ≤ 36 + fs.length + ca.length + dep.length + ex.length   -- the handler's minimum calldata length

instance (fee : Nat) (fs ca dep ex : Bytes) : Decidable (GenericWF fee fs ca dep ex) := by unfold GenericWF; infer_instance

/-- ERC1155: values are words, the recipient is an EVM address -/
def Semi.WF (v : Semi) : Prop :=
  (∀ x ∈ v.ids, x < 2 ^ 256) ∧ (∀ x ∈ v.amounts, x < 2 ^ 256) ∧ v.recipient.length = 20 ∧
  v.ids.length < 2 ^ 63 ∧ v.amounts.length < 2 ^ 63 ∧ v.data.length < 2 ^ 63

instance (v : Semi) : Decidable v.WF := by unfold Semi.WF; infer_instance

/-- fungible deposit data (no optional message) followed by arbitrary trailing bytes, at least the handler's 84 bytes in all -/
def TailWF (d0 : Fungible) (t : Bytes) : Prop :=
  d0.amount < 2 ^ 256 ∧ d0.recipient.length < 2 ^ 63 ∧ d0.opt = none ∧ 84 ≤ 64 + d0.recipient.length + t.length

instance (d0 : Fungible) (t : Bytes) : Decidable (TailWF d0 t) := by unfold TailWF; infer_instance

/-- fungible deposit data followed by 1..32 stray bytes -/
def ShortTailWF (d0 : Fungible) (t : Bytes) : Prop :=
  d0.amount < 2 ^ 256 ∧ d0.recipient.length < 2 ^ 63 ∧ d0.opt = none ∧ 1 ≤ t.length ∧ t.length ≤ 32 ∧
  84 ≤ 64 + d0.recipient.length + t.length

instance (d0 : Fungible) (t : Bytes) : Decidable (ShortTailWF d0 t) := by unfold ShortTailWF; infer_instance

/-- handler response: absent, or at least one word whose first word is the converted amount -/
def RespWF (resp : Bytes) : Prop := resp = [] ∨ 32 ≤ resp.length

instance (r : Bytes) : Decidable (RespWF r) := by unfold RespWF; infer_instance

/-- "a handler-reported amount replaces the calldata amount" -/
def effAmount (amount : Nat) (resp : Bytes) : Nat := if resp = [] then amount else beToNat (resp.take 32)

/-- reference parser for fungible deposit data (only used to *find* the deposit; `expected` re-checks `Src.fungible d = cd`) -/
def parseFungible (cd : Bytes) : Fungible :=
  let n := beToNat ((cd.drop 32).take 32)
  let tail := cd.drop (64 + n)
  ⟨beToNat (cd.take 32), (cd.drop 64).take n, if tail = [] then none else some (beToNat (tail.take 32), tail.drop 32)⟩

def gasOfOpt (opt : Option (Nat × Bytes)) : Option Nat := opt.map fun x => (x.1 + 100000) % 2 ^ 64

/-- what C01 demands of a relay request, `none` when the request is not a well-formed deposit for its pair
    (then the property says nothing about it) -/
def expected (i : Input) : Option Out :=
  match i.sk with
  | .erc20 =>
    let d := parseFungible i.cd
    if Src.fungible d = i.cd ∧ d.WF ∧ RespWF i.resp then
      let a := effAmount d.amount i.resp
      match i.dk with
      | .evm => some (.ok ⟨i.id, .evm (Canon.evmFungible a d.recipient d.opt), gasOfOpt d.opt⟩)
      -- an optional message cannot be delivered to Substrate / Bitcoin, an amount beyond uint64 satoshi cannot be paid:
      -- the destination handler refuses, no proposal is prepared
      | .sub => if d.opt = none then some (.ok ⟨i.id, .evm (Canon.subFungible a d.recipient), none⟩) else some .errDst
      | .btc =>
        if d.opt = none then
          if a / 10 ^ 10 < 2 ^ 64 then some (.ok ⟨i.id, .btc (a / 10 ^ 10) d.recipient, none⟩) else some .errDst
        else some .errDst
    else
      -- a tail of 1..32 bytes cannot hold a fee word and a message byte: it is not an optional message and is ignored
      let n := beToNat ((i.cd.drop 32).take 32)
      let d0 : Fungible := ⟨beToNat (i.cd.take 32), (i.cd.drop 64).take n, none⟩
      let t := i.cd.drop (64 + n)
      if Src.fungible d0 ++ t = i.cd ∧ ShortTailWF d0 t ∧ RespWF i.resp then
        let a := effAmount d0.amount i.resp
        match i.dk with
        | .evm => some (.ok ⟨i.id, .evm (Canon.evmFungible a d0.recipient none), none⟩)
        | .sub => some (.ok ⟨i.id, .evm (Canon.subFungible a d0.recipient), none⟩)
        | .btc => if a / 10 ^ 10 < 2 ^ 64 then some (.ok ⟨i.id, .btc (a / 10 ^ 10) d0.recipient, none⟩) else some .errDst
      else none
  | .sub =>
    -- the recipient is exactly the bytes the length word delimits; whatever follows it (padding to a word, stray bytes) is
    -- not part of the deposit and is dropped
    let n := beToNat ((i.cd.drop 32).take 32)
    let d0 : Fungible := ⟨beToNat (i.cd.take 32), (i.cd.drop 64).take n, none⟩
    let t := i.cd.drop (64 + n)
    if Src.fungible d0 ++ t = i.cd ∧ TailWF d0 t ∧ i.num = 0 then
      match i.dk with
      | .evm => some (.ok ⟨i.id, .evm (Canon.evmFungible d0.amount d0.recipient none), none⟩)
      | .sub => some (.ok ⟨i.id, .evm (Canon.subFungible d0.amount d0.recipient), none⟩)
      | .btc => if d0.amount / 10 ^ 10 < 2 ^ 64 then some (.ok ⟨i.id, .btc (d0.amount / 10 ^ 10) d0.recipient, none⟩) else some .errDst
    else none
  | .erc721 =>
    let n := beToNat ((i.cd.drop 32).take 32)
    let m := beToNat ((i.cd.drop (64 + n)).take 32)
    let token := beToNat (i.cd.take 32)
    let r := (i.cd.drop 64).take n
    let md := (i.cd.drop (96 + n)).take m
    -- bytes after the metadata are not part of the deposit and are dropped
    if Src.nft token r md ++ i.cd.drop (96 + n + m) = i.cd ∧ NftWF token r md then
      -- only an EVM destination takes non-fungible transfers; the others refuse the message type
      if i.dk = .evm then some (.ok ⟨i.id, .evm (Canon.nft token r md), none⟩) else some .errDst
    else none
  | .generic =>
    let fl := beToNat ((i.cd.drop 32).take 2)
    let fs := (i.cd.drop 34).take fl
    let cl := beToNat ((i.cd.drop (34 + fl)).take 1)
    let ca := (i.cd.drop (35 + fl)).take cl
    let dl := beToNat ((i.cd.drop (35 + fl + cl)).take 1)
    let dep := (i.cd.drop (36 + fl + cl)).take dl
    let ex := i.cd.drop (36 + fl + cl + dl)
    let fee := beToNat (i.cd.take 32)
    if Src.generic fee fs ca dep ex = i.cd ∧ GenericWF fee fs ca dep ex then
      if i.dk = .evm then some (.ok ⟨i.id, .evm (Canon.generic fee fs ca dep ex), some (fee % 2 ^ 64)⟩) else some .errDst
    else none
  | .erc1155 =>
    match abiDecode1155 i.cd with
    | none => none
    | some v =>
      -- decode-based: whatever layout the depositor's ABI encoder chose (tail order, gaps), the values geth decodes are
      -- the deposit; the proposal carries their canonical encoding. A recipient that is not an EVM address is refused.
      if i.dk = .evm ∧ v.recipient.length = 20 then some (.ok ⟨i.id, .evm (abiEncode1155 v), none⟩) else some .errDst
  | .btc =>
    match Src.parseBtcText i.cd with
    | some (addr, dst) =>
      let id : Ident := ⟨i.id.src, dst, i.id.nonce, i.id.rid⟩
      match i.dk with
      | .evm => if i.num * 10 ^ 10 < 2 ^ 256 then some (.ok ⟨id, .evm (Canon.evmFungible (i.num * 10 ^ 10) addr none), none⟩) else none
      | .sub => if i.num * 10 ^ 10 < 2 ^ 256 then some (.ok ⟨id, .evm (Canon.subFungible (i.num * 10 ^ 10) addr), none⟩) else none
      | .btc => if i.num < 2 ^ 64 then some (.ok ⟨id, .btc i.num addr, none⟩) else some .errDst
    | none => none

/-- what C01 demands of a destination handler on a message whose fields fit the destination wire format: every length
    word / length byte carries the FULL length of the field that follows and the field bytes follow unaltered.
    `none`: the message does not fit the wire format (e.g. a 70000-byte function signature for a uint16 length field) —
    such a message cannot come out of a deposit handler; the model still says what the code does with it. -/
def expectedMsg (dk : DstKind) (m : Msg) : Option Out :=
  match dk, m.typ, m.payload with
  | .evm, .fungible, [.bytes a, .bytes r] =>
    if a.length = 32 then some (.ok ⟨m.id, .evm (Canon.subFungible (beToNat a) r), m.gas⟩) else none
  | .evm, .fungible, [.bytes a, .bytes r, .bytes o] =>
    if a.length = 32 then some (.ok ⟨m.id, .evm (Canon.subFungible (beToNat a) r ++ o), m.gas⟩) else none
  | .sub, .fungible, [.bytes a, .bytes r] =>
    if a.length = 32 then some (.ok ⟨m.id, .evm (Canon.subFungible (beToNat a) r), m.gas⟩) else none
  | .btc, .fungible, [.bytes a, .bytes r] =>
    if beToNat a / 10 ^ 10 < 2 ^ 64 then some (.ok ⟨m.id, .btc (beToNat a / 10 ^ 10) r, none⟩) else some .errDst
  | .evm, .nonFungible, [.bytes t, .bytes r, .bytes md] =>
    if t.length = 32 then some (.ok ⟨m.id, .evm (Canon.nft (beToNat t) r md), m.gas⟩) else none
  | .evm, .permissionlessGeneric, [.bytes fs, .bytes ca, .bytes fee, .bytes dep, .bytes ex] =>
    if fee.length = 32 ∧ fs.length < 65536 ∧ ca.length < 256 ∧ dep.length < 256 then
      some (.ok ⟨m.id, .evm (Src.generic (beToNat fee) fs ca dep ex), m.gas⟩) else none
  | .evm, .permissionedGeneric, [.bytes md] => some (.ok ⟨m.id, .evm (pad32 md.length ++ md), m.gas⟩)
  | .evm, .semiFungible, [.ints ids, .ints ams, .bytes r, .bytes d] =>
    if (⟨ids, ams, r, d⟩ : Semi).WF then some (.ok ⟨m.id, .evm (abiEncode1155 ⟨ids, ams, r, d⟩), m.gas⟩) else none
  | _, _, _ => none

def P01m (dk : DstKind) (m : Msg) (o : Out) : Prop :=
  match expectedMsg dk m with
  | none => True
  | some e => o = e

instance (dk : DstKind) (m : Msg) (o : Out) : Decidable (P01m dk m o) := by
  unfold P01m; cases expectedMsg dk m <;> infer_instance

/-- P01: a well-formed deposit yields exactly the expected proposal -/
def P01 (i : Input) (o : Out) : Prop :=
  match expected i with
  | none => True
  | some e => o = e

instance (i : Input) (o : Out) : Decidable (P01 i o) := by
  unfold P01; cases expected i <;> infer_instance

end Sygma.C01
