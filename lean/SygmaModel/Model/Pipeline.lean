/-
  Pipeline — composition of the modelled stages for an EVM destination:
  deposits (C01 `relay`) → delivery to the executor → batches and session ids (C14) → EIP-712 digests (C02).
  Definitions only (core Lean); the composition theorems are in Props/Pipeline.lean. No new behaviour is modelled
  here: every stage is the model the corresponding property's correspondence check runs against the real code.
-/
import SygmaModel.Model.C01
import SygmaModel.Model.C02
import SygmaModel.Model.C14
import SygmaModel.Model.C03
import SygmaModel.Model.C16
namespace Sygma.Pipeline

/-- a proposal as the hash sees it (`Source`, `DepositNonce`, `ResourceId`, `Data`) -/
def toProp' (p : C01.Proposal) : C02.Prop' :=
  ⟨p.id.src, p.id.nonce, p.id.rid, match p.data with | .evm d => d | .btc _ _ => []⟩

/-- one proposal of a delivery together with the destination's answer to `IsProposalExecuted` -/
structure Delivered where
  prop     : C01.Proposal
  executed : Bool

/-- the delivery as the batching loop sees it -/
def pins (ds : List Delivered) : List C14.PIn := ds.map fun d => ⟨d.prop.gas, d.executed⟩

/-- the proposals at the given positions of the delivery -/
def pick (ds : List Delivered) (idxs : List Nat) : List C02.Prop' :=
  idxs.filterMap fun i => (ds[i]?).map fun d => toProp' d.prop

/-- what the EVM executor hands to threshold signing for one delivery: per non-empty batch its session id and the
    digest over exactly that batch's proposals -/
def signedDigests (H : C02.Hash) (chain : Nat) (addr : Bytes) (cap tg : Nat) (msgId : String)
    (ds : List Delivered) : List (String × Bytes) :=
  (C14.signed msgId (C14.batches cap tg (pins ds))).map fun s =>
    (s.1, C02.Spec.digest H chain addr (pick ds s.2))

/-- the proposals committed to by the signed digests, batch by batch -/
def committed (cap tg : Nat) (msgId : String) (ds : List Delivered) : List (List C02.Prop') :=
  (C14.signed msgId (C14.batches cap tg (pins ds))).map fun s => pick ds s.2

/-! ### Substrate destination: one signing session over all not-yet-executed proposals of the delivery -/

/-- the delivery as the Substrate executor's loop sees it: position in the delivery and the pallet's answer
    (`none` = the executed-lookup failed) -/
def subDelivery (ds : List (C01.Proposal × Option Bool)) : C03.Delivery :=
  ds.zipIdx.map fun x => (x.2, match x.1.2 with | none => .err | some true => .exec | some false => .notExec)

/-- what the Substrate executor hands to threshold signing: at most one digest, over the session's proposals -/
def subSignedDigests (H : C02.Hash) (chain : Nat) (ds : List (C01.Proposal × Option Bool)) : List Bytes :=
  (C03.sub (subDelivery ds)).sessions.map fun idxs =>
    C02.Spec.digest H chain C02.palletContract (idxs.filterMap fun i => (ds[i]?).map fun d => toProp' d.1)

/-- the proposals committed to by the Substrate executor's digest(s) -/
def subCommitted (ds : List (C01.Proposal × Option Bool)) : List (List C02.Prop') :=
  (C03.sub (subDelivery ds)).sessions.map fun idxs => idxs.filterMap fun i => (ds[i]?).map fun d => toProp' d.1

/-! ### Bitcoin destination: the withdrawal transaction pays the relayed proposals -/

/-- the proposals of a delivery as the Bitcoin executor's `rawTx` sees them; `dec` is the address decoder
    (recipient bytes ↦ pay-to-address script, `none` = undecodable), a parameter -/
def btcPrps (dec : Bytes → Option Bytes) (ps : List C01.Proposal) : List C16.Prp :=
  ps.map fun p => match p.data with
    | .btc a r => ⟨a, dec r⟩
    | .evm _   => ⟨0, none⟩      -- not a Bitcoin proposal: never paid (no script)

/-- deposits observed in one range, relayed to an EVM destination: the deposits whose handlers succeed become the delivery -/
def deliver (ins : List (C01.Input × Bool)) : List Delivered :=
  ins.filterMap fun x => match C01.relay x.1 with
    | .ok p => some ⟨p, x.2⟩
    | _ => none

/-- the canonical proposal C01 demands for a well-formed deposit -/
def canon (i : C01.Input) : Option C01.Proposal :=
  match C01.expected i with
  | some (.ok e) => some e
  | _ => none

end Sygma.Pipeline
