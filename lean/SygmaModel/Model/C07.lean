/-
  C07 — who coordinates a session, who signs, and who is obeyed.  Executable model, core Lean only.

  What is modelled (Go → here):
  * `tss/util.SortPeersForSession` + `SortablePeerSlice.Less`   → `sortDesc key` (any peer type `α`, any key function;
      the driver instantiates `key p = BigEndian.Uint64(Keccak256(Pretty(p) ++ sessionID))`, `electionKey`)
  * `comm/elector/static.go: Coordinator`                        → `staticCoordinator`
  * `Signing.readyParticipants / Ready / StartParams` (ECDSA and FROST are the same text) → `readyParticipants`,
      `isReady`, `startParams`
  * `Coordinator.initiate` (ready-message loop)                  → `initiate` (fold over the arrival sequence)
  * `Coordinator.waitForStart` + `watchExecution` on a relayer that is not the coordinator → `runWait`
      (step machine over initiate / start / fail messages); `runWait2` keeps the coordinator known to waitForStart and
      the one known to watchExecution apart (they differ in a retried attempt)
  * the `InitiatePeriod` ticker of `initiate` → `Arr.tick` in `initiateT`
-/
import SygmaModel.Base
import SygmaModel.Model.C07Keccak
namespace Sygma.C07

/-! ### election order -/

section Order
variable {α : Type}

/-- `sort.Sort(SortablePeerSlice)`: descending by key. (Go's sort is not stable; with pairwise distinct keys the
    result is unique, which is the case the theorems cover — the collision point is stated separately. The executable
    instance is an insertion sort so that the kernel can evaluate the examples.) -/
def insDesc (key : α → Nat) (a : α) : List α → List α
  | [] => [a]
  | b :: l => if key b ≤ key a then a :: b :: l else b :: insDesc key a l

def sortDesc (key : α → Nat) (l : List α) : List α := l.foldr (insDesc key) []

/-- `Signing.ValidCoordinators()`: the key holders of the key share — the relayer's local view of the network (its
    libp2p peerstore) is an argument only to say that it is ignored -/
def validCoordinators (holders _peerstore : List α) : List α := holders

/-- static elector: first peer in election order; `none` models `peer.ID("")` for an empty list -/
def staticCoordinator (key : α → Nat) (l : List α) : Option α := (sortDesc key l).head?

end Order

/-! ### the coordinator's side: collecting ready messages, announcing the subset -/

section Initiate
variable {α : Type} [DecidableEq α]

structure ICfg (α : Type) where
  self     : α
  holders  : List α      -- `key.Peers`
  t        : Nat         -- `key.Threshold`
  excluded : List α

/-- `readyParticipants`: ready peers that hold a key share, in arrival order -/
def readyParticipants (holders rs : List α) : List α := rs.filter (fun p => decide (p ∈ holders))

/-- `Ready`: exactly threshold+1 ready key holders -/
def isReady (cfg : ICfg α) (rs : List α) : Bool := (readyParticipants cfg.holders rs).length == cfg.t + 1

/-- `StartParams`: the first threshold+1 ready key holders in election order -/
def startParams (key : α → Nat) (cfg : ICfg α) (rs : List α) : List α :=
  (sortDesc key (readyParticipants cfg.holders rs)).take (cfg.t + 1)

/-- the ready-message case of `initiate`: append unless excluded or already there -/
def addReady (cfg : ICfg α) (rs : List α) (p : α) : List α :=
  if p ∉ cfg.excluded ∧ p ∉ rs then rs ++ [p] else rs

/-- the loop of `initiate` from ready set `rs` after `n` messages: `some (messages taken, announced subset)` or
    `none` when the arrivals run out before `Ready` -/
def initiateFrom (key : α → Nat) (cfg : ICfg α) : List α → List α → Nat → Option (Nat × List α)
  | _, [], _ => none
  | rs, p :: ps, n =>
    let rs' := addReady cfg rs p
    if isReady cfg rs' then some (n + 1, startParams key cfg rs') else initiateFrom key cfg rs' ps (n + 1)

def initiate (key : α → Nat) (cfg : ICfg α) (arrivals : List α) : Option (Nat × List α) :=
  initiateFrom key cfg [cfg.self] arrivals 0

/-- what reaches the loop of `initiate`: a ready message, or a tick of the `InitiatePeriod` ticker -/
inductive Arr (α : Type) where
  | ready (p : α)
  | tick
deriving DecidableEq, Repr

def readiesOf : List (Arr α) → List α
  | [] => []
  | .ready p :: es => p :: readiesOf es
  | .tick :: es => readiesOf es

/-- the loop of `initiate` with the ticker: a tick re-broadcasts the initiate message and KEEPS the ready set
    (in particular the coordinator's own entry) -/
def initiateTFrom (key : α → Nat) (cfg : ICfg α) : List α → List (Arr α) → Nat → Option (Nat × List α)
  | _, [], _ => none
  | rs, .tick :: es, n => initiateTFrom key cfg rs es (n + 1)
  | rs, .ready p :: es, n =>
    let rs' := addReady cfg rs p
    if isReady cfg rs' then some (n + 1, startParams key cfg rs') else initiateTFrom key cfg rs' es (n + 1)

def initiateT (key : α → Nat) (cfg : ICfg α) (evs : List (Arr α)) : Option (Nat × List α) :=
  initiateTFrom key cfg [cfg.self] evs 0

/-- the C07 clause about the announced subset, as a decidable predicate on ANY candidate subset `S` -/
def SubsetOk (cfg : ICfg α) (arrivals : List α) (S : List α) : Prop :=
  S.length = cfg.t + 1 ∧ S.Nodup ∧ (∀ p ∈ S, p ∈ cfg.holders) ∧ (∀ p ∈ S, p = cfg.self ∨ p ∈ arrivals) ∧
  cfg.self ∈ S ∧ (∀ p ∈ S, p ∉ cfg.excluded)

instance (cfg : ICfg α) (arrivals S : List α) : Decidable (SubsetOk cfg arrivals S) := by
  unfold SubsetOk; infer_instance

/-- what `Ready` / `StartParams` must answer on ANY ready list (duplicates, non-holders included), as a decidable
    predicate on a candidate answer `(flag, S)`: the flag says "exactly t+1 ready key holders"; the subset consists of
    min(t+1, #ready key holders) of them (as a sub-multiset), in descending key order, and nobody left out has a larger
    key than somebody chosen -/
def SubsetSpec (key : α → Nat) (holders : List α) (t : Nat) (ready : List α) (flag : Bool) (S : List α) : Prop :=
  let rp := readyParticipants holders ready
  (flag = true ↔ rp.length = t + 1) ∧
  S.length = min (t + 1) rp.length ∧
  (∀ p ∈ S, S.count p ≤ rp.count p) ∧
  S.Pairwise (fun a b => key b ≤ key a) ∧
  (∀ p ∈ rp, ∀ q ∈ S, S.count p < rp.count p → key p ≤ key q)

instance (key : α → Nat) (holders : List α) (t : Nat) (ready : List α) (flag : Bool) (S : List α) :
    Decidable (SubsetSpec key holders t ready flag S) := by
  unfold SubsetSpec; infer_instance

/-- first occurrences only -/
def dedup : List α → List α
  | [] => []
  | x :: xs => if x ∈ dedup xs then dedup xs else x :: dedup xs

/-- the distinct ready senders that count: key holders, not excluded, not the coordinator itself -/
def eligibleReporters (cfg : ICfg α) (arrivals : List α) : List α :=
  dedup (arrivals.filter fun p => decide (p ∈ cfg.holders) && decide (p ∉ cfg.excluded) && decide (p ≠ cfg.self))

/-- threshold ≥ 1 and at least `t` distinct eligible reporters among the ready senders -/
def enoughReady (cfg : ICfg α) (arrivals : List α) : Bool :=
  decide (1 ≤ cfg.t) && decide (cfg.t ≤ (eligibleReporters cfg arrivals).length)

/-- the C07 clause about the announcement as a whole, on ANY candidate outcome of the coordinator's collecting loop:
    an announced subset satisfies `SubsetOk` w.r.t. the ready messages consumed up to the announcement; announcing nothing is only acceptable when too few eligible key holders
    reported ready (the attempt must start once enough did) -/
def AnnouncedOk (cfg : ICfg α) (consumed arrivals : List α) (out : Option (List α)) : Prop :=
  match out with
  | some S => SubsetOk cfg consumed S       -- `consumed`: the ready senders taken BEFORE the announcement
  | none => enoughReady cfg arrivals = false

instance (cfg : ICfg α) (consumed arrivals : List α) (out : Option (List α)) :
    Decidable (AnnouncedOk cfg consumed arrivals out) := by
  unfold AnnouncedOk; cases out <;> infer_instance

end Initiate

/-! ### the other relayers' side: whom they answer, start for, abort for -/

section Wait
variable {α : Type} [DecidableEq α]

/-- a message reaching a relayer that waits for its coordinator -/
inductive Ev (α : Type) where
  | init  (src : α)                        -- TssInitiateMsg
  | start (src : α) (params : Option Nat)  -- TssStartMsg; `none` = payload that does not unmarshal
  | fail  (src : α)                        -- TssFailMsg
deriving DecidableEq, Repr

def Ev.src : Ev α → α
  | .init f => f | .start f _ => f | .fail f => f

/-- how the attempt ended -/
inductive Res where
  | ok        -- still waiting / running when the session was cancelled from outside
  | fail      -- aborted on a fail message
  | badStart  -- the accepted start message did not unmarshal
deriving DecidableEq, Repr

inductive Phase where
  | waiting | running | finished (r : Res)
deriving DecidableEq, Repr

structure WSt (α : Type) where
  phase   : Phase
  readies : List α      -- targets of the ready messages sent, in order
  runs    : List Nat    -- params of the `Run` calls, in order
deriving Repr

/-- `coordinator != "" && From != coordinator` negated: the sender test of waitForStart (`none` = `peer.ID("")`) -/
def accepts (c : Option α) (f : α) : Bool :=
  match c with
  | none => true
  | some c => decide (f = c)

/-- the sender test of watchExecution: `From.Pretty() == coordinator.Pretty()` — never true for the empty id -/
def failFrom (c : Option α) (f : α) : Bool :=
  match c with
  | none => false
  | some c => decide (f = c)

def stepWait (c : Option α) (s : WSt α) (e : Ev α) : WSt α :=
  match s.phase with
  | .finished _ => s
  | .waiting =>
    match e with
    | .init f => if accepts c f then { s with readies := s.readies ++ [f] } else s
    | .start f p =>
      if accepts c f then
        match p with
        | none => { s with phase := .finished .badStart }
        | some n => { s with phase := .running, runs := s.runs ++ [n] }
      else s
    | .fail f => if failFrom c f then { s with phase := .finished .fail } else s
  | .running =>
    match e with
    | .fail f => if failFrom c f then { s with phase := .finished .fail } else s
    | _ => s      -- waitForStart is inside `p.Wait()`: initiate/start messages are no longer read

/-- the same step with the two senders kept apart: `cw` is the coordinator `waitForStart` was given, `cf` the one
    `watchExecution` was given. First attempt: both the static coordinator. Retried attempt: `cw` = the bully-elected
    coordinator, `cf` = none (handleError starts its watcher with the empty peer id). Left-out relayer: both none. -/
def stepWait2 (cw cf : Option α) (s : WSt α) (e : Ev α) : WSt α :=
  match e with
  | .fail f =>
    match s.phase with
    | .finished _ => s
    | _ => if failFrom cf f then { s with phase := .finished .fail } else s
  | _ => stepWait cw s e

/-- an envelope as it reaches the transport adapter: the peer the connection is authenticated as (libp2p / noise), and
    whatever origin the envelope's own content claims, if any -/
structure Envelope (α : Type) where
  conn    : α
  claimed : Option α
  kind    : α → Ev α      -- the message, given its sender
  
/-- `ProcessMessagesFromStream`: the sender of a message is the authenticated remote peer of the stream it arrived on;
    nothing the envelope says about its origin is looked at -/
def attributeSender (e : Envelope α) : Ev α := e.kind e.conn

def initW : WSt α := ⟨.waiting, [], []⟩

def runWait (c : Option α) (tr : List (Ev α)) : WSt α := tr.foldl (stepWait c) initW

def runWait2 (cw cf : Option α) (tr : List (Ev α)) : WSt α := tr.foldl (stepWait2 cw cf) initW

def WSt.res (s : WSt α) : Res :=
  match s.phase with
  | .finished r => r
  | _ => .ok

/-- the C07 clause "only the coordinator is obeyed", as a decidable predicate on ANY observed behaviour
    (ready targets, Run params, result) of a relayer whose coordinator is `c`, given the messages `tr` it received -/
def ObeysOnly (c : α) (tr : List (Ev α)) (readies : List α) (runs : List Nat) (res : Res) : Prop :=
  (∀ r ∈ readies, r = c) ∧ readies.length ≤ (tr.filter (· = Ev.init c)).length ∧
  (∀ n ∈ runs, Ev.start c (some n) ∈ tr) ∧ runs.length ≤ 1 ∧
  (res = .fail → Ev.fail c ∈ tr) ∧ (res = .badStart → Ev.start c none ∈ tr)

instance (c : α) (tr : List (Ev α)) (readies : List α) (runs : List Nat) (res : Res) :
    Decidable (ObeysOnly c tr readies runs res) := by
  unfold ObeysOnly; infer_instance

end Wait

/-! ### the coordinator's side with fail messages: collecting loop next to its own fail watcher -/

section Coord
variable {α : Type} [DecidableEq α]

/-- what reaches a coordinating relayer: a ready message (read by `initiate`) or a fail message (read by the
    `watchExecution` that runs next to it) -/
inductive CoEv (α : Type) where
  | ready (p : α)
  | fail (f : α)
deriving DecidableEq, Repr

def readiesCo : List (CoEv α) → List α
  | [] => []
  | .ready p :: es => p :: readiesCo es
  | .fail _ :: es => readiesCo es

/-- is some fail message of the trace accepted by a watcher that was given coordinator `cf` -/
def abortedBy (cf : Option α) (es : List (CoEv α)) : Bool :=
  es.any fun e => match e with | .fail f => failFrom cf f | _ => false

/-- `initiate` + `watchExecution(…, cf)`: `cf` is the relayer itself in the first attempt (`Execute` hands the elected
    coordinator to the watcher) and the empty id in a retried attempt. Result: the announcement (ready messages consumed,
    subset) if one is made before an accepted fail message, and whether the attempt was aborted by a fail message. -/
def coordFrom (key : α → Nat) (cfg : ICfg α) (cf : Option α) :
    List α → List (CoEv α) → Nat → Option (Nat × List α) × Bool
  | _, [], _ => (none, false)
  | rs, .fail f :: es, n => if failFrom cf f then (none, true) else coordFrom key cfg cf rs es n
  | rs, .ready p :: es, n =>
    let rs' := addReady cfg rs p
    if isReady cfg rs' then (some (n + 1, startParams key cfg rs'), abortedBy cf es)
    else coordFrom key cfg cf rs' es (n + 1)

def runCoord (key : α → Nat) (cfg : ICfg α) (cf : Option α) (tr : List (CoEv α)) : Option (Nat × List α) × Bool :=
  coordFrom key cfg cf [cfg.self] tr 0

end Coord

/-! ### the concrete election key -/

/-- `binary.BigEndian.Uint64(crypto.Keccak256(append([]byte(Pretty), []byte(sessionID)...)))` -/
def electionKey (sid : Bytes) (pretty : String) : Nat :=
  beToNat ((Keccak.keccak256 (pretty.toUTF8.toList ++ sid)).take 8)

end Sygma.C07
