/-
  C17 — retries re-emit exactly the unexecuted matching deposits; executed is final. Executable model + predicates.
  Core only. The status store (`store/propstore.go` as a finite map with a fault stream), the BTC executor's
  `proposalsForExecution` (`forExec`) and `storeProposalsStatus` (`storeStatus`) are those of Model/C03.lean.

  Modelled (code AS IT IS after `fix:` b03b479):
    * `relayer/retry/retry.go`  FilterDeposits / isExecuted      (`filterDeposits`, `isExecuted`)
    * `chains/evm/listener/eventHandlers/retry.go` RetryV1EventHandler: same `isExecuted`, no resource/destination
      filter, grouped by destination                                (`retryV1`)
    * the three RetryMessageHandler.HandleMessage: confirmation guard, then FilterDeposits, emit iff non-empty
    * `chains/btc/executor/executor.go`: propMutex as a boolean; proposalsForExecution / storeProposalsStatus
      take it and release it on every path (`hstep`; the as-found behaviour is the parameter `unlockOnErr = false`)
  Inputs (universally quantified in the theorems): deposit sets, the request, the status map, the fault stream
  of every store call, the history of operations.
-/
import SygmaModel.Base
import SygmaModel.Model.C03
namespace Sygma.C17
open Sygma.C03 (Status Store lookup canExec forExec storeStatus)

/-- a deposit found in the retried block; `key` identifies its status record (source, destination, nonce) -/
structure Dep where
  dest : Nat
  res  : Nat
  key  : Nat
  idx  : Nat := 0        -- identity of the deposit message (position in the block); never inspected by the code
deriving DecidableEq, Repr

/-! ### `PropStatus`: how the database's answer is classified

  The fault stream of the store model (`Store.faults`, one Bool per call) says "this call fails". What makes a READ
  fail is decided here: the database returns the stored bytes, or an error of some kind (possibly wrapped); only
  `ErrNotFound` means "nothing recorded" (status missing, no error) — every other kind, in particular a closed
  database, is an error, so that the deposit is withheld (`isExecuted_withholds`) and nothing is selected. -/

inductive DbErr | notFound | closed | readOnly | snapshotReleased | iterReleased | corrupted | generic
deriving DecidableEq, Repr

/-- `PropStore.PropStatus` on what `GetByKey` returned; `none` = an error is returned to the caller -/
def propStatus : Except DbErr Status → Option Status
  | .ok v => some v
  | .error .notFound => some .missing
  | .error _ => none

/-- PPropStatus: a stored status is returned as it is; `missing` without error exactly for ErrNotFound; every other
    database error is an error -/
def PPropStatus (r : Except DbErr Status) (out : Option Status) : Prop :=
  match r with
  | .ok v => out = some v
  | .error e => (e = .notFound → out = some .missing) ∧ (e ≠ .notFound → out = none)

instance (r : Except DbErr Status) (out : Option Status) : Decidable (PPropStatus r out) := by
  unfold PPropStatus; split <;> infer_instance

/-- `isExecuted` of retry.go (and of RetryV1EventHandler): `none` = error (the deposit is withheld);
    a `pending` record is rewritten to `failed` so that the executor accepts the deposit again -/
def isExecuted (s : Store) (k : Nat) : Option Bool × Store :=
  match s.read k with
  | (none, s1) => (none, s1)
  | (some .executed, s1) => (some true, s1)
  | (some .pending, s1) =>
    match s1.write k .failed with
    | (false, s2) => (none, s2)
    | (true, s2)  => (some false, s2)
  | (some _, s1) => (some false, s1)

def isMatch (res dest : Nat) (d : Dep) : Bool := d.dest = dest && d.res = res

/-- the common loop of FilterDeposits and RetryV1: deposits accepted by `mt`, in block order, each asked through
    `isExecuted`; an error or `executed` drops the deposit and the loop goes on -/
def filterBy (mt : Dep → Bool) : Store → List Dep → List Dep × Store
  | s, [] => ([], s)
  | s, d :: r =>
    if mt d then
      match isExecuted s d.key with
      | (some false, s1) =>
        let (o, s2) := filterBy mt s1 r
        (d :: o, s2)
      | (_, s1) => filterBy mt s1 r
    else filterBy mt s r

/-- `FilterDeposits` (the deposits of the requested destination domain and resource) -/
def filterDeposits (res dest : Nat) : Store → List Dep → List Dep × Store := filterBy (isMatch res dest)

/-- RetryV1: every deposit of the retried transaction, whatever its resource and destination -/
def retryV1 : Store → List Dep → List Dep × Store := filterBy (fun _ => true)

/-- a retry request (RetryV2 event → RetryMessage): it is addressed to the chain the deposits were made on (the
    event's source domain) and carries source, destination, block height and resource unchanged -/
structure Request where
  msgSource : Nat      -- the domain that saw the retry event
  msgDest   : Nat      -- the chain that has to re-scan the block
  src       : Nat
  dst       : Nat
  height    : Nat
  res       : Nat
deriving DecidableEq, Repr

def retryV2 (listening src dst height res : Nat) : Request := ⟨listening, src, src, dst, height, res⟩

/-- the request is the event's: routed to the source chain, fields unchanged -/
def PRequest (src dst height res : Nat) (r : Request) : Prop :=
  r.msgDest = src ∧ r.src = src ∧ r.dst = dst ∧ r.height = height ∧ r.res = res

instance (a b c d : Nat) (r : Request) : Decidable (PRequest a b c d r) := by unfold PRequest; infer_instance

/-- the confirmation guard of the EVM / BTC handlers (`latest > height + confirmations`; Substrate: conf = 0) -/
def confirmed (latest height conf : Nat) : Bool := height + conf < latest

/-! ### the property of one retry, as a decidable predicate on ANY candidate (emitted list, final status map) -/

/-- what a retry must re-emit when the store works: matching and not recorded executed, in block order -/
def eligible (m : List (Nat × Status)) (mt : Dep → Bool) (ds : List Dep) : List Dep :=
  ds.filter fun d => mt d && decide (lookup m d.key ≠ .executed)

/-- positional specification of one retry: per deposit of the block, in order, is it re-emitted? A deposit is re-emitted
    iff it matches the request, ITS OWN status read succeeds, the record is not `executed`, and — if the record is
    `pending` — ITS OWN release write succeeds. The store calls of a deposit are the next one (read) or two (read, then
    the release write of a pending record) entries of the fault stream; a non-matching deposit makes no call. -/
def emitFlags (mt : Dep → Bool) : List (Nat × Status) → List Bool → List Dep → List Bool
  | _, _, [] => []
  | m, fs, d :: r =>
    if !mt d then false :: emitFlags mt m fs r
    else if fs.head? = some true then false :: emitFlags mt m (fs.drop 1) r      -- own read failed: withheld
    else match lookup m d.key with
      | .executed => false :: emitFlags mt m (fs.drop 1) r
      | .pending =>
        if (fs.drop 1).head? = some true then false :: emitFlags mt m (fs.drop 2) r   -- own release write failed
        else true :: emitFlags mt ((d.key, .failed) :: m) (fs.drop 2) r
      | _ => true :: emitFlags mt m (fs.drop 1) r

/-- the deposits whose flag is set, in block order -/
def pick : List Dep → List Bool → List Dep
  | d :: r, true :: fl => d :: pick r fl
  | _ :: r, false :: fl => pick r fl
  | _, _ => []

/-- P17 (single retry): exactly the deposits the positional specification names, in block order (hence only eligible
    ones; all of them when no store call fails); an emitted deposit that was pending is released (failed); nothing else
    is written — in particular executed stays executed -/
def P17 (m : List (Nat × Status)) (faults : List Bool) (mt : Dep → Bool) (ds out : List Dep)
    (m' : List (Nat × Status)) : Prop :=
  out = pick ds (emitFlags mt m faults ds) ∧
  (∀ d ∈ out, lookup m d.key = .pending → lookup m' d.key = .failed) ∧
  (∀ d ∈ ds, lookup m' d.key = lookup m d.key ∨
      (lookup m d.key = .pending ∧ lookup m' d.key = .failed ∧ ∃ d' ∈ ds, mt d' = true ∧ d'.key = d.key))

instance (m : List (Nat × Status)) (fs : List Bool) (mt : Dep → Bool) (ds out : List Dep) (m' : List (Nat × Status)) :
    Decidable (P17 m fs mt ds out m') := by
  unfold P17; infer_instance

/-- no store call fails -/
def faultFree (s : Store) : Bool := s.faults.all (! ·)

/-! ### recording an outcome (`watchExecution` → `storeProposalsStatus`) -/

/-- the status `watchExecution` records: the transaction was accepted by the node ↦ executed, rejected ↦ failed -/
def outcomeStatus (accepted : Bool) : Status := if accepted then .executed else .failed

/-- POutcome: only the proposals of this execution are touched, and only with the outcome's status; without store
    faults every one of them carries it afterwards -/
def POutcome (m : List (Nat × Status)) (faultFree : Bool) (ns : List Nat) (v : Status) (m' : List (Nat × Status))
    (keys : List Nat) : Prop :=
  (∀ k ∈ keys, lookup m' k = lookup m k ∨ (k ∈ ns ∧ lookup m' k = v)) ∧
  (faultFree = true → ∀ k ∈ ns, lookup m' k = v)

instance (m : List (Nat × Status)) (ff : Bool) (ns : List Nat) (v : Status) (m' : List (Nat × Status)) (keys : List Nat) :
    Decidable (POutcome m ff ns v m' keys) := by
  unfold POutcome; infer_instance

/-! ### callers sharing the one long-lived status store

  The executor, the retry handlers and the RetryV1 handler use ONE `PropStore`. The model treats every store call as
  atomic; `overlap` in the harness lets two callers overlap inside the database and compares with the sequential
  orders. -/

inductive SCall
  | write (k : Nat) (v : Status)     -- StorePropStatus
  | read (k : Nat)                   -- PropStatus
  | record (k : Nat)                 -- the BTC executor records k executed (storeProposalsStatus)
  | retry (k : Nat)                  -- the retry filter on the deposit with key k
deriving Repr

inductive SRes | done | status (v : Status) | emitted (n : Nat)
deriving DecidableEq, Repr

def SCall.key : SCall → Nat
  | .write k _ => k | .read k => k | .record k => k | .retry k => k

def SCall.run (m : List (Nat × Status)) : SCall → SRes × List (Nat × Status)
  | .write k v => (.done, (k, v) :: m)
  | .read k    => (.status (lookup m k), m)
  | .record k  => (.done, (storeStatus ⟨m, []⟩ [k] .executed).m)
  | .retry k   =>
    let r := filterBy (fun _ => true) ⟨m, []⟩ [⟨0, 0, k, 0⟩]
    (.emitted r.1.length, r.2.m)

/-- `a` then `b` -/
def runTwo (m : List (Nat × Status)) (a b : SCall) : SRes × SRes × List (Nat × Status) :=
  let x := a.run m
  let y := b.run x.2
  (x.1, y.1, y.2)

/-- PLinear: two overlapping calls (results `ra`, `rb`, statuses `m'` of `keys` afterwards) look like one of the two
    sequential orders -/
def PLinear (m : List (Nat × Status)) (a b : SCall) (ra rb : SRes) (m' : List (Nat × Status)) (keys : List Nat) : Prop :=
  (ra = (runTwo m a b).1 ∧ rb = (runTwo m a b).2.1 ∧ ∀ k ∈ keys, lookup m' k = lookup (runTwo m a b).2.2 k) ∨
  (rb = (runTwo m b a).1 ∧ ra = (runTwo m b a).2.1 ∧ ∀ k ∈ keys, lookup m' k = lookup (runTwo m b a).2.2 k)

instance (m : List (Nat × Status)) (a b : SCall) (ra rb : SRes) (m' : List (Nat × Status)) (keys : List Nat) :
    Decidable (PLinear m a b ra rb m' keys) := by unfold PLinear; infer_instance

/-! ### histories: BTC executor + retries over one status store -/

structure HState where
  m        : List (Nat × Status)
  inflight : List (Nat × Nat)      -- (id of the delivery that started the execution, key)
  next     : Nat                    -- id of the next delivery
  held     : Bool                   -- propMutex
deriving Repr

inductive HOp
  | deliver (ks : List Nat) (faults : List Bool)             -- Execute → proposalsForExecution
  -- `Execute` splits a delivery per resource; every group is signed, sent and recorded on its own. `grp` = the
  -- proposals of the group concerned (those of them that delivery `id` has in flight)
  | outcome (id : Nat) (grp : List Nat) (ok : Bool) (faults : List Bool)   -- sendTx result → storeProposalsStatus
  | lost (id : Nat) (grp : List Nat)                         -- timeout / crash / rawTx error: no outcome recorded
  | retry (ds : List Dep) (res dest : Nat) (faults : List Bool)
deriving Repr

inductive HRes
  | selected (r : Option (List Nat))     -- `none` = error return
  | emitted (ds : List Dep)
  | done
  | hang                                 -- blocked on propMutex for good
deriving Repr, DecidableEq

/-- the in-flight pairs of group `grp` of delivery `id` -/
def inGroup (id : Nat) (grp : List Nat) (p : Nat × Nat) : Bool := p.1 = id && grp.contains p.2

def keysOf (st : HState) (id : Nat) (grp : List Nat) : List Nat := (st.inflight.filter (inGroup id grp)).map (·.2)

/-- one operation. `unlockOnErr = true` is the repaired code (deferred unlock); `false` the code as found. -/
def hstep (unlockOnErr : Bool) (st : HState) : HOp → HRes × HState
  | .deliver ks f =>
    if st.held then (.hang, st) else
    match forExec ⟨st.m, f⟩ ks with
    | (none, s')    => (.selected none, { st with m := s'.m, next := st.next + 1, held := !unlockOnErr })
    | (some ps, s') => (.selected (some ps),
        { st with m := s'.m, next := st.next + 1, inflight := st.inflight ++ ps.map (fun k => (st.next, k)) })
  | .outcome id grp ok f =>
    if st.held then (.hang, st) else
    (.done, { st with m := (storeStatus ⟨st.m, f⟩ (keysOf st id grp) (if ok then .executed else .failed)).m,
                      inflight := st.inflight.filter (fun p => !inGroup id grp p) })
  | .lost id grp => (.done, { st with inflight := st.inflight.filter (fun p => !inGroup id grp p) })
  | .retry ds res dest f =>
    let (o, s') := filterDeposits res dest ⟨st.m, f⟩ ds
    (.emitted o, { st with m := s'.m })

def hrun (u : Bool) : HState → List HOp → List (HRes × HState)
  | _, [] => []
  | st, op :: r => let x := hstep u st op; x :: hrun u x.2 r

def hfinal (u : Bool) : HState → List HOp → HState
  | st, [] => st
  | st, op :: r => hfinal u (hstep u st op).2 r

def init : HState := ⟨[], [], 0, false⟩

/-- THE PROPERTY AS STATED, with no sequentiality proviso ("executed stays executed through ANY later sequence"): the
    same machine, except that recording an outcome leaves an `executed` record alone. The code does not do this (see
    `overlap_hazard` and the known finding C17-overlap-late-failure); op `histstrict` judges the code against it. -/
def hstepStrict (st : HState) : HOp → HRes × HState
  | .outcome id grp ok f =>
    if st.held then (.hang, st) else
    (.done, { st with
      m := (storeStatus ⟨st.m, f⟩ ((keysOf st id grp).filter fun k => lookup st.m k != .executed)
              (if ok then .executed else .failed)).m,
      inflight := st.inflight.filter (fun p => !inGroup id grp p) })
  | op => hstep true st op

def hrunStrict : HState → List HOp → List (HRes × HState)
  | _, [] => []
  | st, op :: r => let x := hstepStrict st op; x :: hrunStrict x.2 r

/-- sequential histories: a retry does not touch a deposit whose execution is still in flight (its outcome is
    recorded, or the execution is lost, before the deposit is released again) -/
def seqOk (st : HState) : HOp → Bool
  | .retry ds res dest _ => (ds.filter (isMatch res dest)).all fun d => !(st.inflight.map (·.2)).contains d.key
  | _ => true

def seqRun (u : Bool) : HState → List HOp → Bool
  | _, [] => true
  | st, op :: r => seqOk st op && seqRun u (hstep u st op).2 r

/-- what ONE operation may do to the status records (keys below `n`), in ANY history, sequential or not:
    a delivery only touches executable (missing / failed) records and leaves them pending or failed; a retry only releases pending records to failed; a session that
    runs into its signing time-out (or is otherwise lost) never overwrites an `executed` record. Only the recording of
    an execution's own outcome is not constrained here (see `executed_final`). -/
def stepOk (op : HOp) (prev next : List (Nat × Status)) (n : Nat) : Bool :=
  (List.range n).all fun k =>
    let a := lookup prev k
    let b := lookup next k
    match op with
    | .deliver _ _   => b == a || (canExec a && (b == .pending || b == .failed))
    | .retry _ _ _ _ => b == a || (a == .pending && b == .failed)
    | .lost _ _      => a != .executed || b == .executed
    | .outcome _ _ _ _ => true

/-- record `k` belongs to the execution whose outcome `op` records -/
def touches (st : HState) (op : HOp) (k : Nat) : Bool :=
  match op with
  | .outcome id grp _ _ => (keysOf st id grp).contains k
  | _ => false

/-- no later outcome recording concerns record `k` -/
def noLaterOutcome (u : Bool) (k : Nat) : HState → List HOp → Bool
  | _, [] => true
  | st, op :: r => !touches st op k && noLaterOutcome u k (hstep u st op).2 r

/-- two deliveries B and A on one executor, serialized by propMutex; afterwards A's execution is recorded executed and
    B's failed. `bFirst` = B got the mutex first. Yields (selected by B, selected by A, final statuses). -/
def raceOrder (m : List (Nat × Status)) (kb ka : List Nat) (bFirst : Bool) :
    HRes × HRes × List (Nat × Status) :=
  let st0 : HState := ⟨m, [], 0, false⟩
  if bFirst then
    let b := hstep true st0 (.deliver kb [])
    let a := hstep true b.2 (.deliver ka [])
    let s1 := (hstep true a.2 (.outcome 1 ka true [])).2
    let s2 := (hstep true s1 (.outcome 0 kb false [])).2
    (b.1, a.1, s2.m)
  else
    let a := hstep true st0 (.deliver ka [])
    let s1 := (hstep true a.2 (.outcome 0 ka true [])).2
    let b := hstep true s1 (.deliver kb [])
    let s2 := (hstep true b.2 (.outcome 1 kb false [])).2
    (b.1, a.1, s2.m)

/-- PRace: two concurrent deliveries behave like one of the two serial orders (each delivery's check-and-mark is
    atomic) — in particular no deposit is selected by both -/
def PRace (m : List (Nat × Status)) (kb ka : List Nat) (selB selA : HRes) (m' : List (Nat × Status)) (n : Nat) : Prop :=
  ∃ o : Bool, selB = (raceOrder m kb ka o).1 ∧ selA = (raceOrder m kb ka o).2.1 ∧
    ∀ k, k < n → lookup m' k = lookup (raceOrder m kb ka o).2.2 k

instance (m : List (Nat × Status)) (kb ka : List Nat) (selB selA : HRes) (m' : List (Nat × Status)) (n : Nat) :
    Decidable (PRace m kb ka selB selA m' n) := by unfold PRace; infer_instance

/-- executed is final along a trace of status maps -/
def finalAlong (k : Nat) : List (List (Nat × Status)) → Bool
  | a :: b :: r => (lookup a k != .executed || lookup b k == .executed) && finalAlong k (b :: r)
  | _ => true

end Sygma.C17
