/-
  C06 — per-deposit isolation skeletons, parametric in the handlers.
    chains/evm/listener/eventHandlers/deposit.go   `DepositEventHandler.ProcessDeposits`   → `processDeposits`
    chains/substrate/listener/event-handlers.go    `FungibleTransferEventHandler.ProcessDeposits` → `processDeposits`
                                                   `RetryEventHandler.HandleEvents`        → `subRetry`
    chains/btc/listener/event-handlers.go          `FungibleTransferEventHandler.ProcessDeposits` → `btcProcess`
    chains/evm/listener/eventHandlers/retry.go     `RetryV1EventHandler.HandleEvents`      → `retryV1`
  A handler is any function into `Outcome` (`ok m | err | panic`): nothing is assumed about what makes a deposit
  malformed, so every byte string is covered by construction.  The Go `map[uint8][]*Message` is modelled as a function
  from destination to the list appended so far (an entry exists iff its list is non-empty).  Core Lean only.
-/
import SygmaModel.Model.C01
namespace Sygma.C06
open Sygma.C01 (Outcome)

/-- `map[uint8][]*message.Message` -/
abbrev DMap (M : Type) := Nat → List M

def DMap.empty {M : Type} : DMap M := fun _ => []

/-- `m[k] = append(m[k], x)` -/
def DMap.add {M : Type} (m : DMap M) (k : Nat) (x : M) : DMap M := fun j => if j = k then m j ++ [x] else m j

/-- one deposit inside its own `func(){ defer recover() … }()`: an error is logged, a panic is recovered,
    a message is appended under its destination -/
def step {D M : Type} (dst : M → Nat) (h : D → Outcome M) (acc : DMap M) (d : D) : DMap M :=
  match h d with
  | .ok m => acc.add (dst m) m
  | .err => acc
  | .panic => acc

/-- EVM and Substrate `ProcessDeposits`: the loop over the fetched deposits of the range.
    (Substrate: `h` = `DecodeDepositEvent` then `HandleDeposit`; non-deposit events are filtered before.) -/
def processDeposits {D M : Type} (dst : M → Nat) (h : D → Outcome M) (ds : List D) : DMap M :=
  ds.foldl (step dst h) DMap.empty

/-- the message a deposit yields when handled alone -/
def okPart {D M : Type} (h : D → Outcome M) (d : D) : Option M :=
  match h d with
  | .ok m => some m
  | _ => none

/-! ### Bitcoin: per transaction closure, inner loop over the configured resources (first deposit match wins) -/

/-- what one (transaction, resource) pair yields inside the closure -/
inductive BtcR (M : Type) where
  | notDeposit        -- `!isDeposit`: continue with the next resource
  | fail              -- `DecodeDepositEvent`/`HandleDeposit` returned an error: the closure returns it (logged)
  | panic             -- short OP_RETURN payload, missing `_` …: recovered by the closure
  | msg (m : M)       -- appended, closure returns

/-- the closure body for one transaction, resources in iteration order -/
def btcTx {M : Type} : List (BtcR M) → Outcome M
  | [] => .err
  | .notDeposit :: rest => btcTx rest
  | .fail :: _ => .err
  | .panic :: _ => .panic
  | .msg m :: _ => .ok m

/-- Bitcoin `ProcessDeposits` for one block: `txs` = per transaction, the per-resource results -/
def btcProcess {M : Type} (dst : M → Nat) (txs : List (List (BtcR M))) : DMap M :=
  processDeposits dst btcTx txs

/-! ### EVM RetryV1 (as repaired): per retried transaction closure, per deposit closure -/

/-- one retry event inside its own recovered closure: `f e` yields the deposits to re-handle (`err`: logged and
    skipped, `panic`: recovered), then every deposit runs inside its own recovered closure -/
def perEvent {E D M : Type} (dst : M → Nat) (f : E → Outcome (List D)) (h : D → Outcome M) (acc : DMap M) (e : E) : DMap M :=
  match f e with
  | .ok ds => ds.foldl (step dst h) acc
  | .err => acc
  | .panic => acc

/-- one deposit of a retried transaction: handler, then the executed check -/
def retryItem {D M : Type} (h : D → Outcome M) (ex : M → Outcome Bool) (d : D) : Outcome M :=
  match h d with
  | .ok m =>
    match ex m with
    | .ok false => .ok m
    | .ok true => .err        -- already executed: skipped
    | .err => .err            -- status lookup failed: logged, skipped
    | .panic => .panic
  | .err => .err
  | .panic => .panic

/-- `RetryV1EventHandler.HandleEvents`: `fetch e` = `FetchRetryDepositEvents` (error: logged, event skipped;
    panic: recovered by the event's closure) -/
def retryV1 {E D M : Type} (dst : M → Nat) (fetch : E → Outcome (List D)) (h : D → Outcome M) (ex : M → Outcome Bool)
    (evs : List E) : DMap M :=
  evs.foldl (perEvent dst fetch (retryItem h ex)) DMap.empty

/-- the deposits of an event when its transaction can be fetched -/
def fetched {E D : Type} (fetch : E → Outcome (List D)) (e : E) : List D :=
  match fetch e with
  | .ok ds => ds
  | _ => []

/-! ### EVM RetryV1 as found (kept for the witness theorem): an erroring deposit dereferences the nil message inside the
    event-level closure, so it and a panicking deposit abandon the rest of the retried transaction -/

def retryV1TxAsFound {D M : Type} (dst : M → Nat) (h : D → Outcome M) (ex : M → Outcome Bool) :
    DMap M → List D → DMap M
  | acc, [] => acc
  | acc, d :: ds =>
    match h d with
    | .ok m =>
      match ex m with
      | .ok false => retryV1TxAsFound dst h ex (acc.add (dst m) m) ds
      | .panic => acc
      | _ => retryV1TxAsFound dst h ex acc ds
    | .err => acc          -- `msg.ID` on the nil message: panic, recovered at event level
    | .panic => acc

def retryV1AsFound {E D M : Type} (dst : M → Nat) (fetch : E → Outcome (List D)) (h : D → Outcome M) (ex : M → Outcome Bool)
    (evs : List E) : DMap M :=
  evs.foldl (fun acc e =>
    match fetch e with
    | .ok ds => retryV1TxAsFound dst h ex acc ds
    | _ => acc) DMap.empty

/-! ### Substrate RetryEventHandler (as repaired): per retry event closure, per deposit closure -/

/-- `blockOf e`: `DecodeRetryEvent`, confirmation check, `GetBlockHash`, `GetBlockEvents` — `ok ds` the deposits of the
    retried block; `err` = the retry event is skipped: it cannot be decoded (after `fix:` 575328e; it used to fail the
    whole range) or the retried block is not final yet; `panic` recovered by the event's closure.
    `abort e`: the NODE fails while the retried block is resolved (`GetBlockHash` / `GetBlockEvents` error) —
    `HandleEvents` returns the error before anything is sent (`none`) and the listener runs the same range again; this is
    the only way left for one retry event to hold back the others, and it is transient by nature (C05's subject). -/
def subRetry {E D M : Type} (dst : M → Nat) (blockOf : E → Outcome (List D)) (abort : E → Bool) (h : D → Outcome M)
    (evs : List E) : Option (DMap M) :=
  if evs.any abort then none else some (evs.foldl (perEvent dst blockOf h) DMap.empty)

/-! ### the push step of every `HandleEvents`: `for _, deposits := range domainDeposits { msgChan <- deposits }`
    (EVM/Substrate/Bitcoin deposit handlers: one goroutine per entry; the retry handlers: synchronously) -/

/-- the batches put on the message channel: one per map entry. An entry exists iff something was appended under its key
    (destinations are `uint8`); the order of the sends is unspecified (map iteration / goroutines) — listed by key here. -/
def batches {M : Type} (m : DMap M) : List (List M) :=
  (List.range 256).filterMap fun k => if (m k).isEmpty then none else some (m k)

/-- EVM / Substrate / Bitcoin deposit `HandleEvents`: `ProcessDeposits`, then the push step -/
def handleEvents {D M : Type} (dst : M → Nat) (h : D → Outcome M) (ds : List D) : List (List M) :=
  batches (processDeposits dst h ds)

/-- EVM `RetryV2EventHandler.HandleEvents`: every decodable retry event is sent as its own single-message batch
    (`parse` = `FetchRetryV2Events`' unpacking: undecodable logs are logged and skipped) -/
def retryV2 {L M : Type} (parse : L → Option M) (logs : List L) : List (List M) :=
  (logs.filterMap parse).map fun m => [m]

/-! ## the property -/

/-- destination of a batch as the consumer (`relayer.route`) reads it: `msgs[0].Destination` -/
def headDst {M : Type} (dst : M → Nat) (b : List M) : Option Nat := b.head?.map dst

/-- P06h, at the message channel: no empty batch is ever sent, and for every destination the batches addressed to it are
    exactly one batch holding the messages of the deposits that succeed on their own, in order — or none at all when
    there is no such deposit -/
def P06h {M : Type} [DecidableEq M] (dst : M → Nat) (good : List M) (sends : List (List M)) : Prop :=
  (∀ b ∈ sends, b ≠ []) ∧
  (∀ b ∈ sends, ∃ k, k < 256 ∧ headDst dst b = some k) ∧
  ∀ k, k < 256 → sends.filter (fun b => headDst dst b = some k) =
    (if (good.filter (fun m => dst m = k)).isEmpty then [] else [good.filter (fun m => dst m = k)])

instance {M : Type} [DecidableEq M] (dst : M → Nat) (good : List M) (sends : List (List M)) : Decidable (P06h dst good sends) := by
  unfold P06h
  have : ∀ b : List M, Decidable (∃ k, k < 256 ∧ headDst dst b = some k) := fun b =>
    match h : headDst dst b with
    | none => isFalse (by rintro ⟨k, _, hk⟩; cases hk)
    | some j => if hj : j < 256 then isTrue ⟨j, hj, rfl⟩ else isFalse (by rintro ⟨k, hk, e⟩; cases e; exact hj hk)
  have : Decidable (∀ k, k < 256 → sends.filter (fun b => headDst dst b = some k) =
    (if (good.filter (fun m => dst m = k)).isEmpty then [] else [good.filter (fun m => dst m = k)])) :=
    Nat.decidableBallLT 256 _
  infer_instance


/-- P06: for every destination the emitted list is exactly the messages of the deposits that are well-formed on their
    own, in order — whatever the other deposits of the range are.  (`good` = those messages.) -/
def P06 {M : Type} [DecidableEq M] (dst : M → Nat) (good : List M) (out : DMap M) : Prop :=
  ∀ k, k < 256 → out k = good.filter (fun m => dst m = k)

instance {M : Type} [DecidableEq M] (dst : M → Nat) (good : List M) (out : DMap M) : Decidable (P06 dst good out) := by
  unfold P06; exact Nat.decidableBallLT 256 _

end Sygma.C06
