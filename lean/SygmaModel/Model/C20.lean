/-
  C20 — configuration loading. Executable model of the code AS IT IS after the `fix:` commits
  (ports parsed unsigned; blockInterval ≥ 1 validated; defaults applied before decoding) + the property predicates.
  Core Lean only.

  Modelled: `strconv.ParseUint/ParseInt(·, 0, bits)` on the decimal rendering of an integer and the `uint16` cast
  (config/relayer/config.go); the three chain configs' numeric fields: creasty/defaults, mapstructure's strict
  number decoding into int64 / uint64 fields, `Validate()`, `time.Duration(x) * time.Second` in int64 arithmetic,
  `chains.CalculateStartingBlock` (big.Int Euclidean `Mod`); `processRawConfig`'s loop: id / type checks,
  `findChainConfig` + `compareDomainID`, `mergo.Merge` on flat maps; `time.ParseDuration` on integer terms.
-/
import SygmaModel.Base
namespace Sygma.C20

/-! ### integer parsing of a written decimal integer, and the port cast -/

/-- `strconv.ParseInt(text n, 0, bits)` (signed) / `strconv.ParseUint(text n, 0, bits)`: the value, `none` = error.
    `text n` is the decimal rendering of `n` (a `-` sign makes ParseUint fail with a syntax error). -/
def parseIntLike (signed : Bool) (bits : Nat) (n : Int) : Option Int :=
  if signed then (if -(2 ^ (bits - 1) : Int) ≤ n ∧ n < 2 ^ (bits - 1) then some n else none)
  else (if 0 ≤ n ∧ n < 2 ^ bits then some n else none)

/-- the port the relayer ends up with: parse, then `uint16(v)` -/
def portOf (signed : Bool) (bits : Nat) (n : Int) : Option Nat :=
  (parseIntLike signed bits n).map fun v => (v % 65536).toNat

/-- the repaired code: `ParseUint(s, 0, 16)` for both ports -/
def port (n : Int) : Option Nat := portOf false 16 n

/-- as found: `ParseInt(s, 0, 16)` -/
def portAsFound (n : Int) : Option Nat := portOf true 16 n

/-- **P20 (ports)** on any candidate outcome for the written integer `n`: ports 1 … 65535 are accepted,
    negative and larger values rejected, and whatever is accepted is the value written -/
def PPort (n : Int) (out : Option Nat) : Prop :=
  (1 ≤ n ∧ n ≤ 65535 → out = some n.toNat) ∧
  (n < 0 ∨ 65535 < n → out = none) ∧
  (out.all fun (p : Nat) => decide ((p : Int) = n)) = true

instance (n : Int) (out : Option Nat) : Decidable (PPort n out) := by
  unfold PPort; infer_instance

/-! ### chain configs -/

inductive Kind where
  | evm | sub | btc
deriving DecidableEq, Repr

def Kind.hasConf : Kind → Bool
  | .sub => false
  | _ => true

/-- what was written for the four numeric settings (`none` = key absent) -/
structure ChainIn where
  kind : Kind
  bc : Option Int      -- blockConfirmations
  bi : Option Int      -- blockInterval
  sb : Option Int      -- startBlock
  ri : Option Int      -- blockRetryInterval (seconds; a uint64 field)
deriving Repr

structure ChainOut where
  bc : Option Int      -- `none` for Substrate
  bi : Int
  sb : Int
  riNs : Int           -- time.Duration in nanoseconds (int64)
  aligned : Option Int -- CalculateStartingBlock(startBlock, blockInterval); `none` = panic (division by zero)
deriving Repr, DecidableEq

def defBc : Int := 10
def defBi : Int := 5
def defSb : Int := 0
def defRi : Int := 5

/-- int64 wrap -/
def toInt64 (n : Int) : Int := (n + 2 ^ 63) % 2 ^ 64 - 2 ^ 63

/-- `big.Int.Mod` is Euclidean; a zero modulus panics -/
def alignStart (sb bi : Int) : Option Int := if bi = 0 then none else some (sb - sb % bi)

/-- `New<Kind>Config` restricted to the numeric settings: defaults, then the written values, then `Validate` -/
def loadChain (c : ChainIn) : Option ChainOut :=
  let bc := c.bc.getD defBc
  let bi := c.bi.getD defBi
  let sb := c.sb.getD defSb
  let ri := c.ri.getD defRi
  if ri < 0 then none                       -- mapstructure: negative number into a uint64 field
  else if c.kind.hasConf && decide (bc < 1) then none
  else if bi < 1 then none
  else some ⟨if c.kind.hasConf then some bc else none, bi, sb, toInt64 (ri * 1000000000 % 2 ^ 64), alignStart sb bi⟩

/-- **P20 (chain settings)** on any candidate outcome: an accepted configuration carries exactly the written
    values (defaults only for what was not written), a non-positive interval or confirmation count is rejected, and
    the start-block alignment neither panics nor leaves the interval grid. -/
def PChain (c : ChainIn) (out : Option ChainOut) : Prop :=
  match out with
  | none => True
  | some o =>
    o.bc = (if c.kind.hasConf then some (c.bc.getD defBc) else none) ∧
    o.bi = c.bi.getD defBi ∧ o.sb = c.sb.getD defSb ∧ o.riNs = c.ri.getD defRi * 1000000000 ∧
    (∀ b, o.bc = some b → 1 ≤ b) ∧ 1 ≤ o.bi ∧ 0 ≤ o.riNs ∧
    (∃ a, o.aligned = some a ∧ a ≤ o.sb ∧ o.sb - a < o.bi ∧ a % o.bi = 0)

/-- a written / defaulted setting list that the property requires to load -/
def chainValid (c : ChainIn) : Bool :=
  decide (0 ≤ c.ri.getD defRi) && (!c.kind.hasConf || decide (1 ≤ c.bc.getD defBc)) && decide (1 ≤ c.bi.getD defBi)

def PChainB (c : ChainIn) (out : Option ChainOut) : Bool :=
  match out with
  | none => !chainValid c          -- a failure is allowed only for settings that are not valid
  | some o =>
    o.bc == (if c.kind.hasConf then some (c.bc.getD defBc) else none) &&
    o.bi == c.bi.getD defBi && o.sb == c.sb.getD defSb && o.riNs == c.ri.getD defRi * 1000000000 &&
    (match o.bc with | some b => decide (1 ≤ b) | none => true) && decide (1 ≤ o.bi) && decide (0 ≤ o.riNs) &&
    (match o.aligned with
     | some a => decide (a ≤ o.sb) && decide (o.sb - a < o.bi) && decide (a % o.bi = 0)
     | none => false)

/-- the retry interval fits a time.Duration -/
def RetryFits (c : ChainIn) : Prop := c.ri.getD defRi * 1000000000 < 2 ^ 63

/-! ### local-over-shared merge -/

inductive V where
  | num (n : Int) (isFloat : Bool)   -- Go `int` or `float64` holding an integer
  | frac (milli : Int)               -- a float64 that is not an integer: milli / 1000 (written with ≤ 3 decimals)
  | str (s : String)
  | bool (b : Bool)
  | list (items : List String)       -- a list-valued setting (handlers, resources, …), items kept opaque
deriving DecidableEq, Repr

/-- mergo's `isEmptyValue` -/
def V.isEmpty : V → Bool
  | .num n _ => n == 0
  | .frac m => m == 0
  | .str s => s == ""
  | .bool b => !b
  | .list l => l.isEmpty

abbrev Chain := List (String × V)

def Chain.get (c : Chain) (k : String) : Option V := (c.find? (·.1 == k)).map (·.2)

/-- the numeric value of a domain id in thousandths; `none` for anything that is not an int / float64 -/
def idVal : Option V → Option Int
  | some (.num n _) => some (n * 1000)
  | some (.frac m) => some m
  | _ => none

/-- `compareDomainID`: numeric equality across int / float64 (`float64(a) == b`), false for anything else -/
def sameId (a b : Option V) : Bool :=
  match idVal a, idVal b with
  | some x, some y => x == y
  | _, _ => false

/-- one key of `mergo.Merge(&local, shared)`: the shared value is taken when the local value is empty -/
def mergeVal (shared : Chain) (k : String) (v : V) : V :=
  match shared.get k with
  | some sv => if v.isEmpty then sv else v
  | none => v

/-- `mergo.Merge(&local, shared)` on flat maps: a shared value is taken when the local key is absent or its value empty -/
def mergeChain (loc shared : Chain) : Chain :=
  (loc.map fun p => (p.1, mergeVal shared p.1 p.2)) ++ shared.filter fun p => (loc.get p.1).isNone

/-- the ideal merge the property asks for: a written local value always wins -/
def mergeIdeal (loc shared : Chain) : Chain :=
  loc ++ shared.filter fun p => (loc.get p.1).isNone

/-- one iteration of the per-chain loop of `processRawConfig` (`none` = error) -/
def processOne (merge : Chain → Chain → Chain) (shareds : List Chain) (c : Chain) : Option Chain :=
  -- `chain["id"] == 0` is an interface comparison: true only for a Go int 0
  if c.get "id" == some (.num 0 false) || (c.get "id").isNone then none
  else if c.get "type" == some (.str "") || (c.get "type").isNone then none
  else match shareds.find? (fun s => sameId (c.get "id") (s.get "id")) with
    | none => none
    | some s => some (merge c s)

/-- the per-chain loop of `processRawConfig`: the first failing entry fails the load -/
def processChains (merge : Chain → Chain → Chain) : List Chain → List Chain → Option (List Chain)
  | [], _ => some []
  | c :: cs, shareds =>
    match processOne merge shareds c with
    | none => none
    | some m => (processChains merge cs shareds).map (m :: ·)

/-- what the property asks of the merged entry at key `k`: a locally written value wins, otherwise the shared one -/
def wanted (loc shared : Chain) (k : String) : Option V :=
  match loc.get k with
  | some v => some v
  | none => shared.get k

/-- **P20 (merge)** for one chain, on any candidate merged entry: at every key (of the local entry, the shared
    entry or the candidate) the candidate holds the local value if one was written, else the shared one, else nothing -/
def PMerge (loc shared merged : Chain) : Bool :=
  (loc.map (·.1) ++ shared.map (·.1) ++ merged.map (·.1)).all fun k => merged.get k == wanted loc shared k

/-- the same with the KNOWN empty-local-value point excused: where the local value is empty (0, "", false) and the
    shared entry has the key, the candidate may hold the shared value instead -/
def PMergeExc (loc shared merged : Chain) : Bool :=
  (loc.map (·.1) ++ shared.map (·.1) ++ merged.map (·.1)).all fun k =>
    merged.get k == wanted loc shared k ||
    (match loc.get k, shared.get k with
     | some v, some sv => v.isEmpty && merged.get k == some sv
     | _, _ => false)

/-- no local key holds an empty value (0, "", false) that the shared entry would replace by something else -/
def NoEmptyClash (loc shared : Chain) : Prop :=
  ∀ k v, loc.get k = some v → v.isEmpty = true → shared.get k = none ∨ shared.get k = some v

def noEmptyClashB (loc shared : Chain) : Bool :=
  loc.all fun (k, v) => !(v.isEmpty && (shared.get k).isSome && shared.get k != some v)

/-! ### string-valued relayer settings and numeric settings written as strings -/

inductive SField where
  | otel | logfile | env | id | keyshare | frostkeyshare | key | enckey | topourl | topopath | upurl | uptoken
deriving DecidableEq, Repr

/-- `RawRelayerConfig.Validate`: the three topology settings must be non-empty -/
def SField.required : SField → Bool
  | .enckey | .topourl | .topopath => true
  | _ => false

/-- creasty/defaults: an empty string is replaced by the declared default (only LogFile has one: "out.log") -/
def SField.dflt : SField → Bytes
  | .logfile => [111, 117, 116, 46, 108, 111, 103]
  | _ => []

/-- every loader (processRawConfig, file, env) on one string setting written as `v` (bytes): nothing is trimmed, split
    or unescaped; an empty value takes the default, or fails validation for a required setting -/
def loadStr (f : SField) (v : Bytes) : Option Bytes :=
  if v = [] then (if f.required then none else some f.dflt) else some v

/-- **P20 (strings)** on any candidate outcome: failure, or exactly the string written (the declared default when
    nothing / the empty string was written) -/
def PStr (f : SField) (v : Bytes) (out : Option Bytes) : Bool :=
  match out with
  | none => v == [] && f.required          -- only an empty required setting may fail
  | some o => o == v || (v == [] && o == f.dflt)

/-- a non-empty run of ASCII digits read in base 10 -/
def decDigits (s : Bytes) : Option Nat :=
  if s = [] then none else
  s.foldl (fun acc c => acc.bind fun a => if 48 ≤ c.toNat ∧ c.toNat ≤ 57 then some (a * 10 + (c.toNat - 48)) else none) (some 0)

/-- the decimal reading of a text: optional sign, then digits only (leading zeros allowed) -/
def decimalReading (s : Bytes) : Option Int :=
  match s with
  | 43 :: r => (decDigits r).map fun n => (n : Int)
  | 45 :: r => (decDigits r).map fun n => -(n : Int)
  | r => (decDigits r).map fun n => (n : Int)

/-! the SPEC of "the value written, as a decimal", positional and independent of any parser loop -/

def isDig (c : UInt8) : Bool := decide (48 ≤ c.toNat) && decide (c.toNat ≤ 57)

/-- Σ dᵢ·10^(n-1-i) -/
def positional : Bytes → Nat
  | [] => 0
  | c :: cs => (c.toNat - 48) * 10 ^ cs.length + positional cs

/-- one optional leading sign: (negative?, rest) -/
def splitSign : Bytes → Bool × Bytes
  | 43 :: r => (false, r)
  | 45 :: r => (true, r)
  | r => (false, r)

def signed (neg : Bool) (n : Nat) : Int := if neg then -(n : Int) else (n : Int)

/-- a decimal numeral is an optional sign followed by one or more ASCII digits and nothing else; its value is positional -/
def decimalSpec (s : Bytes) : Option Int :=
  let p := splitSign s
  if p.2 ≠ [] ∧ p.2.all isDig = true then some (signed p.1 (positional p.2)) else none

/-! the PARSER: `new(big.Int).SetString(s, 10)` — `scan` with a fixed base 10: sign, then the digit loop; a character
    that is not a decimal digit (so also `_`, `x`, `b`, `o`, blanks: separators and prefixes exist only for base 0)
    ends the number and SetString fails because input is left over; no digit at all fails too -/

def scanDigits : Nat → Bool → Bytes → Option Nat
  | acc, seen, [] => if seen then some acc else none
  | acc, _, c :: cs => if isDig c then scanDigits (acc * 10 + (c.toNat - 48)) true cs else none

def setString10 (s : Bytes) : Option Int :=
  let p := splitSign s
  (scanDigits 0 false p.2).map (signed p.1)

/-- BTC resource feeAmount -/
def loadFee (s : Bytes) : Option Int := setString10 s

/-- a typed numeric setting (int64 / uint64 / float64 field) written as a JSON STRING: mapstructure's strict decoding
    refuses every string -/
def loadTypedFromString (_ : Bytes) : Option Int := none

/-- **P20 (numeric strings)** on any candidate outcome: failure, or the decimal value of the text written -/
def PNumStr (s : Bytes) (out : Option Int) : Bool :=
  match out with
  | none => true
  | some v => decimalSpec s == some v

/-- **P20 (fee amount)**: the decimal value of the text written, and every decimal numeral loads -/
def PFee (s : Bytes) (out : Option Int) : Bool := out == decimalSpec s

/-! ### port TEXTS: `strconv.ParseUint(s, 0, 16)` as coded (base prefixes, leading-zero octal, underscores) -/

def lowerB (c : UInt8) : UInt8 := if 65 ≤ c.toNat ∧ c.toNat ≤ 90 then c + 32 else c

/-- value of one digit character in `ParseUint`'s loop (`none` = not a digit character) -/
def digitOf (c : UInt8) : Option Nat :=
  let n := c.toNat
  if 48 ≤ n ∧ n ≤ 57 then some (n - 48)
  else if 97 ≤ (lowerB c).toNat ∧ (lowerB c).toNat ≤ 122 then some ((lowerB c).toNat - 97 + 10)
  else none

/-- the digit loop in base `base`, underscores skipped (base-0 mode); (value, saw an underscore) -/
def digitLoop (base : Nat) : Nat → Bool → Bytes → Option (Nat × Bool)
  | acc, us, [] => some (acc, us)
  | acc, us, c :: cs =>
    if c = 95 then digitLoop base acc true cs
    else match digitOf c with
      | some d => if d < base then digitLoop base (acc * base + d) us cs else none
      | none => none

/-- `strconv.underscoreOK` -/
def underscoreOKLoop (hex : Bool) : UInt8 → Bytes → Bool
  | i, [] => i != 95
  | i, c :: cs =>
    if (48 ≤ c.toNat ∧ c.toNat ≤ 57) || (hex && 97 ≤ (lowerB c).toNat && (lowerB c).toNat ≤ 102) then underscoreOKLoop hex 48 cs
    else if c = 95 then (if i != 48 then false else underscoreOKLoop hex 95 cs)
    else if i = 95 then false
    else underscoreOKLoop hex 33 cs

def underscoreOK (s : Bytes) : Bool :=
  let s := match s with | 43 :: r => r | 45 :: r => r | r => r
  match s with
  | 48 :: p :: r =>
    if lowerB p = 98 || lowerB p = 111 || lowerB p = 120 then underscoreOKLoop (lowerB p = 120) 48 r
    else underscoreOKLoop false 94 s
  | _ => underscoreOKLoop false 94 s

/-- `strconv.ParseUint(s, 0, bits)`; `none` = syntax or range error -/
def parseUintBase0 (bits : Nat) (s : Bytes) : Option Nat :=
  if s = [] then none else
  let (base, body) : Nat × Bytes :=
    match s with
    | 48 :: p :: r =>
      if r ≠ [] ∧ lowerB p = 98 then (2, r)
      else if r ≠ [] ∧ lowerB p = 111 then (8, r)
      else if r ≠ [] ∧ lowerB p = 120 then (16, r)
      else (8, p :: r)
    | 48 :: r => (8, r)
    | r => (10, r)
  match digitLoop base 0 false body with
  | none => none
  | some (v, us) =>
    if us && !underscoreOK s then none
    else if v < 2 ^ bits then some v else none

/-- the port loaded for a written TEXT (repaired code: `ParseUint(s, 0, 16)` then `uint16`) -/
def portText (s : Bytes) : Option Nat := (parseUintBase0 16 s).map (· % 65536)

/-- **P20 (port texts)**: failure, or the decimal reading of the text (and that is a 16-bit port) -/
def PPortText (s : Bytes) (out : Option Nat) : Bool :=
  match out with
  | none => !(match decDigits s with | some p => decide (p ≤ 65535) | none => false)   -- a decimal 16-bit port must load
  | some p => decDigits s == some p && decide (p ≤ 65535)

/-- the same with the KNOWN base-0 point excused: the candidate may also be exactly what base-0 parsing yields -/
def PPortTextExc (s : Bytes) (out : Option Nat) : Bool := PPortText s out || out == portText s

/-! ### every numeric setting of a chain config, and describing it (`String()`) -/

/-- one numeric setting: default, whether the field is unsigned, validated minimum, unit of the loaded value -/
structure FSpec where
  dflt : Int
  unsigned : Bool
  minv : Option Int
  scale : Int
deriving Repr

/-- maxGasPrice, gasIncreasePercentage, gasLimit, transferGas, startBlock, blockConfirmations, blockInterval, blockRetryInterval (→ ns) -/
def evmSpecs : List FSpec :=
  [⟨500000000000, false, none, 1⟩, ⟨15, false, none, 1⟩, ⟨15000000, false, none, 1⟩, ⟨250000, true, none, 1⟩,
   ⟨0, false, none, 1⟩, ⟨10, false, some 1, 1⟩, ⟨5, false, some 1, 1⟩, ⟨5, true, none, 1000000000⟩]

/-- chainID, startBlock, blockInterval, blockRetryInterval (→ ns), tip -/
def subSpecs : List FSpec :=
  [⟨0, false, none, 1⟩, ⟨0, false, none, 1⟩, ⟨5, false, some 1, 1⟩, ⟨5, true, none, 1000000000⟩, ⟨0, true, none, 1⟩]

def loadField (sp : FSpec) (w : Option Int) : Option Int :=
  let v := w.getD sp.dflt
  if sp.unsigned && decide (v < 0) then none
  else match sp.minv with
    | some m => if v < m then none else some (v * sp.scale)
    | none => some (v * sp.scale)

/-- the loaded numeric fields of a chain config (`none` = the constructor fails) -/
def loadFields : List FSpec → List (Option Int) → Option (List Int)
  | [], [] => some []
  | sp :: sps, w :: ws =>
    match loadField sp w, loadFields sps ws with
    | some v, some vs => some (v :: vs)
    | _, _ => none
  | _, _ => none

/-- describing a configuration (`String()`), and computing the start block from it, change nothing: the fields read
    afterwards are the fields loaded -/
def describe (fields : List Int) : List Int := fields

/-- what the property asks of the field list read at any later moment -/
def fieldsWanted : List FSpec → List (Option Int) → List Int
  | sp :: sps, w :: ws => (w.getD sp.dflt) * sp.scale :: fieldsWanted sps ws
  | _, _ => []

/-- validity of one setting: sign for unsigned fields, validated minimum -/
def fieldValid (sp : FSpec) (w : Option Int) : Bool :=
  let v := w.getD sp.dflt
  !(sp.unsigned && decide (v < 0)) && (match sp.minv with | some m => decide (m ≤ v) | none => true)

def fieldsValid : List FSpec → List (Option Int) → Bool
  | [], [] => true
  | sp :: sps, w :: ws => fieldValid sp w && fieldsValid sps ws
  | _, _ => false

/-- **P20 (fields stay what was written)** on any candidate observation: the field lists read right after loading,
    after describing once, after describing twice and after the start-block computation are all the written values -/
def PDescribe (specs : List FSpec) (ws : List (Option Int)) (out : Option (List (List Int))) : Bool :=
  match out with
  | none => !fieldsValid specs ws          -- valid settings must load
  | some snaps => !snaps.isEmpty && snaps.all fun fs => fs == fieldsWanted specs ws

/-! ### general chain settings that command-line flags may override -/

structure GenIn where
  fresh : Option Bool        -- per-chain "fresh"
  latest : Option Bool       -- per-chain "latest"
  bs : Option Bytes          -- per-chain "blockstorePath"
  flagFresh : Bool           -- --fresh given
  flagLatest : Bool          -- --latest given
  flagBs : Bytes             -- what viper returns for the blockstore flag ("" = nothing)
deriving Repr

structure GenOut where
  fresh : Bool
  latest : Bool
  bs : Bytes
deriving Repr, DecidableEq

/-- `GeneralChainConfig.ParseFlags` after decoding: a flag overrides only when it is set / non-empty -/
def loadGeneral (g : GenIn) : GenOut :=
  ⟨if g.flagFresh then true else g.fresh.getD false,
   if g.flagLatest then true else g.latest.getD false,
   if g.flagBs ≠ [] then g.flagBs else g.bs.getD []⟩

/-- **P20 (general settings)**: each setting is what the chain entry says unless the corresponding flag was given -/
def PGeneral (g : GenIn) (o : GenOut) : Bool :=
  (o.fresh == (if g.flagFresh then true else g.fresh.getD false)) &&
  (o.latest == (if g.flagLatest then true else g.latest.getD false)) &&
  (o.bs == (if g.flagBs ≠ [] then g.flagBs else g.bs.getD []))

/-! ### substrateNetwork: an int64 setting stored as uint16 -/

/-- `uint16(c.SubstrateNetwork)`: the low 16 bits -/
def loadSubNet (n : Int) : Nat := (n % 65536).toNat

/-- **P20 (substrate network)**: the loaded network prefix is the number written (`none` = rejected) -/
def PSubNet (n : Int) (out : Option Nat) : Bool :=
  match out with
  | none => true
  | some v => (v : Int) == n

/-! ### one numeric setting written as a JSON NUMBER (possibly fractional), as mapstructure decodes it -/

inductive NKind where
  | i64 | u64 | u8 | f64
deriving DecidableEq, Repr

/-- the Go field behind one setting: kind, validated minimum, unit of the loaded value -/
structure NField where
  kind : NKind
  minv : Option Int
  scale : Int
deriving Repr

/-- mapstructure (strict) decoding a number `milli/1000` into the field, as coded: a float64 is converted with
    `int64(f)` / `uint64(f)` (truncation toward zero), unsigned kinds refuse negative numbers, and a uint8 keeps the
    low 8 bits (`reflect.Value.SetUint`). Result in thousandths for f64 (kept exactly), in units otherwise. -/
def decodeNum (k : NKind) (milli : Int) : Option Int :=
  match k with
  | .f64 => some milli
  | .i64 => some (Int.tdiv milli 1000)
  | .u64 => if milli < 0 then none else some (Int.tdiv milli 1000)
  | .u8 => if milli < 0 then none else some (Int.tdiv milli 1000 % 256)

/-- the constructor on that one setting: decode, validate the minimum, convert the unit -/
def loadNum (f : NField) (milli : Int) : Option Int :=
  match decodeNum f.kind milli with
  | none => none
  | some v =>
    match f.minv with
    | some m => if v < m then none else some (v * f.scale)
    | none => some (v * f.scale)

/-- what the property requires to load: an integer (any number for a float64 field) that the field's type can hold
    and that passes validation -/
def numValid (f : NField) (milli : Int) : Bool :=
  match f.kind with
  | .f64 => true
  | .i64 => milli % 1000 == 0 && (match f.minv with | some m => decide (m ≤ milli / 1000) | none => true)
  | .u64 => milli % 1000 == 0 && decide (0 ≤ milli) && (match f.minv with | some m => decide (m ≤ milli / 1000) | none => true)
  | .u8 => milli % 1000 == 0 && decide (0 ≤ milli) && decide (milli / 1000 ≤ 255) &&
      (match f.minv with | some m => decide (m ≤ milli / 1000) | none => true)

/-- the value the property asks for -/
def numWanted (f : NField) (milli : Int) : Int :=
  match f.kind with
  | .f64 => milli
  | _ => milli / 1000 * f.scale

/-- **P20 (one numeric setting)**: valid values load, and whatever loads is the number written -/
def PNum (f : NField) (milli : Int) (out : Option Int) : Bool :=
  match out with
  | none => !numValid f milli
  | some v => (f.kind == .f64 || milli % 1000 == 0) && v == numWanted f milli &&
      (f.kind != .u8 || decide (milli / 1000 ≤ 255))

end Sygma.C20
