/-
  C15 — Bitcoin deposit recognition and crediting
  (`chains/btc/listener/util.go: DecodeDepositEvent`, `deposit-handler.go: HandleDeposit`,
   `event-handlers.go: ProcessDeposits / CalculateNonce`).
  Executable model of the code AS REPAIRED (satoshi conversion rounds to nearest) + executable property predicates.
  Core Lean only.

  Values: an output's JSON value is the 8-decimal number `sats / 10^8`; the model carries `sats : Nat` and credits
  exactly `sats`.  That the real conversion `int64(math.Round(float64(value) * 1e8))` returns `sats` for every
  `sats ≤ 21·10^14` is the theorem `sat_exact` over the IEEE-754 binary64 specification (Proofs/Binary64.lean) and is
  re-checked on the real code for every amount ≤ 2·10^6 on every run (op `convrange`).
  Addresses are opaque tokens: the code only compares address strings for equality.
-/
import SygmaModel.Base
import SygmaModel.Model.C15Sha256
namespace Sygma.C15

/-! ### DecodeDepositEvent -/

inductive VType | taproot | nulldata | other
deriving DecidableEq, Repr

/-- one transaction output as `DecodeDepositEvent` sees it -/
structure Vout where
  ty   : VType          -- `ScriptPubKey.Type`: "witness_v1_taproot" / "nulldata" / anything else
  addr : Nat            -- `ScriptPubKey.Address` (token; only compared for equality)
  sats : Nat            -- `Value` = sats / 10^8
  hex  : Option Bytes   -- `hex.DecodeString(ScriptPubKey.Hex)`; `none` = decoding error
deriving Repr

/-- outcome of `DecodeDepositEvent` -/
inductive Dec
  | err                                   -- returned error (OP_RETURN hex does not decode)
  | panic                                 -- `opReturnData[2:]` on fewer than 2 bytes
  | notDeposit                            -- `(Deposit{}, false, nil)`
  | deposit (amount : Nat) (data : Bytes) -- `(Deposit{Amount, Data}, true, nil)`
deriving DecidableEq, Repr

/-- loop state: `amount`, `feeAmount`, `isBridgeDeposit`, `data` -/
structure St where
  amount : Nat
  fee    : Nat
  bridge : Bool
  data   : Bytes
deriving Repr, DecidableEq

def St.init : St := ⟨0, 0, false, []⟩

/-- one iteration of the loop over `evt.Vout`; `none`/`some` of the inner `Dec` = abort -/
def step (b f : Nat) (s : St) (v : Vout) : Except Dec St :=
  let s1 : Except Dec St :=
    if v.ty = .nulldata then
      match v.hex with
      | none => .error .err
      | some h => if h.length < 2 then .error .panic else .ok { s with data := h.drop 2 }
    else .ok s
  match s1 with
  | .error e => .error e
  | .ok s =>
    let s := if v.addr = b then
        { s with bridge := true, amount := if v.ty = .taproot then s.amount + v.sats else s.amount }
      else s
    let s := if v.addr = f then { s with fee := s.fee + v.sats } else s
    .ok s

def run (b f : Nat) : St → List Vout → Except Dec St
  | s, [] => .ok s
  | s, v :: vs =>
    match step b f s v with
    | .error e => .error e
    | .ok s' => run b f s' vs

/-- the model of `DecodeDepositEvent(evt, resource, feeAddress)`; `feeAmount` is a `*big.Int` (may be negative) -/
def decode (b f : Nat) (feeAmount : Int) (vs : List Vout) : Dec :=
  match run b f St.init vs with
  | .error e => e
  | .ok s => if !s.bridge || (s.fee : Int) < feeAmount then .notDeposit else .deposit s.amount s.data

/-! ### the recognition/crediting property, declaratively -/

def paysBridge (b : Nat) (vs : List Vout) : Bool := vs.any (·.addr = b)

/-- exact satoshi sum of the Taproot outputs to the bridge address -/
def taprootSum (b : Nat) (vs : List Vout) : Nat :=
  ((vs.filter fun v => v.addr = b ∧ v.ty = .taproot).map (·.sats)).sum

/-- exact satoshi sum of the outputs to the fee address -/
def feeSum (f : Nat) (vs : List Vout) : Nat := ((vs.filter (·.addr = f)).map (·.sats)).sum

/-- payload (script minus the two leading bytes) of the last OP_RETURN output, `d` if there is none -/
def dataFrom (d : Bytes) (vs : List Vout) : Bytes :=
  vs.foldl (fun d v => if v.ty = .nulldata then (v.hex.getD []).drop 2 else d) d

/-- every OP_RETURN output carries decodable hex of at least two bytes -/
def wellFormed (v : Vout) : Bool :=
  v.ty ≠ .nulldata || (match v.hex with | some h => decide (2 ≤ h.length) | none => false)

def WF (vs : List Vout) : Bool := vs.all wellFormed

/-- **P15 (recognition and crediting)** for a candidate outcome `out` of decoding `vs`:
    with well-formed OP_RETURN outputs the transaction is a deposit exactly when it pays the bridge address and at least
    `feeAmount` to the fee address, and then it is credited the exact Taproot-to-bridge satoshi sum with the OP_RETURN
    payload; a malformed OP_RETURN output is never credited. -/
def P15dec (b f : Nat) (feeAmount : Int) (vs : List Vout) (out : Dec) : Prop :=
  if WF vs then
    match out with
    | .deposit a d => paysBridge b vs = true ∧ feeAmount ≤ (feeSum f vs : Int) ∧ a = taprootSum b vs ∧ d = dataFrom [] vs
    | .notDeposit  => ¬ (paysBridge b vs = true ∧ feeAmount ≤ (feeSum f vs : Int))
    | _            => False
  else
    match out with
    | .deposit _ _ => False
    | _ => True

instance (b f : Nat) (fa : Int) (vs : List Vout) (out : Dec) : Decidable (P15dec b f fa vs out) := by
  unfold P15dec; split <;> (split <;> infer_instance)

/-! ### HandleDeposit -/

/-- `strings.Split(s, "_")` for a one-byte separator -/
def splitOn (sep : UInt8) : Bytes → List Bytes
  | [] => [[]]
  | x :: xs =>
    if x = sep then [] :: splitOn sep xs
    else match splitOn sep xs with
      | p :: ps => (x :: p) :: ps
      | [] => [[x]]

def hexNib (c : UInt8) : Option Nat :=
  if 0x30 ≤ c ∧ c ≤ 0x39 then some (c.toNat - 0x30)
  else if 0x61 ≤ c ∧ c ≤ 0x66 then some (c.toNat - 0x57)
  else if 0x41 ≤ c ∧ c ≤ 0x46 then some (c.toNat - 0x37)
  else none

/-- what `hex.DecodeString` hands back (error ignored by go-ethereum's `Hex2Bytes`): the pairs decoded before the first bad one -/
def decodePairs : Bytes → Bytes
  | a :: b :: r =>
    match hexNib a, hexNib b with
    | some x, some y => UInt8.ofNat (x * 16 + y) :: decodePairs r
    | _, _ => []
  | _ => []

/-- go-ethereum `common.FromHex` -/
def fromHexGeth (s : Bytes) : Bytes :=
  let s := match s with
    | 0x30 :: x :: r => if x = 0x78 ∨ x = 0x58 then r else s
    | _ => s
  let s := if s.length % 2 = 1 then 0x30 :: s else s
  decodePairs s

/-- go-ethereum `common.BytesToAddress`: the last 20 bytes, left-padded -/
def toAddress (b : Bytes) : Bytes :=
  if b.length > 20 then b.drop (b.length - 20) else leftPad 20 b

def isDigit (c : UInt8) : Bool := 0x30 ≤ c && c ≤ 0x39

def decVal (s : Bytes) : Nat := s.foldl (fun a c => a * 10 + (c.toNat - 0x30)) 0

/-- `strconv.ParseUint(s, 10, 8)` -/
def parseU8 (s : Bytes) : Option Nat :=
  if s = [] then none
  else if s.all isDigit then (if decVal s ≤ 255 then some (decVal s) else none)
  else none

inductive HOut
  | err                                               -- destination domain does not parse
  | panic                                             -- no `_` in the data: `parsedData[1]` out of range
  | msg (dest : Nat) (amount : Bytes) (recipient : Bytes)
deriving DecidableEq, Repr

/-- the model of `HandleDeposit(…, amount, data, …)`: destination, payload[0] (amount·10^10 as big-endian bytes), payload[1] -/
def handleDeposit (amount : Nat) (data : Bytes) : HOut :=
  match splitOn 0x5f data with
  | p0 :: p1 :: _ =>
    match parseU8 p1 with
    | none => .err
    | some d => .msg d (natToBE (amount * 10 ^ 10)) (toAddress (fromHexGeth p0))
  | _ => .panic

/-- recipient text = bytes before the first `_`; destination text = bytes between the first and the second `_` (or the end) -/
def field0 (data : Bytes) : Bytes := data.takeWhile (· ≠ 0x5f)
def field1 (data : Bytes) : Bytes := ((data.dropWhile (· ≠ 0x5f)).drop 1).takeWhile (· ≠ 0x5f)
def hasSep (data : Bytes) : Bool := data.any (· = 0x5f)

/-- **P15 (payload)**: a message is produced exactly when the data has a separator and a destination in 0..255; then the
    destination and recipient are the OP_RETURN fields and the amount bytes are the credited amount times exactly 10^10. -/
def P15handle (amount : Nat) (data : Bytes) (out : HOut) : Prop :=
  match out with
  | .msg d a r => hasSep data = true ∧ parseU8 (field1 data) = some d ∧ r = toAddress (fromHexGeth (field0 data))
                  ∧ beToNat a = amount * 10 ^ 10
  | .err => hasSep data = true ∧ parseU8 (field1 data) = none
  | .panic => hasSep data = false

instance (amount : Nat) (data : Bytes) (out : HOut) : Decidable (P15handle amount data out) := by
  unfold P15handle; split <;> infer_instance

/-! ### CalculateNonce -/

def natDec (n : Nat) : Bytes := (toString n).toUTF8.toList

/-- xor-fold of the four big-endian 64-bit words of a 32-byte digest -/
def xorFold (h : Bytes) : Nat :=
  (List.range 4).foldl (fun acc i => acc ^^^ beToNat ((h.drop (8 * i)).take 8)) 0

/-- the model of `CalculateNonce(blockNumber, transactionHash)` -/
def calculateNonce (height : Nat) (txHash : Bytes) : Nat :=
  xorFold (Sha256.hash (natDec height ++ [0x2d] ++ txHash))

/-! ### ProcessDeposits (one configured resource) -/

structure Tx where
  hash  : Bytes
  vouts : List Vout
deriving Repr

/-- a relayed message: destination, deposit nonce, payload amount bytes, payload recipient -/
structure Msg where
  dest      : Nat
  nonce     : Nat
  amount    : Bytes
  recipient : Bytes
deriving DecidableEq, Repr

/-- per transaction: decode, then (if a deposit) nonce and `HandleDeposit`; errors and recovered panics drop the transaction only -/
def processTx (height b f : Nat) (feeAmount : Int) (tx : Tx) : Option Msg :=
  match decode b f feeAmount tx.vouts with
  | .deposit a d =>
    match handleDeposit a d with
    | .msg dest ab r => some ⟨dest, calculateNonce height tx.hash, ab, r⟩
    | _ => none
  | _ => none

/-- messages in block order (the map `destination ↦ messages` is printed sorted by destination, stably) -/
def process (height b f : Nat) (feeAmount : Int) (txs : List Tx) : List Msg :=
  txs.filterMap (processTx height b f feeAmount)

/-- **P15 (pipeline)** for transaction `tx` and what was emitted for it (`none` = nothing):
    emitted exactly when recognised with a usable payload; then amount·10^10, recipient, destination and nonce are as specified -/
def P15tx (height b f : Nat) (feeAmount : Int) (tx : Tx) (out : Option Msg) : Prop :=
  let credited := WF tx.vouts = true ∧ paysBridge b tx.vouts = true ∧ feeAmount ≤ (feeSum f tx.vouts : Int)
  let data := dataFrom [] tx.vouts
  match out with
  | some m => credited ∧ hasSep data = true ∧ parseU8 (field1 data) = some m.dest
              ∧ m.recipient = toAddress (fromHexGeth (field0 data))
              ∧ beToNat m.amount = taprootSum b tx.vouts * 10 ^ 10
              ∧ m.nonce = calculateNonce height tx.hash
  | none => ¬ (credited ∧ hasSep data = true ∧ (parseU8 (field1 data)).isSome = true)

instance (height b f : Nat) (fa : Int) (tx : Tx) (out : Option Msg) : Decidable (P15tx height b f fa tx out) := by
  unfold P15tx; split <;> infer_instance

/-! ### ProcessDeposits / HandleEvents with several configured resources -/

/-- a configured resource: id (resources are matched in ascending id order), bridge address, fee threshold -/
structure Res where
  rid  : Nat
  addr : Nat
  fee  : Int
deriving Repr, DecidableEq

/-- per transaction, resources in the given (id-sorted) order: the first resource for which the transaction decodes as a
    deposit is credited; an error or (recovered) panic while decoding or handling drops the transaction -/
def processTxR (height f : Nat) : List Res → Tx → Option (Nat × Msg)
  | [], _ => none
  | r :: rs, tx =>
    match decode r.addr f r.fee tx.vouts with
    | .deposit a d =>
      match handleDeposit a d with
      | .msg dest ab rc => some (r.rid, ⟨dest, calculateNonce height tx.hash, ab, rc⟩)
      | _ => none
    | .notDeposit => processTxR height f rs tx
    | _ => none

/-- does resource `r` credit the transaction: its bridge address is paid and the fee address gets at least ITS threshold -/
def credits (f : Nat) (tx : Tx) (r : Res) : Bool :=
  paysBridge r.addr tx.vouts && decide (r.fee ≤ (feeSum f tx.vouts : Int))

/-- **P15 (pipeline, several resources)**: with well-formed OP_RETURN outputs the transaction is credited to the first
    resource (in id order) whose address it pays and whose own fee threshold it meets, with exactly the single-resource
    guarantees `P15tx` for that resource; if no resource qualifies, or an OP_RETURN output is malformed, nothing is emitted. -/
def P15txR (height f : Nat) (rs : List Res) (tx : Tx) (out : Option (Nat × Msg)) : Prop :=
  if WF tx.vouts then
    match rs.find? (credits f tx) with
    | none => out = none
    | some r => P15tx height r.addr f r.fee tx (out.map (·.2)) ∧ ∀ x, out = some x → x.1 = r.rid
  else out = none

instance (height f : Nat) (rs : List Res) (tx : Tx) (out : Option (Nat × Msg)) : Decidable (P15txR height f rs tx out) := by
  unfold P15txR; split
  · split <;> infer_instance
  · infer_instance

/-- what one `HandleEvents(height)` call forwards: every emitted message of the block, once (the channel carries one batch
    per destination; grouping is done by the driver) -/
def processR (height f : Nat) (rs : List Res) (txs : List Tx) : List (Nat × Msg) :=
  txs.filterMap (processTxR height f rs)

end Sygma.C15
