/-
  C10 — key-share lock: taken and given back exactly as often on every path through a session.
  Table model. For each of the six MPC process kinds the lock-relevant events of its constructor, `Run` and `Stop`
  (the same table is REGENERATED from the Go sources by harness/sygx/c10.go and compared in Oblig/C10.lean);
  a session outcome decides which of constructor / Run / Stop the coordinator performs and where Run leaves.
  The lock is a counter with Go's `sync.Mutex` semantics: unlocking at 0 is fatal, locking at 1 blocks for ever
  (within one relayer's sequential session there is nobody else to release it), held at exit is a leak.
  Core Lean only.
-/
import SygmaModel.Base
namespace Sygma.C10

inductive Ev where
  | L      -- LockKeyshare()
  | U      -- UnlockKeyshare()
  | dU     -- defer UnlockKeyshare()
  | G      -- GetKeyshare(): a read of the share
  | W      -- `.Wait()`: the protocol runs until this returns
  | ret    -- conditional early return
  | rete   -- conditional early return of an error from a constructor (no process object exists afterwards)
  | fin    -- the function's final return
  | bad    -- something the table cannot express (lock call inside a closure, …)
deriving DecidableEq, Repr

inductive Kind where
  | ekeygen | fkeygen | eresharing | fresharing | esigning | fsigning
deriving DecidableEq, Repr

def Kind.all : List Kind := [.ekeygen, .fkeygen, .eresharing, .fresharing, .esigning, .fsigning]

/-- key generation and resharing must hold the lock while the protocol runs; signing must not keep it -/
def Kind.exclusive : Kind → Bool
  | .esigning | .fsigning => false
  | _ => true

structure Proc where
  ctor : List Ev
  run  : List Ev
  stop : List Ev
deriving Repr, DecidableEq

/-- the lock events of the six kinds, as the (repaired) sources have them -/
def table : Kind → Proc
  | .ekeygen    => ⟨[.fin], [.L, .dU, .ret, .ret, .ret, .W, .fin], [.fin]⟩
  | .fkeygen    => ⟨[.L, .fin], [.ret, .W, .fin], [.U, .fin]⟩
  | .eresharing => ⟨[.L, .G, .fin], [.ret, .ret, .ret, .ret, .W, .fin], [.U, .fin]⟩
  | .fresharing => ⟨[.L, .G, .fin], [.ret, .ret, .W, .fin], [.U, .fin]⟩
  | .esigning   => ⟨[.L, .dU, .G, .rete, .fin], [.ret, .ret, .ret, .ret, .ret, .W, .fin], [.fin]⟩
  | .fsigning   => ⟨[.L, .dU, .G, .rete, .rete, .rete, .rete, .fin], [.ret, .ret, .ret, .W, .fin], [.fin]⟩

/-- the as-found ECDSA keygen: `Run` locks, `Stop` always unlocks -/
def asFoundEkeygen : Proc := ⟨[.fin], [.L, .ret, .ret, .ret, .W, .fin], [.U, .fin]⟩

/-- what a stretch of code did to the lock -/
structure Delta where
  held    : Nat            -- lock count afterwards
  locks   : Nat
  unlocks : Nat
  fatal   : Nat            -- unlocks of an unlocked mutex
  blocked : Nat            -- locks of a locked mutex
  accL    : Nat            -- share accesses with the lock held
  accU    : Nat            -- share accesses without
  runHeld : Option Nat     -- lock count when the protocol started to run
  unknown : Bool
deriving Repr, DecidableEq

def Delta.start (h : Nat) : Delta := ⟨h, 0, 0, 0, 0, 0, 0, none, false⟩

def unlock (d : Delta) : Delta :=
  if d.held = 0 then { d with unlocks := d.unlocks + 1, fatal := d.fatal + 1 }
  else { d with unlocks := d.unlocks + 1, held := d.held - 1 }

/-- straight-line execution of the events of one function activation; returns the state and the number of deferred unlocks -/
def evStep (s : Delta × Nat) : Ev → Delta × Nat
  | .L  => if s.1.held = 0 then ({ s.1 with locks := s.1.locks + 1, held := 1 }, s.2)
           else ({ s.1 with locks := s.1.locks + 1, blocked := s.1.blocked + 1 }, s.2)
  | .U  => (unlock s.1, s.2)
  | .dU => (s.1, s.2 + 1)
  | .G  => if s.1.held = 0 then ({ s.1 with accU := s.1.accU + 1 }, s.2) else ({ s.1 with accL := s.1.accL + 1 }, s.2)
  | .W  => ({ s.1 with runHeld := some s.1.held }, s.2)
  | .bad => ({ s.1 with unknown := true }, s.2)
  | _ => s

def runDeferred : Nat → Delta → Delta
  | 0, d => d
  | n + 1, d => runDeferred n (unlock d)

/-- run the events actually executed on one path, then the deferred unlocks -/
def activation (evs : List Ev) (d : Delta) : Delta :=
  let s := evs.foldl evStep (d, 0)
  runDeferred s.2 s.1

inductive Exit where
  | early | ctorErr | full
deriving DecidableEq, Repr

/-- all paths through a function: leave at any conditional return, or run to the end -/
def paths : List Ev → List Ev → List (List Ev × Exit)
  | _, [] => []
  | pre, .ret :: rest => (pre.reverse, .early) :: paths pre rest
  | pre, .rete :: rest => (pre.reverse, .ctorErr) :: paths pre rest
  | pre, .fin :: _ => [(pre.reverse, .full)]
  | pre, e :: rest => paths (e :: pre) rest

def pathsOf (evs : List Ev) (want : Exit) : List (List Ev) :=
  ((paths [] evs).filter (·.2 = want)).map (·.1)

/-- the paths through a process kind's three functions, by the way they leave -/
structure PSet where
  ctorFull : List (List Ev)   -- constructor returns a process
  ctorErr  : List (List Ev)   -- constructor returns an error (no process object exists afterwards)
  runEarly : List (List Ev)   -- Run leaves before the protocol ran
  runFull  : List (List Ev)   -- Run ran the protocol
  stop     : List (List Ev)
deriving Repr

inductive Outcome where
  | ctorerr    -- the constructor refused (signing without a readable share): no process, no Execute
  | refused    -- Execute refused the session as a duplicate
  | never      -- admitted, never started: coordinator silent | global time-out | cancelled before start
  | rejected   -- started, Run left early (start parameters rejected / failed to start)
  | ran        -- the protocol ran (and failed or succeeded)
deriving DecidableEq, Repr

def Outcome.all : List Outcome := [.ctorerr, .refused, .never, .rejected, .ran]

/-- chain the alternatives of one more function activation onto every state reached so far -/
def andThen (ds : List Delta) (alts : List (List Ev)) : List Delta :=
  ds.flatMap fun d => alts.map fun p => activation p d

def Proc.pset (p : Proc) : PSet :=
  ⟨pathsOf p.ctor .full, pathsOf p.ctor .ctorErr, pathsOf p.run .early, pathsOf p.run .full,
   pathsOf p.stop .full ++ pathsOf p.stop .early⟩

/-- every way a session with outcome `o` can go over the path set `s`, from lock count `h`.
    `refusalStops`: the coordinator stops the processes of a refused duplicate (regenerated fact). -/
def sessionFromP (refusalStops : Bool) (s : PSet) (o : Outcome) (h : Nat) : List Delta :=
  let born := andThen [Delta.start h] s.ctorFull
  match o with
  | .ctorerr  => andThen [Delta.start h] s.ctorErr
  | .refused  => if refusalStops then andThen born s.stop else born
  | .never    => andThen born s.stop
  | .rejected => andThen (andThen born s.runEarly) s.stop
  | .ran      => andThen (andThen born s.runFull) s.stop

/-- every way a session of process `p` with outcome `o` can go, from lock count `h` -/
def sessionFrom (refusalStops : Bool) (p : Proc) (o : Outcome) (h : Nat) : List Delta :=
  sessionFromP refusalStops p.pset o h

/-- a session whose processes are retryable (signing): the coordinator's `handleError` makes at most ONE further
    attempt, so `Run` is entered at most twice on one object - each time leaving early (SubsetError, start parameters
    rejected) or running the protocol - and `Stop` is called once. Every combination of paths. -/
def retriedFromP (s : PSet) (h : Nat) : List Delta :=
  let born := andThen [Delta.start h] s.ctorFull
  let runs := s.runEarly ++ s.runFull
  andThen (andThen (andThen born runs) runs) s.stop

def retriedFrom (p : Proc) (h : Nat) : List Delta := retriedFromP p.pset h

/-- the production entry points (`KeygenEventHandler`, `FrostKeygenEventHandler`, `RefreshEventHandler`): construct the
    process, call `Execute`, log its error - and touch the process no further. `extraStop` = the seeded variant that
    stops the process once more after a failed `Execute`. -/
def handlerFrom (extraStop : Bool) (p : Proc) (o : Outcome) (h : Nat) : List Delta :=
  let ds := sessionFrom true p o h
  if extraStop && o != .ctorerr then andThen ds (pathsOf p.stop .full ++ pathsOf p.stop .early) else ds

/-- ONE session made of several processes (`Execute` takes an array), each with a store of its own: every process is
    constructed once and - by `Execute`'s loops - run together with the others and stopped exactly once. Per store the
    session is that process's own session. `stopsOf i` = how often process `i` of `n` is stopped (1 in the code; the
    seeded variant whose deferred closures all capture the loop variable stops the LAST one n times and the others never). -/
def afterRun (p : PSet) (o : Outcome) : List Delta :=
  let born := andThen [Delta.start 0] p.ctorFull
  match o with
  | .rejected => andThen born p.runEarly
  | .ran => andThen born p.runFull
  | _ => born

def stopTimes (p : PSet) (n : Nat) (ds : List Delta) : List Delta :=
  (List.range n).foldl (fun ds _ => andThen ds p.stop) ds

def multiFrom (tbl : Kind → Proc) (ks : List Kind) (o : Outcome) (stopsOf : Nat → Nat → Nat) : List (List Delta) :=
  ks.zipIdx.map fun (k, i) => stopTimes (tbl k).pset (stopsOf i ks.length) (afterRun (tbl k).pset o)

def Delta.add (a b : Delta) : Delta :=
  ⟨b.held, a.locks + b.locks, a.unlocks + b.unlocks, a.fatal + b.fatal, a.blocked + b.blocked,
   a.accL + b.accL, a.accU + b.accU, b.runHeld, a.unknown || b.unknown⟩

/-- sessions one after another on one store: every combination of paths, effects accumulated -/
def sequenceFrom (tbl : Kind → Proc) (refusalStops : Bool) : List (Kind × Outcome) → Nat → List Delta
  | [], h => [Delta.start h]
  | (k, o) :: rest, h =>
    (sessionFrom refusalStops (tbl k) o h).flatMap fun d =>
      (sequenceFrom tbl refusalStops rest d.held).map fun e => d.add e

/-! ### contention: the lock is HELD by somebody else when the session wants it -/

/-- the store while another holder `H` has the lock: `d` counts H's own acquisition too -/
structure CState where
  d      : Delta
  hHolds : Bool    -- H still has the lock
  waited : Nat     -- how often the session found the lock taken and had to wait for H's release
deriving Repr, DecidableEq

/-- H took the lock before the session began -/
def CState.init : CState := ⟨activation [.L] (Delta.start 0), true, 0⟩

/-- one event of the session under contention. `LockKeyshare` on a taken mutex blocks - it does not look at any
    context, so a cancellation of the session meanwhile changes nothing until the lock has been obtained - and
    continues once H has released (assumed: H eventually does). Everything else is as without contention. -/
def evStepC (s : CState × Nat) : Ev → CState × Nat
  | .L =>
    let c := if s.1.hHolds then { s.1 with d := unlock s.1.d, hHolds := false, waited := s.1.waited + 1 } else s.1
    let r := evStep (c.d, s.2) .L
    ({ c with d := r.1 }, r.2)
  | e =>
    let r := evStep (s.1.d, s.2) e
    ({ s.1 with d := r.1 }, r.2)

def activationC (evs : List Ev) (c : CState) : CState :=
  let s := evs.foldl evStepC (c, 0)
  { s.1 with d := runDeferred s.2 s.1.d }

def andThenC (cs : List CState) (alts : List (List Ev)) : List CState :=
  cs.flatMap fun c => alts.map fun p => activationC p c

/-- H releases at the latest when the session is over (if the session never asked for the lock) -/
def CState.finish (c : CState) : CState :=
  if c.hHolds then { c with d := unlock c.d, hHolds := false } else c

/-- every way a session of `p` with outcome `o` can go when the lock is held by somebody else as it begins: which
    path each function takes AFTER the session got the lock is free (a cancellation that arrived while it waited may
    send it down any early return) -/
def contendedFromP (s : PSet) (o : Outcome) : List CState :=
  let born := andThenC [CState.init] s.ctorFull
  (match o with
  | .ctorerr  => andThenC [CState.init] s.ctorErr
  | .refused  => andThenC born s.stop
  | .never    => andThenC born s.stop
  | .rejected => andThenC (andThenC born s.runEarly) s.stop
  | .ran      => andThenC (andThenC born s.runFull) s.stop).map CState.finish

def contendedFrom (p : Proc) (o : Outcome) : List CState := contendedFromP p.pset o

/-- for exclusive kinds nothing releases the lock between the start of the protocol (`W`) and the end of `Run` -/
def noReleaseAfterW : List Ev → Bool
  | [] => true
  | .W :: rest => !rest.contains .U
  | _ :: rest => noReleaseAfterW rest

/-! ### the property -/

/-- balanced: nothing held, no fatal unlock, no self-deadlock, as many unlocks as locks, no access without the lock -/
def Balanced (d : Delta) : Prop :=
  d.held = 0 ∧ d.fatal = 0 ∧ d.blocked = 0 ∧ d.locks = d.unlocks ∧ d.accU = 0 ∧ d.unknown = false

instance (d : Delta) : Decidable (Balanced d) := by unfold Balanced; infer_instance

/-- exclusive kinds hold the lock while the protocol runs; signing does not keep it -/
def RunsUnderLock (k : Kind) (d : Delta) : Prop :=
  d.runHeld = some (if k.exclusive then 1 else 0)

instance (k : Kind) (d : Delta) : Decidable (RunsUnderLock k d) := by unfold RunsUnderLock; infer_instance

end Sygma.C10
