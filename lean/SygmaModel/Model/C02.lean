/-
  C02 — the digest handed to threshold signing and the signature bytes submitted with a batch.

  Model  (`proposalsHash`): what `chains/proposal.go: ProposalsHash` does — it fills go-ethereum's generic
          EIP-712 machinery (`apitypes.TypedData`: `Types` table, `Domain.Map()`, `HashStruct`, `EncodeData`,
          `EncodeType`, `Dependencies`, `EncodePrimitiveValue`) and hashes `0x19 0x01 ‖ domainSeparator ‖ hashStruct`.
          The generic algorithm is modelled for the subset the relayer uses (flat structs of primitive fields, one
          array of flat structs); maps are association lists consumed by key lookup.
  Spec   (`Spec.digest`): the bridge contract's side, written independently as the closed formula of
          `Bridge.sol` (`_hashTypedDataV4(keccak256(abi.encode(_PROPOSALS_TYPEHASH, keccak256(abi.encodePacked(hashes)))))`).
  Both are parameterised by the hash function `H`; the driver instantiates `H := Keccak.keccak256`.
  Also: `sigBytes` (the r‖s‖v assembly of `executeBatch` / `executeProposal`), `toInt64` (`big.Int.Int64()`).
  Core Lean only.
-/
import SygmaModel.Base
import SygmaModel.Model.C02Keccak
namespace Sygma.C02

abbrev Hash := Bytes → Bytes

def strBytes (s : String) : Bytes := s.toUTF8.toList

/-- a proposal as the hash sees it (`Source`, `Data.DepositNonce`, `Data.ResourceId`, `Data.Data`) -/
structure Prop' where
  origin : Nat
  nonce  : Nat
  rid    : Bytes
  data   : Bytes
deriving DecidableEq, Repr

/-! ## go-ethereum `apitypes` (generic EIP-712), the subset used -/

structure Field where
  name : String
  type : String
deriving DecidableEq, Repr

/-- `apitypes.Types` (a Go map; only ever consumed by key lookup) -/
abbrev Types := List (String × List Field)

/-- the `Types` literal of `chains/proposal.go` -/
def typesTable : Types := [
  ("EIP712Domain", [⟨"name", "string"⟩, ⟨"version", "string"⟩, ⟨"chainId", "uint256"⟩, ⟨"verifyingContract", "address"⟩]),
  ("Proposal", [⟨"originDomainID", "uint8"⟩, ⟨"depositNonce", "uint64"⟩, ⟨"resourceID", "bytes32"⟩, ⟨"data", "bytes"⟩]),
  ("Proposals", [⟨"proposals", "Proposal[]"⟩])]

def primaryType : String := "Proposals"
def domainName : String := "Bridge"

def isArrayT (t : String) : Bool := t.toList.reverse.take 2 == [']', '[']
/-- `strings.TrimSuffix(t, "[]")` -/
def elemT (t : String) : String := if isArrayT t then String.ofList t.toList.dropLast.dropLast else t

def insertSorted (x : String) : List String → List String
  | [] => [x]
  | y :: ys => if x < y ∨ x = y then x :: y :: ys else y :: insertSorted x ys
def sortStrings (xs : List String) : List String := xs.foldr insertSorted []

/-- `TypedData.Dependencies` (fuel bounds the recursion; cyclic tables terminate through `found`) -/
def deps (types : Types) : Nat → String → List String → List String
  | 0, _, found => found
  | fuel + 1, t, found =>
    let t := elemT t
    if found.contains t then found else
    match types.lookup t with
    | none => found
    | some fields =>
      fields.foldl (fun found f =>
        (deps types fuel f.type found).foldl (fun acc d => if acc.contains d then acc else acc ++ [d]) found)
        (found ++ [t])

/-- `TypedData.EncodeType`: primary type first, the other dependencies sorted by name -/
def encodeType (types : Types) (t : String) : String :=
  let ds := deps types (types.length + 1) t []
  let ds := match ds with
    | [] => []
    | _ :: rest => t :: sortStrings rest
  String.join <| ds.map fun d =>
    d ++ "(" ++ ",".intercalate (((types.lookup d).getD []).map fun f => f.type ++ " " ++ f.name) ++ ")"

/-- primitive type names, parsed -/
inductive PT
  | address | string | bytes
  | bytesN (n : Nat)
  | uint (bits : Nat)
  | unknown
deriving DecidableEq, Repr

def parsePT (t : String) : PT :=
  if t = "address" then .address else if t = "string" then .string else if t = "bytes" then .bytes
  else if t = "bytes32" then .bytesN 32
  else if t = "uint8" then .uint 8 else if t = "uint64" then .uint 64 else if t = "uint256" then .uint 256
  else .unknown

/-- the Go values the relayer puts into the typed-data maps -/
inductive Prim
  | int (i : Int)               -- *big.Int / *math.HexOrDecimal256
  | str (s : String)            -- Go string
  | bytes (b : Bytes)           -- []byte
  | hexstr (b : Bytes)          -- the Go string `hexutil.Encode(b)`  (decodes back to `b`: assumed, tied by correspondence)
  | addrstr (a : Option Bytes)  -- a Go string; `some a` iff `common.IsHexAddress`, `a` = `HexToAddress(..).Bytes()`
deriving Repr

/-- `EncodePrimitiveValue` (+ `parseInteger`, `parseBytes`); `none` = returned error; a missing map key is `none` -/
def encodePrim (H : Hash) (t : PT) (v : Option Prim) : Option Bytes :=
  match t, v with
  | .address, some (.addrstr (some a)) => if a.length = 20 then some (List.replicate 12 0 ++ a) else none
  | .string, some (.str s) => some (H (strBytes s))
  | .bytes, some (.bytes b) => some (H b)
  | .bytes, some (.hexstr b) => some (H b)
  | .bytesN n, some (.bytes b) => if b.length = n then some (rightPad 32 b) else none
  | .bytesN n, some (.hexstr b) => if b.length = n then some (rightPad 32 b) else none
  | .uint bits, some (.int i) => if 0 ≤ i ∧ i.toNat < 2 ^ bits then some (pad32 i.toNat) else none
  | _, _ => none

abbrev Flat := List (String × Prim)   -- map[string]interface{} with primitive values

def encFields (H : Hash) (m : Flat) : List Field → Option Bytes
  | [] => some []
  | f :: fs =>
    match encodePrim H (parsePT f.type) (m.lookup f.name), encFields H m fs with
    | some a, some b => some (a ++ b)
    | _, _ => none

/-- `HashStruct` of a flat struct: keccak(typeHash ‖ enc(fields in `Types` order)); more keys than fields is an error -/
def hashFlat (H : Hash) (types : Types) (t : String) (m : Flat) : Option Bytes :=
  match types.lookup t with
  | none => none
  | some fields =>
    if fields.length < m.length then none else
    (encFields H m fields).map fun enc => H (H (strBytes (encodeType types t)) ++ enc)

def hashAll (H : Hash) (types : Types) (t : String) : List Flat → Option (List Bytes)
  | [] => some []
  | m :: ms =>
    match hashFlat H types t m, hashAll H types t ms with
    | some a, some b => some (a :: b)
    | _, _ => none

inductive Val
  | prim (p : Prim)
  | structs (xs : List Flat)    -- []interface{} of map[string]interface{}

def encMsgFields (H : Hash) (types : Types) (m : List (String × Val)) : List Field → Option Bytes
  | [] => some []
  | f :: fs =>
    let here : Option Bytes :=
      if isArrayT f.type then
        match m.lookup f.name with
        | some (.structs xs) => (hashAll H types (elemT f.type) xs).map fun hs => H hs.flatten
        | _ => none
      else
        match m.lookup f.name with
        | some (.prim p) => encodePrim H (parsePT f.type) (some p)
        | _ => none
    match here, encMsgFields H types m fs with
    | some a, some b => some (a ++ b)
    | _, _ => none

def hashMsg (H : Hash) (types : Types) (t : String) (m : List (String × Val)) : Option Bytes :=
  match types.lookup t with
  | none => none
  | some fields =>
    if fields.length < m.length then none else
    (encMsgFields H types m fields).map fun enc => H (H (strBytes (encodeType types t)) ++ enc)

/-! ## `chains.ProposalsHash` -/

/-- `typedData.Domain.Map()`: chainId always (non-nil), the strings only when non-empty -/
def domainMap (chainId : Int) (contractEmpty : Bool) (contract : Option Bytes) (version : String) : Flat :=
  [("chainId", .int chainId), ("name", .str domainName)] ++
  (if version = "" then [] else [("version", .str version)]) ++
  (if contractEmpty then [] else [("verifyingContract", .addrstr contract)])

def propMap (p : Prop') : Flat :=
  [("originDomainID", .int p.origin), ("depositNonce", .int p.nonce), ("resourceID", .hexstr p.rid), ("data", .bytes p.data)]

/-- the model of `chains.ProposalsHash(proposals, chainID, verifContract, bridgeVersion)`;
    `contract` is the parsed `verifContract` string (`none`: not a hex address), `none` result = error -/
def proposalsHash (H : Hash) (props : List Prop') (chainId : Int) (contractEmpty : Bool) (contract : Option Bytes)
    (version : String) : Option Bytes :=
  match hashFlat H typesTable "EIP712Domain" (domainMap chainId contractEmpty contract version),
        hashMsg H typesTable primaryType [("proposals", .structs (props.map propMap))] with
  | some ds, some sh => some (H ([0x19, 0x01] ++ ds ++ sh))
  | _, _ => none

/-- `big.Int.Int64()`: the low 64 bits, two's complement -/
def toInt64 (n : Int) : Int := (n + 2 ^ 63) % 2 ^ 64 - 2 ^ 63

def evmBridgeVersion : String := "3.1.0"
def palletBridgeVersion : String := "3.1.0"
/-- `pallet.verifyingContract` -/
def palletContract : Bytes :=
  [0x6C,0xdE,0x2C,0xd8,0x2a,0x4F,0x8B,0x74,0x69,0x3F,0xf5,0xe1,0x94,0xc1,0x9C,0xA0,0x8c,0x2d,0x1c,0x68]

/-- `BridgeContract.ProposalsHash`: chain id from the client (a big.Int, truncated by `.Int64()`),
    contract address from `ContractAddress().Hex()` (always a hex address) -/
def evmProposalsHash (H : Hash) (props : List Prop') (clientChainId : Int) (addr : Bytes) : Option Bytes :=
  proposalsHash H props (toInt64 clientChainId) false (some addr) evmBridgeVersion

/-- `Pallet.ProposalsHash` -/
def palletProposalsHash (H : Hash) (props : List Prop') (chainId : Int) : Option Bytes :=
  proposalsHash H props (toInt64 chainId) false (some palletContract) palletBridgeVersion

/-! ## the bridge contract's side (specification) -/
namespace Spec

def typeDomain : String := "EIP712Domain(string name,string version,uint256 chainId,address verifyingContract)"
def typeProposal : String := "Proposal(uint8 originDomainID,uint64 depositNonce,bytes32 resourceID,bytes data)"
def typeProposals : String := "Proposals(Proposal[] proposals)Proposal(uint8 originDomainID,uint64 depositNonce,bytes32 resourceID,bytes data)"
def name : String := "Bridge"
def version : String := "3.1.0"

/-- `keccak256(abi.encode(_PROPOSAL_TYPEHASH, originDomainID, depositNonce, resourceID, keccak256(data)))` -/
def hp (H : Hash) (p : Prop') : Bytes :=
  H (H (strBytes typeProposal) ++ pad32 p.origin ++ pad32 p.nonce ++ p.rid ++ H p.data)

/-- `_domainSeparatorV4()` -/
def domSep (H : Hash) (ver : String) (chain : Nat) (addr : Bytes) : Bytes :=
  H (H (strBytes typeDomain) ++ H (strBytes name) ++ H (strBytes ver) ++ pad32 chain ++ (List.replicate 12 0 ++ addr))

def structHash (H : Hash) (props : List Prop') : Bytes :=
  H (H (strBytes typeProposals) ++ H ((props.map (hp H)).flatten))

/-- `ECDSA.toTypedDataHash(domainSeparator, structHash)` -/
def digestV (H : Hash) (ver : String) (chain : Nat) (addr : Bytes) (props : List Prop') : Bytes :=
  H ([0x19, 0x01] ++ domSep H ver chain addr ++ structHash H props)

def digest (H : Hash) (chain : Nat) (addr : Bytes) (props : List Prop') : Bytes := digestV H version chain addr props

end Spec

/-! ### what the digest computation feeds to `H` (the statement of the binding theorem is about these) -/

def hpPre (H : Hash) (p : Prop') : Bytes :=
  H (strBytes Spec.typeProposal) ++ pad32 p.origin ++ pad32 p.nonce ++ p.rid ++ H p.data
def domPre (H : Hash) (ver : String) (chain : Nat) (addr : Bytes) : Bytes :=
  H (strBytes Spec.typeDomain) ++ H (strBytes Spec.name) ++ H (strBytes ver) ++ pad32 chain ++ (List.replicate 12 0 ++ addr)
def arrPre (H : Hash) (ps : List Prop') : Bytes := (ps.map (Spec.hp H)).flatten
def structPre (H : Hash) (ps : List Prop') : Bytes := H (strBytes Spec.typeProposals) ++ H (arrPre H ps)
def topPre (H : Hash) (ver : String) (chain : Nat) (addr : Bytes) (ps : List Prop') : Bytes :=
  [0x19, 0x01] ++ Spec.domSep H ver chain addr ++ Spec.structHash H ps
/-- per proposal: the pre-image of its struct hash and its data field -/
def propPres (H : Hash) (ps : List Prop') : List Bytes := ps.flatMap fun p => [hpPre H p, p.data]

/-- every byte string that the digest computation for (version, chain id, address, batch) hands to `H` and that depends
    on the input: the top-level frame, the domain separator's pre-image, the struct hash's pre-image, the array's
    pre-image, each proposal's pre-image and each data field (the type strings / name / version are the same constants
    on both sides of any comparison) -/
def hashedBy (H : Hash) (ver : String) (chain : Nat) (addr : Bytes) (ps : List Prop') : List Bytes :=
  [topPre H ver chain addr ps, domPre H ver chain addr, structPre H ps, arrPre H ps] ++ propPres H ps

/-- a collision of `H` EXHIBITED between two explicitly computable lists of pre-images -/
def ExCollision (H : Hash) (X Y : List Bytes) : Prop := ∃ a ∈ X, ∃ b ∈ Y, a ≠ b ∧ H a = H b

/-- a deliberately weak "hash" with 32-byte outputs (the first 32 bytes, zero padded): used to show that the collision
    disjunct of the binding theorem is really taken when the hash is bad -/
def weakH : Hash := fun b => (b ++ List.replicate 32 0).take 32

/-- well-formed batch: the ranges of the Go types (`uint8`, `uint64`, `[32]byte`) -/
def Prop'.WF (p : Prop') : Prop := p.origin < 2 ^ 8 ∧ p.nonce < 2 ^ 64 ∧ p.rid.length = 32
instance (p : Prop') : Decidable p.WF := by unfold Prop'.WF; infer_instance

/-! ## signature bytes -/

/-- `executeBatch` / `executeProposal`: `LeftPad(R,32) ‖ LeftPad(S,32) ‖ SignatureRecovery`, then `sig[len-1] += 27`
    (uint8 addition). `none` would be the index-out-of-range panic (never: the length is ≥ 64). -/
def sigBytes (r s rec : Bytes) : Option Bytes :=
  match (leftPad 32 r ++ leftPad 32 s ++ rec).reverse with
  | [] => none
  | x :: xs => some ((x + 27) :: xs).reverse

/-- the property of the submitted signature, as a predicate on ANY candidate byte string -/
def SigOk (r s : Nat) (recid : UInt8) (sig : Bytes) : Prop :=
  sig.length = 65 ∧ beToNat (sig.take 32) = r ∧ beToNat ((sig.drop 32).take 32) = s ∧
  sig.drop 64 = [recid + 27] ∧ ((recid = 0 ∨ recid = 1) ↔ (sig.drop 64 = [27] ∨ sig.drop 64 = [28]))

instance (r s : Nat) (recid : UInt8) (sig : Bytes) : Decidable (SigOk r s recid sig) := by
  unfold SigOk; infer_instance

/-! ## the watch loop between hashing and submission (`watchExecution` of both executors) -/

inductive WatchOut
  | closed                          -- a poll found every member executed before a signature arrived: nothing is submitted
  | submitted (batch : List Nat)    -- the signature arrived: this is what `ExecuteProposals` receives
deriving DecidableEq, Repr

/-- `sweeps`: the answers of the destination to the periodic "already executed?" polls that happen before the signature
    arrives (`true` = executed; a failed lookup counts as not executed). The loop holds the batch that was hashed. -/
def watch (batch : List Nat) (sweeps : List (List Bool)) : WatchOut :=
  if sweeps.any (fun w => w.length == batch.length && w.all id) then .closed else .submitted batch

end Sygma.C02
