/-
  Executable Keccak-256 (the pre-NIST padding 0x01 … 0x80 used by Ethereum), core Lean only.
  Nothing is proved ABOUT the permutation; the only lemma is that the output has 32 bytes
  (needed to instantiate the binding theorem of Props/C02 with this function).
  Validated against go-ethereum `crypto.Keccak256` on every run (op `C02 keccak`).
-/
import SygmaModel.Base
namespace Sygma.Keccak

def RC : Array UInt64 := #[
  0x0000000000000001, 0x0000000000008082, 0x800000000000808a, 0x8000000080008000,
  0x000000000000808b, 0x0000000080000001, 0x8000000080008081, 0x8000000000008009,
  0x000000000000008a, 0x0000000000000088, 0x0000000080008009, 0x000000008000000a,
  0x000000008000808b, 0x800000000000008b, 0x8000000000008089, 0x8000000000008003,
  0x8000000000008002, 0x8000000000000080, 0x000000000000800a, 0x800000008000000a,
  0x8000000080008081, 0x8000000000008080, 0x0000000080000001, 0x8000000080008008]

def ROTC : Array UInt64 := #[1, 3, 6, 10, 15, 21, 28, 36, 45, 55, 2, 14, 27, 41, 56, 8, 25, 43, 62, 18, 39, 61, 20, 44]
def PILN : Array Nat := #[10, 7, 11, 17, 18, 3, 5, 16, 8, 21, 24, 4, 15, 23, 19, 13, 12, 2, 20, 14, 22, 9, 6, 1]

@[inline] def rotl (x : UInt64) (n : UInt64) : UInt64 := (x <<< n) ||| (x >>> (64 - n))

def round (st : Array UInt64) (r : Nat) : Array UInt64 := Id.run do
  let mut st := st
  -- theta
  let mut bc : Array UInt64 := Array.replicate 5 0
  for i in [0:5] do
    bc := bc.set! i (st[i]! ^^^ st[i+5]! ^^^ st[i+10]! ^^^ st[i+15]! ^^^ st[i+20]!)
  for i in [0:5] do
    let t := bc[(i+4) % 5]! ^^^ rotl bc[(i+1) % 5]! 1
    for j in [0:5] do
      st := st.set! (5*j + i) (st[5*j + i]! ^^^ t)
  -- rho, pi
  let mut t := st[1]!
  for i in [0:24] do
    let j := PILN[i]!
    let b := st[j]!
    st := st.set! j (rotl t ROTC[i]!)
    t := b
  -- chi
  for j in [0:5] do
    for i in [0:5] do
      bc := bc.set! i st[5*j + i]!
    for i in [0:5] do
      st := st.set! (5*j + i) (bc[i]! ^^^ ((~~~ bc[(i+1) % 5]!) &&& bc[(i+2) % 5]!))
  -- iota
  st := st.set! 0 (st[0]! ^^^ RC[r]!)
  return st

def permute (st : Array UInt64) : Array UInt64 := Id.run do
  let mut st := st
  for r in [0:24] do
    st := round st r
  return st

/-- little-endian 8 bytes → lane -/
def laneOf (b : Bytes) : UInt64 :=
  b.foldr (fun x acc => (acc <<< 8) ||| x.toUInt64) 0

/-- xor one 136-byte block into the state and permute -/
def absorbBlock (st : Array UInt64) (blk : Bytes) : Array UInt64 := Id.run do
  let mut st := st
  let mut rest := blk
  for i in [0:17] do
    st := st.set! i (st[i]! ^^^ laneOf (rest.take 8))
    rest := rest.drop 8
  return permute st

def rate : Nat := 136

/-- absorb the message in 136-byte blocks; the last (possibly empty) partial block is padded 0x01 … 0x80 -/
def absorb (st : Array UInt64) (msg : Bytes) (fuel : Nat) : Array UInt64 :=
  match fuel with
  | 0 => st
  | fuel + 1 =>
    if msg.length < rate then
      let padLen := rate - msg.length
      let pad : Bytes :=
        if padLen = 1 then [0x81] else [0x01] ++ List.replicate (padLen - 2) 0 ++ [0x80]
      absorbBlock st (msg ++ pad)
    else
      absorb (absorbBlock st (msg.take rate)) (msg.drop rate) fuel

def laneBytes (x : UInt64) : Bytes :=
  [x.toUInt8, (x >>> 8).toUInt8, (x >>> 16).toUInt8, (x >>> 24).toUInt8,
   (x >>> 32).toUInt8, (x >>> 40).toUInt8, (x >>> 48).toUInt8, (x >>> 56).toUInt8]

def squeeze32 (st : Array UInt64) : Bytes :=
  laneBytes st[0]! ++ laneBytes st[1]! ++ laneBytes st[2]! ++ laneBytes st[3]!

/-- Keccak-256 -/
def keccak256 (msg : Bytes) : Bytes :=
  squeeze32 (absorb (Array.replicate 25 0) msg (msg.length / rate + 1))

theorem keccak256_length (msg : Bytes) : (keccak256 msg).length = 32 := by
  simp [keccak256, squeeze32, laneBytes]

end Sygma.Keccak
