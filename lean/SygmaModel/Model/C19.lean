/-
  C19 — independent relayers derive identical identifiers. Executable model + predicates. Core Lean only.

  Re-uses the scan machine (Model/C04.lean) and the lifetimes/wiring model (Model/C05.lean). Adds
    * the message-id formatters of the deposit / retry event handlers and the session-id formatters,
    * the grouping of one range's deposits by destination (`DepositEventHandler.ProcessDeposits`),
    * the Bitcoin credit rule of `FungibleTransferEventHandler.ProcessDeposits` after the repair: resources are
      tried in ascending resource-id order, the first one whose address is paid (with a sufficient fee) gets the
      transaction.
-/
import SygmaModel.Model.C05
namespace Sygma.C19
open Sygma.C04 Sygma.C05

/-! ### identifiers -/

/-- EVM / Substrate deposit message id: `fmt.Sprintf("%d-%d-%d-%d", domainID, dest, startBlock, endBlock)` -/
def msgId (src dest : Nat) (s e : Int) : String := s!"{src}-{dest}-{s}-{e}"

/-- EVM RetryV1 / Substrate retry message id -/
def retryMsgId (src dest : Nat) (s e : Int) : String := s!"retry-{src}-{dest}-{s}-{e}"

/-- EVM RetryV2 message id: `fmt.Sprintf("retry-%d-%d", e.SourceDomainID, e.DestinationDomainID)` — event data only -/
def retryV2MsgId (src dest : Nat) : String := s!"retry-{src}-{dest}"

/-- Substrate executor: the signing session id IS the delivery's message id (`NewSigning(msg, messageID, messageID, …)`) -/
def subSessionId (m : String) : String := m

/-- BTC executor: the signing session of input `i` is the hex of that input's taproot sighash -/
def btcInputSessionId (sighashHex : String) : String := sighashHex

/-- BTC deposit message id: `fmt.Sprintf("%d-%d-%d", sourceID, destDomainID, blockNumber)` -/
def btcMsgId (src dest : Nat) (b : Int) : String := s!"{src}-{dest}-{b}"

/-- EVM executor session id of batch `i`; BTC executor session id of a resource (hex id) -/
def evmSessionId (m : String) (i : Nat) : String := s!"{m}-{i}"
def btcSessionId (m : String) (resHex : String) : String := s!"{m}-{resHex}"

/-! ### ranges are cells of one partition -/

/-- the range of a handler call is the cell of the partition `{[k·q, k·q + k − 1]}` (BTC: single blocks) -/
def alignedCall (cfg : Cfg) (c : Call) : Prop :=
  match cfg.kind with
  | .btc => c.e = c.s
  | _ => c.s % cfg.k = 0 ∧ c.e = c.s + cfg.k - 1

instance (cfg : Cfg) (c : Call) : Decidable (alignedCall cfg c) := by
  unfold alignedCall; cases cfg.kind <;> infer_instance

def histCalls (h : List (Option Int × List Obs)) : List Call :=
  h.flatMap fun l => l.2.flatMap (·.calls)

/-- two calls that share a block are the same range -/
def agree (c1 c2 : Call) : Bool :=
  if decide (c1.s ≤ c2.e ∧ c2.s ≤ c1.e) then decide (c1.s = c2.s ∧ c1.e = c2.e) else true

/-- P19 (ranges): every range of both relayers is a cell, and overlapping ranges coincide -/
def rangesOk (cfg : Cfg) (hA hB : List (Option Int × List Obs)) : Bool :=
  (histCalls hA ++ histCalls hB).all (fun c => decide (alignedCall cfg c)) &&
  (histCalls hA).all fun c1 => (histCalls hB).all fun c2 => agree c1 c2

/-! ### deposits of one range, grouped by destination -/

structure Dep where
  dest  : Nat
  nonce : Nat
  fails : Bool      -- `HandleDeposit` returns an error (the deposit is dropped)
deriving Repr, DecidableEq

/-- the group of destination `d`: the deposits to `d` in log order, each under the range's message id -/
def groupOf (src : Nat) (s e : Int) (ds : List Dep) (d : Nat) : List (Nat × String) :=
  (ds.filter fun x => !x.fails && x.dest == d).map fun x => (x.nonce, msgId src d s e)

def dests (ds : List Dep) : List Nat := ((ds.filter (!·.fails)).map (·.dest)).eraseDups

/-- the Go loop: `domainDeposits[m.Destination] = append(domainDeposits[m.Destination], m)` over an association list -/
def appendAt (m : List (Nat × List (Nat × String))) (d : Nat) (x : Nat × String) : List (Nat × List (Nat × String)) :=
  match m with
  | [] => [(d, [x])]
  | (k, v) :: rest => if k = d then (k, v ++ [x]) :: rest else (k, v) :: appendAt rest d x

def groupLoop (src : Nat) (s e : Int) (ds : List Dep) : List (Nat × List (Nat × String)) :=
  ds.foldl (fun m x => if x.fails then m else appendAt m x.dest (x.nonce, msgId src x.dest s e)) []

def lookupD (m : List (Nat × List (Nat × String))) (d : Nat) : List (Nat × String) :=
  match m with
  | [] => []
  | (k, v) :: rest => if k = d then v else lookupD rest d

/-! ### Bitcoin credit -/

structure Res where
  id   : Nat        -- first byte of the 32-byte resource id (ids are distinct map keys)
  addr : Nat
  fee  : Int        -- `FeeAmount` in satoshi
deriving Repr, DecidableEq

structure Vout where
  addr    : Nat
  sat     : Int
  taproot : Bool
deriving Repr

inductive Data | dest (d : Nat) | bad | missing
deriving Repr

structure Tx where
  data  : Data
  vouts : List Vout
deriving Repr

def sumSat (vs : List Vout) : Int := (vs.map (·.sat)).foldl (· + ·) 0

/-- `DecodeDepositEvent` for one resource: the credited amount if the transaction is a deposit to it -/
def decode (feeAddr : Nat) (tx : Tx) (r : Res) : Option Int :=
  let pays := tx.vouts.any (·.addr == r.addr)
  let amount := sumSat (tx.vouts.filter fun v => v.addr == r.addr && v.taproot)
  let fee := sumSat (tx.vouts.filter fun v => v.addr == feeAddr)
  if pays && !decide (fee < r.fee) then some amount else none

/-- first resource (in the given order) that the transaction is a deposit to -/
def credit (feeAddr : Nat) (rs : List Res) (tx : Tx) : Option (Res × Int) :=
  rs.findSome? fun r => (decode feeAddr tx r).map fun a => (r, a)

def resLe (a b : Res) : Bool := decide (a.id ≤ b.id)

/-- `sort.Slice` by resource id -/
def sortRes (rs : List Res) : List Res := rs.mergeSort resLe

/-- the messages of one block: (dest, resource id, amount·10^10, message id), in transaction order;
    a transaction whose OP_RETURN data is unusable is dropped (error or recovered panic) -/
def btcBlock (src : Nat) (block : Int) (feeAddr : Nat) (rs : List Res) (txs : List Tx) : List (Nat × Nat × Int × String) :=
  txs.filterMap fun tx =>
    match credit feeAddr (sortRes rs) tx with
    | none => none
    | some (r, a) =>
      match tx.data with
      | .dest d => if d < 256 then some (d, r.id, a * 10 ^ 10, btcMsgId src d block) else none
      | _ => none

end Sygma.C19
