/-
  C04 — confirmation guards and the scan loops.
  Executable model + executable property predicates. Core Lean only.

  Modelled (all heights are `Int`; Go uses `*big.Int`, the `int64`/`uint32` conversions on the way are the
  identity for real chain heights and are NOT modelled):
    * the three scan loops as one machine `step` (BTC `chains/btc/listener/listener.go: ListenToEvents`,
      sygma-core `chains/evm/listener` and `chains/substrate/listener` at the pinned module version):
      one `Round` = one iteration of the `for` loop that got past `ctx.Done()`;
    * the five retry guards (EVM retry by tx hash, EVM/BTC/Substrate retry-by-height message handlers,
      Substrate `RetryEventHandler`).
  The same machine is re-used by C05 (persistence, crashes, restarts) and C19 (alignment, identifiers).
-/
import SygmaModel.Base
namespace Sygma.C04

inductive Kind | btc | evm | sub
deriving DecidableEq, Repr

structure Cfg where
  kind : Kind
  k    : Int        -- block interval (EVM / Substrate); the BTC loop scans single blocks
  conf : Int        -- required confirmations (EVM / BTC); Substrate uses the finalized head instead
  nh   : Nat        -- number of registered event handlers
deriving Repr

/-- how far one completed round moves the cursor -/
def Cfg.stride (cfg : Cfg) : Int := match cfg.kind with | .btc => 1 | _ => cfg.k

/-- last block (inclusive) of the range that starts at cursor `c` — the `endBlock` handed to the handlers -/
def Cfg.last (cfg : Cfg) (c : Int) : Int := c + cfg.stride - 1

/-- the value written by `StoreBlock` after the range starting at `c` was handled:
    BTC stores the block just handled, EVM/Substrate store the start of the next range -/
def Cfg.storeVal (cfg : Cfg) (c : Int) : Int := match cfg.kind with | .btc => c | _ => c + cfg.k

/-- the loop's guard, written as in the source (`… .Cmp(…) == -1` ⇒ sleep):
    BTC `head − start < conf`, EVM `head − (start+k) < conf`, Substrate `finalized < start+k` -/
def ready (cfg : Cfg) (head c : Int) : Bool :=
  match cfg.kind with
  | .btc => !decide (head - c < cfg.conf)
  | .evm => !decide (head - (c + cfg.k) < cfg.conf)
  | .sub => !decide (head < c + cfg.k)

/-- "buried under at least the configured confirmations" (Substrate: not above the finalized head) -/
def confirmed (cfg : Cfg) (head b : Int) : Prop :=
  match cfg.kind with
  | .sub => b ≤ head
  | _    => cfg.conf ≤ head - b

instance (cfg : Cfg) (head b : Int) : Decidable (confirmed cfg head b) := by
  unfold confirmed; cases cfg.kind <;> infer_instance

/-- "one confirmation more than required" -/
def deep (cfg : Cfg) (head b : Int) : Prop :=
  match cfg.kind with
  | .sub => b + 1 ≤ head
  | _    => cfg.conf + 1 ≤ head - b

instance (cfg : Cfg) (head b : Int) : Decidable (deep cfg head b) := by
  unfold deep; cases cfg.kind <;> infer_instance

/-- what the environment does in one loop iteration -/
structure Round where
  head    : Option Int     -- answer of the head query; `none` = the node could not be read
  fail    : Option Nat     -- index of the handler that returns an error in this round (if reached)
  storeOk : Bool           -- does `StoreBlock` succeed
deriving Repr

/-- a handler invocation: handler index, first block, last block -/
structure Call where
  idx : Nat
  s   : Int
  e   : Int
deriving Repr, DecidableEq

/-- what one loop iteration did, as seen from outside -/
structure Obs where
  head  : Option Int
  calls : List Call
  store : Option (Int × Bool)    -- `StoreBlock(v)` attempted, and whether it was written
deriving Repr, DecidableEq

/-- handlers `0 … n-1` called in order on the range `[c, last]` -/
def callsUpTo (cfg : Cfg) (c : Int) (n : Nat) : List Call :=
  (List.range n).map fun i => ⟨i, c, cfg.last c⟩

/-- the cursor the iteration works on: a nil start block is replaced by the head just read -/
def curAt (cur : Option Int) (h : Int) : Int := match cur with | some c => c | none => h

/-- do all handlers return nil in this round? -/
def completes (cfg : Cfg) (r : Round) : Bool :=
  match r.fail with | some i => !decide (i < cfg.nh) | none => true

/-- number of handlers invoked in a round that got past the guard (the failing one is the last invoked) -/
def nCalls (cfg : Cfg) (r : Round) : Nat :=
  match r.fail with | some i => if i < cfg.nh then i + 1 else cfg.nh | none => cfg.nh

/-- one iteration with head `h` read and cursor `c` -/
def stepAt (cfg : Cfg) (h c : Int) (r : Round) : Option Int × Obs :=
  if ready cfg h c then
    if completes cfg r then
      (some (c + cfg.stride), ⟨some h, callsUpTo cfg c cfg.nh, some (cfg.storeVal c, r.storeOk)⟩)
    else (some c, ⟨some h, callsUpTo cfg c (nCalls cfg r), none⟩)
  else (some c, ⟨some h, [], none⟩)

/-- one iteration of the scan loop; `cur = none` is the nil start block ("start at the head") -/
def step (cfg : Cfg) (cur : Option Int) (r : Round) : Option Int × Obs :=
  match r.head with
  | none => (cur, ⟨none, [], none⟩)
  | some h => stepAt cfg h (curAt cur h) r

/-- the loop over an environment trace -/
def run (cfg : Cfg) : Option Int → List Round → List Obs
  | _, [] => []
  | cur, r :: rs => (step cfg cur r).2 :: run cfg (step cfg cur r).1 rs

def finalCursor (cfg : Cfg) : Option Int → List Round → Option Int
  | cur, [] => cur
  | cur, r :: rs => finalCursor cfg (step cfg cur r).1 rs

/-! ### the property, as executable predicates on *any* candidate observation -/

/-- every handler call of the round is on a sufficiently confirmed block (w.r.t. the head seen in that round) -/
def roundSafe (cfg : Cfg) (o : Obs) : Prop :=
  ∀ c ∈ o.calls, ∃ h, o.head = some h ∧ confirmed cfg h c.e

/-- executable form of `roundSafe` -/
def roundSafeB (cfg : Cfg) (o : Obs) : Bool :=
  o.calls.all fun c => match o.head with
    | some h => decide (confirmed cfg h c.e)
    | none => false

/-- no further waiting: if the range at the cursor is one confirmation deeper than required, the first
    handler is invoked on exactly that range in this very round -/
def roundPromptB (cfg : Cfg) (cur : Option Int) (o : Obs) : Bool :=
  match o.head with
  | none => true
  | some h =>
    let c := curAt cur h
    if decide (deep cfg h (cfg.last c)) ∧ 0 < cfg.nh then o.calls.head? == some ⟨0, c, cfg.last c⟩ else true

/-- the cursor as an outside observer reconstructs it: it moves exactly when `StoreBlock` was attempted -/
def advance (cfg : Cfg) (cur : Option Int) (o : Obs) : Option Int :=
  match o.head with
  | none => cur
  | some h =>
    if o.store.isSome then some (curAt cur h + cfg.stride) else some (curAt cur h)

/-- P04 for a whole trace: every round is safe and prompt, heads are the scripted ones -/
def traceOk (cfg : Cfg) : Option Int → List Round → List Obs → Bool
  | _, [], [] => true
  | cur, r :: rs, o :: os =>
    (o.head == r.head) && roundSafeB cfg o && roundPromptB cfg cur o && traceOk cfg (advance cfg cur o) rs os
  | _, _, _ => false

/-! ### retry guards (source: `latest.Cmp(h + conf) != 1` ⇒ error, etc.) -/

/-- EVM retry by transaction hash (`FetchRetryDepositEvents`), EVM and BTC retry-by-height message handlers -/
def retryReady (latest h conf : Int) : Bool := !decide (¬ (latest > h + conf))

/-- Substrate retry-by-height message handler: `finalized.Cmp(h) != 1` ⇒ error -/
def subRetryMsgReady (fin h : Int) : Bool := !decide (¬ (fin > h))

/-- Substrate `RetryEventHandler`: `finalized.Cmp(h) == -1` ⇒ skip -/
def subRetryEventReady (fin h : Int) : Bool := !decide (fin < h)

/-! ### the retry paths and the scan as ONE stateful machine

  In the Go code the retry message handler, the retry-by-tx path and the listener of a chain share one `*big.Int`
  (the chain config's `BlockConfirmations`). The machine threads that shared value explicitly through a sequence of
  steps handled by the same objects; in the code as it is no step writes it (`FetchRetryDepositEvents` does add the
  confirmations into `receipt.BlockNumber`, but the receipt is an object of that one call). -/

inductive SeqStep
  | retry (latest h : Int)          -- retry by height on the one retry message handler
  | retryTx (latest receipt : Int)  -- retry by transaction hash (EVM)
  | scan (head start : Int)         -- one iteration of the scan loop of a listener built from the same config
deriving Repr

structure SeqState where
  conf : Int      -- the shared confirmations value
deriving Repr

/-- one step: new shared state and whether the guard let the request / range through -/
def seqStep (kind : Kind) (k : Int) (st : SeqState) : SeqStep → SeqState × Bool
  | .retry l h => (st, retryReady l h st.conf)
  | .retryTx l r => (st, retryReady l r st.conf)
  | .scan hd c => (st, ready ⟨kind, k, st.conf, 1⟩ hd c)

def seqRun (kind : Kind) (k : Int) : SeqState → List SeqStep → List Bool
  | _, [] => []
  | st, x :: xs => (seqStep kind k st x).2 :: seqRun kind k (seqStep kind k st x).1 xs

/-- the same step judged with a fixed confirmations value -/
def seqGuard (kind : Kind) (k conf : Int) : SeqStep → Bool
  | .retry l h => retryReady l h conf
  | .retryTx l r => retryReady l r conf
  | .scan hd c => ready ⟨kind, k, conf, 1⟩ hd c

end Sygma.C04
