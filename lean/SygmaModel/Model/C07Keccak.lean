/-
  Keccak-256 (the pre-NIST padding go-ethereum's `crypto.Keccak256` uses), executable, core Lean only.
  Used by the C07 driver to recompute the election key `BigEndian.Uint64(Keccak256(Pretty(p) ++ sessionID))`.
  Nothing is proved ABOUT this function (the C07 theorems quantify over an arbitrary key function); it is tied to
  go-ethereum's implementation by the `C07 keccak` correspondence lines on every run.
-/
import SygmaModel.Base
namespace Sygma.C07.Keccak

def rc : Array UInt64 := #[
  0x0000000000000001, 0x0000000000008082, 0x800000000000808A, 0x8000000080008000,
  0x000000000000808B, 0x0000000080000001, 0x8000000080008081, 0x8000000000008009,
  0x000000000000008A, 0x0000000000000088, 0x0000000080008009, 0x000000008000000A,
  0x000000008000808B, 0x800000000000008B, 0x8000000000008089, 0x8000000000008003,
  0x8000000000008002, 0x8000000000000080, 0x000000000000800A, 0x800000008000000A,
  0x8000000080008081, 0x8000000000008080, 0x0000000080000001, 0x8000000080008008]

def rotc : Array Nat := #[1,3,6,10,15,21,28,36,45,55,2,14,27,41,56,8,25,43,62,18,39,61,20,44]
def piln : Array Nat := #[10,7,11,17,18,3,5,16,8,21,24,4,15,23,19,13,12,2,20,14,22,9,6,1]

def rotl (x : UInt64) (n : Nat) : UInt64 :=
  if n % 64 = 0 then x else (x <<< (n % 64).toUInt64) ||| (x >>> (64 - n % 64).toUInt64)

def round (st : Array UInt64) (r : Nat) : Array UInt64 := Id.run do
  let mut s := st
  let mut bc : Array UInt64 := Array.replicate 5 0
  for i in [0:5] do
    bc := bc.set! i (s[i]! ^^^ s[i+5]! ^^^ s[i+10]! ^^^ s[i+15]! ^^^ s[i+20]!)
  for i in [0:5] do
    let t := bc[(i+4)%5]! ^^^ rotl bc[(i+1)%5]! 1
    for j in [0:5] do
      s := s.set! (j*5+i) (s[j*5+i]! ^^^ t)
  let mut t := s[1]!
  for i in [0:24] do
    let j := piln[i]!
    let b := s[j]!
    s := s.set! j (rotl t rotc[i]!)
    t := b
  for j in [0:5] do
    let a0 := s[j*5]!
    let a1 := s[j*5+1]!
    let a2 := s[j*5+2]!
    let a3 := s[j*5+3]!
    let a4 := s[j*5+4]!
    s := s.set! (j*5)   (a0 ^^^ ((~~~ a1) &&& a2))
    s := s.set! (j*5+1) (a1 ^^^ ((~~~ a2) &&& a3))
    s := s.set! (j*5+2) (a2 ^^^ ((~~~ a3) &&& a4))
    s := s.set! (j*5+3) (a3 ^^^ ((~~~ a4) &&& a0))
    s := s.set! (j*5+4) (a4 ^^^ ((~~~ a0) &&& a1))
  s := s.set! 0 (s[0]! ^^^ rc[r]!)
  return s

def permute (st : Array UInt64) : Array UInt64 := Id.run do
  let mut s := st
  for r in [0:24] do
    s := round s r
  return s

/-- little-endian lane from 8 bytes -/
def laneLE (b : List UInt8) : UInt64 :=
  (b.take 8).foldr (fun x acc => acc * 256 + x.toUInt64) 0

def lanes (bs : List UInt8) : List UInt64 :=
  if _h : bs.length = 0 then [] else laneLE bs :: lanes (bs.drop 8)
termination_by bs.length
decreasing_by simp; omega

def rate : Nat := 136

/-- multi-rate padding 0x01 … 0x80 up to a multiple of the rate -/
def pad (m : List UInt8) : List UInt8 :=
  let k := rate - m.length % rate
  if k = 1 then m ++ [0x81] else m ++ [0x01] ++ List.replicate (k - 2) 0 ++ [0x80]

def absorbBlock (st : Array UInt64) (blk : List UInt8) : Array UInt64 := Id.run do
  let mut s := st
  let mut i := 0
  for l in lanes blk do
    s := s.set! i (s[i]! ^^^ l)
    i := i + 1
  return permute s

def blocks (bs : List UInt8) : List (List UInt8) :=
  if _h : bs.length = 0 then [] else bs.take rate :: blocks (bs.drop rate)
termination_by bs.length
decreasing_by simp [rate]; omega

def laneBytes (x : UInt64) : List UInt8 :=
  (List.range 8).map fun i => (x >>> (8 * i).toUInt64).toUInt8

def keccak256 (m : List UInt8) : List UInt8 :=
  let st := (blocks (pad m)).foldl absorbBlock (Array.replicate 25 0)
  ((List.range 4).map fun i => laneBytes st[i]!).flatten

end Sygma.C07.Keccak
