/-
  C09 — one live MPC process per session id; sessions always clean up.
  Model of `tss/coordinator.go: Execute` (as repaired by the fix: commit "coordinator tests and marks a session
  pending in one critical section") over the subscription / stream registries of comm/p2p.

  Part (a)  admission of concurrent requests: an interleaving semantics over any number of threads. A thread
            walks  idle → yield (Execute called, before `processLock.Lock()`) → running | refused (ONE atomic step:
            lock; test `pendingProcesses[sid]`; set; unlock) → done (deferred block clears the flag).
            The as-found code (test at arrival, outside the lock; set later) is kept as `stepAsFound`.
  Part (b)  the body of one admitted session as a sequential machine over an outcome event, with the ledger of
            Subscribe / UnSubscribe / CloseSession / Run / Stop calls against a world of live subscriptions,
            open streams and pending flags.
  Core Lean only.
-/
import SygmaModel.Base
namespace Sygma.C09

abbrev Sid := String

/-! ## (a) admission under interleaving -/

inductive St where
  | idle | yield | running | refused | done
deriving DecidableEq, Repr, BEq

instance : LawfulBEq St where
  eq_of_beq {a b} h := by cases a <;> cases b <;> first | rfl | cases h
  rfl {a} := by cases a <;> rfl

structure World where
  pending : List Sid            -- session ids whose `pendingProcesses` flag is true
  th      : List (Sid × St)     -- every request (thread): its session id and where it stands
deriving Repr

def init (sids : List Sid) : World := ⟨[], sids.map (·, St.idle)⟩

/-- one step of thread `t` (repaired code). A step of a thread that has nothing left to do is a no-op. -/
def step (w : World) (t : Nat) : World :=
  match w.th[t]? with
  | some (s, .idle)    => { w with th := w.th.set t (s, .yield) }
  | some (s, .yield)   =>
      if s ∈ w.pending then { w with th := w.th.set t (s, .refused) }
      else { pending := s :: w.pending, th := w.th.set t (s, .running) }
  | some (s, .running) => { pending := w.pending.filter (· ≠ s), th := w.th.set t (s, .done) }
  | _ => w

def run (w : World) (sched : List Nat) : World := sched.foldl step w

/-- number of requests of session `s` that are running -/
def running (w : World) (s : Sid) : Nat := w.th.count (s, St.running)

/-- highest number of simultaneously running requests of `s` along a schedule -/
def peak (w : World) (s : Sid) : List Nat → Nat
  | [] => running w s
  | t :: ts => max (running w s) (peak (step w t) s ts)

/-! the as-found admission: the flag is read on arrival without the lock, and set later without re-testing -/
def stepAsFound (w : World) (t : Nat) : World :=
  match w.th[t]? with
  | some (s, .idle)    =>
      if s ∈ w.pending then { w with th := w.th.set t (s, .refused) } else { w with th := w.th.set t (s, .yield) }
  | some (s, .yield)   => { pending := s :: w.pending, th := w.th.set t (s, .running) }
  | some (s, .running) => { pending := w.pending.filter (· ≠ s), th := w.th.set t (s, .done) }
  | _ => w

/-! ### the property as executable predicates on a state (evaluated by the driver on the implementation's state) -/

def sidsOf (w : World) : List Sid := (w.th.map (·.1)).eraseDups

/-- at most one running request per session id -/
def Mutex (w : World) : Prop := ∀ s ∈ sidsOf w, running w s ≤ 1

/-- the pending flag is set exactly for the ids with a running request -/
def FlagExact (w : World) : Prop := ∀ s ∈ sidsOf w, (s ∈ w.pending ↔ running w s = 1)

/-- a request is refused only because of another request of the same id: one that still runs (flag set) or has finished -/
def RefusalJustified (w : World) : Prop :=
  ∀ s ∈ sidsOf w, (s, St.refused) ∈ w.th → s ∈ w.pending ∨ (s, St.done) ∈ w.th

/-- when every request for `s` has passed admission and none has finished, exactly one of them runs -/
def ExactlyOne (w : World) : Prop :=
  ∀ s ∈ sidsOf w, (∀ p ∈ w.th, p.1 = s → p.2 = St.running ∨ p.2 = St.refused) → running w s = 1

instance (w : World) : Decidable (Mutex w) := by unfold Mutex; infer_instance
instance (w : World) : Decidable (FlagExact w) := by unfold FlagExact; infer_instance
instance (w : World) : Decidable (RefusalJustified w) := by unfold RefusalJustified; infer_instance
instance (w : World) : Decidable (ExactlyOne w) := by unfold ExactlyOne; infer_instance

def P9a (w : World) : Prop := Mutex w ∧ FlagExact w ∧ RefusalJustified w ∧ ExactlyOne w
instance (w : World) : Decidable (P9a w) := by unfold P9a; infer_instance

/-! ## (b) one session from admission to exit -/

inductive Role where
  | part   -- another relayer coordinates: `waitForStart`
  | coord  -- this relayer coordinates: `initiate`
deriving DecidableEq, Repr

inductive Outcome where
  | ok          -- started, every process returned nil
  | fail        -- started, a process returned an error
  | failmsg     -- started, the coordinator announced failure (TssFailMsg)
  | gtorun      -- started, global time-out while running
  | cancelrun   -- started, caller's context cancelled while running
  | silent      -- never started: coordinator silent until CoordinatorTimeout
  | gto         -- never started: global time-out (TssTimeout)
  | cancel      -- never started: caller's context cancelled
  | badstart    -- never started: start message does not parse
  | stranger    -- never started: start/initiate only from a relayer that is not the coordinator, then silence
  | readyerr    -- never started: the process refuses the ready set (`Ready` returns an error)
deriving DecidableEq, Repr

def Outcome.ran : Outcome → Bool
  | .ok | .fail | .failmsg | .gtorun | .cancelrun => true
  | _ => false

/-- `Execute` returns nil exactly when `start` returned nil: success, or the context was cancelled -/
def Outcome.retOk : Outcome → Bool
  | .ok | .cancelrun | .cancel => true
  | _ => false

structure Sess where
  sid   : Sid
  role  : Role
  nproc : Nat
  out   : Outcome
deriving Repr

/-- the registries a session touches -/
structure Reg where
  pending : List Sid
  live    : List (Sid × Nat)    -- live subscriptions: (session id, subscription id)
  streams : List Sid            -- session ids with open streams
  next    : Nat                 -- subscription ids handed out so far (ids are unique: the nonce assumption)
deriving Repr

def Reg.subscribe (r : Reg) (sid : Sid) (k : Nat) : Reg × List Nat :=
  let ids := List.range' r.next k
  ({ r with live := r.live ++ ids.map (sid, ·), next := r.next + k }, ids)

def Reg.unsubscribe (r : Reg) (ids : List Nat) : Reg :=
  { r with live := r.live.filter (fun x => !ids.contains x.2) }

inductive Ret where
  | ok | err | refused
deriving DecidableEq, Repr

structure Report where
  ret     : Ret
  sub     : Nat          -- subscriptions obtained for the session id
  unsub   : Nat          -- of those, released
  close   : Nat          -- CloseSession calls
  live    : Nat          -- subscriptions of the session id still registered at exit
  streams : Nat          -- 1 if streams of the session id are still held at exit
  runs    : List Nat     -- per process: Run calls
  stops   : List Nat     -- per process: Stop calls
  pend    : Bool         -- flag at exit
deriving Repr, DecidableEq

/-- subscriptions of the coordinator's own wait loops: fail-watch + (initiate, start | ready) -/
def waitSubs : Role → Nat
  | .part => 3
  | .coord => 2

/-- `Execute` for one session, in the order the code performs the calls -/
def execute (r : Reg) (s : Sess) : Reg × Report :=
  if s.sid ∈ r.pending then
    -- refused before anything is registered; the (never started) processes are stopped
    (r, ⟨.refused, 0, 0, 0, (r.live.filter (·.1 = s.sid)).length, if s.sid ∈ r.streams then 1 else 0,
        List.replicate s.nproc 0, List.replicate s.nproc 1, true⟩)
  else
    let r1 := { r with pending := s.sid :: r.pending }
    -- watchExecution + start (waitForStart | initiate) subscribe
    let (r2, wids) := r1.subscribe s.sid (waitSubs s.role)
    -- broadcasting (initiate / ready / start messages) opens streams under the session id
    let r3 := { r2 with streams := s.sid :: r2.streams }
    -- every process subscribes in Run
    let (r4, pids) := r3.subscribe s.sid (if s.out.ran then s.nproc else 0)
    -- the wait loops' deferred UnSubscribe
    let r5 := r4.unsubscribe wids
    -- Execute's deferred block: CloseSession; flag := false; Stop every process
    let r6 := { r5 with streams := r5.streams.filter (· ≠ s.sid) }
    let r7 := { r6 with pending := r6.pending.filter (· ≠ s.sid) }
    let r8 := r7.unsubscribe pids
    (r8, ⟨if s.out.retOk then .ok else .err,
          wids.length + pids.length, wids.length + pids.length, 1,
          (r8.live.filter (·.1 = s.sid)).length, if s.sid ∈ r8.streams then 1 else 0,
          List.replicate s.nproc (if s.out.ran then 1 else 0), List.replicate s.nproc 1,
          decide (s.sid ∈ r8.pending)⟩)

/-- sessions one after another on one coordinator -/
def executeAll (r : Reg) : List Sess → Reg × List Report
  | [] => (r, [])
  | s :: ss =>
    let (r', rep) := execute r s
    let (r'', reps) := executeAll r' ss
    (r'', rep :: reps)

/-- the property of one finished session, on a report (the driver evaluates it on the implementation's report) -/
def Clean (nproc : Nat) (rep : Report) : Prop :=
  rep.ret ≠ .refused ∧ rep.sub = rep.unsub ∧ 1 ≤ rep.close ∧ rep.live = 0 ∧ rep.streams = 0 ∧
  rep.stops = List.replicate nproc 1 ∧ (∀ n ∈ rep.runs, n ≤ 1) ∧ rep.pend = false

instance (n : Nat) (rep : Report) : Decidable (Clean n rep) := by unfold Clean; infer_instance

/-! ### a retryable (signing) process object that is Run several times and stopped once -/

/-- one `Run` of the repaired signing processes: release the previous run's subscription, then subscribe -/
def runAgain (sid : Sid) (st : Reg × Option Nat) : Reg × Option Nat :=
  let r := match st.2 with
    | some i => st.1.unsubscribe [i]
    | none => st.1
  let (r', ids) := r.subscribe sid 1
  (r', ids.head?)

/-- as found: `Run` overwrote `subscriptionID` without releasing it -/
def runAgainAsFound (sid : Sid) (st : Reg × Option Nat) : Reg × Option Nat :=
  let (r', ids) := st.1.subscribe sid 1
  (r', ids.head?)

def iter {α : Type} (f : α → α) : Nat → α → α
  | 0, a => a
  | n + 1, a => iter f n (f a)

/-- `Stop`: release the subscription the object remembers -/
def stopProc (st : Reg × Option Nat) : Reg :=
  match st.2 with
  | some i => st.1.unsubscribe [i]
  | none => st.1

def rerun (r : Reg) (sid : Sid) (n : Nat) : Reg := stopProc (iter (runAgain sid) n (r, none))
def rerunAsFound (r : Reg) (sid : Sid) (n : Nat) : Reg := stopProc (iter (runAgainAsFound sid) n (r, none))

/-- registries with nothing left of any session -/
def Reg.Idle (r : Reg) : Prop := r.pending = [] ∧ r.live = [] ∧ r.streams = []

end Sygma.C09
