/-
  C09 — one live MPC process per session id; sessions always clean up.
  Model of `tss/coordinator.go: Execute` (as repaired by the fix: commit "coordinator tests and marks a session
  pending in one critical section") over the subscription / stream registries of comm/p2p.

  Part (a)  admission of concurrent requests: an interleaving semantics over any number of threads. A thread
            walks  idle → yield (Execute called, before `processLock.Lock()`) → running | refused (ONE atomic step:
            lock; test `pendingProcesses[sid]`; set; unlock) → done (deferred block clears the flag).
            The as-found code (test at arrival, outside the lock; set later) is kept as `stepAsFound`.
  Part (b)  the body of one admitted session as a sequential machine over an outcome event, with the ledger of
            Subscribe / UnSubscribe / CloseSession / Run / Stop calls against a world of live subscriptions,
            open streams and pending flags.
  Core Lean only.
-/
import SygmaModel.Base
namespace Sygma.C09

abbrev Sid := String

/-! ## (a) admission under interleaving -/

inductive St where
  | idle | yield | running | refused | done
deriving DecidableEq, Repr, BEq

instance : LawfulBEq St where
  eq_of_beq {a b} h := by cases a <;> cases b <;> first | rfl | cases h
  rfl {a} := by cases a <;> rfl

structure World where
  pending : List Sid            -- session ids whose `pendingProcesses` flag is true
  th      : List (Sid × St)     -- every request (thread): its session id and where it stands
deriving Repr

def init (sids : List Sid) : World := ⟨[], sids.map (·, St.idle)⟩

/-- one step of thread `t` (repaired code). A step of a thread that has nothing left to do is a no-op. -/
def step (w : World) (t : Nat) : World :=
  match w.th[t]? with
  | some (s, .idle)    => { w with th := w.th.set t (s, .yield) }
  | some (s, .yield)   =>
      if s ∈ w.pending then { w with th := w.th.set t (s, .refused) }
      else { pending := s :: w.pending, th := w.th.set t (s, .running) }
  | some (s, .running) => { pending := w.pending.filter (· ≠ s), th := w.th.set t (s, .done) }
  | _ => w

def run (w : World) (sched : List Nat) : World := sched.foldl step w

/-- number of requests of session `s` that are running -/
def running (w : World) (s : Sid) : Nat := w.th.count (s, St.running)

/-- highest number of simultaneously running requests of `s` along a schedule -/
def peak (w : World) (s : Sid) : List Nat → Nat
  | [] => running w s
  | t :: ts => max (running w s) (peak (step w t) s ts)

/-! the as-found admission: the flag is read on arrival without the lock, and set later without re-testing -/
def stepAsFound (w : World) (t : Nat) : World :=
  match w.th[t]? with
  | some (s, .idle)    =>
      if s ∈ w.pending then { w with th := w.th.set t (s, .refused) } else { w with th := w.th.set t (s, .yield) }
  | some (s, .yield)   => { pending := s :: w.pending, th := w.th.set t (s, .running) }
  | some (s, .running) => { pending := w.pending.filter (· ≠ s), th := w.th.set t (s, .done) }
  | _ => w

/-! ### the property as executable predicates on a state (evaluated by the driver on the implementation's state) -/

def sidsOf (w : World) : List Sid := (w.th.map (·.1)).eraseDups

/-- at most one running request per session id -/
def Mutex (w : World) : Prop := ∀ s ∈ sidsOf w, running w s ≤ 1

/-- the pending flag is set exactly for the ids with a running request -/
def FlagExact (w : World) : Prop := ∀ s ∈ sidsOf w, (s ∈ w.pending ↔ running w s = 1)

/-- a request is refused only because of another request of the same id: one that still runs (flag set) or has finished -/
def RefusalJustified (w : World) : Prop :=
  ∀ s ∈ sidsOf w, (s, St.refused) ∈ w.th → s ∈ w.pending ∨ (s, St.done) ∈ w.th

/-- when every request for `s` has passed admission and none has finished, exactly one of them runs -/
def ExactlyOne (w : World) : Prop :=
  ∀ s ∈ sidsOf w, (∀ p ∈ w.th, p.1 = s → p.2 = St.running ∨ p.2 = St.refused) → running w s = 1

instance (w : World) : Decidable (Mutex w) := by unfold Mutex; infer_instance
instance (w : World) : Decidable (FlagExact w) := by unfold FlagExact; infer_instance
instance (w : World) : Decidable (RefusalJustified w) := by unfold RefusalJustified; infer_instance
instance (w : World) : Decidable (ExactlyOne w) := by unfold ExactlyOne; infer_instance

def P9a (w : World) : Prop := Mutex w ∧ FlagExact w ∧ RefusalJustified w ∧ ExactlyOne w
instance (w : World) : Decidable (P9a w) := by unfold P9a; infer_instance

/-! ## (b) one session from admission to exit -/

inductive Role where
  | part   -- another relayer coordinates: `waitForStart`
  | coord  -- this relayer coordinates: `initiate`
deriving DecidableEq, Repr

/-- how the FIRST attempt of a session ends -/
inductive Outcome where
  | ok          -- started, every process returned nil
  | fail        -- started, a process returned an unclassified error
  | failmsg     -- started, the coordinator announced failure (TssFailMsg)
  | gtorun      -- started, global time-out while running
  | cancelrun   -- started, caller's context cancelled while running
  | silent      -- never started: coordinator silent until CoordinatorTimeout (a CoordinatorError)
  | gto         -- never started: global time-out (TssTimeout)
  | cancel      -- never started: caller's context cancelled
  | precancel   -- never started: the context was already cancelled when Execute was entered
  | badstart    -- never started: start message does not parse
  | stranger    -- never started: start/initiate only from a relayer that is not the coordinator, then silence
  | readyerr    -- never started: the process refuses the ready set (`Ready` returns an error)
  | comm        -- started, a process returned a CommunicationError / tss.Error (retried through a bully election)
  | subset      -- started, a process returned SubsetError (this relayer is not in the signing subset)
deriving DecidableEq, Repr

def Outcome.ran : Outcome → Bool
  | .ok | .fail | .failmsg | .gtorun | .cancelrun | .comm | .subset => true
  | _ => false

/-- `Execute` returns nil exactly when `start` returned nil: success, or the context was cancelled -/
def Outcome.retOk : Outcome → Bool
  | .ok | .cancelrun | .cancel | .precancel => true
  | _ => false

/-- who coordinates the SECOND attempt (`handleError`, retryable processes only) -/
inductive Elected where
  | self    -- bully election, this relayer is elected: `initiate`
  | other   -- bully election, another relayer claims the role: `waitForStart` for it
  | any     -- no election (SubsetError): `waitForStart` for a start message from anybody, up to TssTimeout
deriving DecidableEq, Repr

/-- how the second attempt ends -/
inductive End2 where
  | ok       -- started again, every process returned nil
  | fail     -- started again, a process returned an error
  | cancel   -- started again, caller's context cancelled while running
  | idle     -- not started again; caller's context cancelled while waiting
  | silent   -- not started again; the elected coordinator stayed silent (CoordinatorError)
deriving DecidableEq, Repr

def End2.ran : End2 → Bool
  | .ok | .fail | .cancel => true
  | _ => false

def End2.retOk : End2 → Bool
  | .ok | .cancel | .idle => true
  | _ => false

structure Second where
  elected : Elected
  fin     : End2
  alive   : Nat := 0   -- alive answers (of relayers ranked behind this one) that arrive during the election
deriving DecidableEq, Repr

/-- a stream the stream manager holds for a session: the peer it leads to, and whether its `Close()` will return an
    error (the remote side already reset it, …) -/
structure Strm where
  peer       : Nat
  failsClose : Bool
  failsWrite : Bool := false   -- every write on it fails, from the first one on (connection dropped after NewStream)
deriving DecidableEq, Repr

structure Sess where
  sid       : Sid
  role      : Role
  nproc     : Nat
  out       : Outcome
  retryable : Bool := false         -- `Retryable()` of the processes (signing): a failed first attempt enters `handleError`
  second    : Option Second := none -- the second attempt, if `handleError` classifies the failure (silent | comm | subset)
  opened    : List Strm := []       -- the streams the session's broadcasts open (one per peer written to), each
                                    -- with the fate of its Close() at session end
deriving Repr

/-- the registries a session touches (kept for the retried-process model below) -/
structure Reg where
  pending : List Sid
  live    : List (Sid × Nat)    -- live subscriptions: (session id, subscription id)
  streams : List Sid            -- session ids with open streams
  next    : Nat                 -- subscription ids handed out so far (ids are unique: the nonce assumption)
deriving Repr

def Reg.subscribe (r : Reg) (sid : Sid) (k : Nat) : Reg × List Nat :=
  let ids := List.range' r.next k
  ({ r with live := r.live ++ ids.map (sid, ·), next := r.next + k }, ids)

def Reg.unsubscribe (r : Reg) (ids : List Nat) : Reg :=
  { r with live := r.live.filter (fun x => !ids.contains x.2) }

/-- subscriptions obtained together (by one wait loop, or by the processes of one Run) -/
structure Blk where
  sid  : Sid
  id   : Nat      -- handle of the group (unique: the nonce assumption)
  size : Nat      -- how many subscriptions
deriving DecidableEq, Repr

/-- what a session touches: the coordinator's flags, the registries of the MPC communication and of the election
    communication (`comm/elector` has its own protocol id, subscription manager and stream manager) -/
structure Led where
  pending  : List Sid
  live     : Sid → List Blk   -- MPC communication: live subscriptions per session id (`subscribersMap[sessionID]`;
                              -- a subscription id carries its session id, so a release only ever looks there)
  streams  : Sid → List Strm  -- MPC communication: `streamsBySessionID`
  elive    : Sid → List Blk   -- election communication: live subscriptions per session id
  estreams : List Sid         -- election communication: session ids with open streams
  next     : Nat              -- handles given out so far
  subs     : Nat              -- MPC subscriptions obtained so far
  unsubs   : Nat              -- MPC subscriptions released so far

def sizeOf' (bs : List Blk) : Nat := (bs.map (·.size)).sum

def upd {α : Type} (f : Sid → List α) (sid : Sid) (v : List α) : Sid → List α := fun s => if s = sid then v else f s

def Led.sub (l : Led) (sid : Sid) (k : Nat) : Led × Nat :=
  ({ l with live := upd l.live sid (l.live sid ++ [⟨sid, l.next, k⟩]), next := l.next + 1, subs := l.subs + k }, l.next)

def Led.unsub (l : Led) (sid : Sid) (id : Nat) : Led :=
  { l with live := upd l.live sid ((l.live sid).filter (·.id ≠ id)),
           unsubs := l.unsubs + sizeOf' ((l.live sid).filter (·.id = id)) }

def Led.esub (l : Led) (sid : Sid) (k : Nat) : Led × Nat :=
  ({ l with elive := upd l.elive sid (l.elive sid ++ [⟨sid, l.next, k⟩]), next := l.next + 1 }, l.next)

def Led.eunsub (l : Led) (sid : Sid) (id : Nat) : Led :=
  { l with elive := upd l.elive sid ((l.elive sid).filter (·.id ≠ id)) }

def Led.unsubOpt (l : Led) (sid : Sid) : Option Nat → Led
  | some i => l.unsub sid i
  | none => l

def liveOf (f : Sid → List Blk) (sid : Sid) : Nat := sizeOf' (f sid)

inductive Ret where
  | ok | err | refused
deriving DecidableEq, Repr

structure Report where
  ret      : Ret
  sub      : Nat          -- subscriptions obtained for the session id (MPC communication)
  unsub    : Nat          -- of those, released
  close    : Nat          -- CloseSession calls
  live     : Nat          -- subscriptions of the session id still registered at exit
  streams  : Nat          -- streams of the session id still registered at exit
  unclosed : Nat          -- streams the session opened that nobody ever closes
  stale    : Nat          -- streams of this session that were refused because a stale one was still registered
  runs     : List Nat     -- per process: Run calls
  stops    : List Nat     -- per process: Stop calls
  pend     : Bool         -- flag at exit
  elive    : Nat          -- election communication: subscriptions of the session id still registered at exit
  estreams : Nat          -- election communication: 1 if streams of the session id are still held
deriving Repr, DecidableEq

/-- subscriptions of the coordinator's own wait loops in the first attempt: fail-watch + (initiate, start | ready) -/
def waitSubs : Role → Nat
  | .part => 3
  | .coord => 2

/-- subscriptions of the second attempt's wait loop (`handleError`'s fail-watch is counted separately) -/
def waitSubs2 : Elected → Nat
  | .self => 1
  | _ => 2

/-- `AddStream` for every stream a session opens: a peer that already has an entry under the session id keeps it -/
def addStreams (cur new : List Strm) : List Strm :=
  cur ++ new.filter (fun x => !cur.any (·.peer = x.peer))

/-- `sendMessage` registers a stream as soon as it is opened, whether or not the first write succeeds -/
def registerAll (new : List Strm) : List Strm := new

/-- the seeded variant: a stream is registered only after its first write succeeded -/
def registerWritten (new : List Strm) : List Strm := new.filter (fun x => !x.failsWrite)

/-- streams of a session that `AddStream` ignored because a stale entry was still registered -/
def staleHits (cur new : List Strm) : Nat := (new.filter (fun x => cur.any (·.peer = x.peer))).length

/-- `ReleaseStreams`: every stream is closed - an error of `Close()` is only logged - and the session's entry deleted -/
def releaseAll (_ : List Strm) : List Strm := []

/-- the seeded variant: a stream whose `Close()` fails stays registered "so that closing is tried again" -/
def releaseKeepFailed (ss : List Strm) : List Strm := ss.filter (·.failsClose)

/-- a bully election (repaired elector): six subscriptions and the election streams; `alive` answers are forwarded to
    `elect()` (or dropped after 500 ms when nobody takes them) and touch no registry; everything is given back when
    the election ends -/
def election (l : Led) (sid : Sid) (_alive : Nat) : Led :=
  let (l1, e) := l.esub sid 6
  let l2 := { l1 with estreams := sid :: l1.estreams }
  let l3 := l2.eunsub sid e
  { l3 with estreams := l3.estreams.filter (· ≠ sid) }

/-- as found, the elector dropped its subscription ids and nobody closed the election streams -/
def electionAsFound (l : Led) (sid : Sid) (_alive : Nat) : Led :=
  let (l1, _) := l.esub sid 6
  { l1 with estreams := sid :: l1.estreams }

/-- the seeded variant: forwarding an alive answer blocks once `electionChan` (capacity 1, read at most once) is full;
    from the third answer on the listener never reaches its clean-up -/
def electionWedging (l : Led) (sid : Sid) (alive : Nat) : Led :=
  if alive ≥ 3 then electionAsFound l sid alive else election l sid alive

/-- the second attempt inside `handleError`: election unless the cause is SubsetError; wait loop; the processes run
    again (each releasing its previous subscription first); the loop's deferred releases -/
def secondAttempt (elect : Led → Sid → Nat → Led) (l : Led) (s : Sess) (t : Second) (b1 : Option Nat) : Led × Option Nat :=
  let l2 := if t.elected = .any then l else elect l s.sid t.alive
  let (l3, c) := l2.sub s.sid (waitSubs2 t.elected)
  let (l4, b2) := if t.fin.ran then
      let (l', b) := (l3.unsubOpt s.sid b1).sub s.sid s.nproc
      (l', some b)
    else (l3, b1)
  (l4.unsub s.sid c, b2)

/-- `handleError` is entered when the first attempt returned an error and the processes are retryable -/
def Sess.handled (s : Sess) : Bool := s.retryable && !s.out.retOk

/-- `Execute` for one session, in the order the code performs the calls. `elect` = the elector's behaviour. -/
def executeWith (elect : Led → Sid → Nat → Led) (release : List Strm → List Strm) (register : List Strm → List Strm)
    (l : Led) (s : Sess) : Led × Report :=
  if s.sid ∈ l.pending then
    -- refused before anything is registered; the (never started) processes are stopped
    (l, ⟨.refused, 0, 0, 0, liveOf l.live s.sid, (l.streams s.sid).length, 0, 0,
        List.replicate s.nproc 0, List.replicate s.nproc 1, true,
        liveOf l.elive s.sid, if s.sid ∈ l.estreams then 1 else 0⟩)
  else
    let l1 := { l with pending := s.sid :: l.pending }
    -- watchExecution + start (waitForStart | initiate) subscribe
    let (l2, a) := l1.sub s.sid (waitSubs s.role)
    -- broadcasting (initiate / ready / start messages) opens streams under the session id
    let l3 := { l2 with streams := upd l2.streams s.sid (addStreams (l2.streams s.sid) (register s.opened)) }
    -- every process subscribes in Run
    let (l4, b1) := if s.out.ran then
        let (l', b) := l3.sub s.sid s.nproc
        (l', some b)
      else (l3, none)
    -- the wait loops' deferred UnSubscribe
    let l5 := l4.unsub s.sid a
    -- handleError: its own fail-watch first; a second attempt if it classifies the failure; then the watch is released
    let (l6, b) := if s.handled then
        let (la, w2) := l5.sub s.sid 1
        let (lb, b) := match s.second with
          | some t => secondAttempt elect la s t b1
          | none => (la, b1)
        (lb.unsub s.sid w2, b)
      else (l5, b1)
    -- Execute's deferred block: CloseSession; flag := false; Stop every process
    let l7 := { l6 with streams := upd l6.streams s.sid (release (l6.streams s.sid)) }
    let l8 := { l7 with pending := l7.pending.filter (· ≠ s.sid) }
    let l9 := l8.unsubOpt s.sid b
    let retOk := if s.handled then (match s.second with
      | some t => t.fin.retOk
      | none => false) else s.out.retOk
    let ran2 := s.handled && (match s.second with
      | some t => t.fin.ran
      | none => false)
    (l9, ⟨if retOk then .ok else .err,
          l9.subs - l.subs, l9.unsubs - l.unsubs, 1,
          liveOf l9.live s.sid, (l9.streams s.sid).length,
          -- opened streams that were never registered are never closed by anybody
          s.opened.length - (register s.opened).length,
          staleHits (l.streams s.sid) s.opened,
          List.replicate s.nproc ((if s.out.ran then 1 else 0) + (if ran2 then 1 else 0)), List.replicate s.nproc 1,
          decide (s.sid ∈ l9.pending),
          liveOf l9.elive s.sid, if s.sid ∈ l9.estreams then 1 else 0⟩)

def execute : Led → Sess → Led × Report := executeWith election releaseAll registerAll

/-- sessions one after another on one coordinator -/
def executeAll (l : Led) : List Sess → Led × List Report
  | [] => (l, [])
  | s :: ss =>
    let (l', rep) := execute l s
    let (l'', reps) := executeAll l' ss
    (l'', rep :: reps)

/-- the property of one finished session, on a report (the driver evaluates it on the implementation's report) -/
def Clean (nproc : Nat) (rep : Report) : Prop :=
  rep.ret ≠ .refused ∧ rep.sub = rep.unsub ∧ 1 ≤ rep.close ∧ rep.live = 0 ∧ rep.streams = 0 ∧ rep.unclosed = 0 ∧ rep.stale = 0 ∧
  rep.stops = List.replicate nproc 1 ∧ (∀ n ∈ rep.runs, n ≤ 2) ∧ rep.pend = false ∧
  rep.elive = 0 ∧ rep.estreams = 0

instance (n : Nat) (rep : Report) : Decidable (Clean n rep) := by unfold Clean; infer_instance

/-- nothing left of any session -/
def Led.Idle (l : Led) : Prop :=
  l.pending = [] ∧ (∀ s, l.live s = []) ∧ (∀ s, l.streams s = []) ∧ (∀ s, l.elive s = []) ∧ l.estreams = []

def Led.empty (n : Nat) : Led := ⟨[], fun _ => [], fun _ => [], fun _ => [], [], n, 0, 0⟩

/-! ### the stream manager under concurrent use: `AddStream` of a late send against `ReleaseStreams` -/

/-- what can happen to one session's entry of the stream manager, one critical section each -/
inductive SEv where
  | add (i : Nat)   -- a send opens stream `i` and registers it (`AddStream`, under the lock)
  | dup (i : Nat)   -- a send opens stream `i` but another send to the same peer registered first: it closes `i`
  | dupKept (i : Nat) -- as found: the losing stream was used once and then forgotten, open
  | release         -- `ReleaseStreams`: close every registered stream and delete the entry, all under ONE lock
  | snap            -- seeded variant, step 1: copy the entry under the lock
  | closeSnap       -- seeded variant, step 2: close the copied streams without the lock
  | del             -- seeded variant, step 3: delete the entry under the lock again
deriving DecidableEq, Repr

structure SMgr where
  opened : List Nat   -- every stream ever opened for the session
  reg    : List Nat   -- registered in the manager
  closed : List Nat
  snapd  : List Nat   -- the variant's snapshot
deriving Repr, DecidableEq

def SMgr.step (m : SMgr) : SEv → SMgr
  | .add i     => { m with opened := i :: m.opened, reg := i :: m.reg }
  | .dup i     => { m with opened := i :: m.opened, closed := i :: m.closed }
  | .dupKept i => { m with opened := i :: m.opened }
  | .release   => { m with closed := m.reg ++ m.closed, reg := [] }
  | .snap      => { m with snapd := m.reg }
  | .closeSnap => { m with closed := m.snapd ++ m.closed }
  | .del       => { m with reg := [] }

def SMgr.run (evs : List SEv) : SMgr := evs.foldl SMgr.step ⟨[], [], [], []⟩

/-- no stream is dropped from the manager without having been closed -/
def SMgr.NoneLost (m : SMgr) : Prop := ∀ i ∈ m.opened, i ∈ m.reg ∨ i ∈ m.closed

instance (m : SMgr) : Decidable m.NoneLost := by unfold SMgr.NoneLost; infer_instance

/-- a schedule that only uses what the real code does -/
def SEv.real : SEv → Bool
  | .add _ | .dup _ | .release => true
  | _ => false

/-! ### the global time-out of `watchExecution` -/

/-- the watch arms ONE timer when it starts; fail messages that are ignored (not from the coordinator) do not touch
    it: whatever arrives, the time-out comes `T` after the start -/
def watchEnd (T : Nat) (_foreign : List Nat) : Nat := T

/-- seeded variant: a fresh `time.After(T)` on every pass through the select - every ignored message that arrives
    before the current deadline moves the deadline to its own arrival + T -/
def watchEndRearmed (T : Nat) (d : Nat) : List Nat → Nat
  | [] => d
  | t :: ts => if t < d then watchEndRearmed T (t + T) ts else d

/-! ### a retryable (signing) process object that is Run several times and stopped once -/

/-- one `Run` of the repaired signing processes: release the previous run's subscription, then subscribe -/
def runAgain (sid : Sid) (st : Reg × Option Nat) : Reg × Option Nat :=
  let r := match st.2 with
    | some i => st.1.unsubscribe [i]
    | none => st.1
  let (r', ids) := r.subscribe sid 1
  (r', ids.head?)

/-- as found: `Run` overwrote `subscriptionID` without releasing it -/
def runAgainAsFound (sid : Sid) (st : Reg × Option Nat) : Reg × Option Nat :=
  let (r', ids) := st.1.subscribe sid 1
  (r', ids.head?)

def iter {α : Type} (f : α → α) : Nat → α → α
  | 0, a => a
  | n + 1, a => iter f n (f a)

/-- `Stop`: release the subscription the object remembers -/
def stopProc (st : Reg × Option Nat) : Reg :=
  match st.2 with
  | some i => st.1.unsubscribe [i]
  | none => st.1

def rerun (r : Reg) (sid : Sid) (n : Nat) : Reg := stopProc (iter (runAgain sid) n (r, none))
def rerunAsFound (r : Reg) (sid : Sid) (n : Nat) : Reg := stopProc (iter (runAgainAsFound sid) n (r, none))

end Sygma.C09
