/-
  C14 — EVM executor batching (`chains/evm/executor/executor.go: proposalBatches`).
  Executable model + executable property predicate. Core Lean only.
-/
import SygmaModel.Base
namespace Sygma.C14

/-- uint64 modulus -/
def M : Nat := 2 ^ 64

/-- a proposal as the batching loop sees it -/
structure PIn where
  gas      : Option Nat      -- `Metadata["gasLimit"]` (uint64) if present
  executed : Bool            -- answer of `bridge.IsProposalExecuted`
deriving Repr

/-- the gas allowance of a proposal as an unbounded number: per-proposal limit (if any) plus the transfer gas cost.
    The Go code computes it in uint64 (`l.(uint64) + e.transferGasCost`); the reduction mod 2^64 happens in `packStep`,
    where the model adds it to the batch (`(a + (b mod M)) mod M = (a + b) mod M`), so `NoOverflow` below really
    excludes every wrap, including that of a single allowance. -/
def propGas (tg : Nat) (p : PIn) : Nat :=
  match p.gas with
  | some l => l + tg
  | none   => tg

/-- indices of the proposals that still need execution, with their gas allowance -/
def pendingFrom (tg : Nat) : Nat → List PIn → List (Nat × Nat)
  | _, [] => []
  | i, p :: ps => if p.executed then pendingFrom tg (i+1) ps else (i, propGas tg p) :: pendingFrom tg (i+1) ps

def pending (tg : Nat) (ps : List PIn) : List (Nat × Nat) := pendingFrom tg 0 ps

structure Bt where
  members : List (Nat × Nat)   -- (index in the delivery, gas allowance)
  gas     : Nat                -- `Batch.gasLimit`
deriving Repr, DecidableEq

/-- one iteration of the loop for a not-executed proposal:
    roll over to a fresh batch *before* adding when the current batch is non-empty and would reach the cap -/
def packStep (cap : Nat) (st : List Bt × Bt) (x : Nat × Nat) : List Bt × Bt :=
  if st.2.members ≠ [] ∧ cap ≤ (st.2.gas + x.2) % M then
    (st.1 ++ [st.2], ⟨[x], x.2 % M⟩)
  else
    (st.1, ⟨st.2.members ++ [x], (st.2.gas + x.2) % M⟩)

def pack (cap : Nat) (xs : List (Nat × Nat)) : List Bt :=
  let st := xs.foldl (packStep cap) ([], ⟨[], 0⟩)
  st.1 ++ [st.2]

/-- the model of `proposalBatches` -/
def batches (cap tg : Nat) (ps : List PIn) : List Bt := pack cap (pending tg ps)

/-- `IsProposalExecuted` failing for any proposal of the delivery aborts the whole call -/
def batchesOpt (cap tg : Nat) (ps : List (PIn × Bool)) : Option (List Bt) :=
  if ps.any (·.2) then none else some (batches cap tg (ps.map (·.1)))

/-- session id of batch `i` of message `msgId`: `fmt.Sprintf("%s-%d", messageID, i)` -/
def sessionId (msgId : String) (i : Nat) : String := msgId ++ "-" ++ toString i

/-- what `executeBatch` hands to `ExecuteProposals`: each non-empty batch with ITS gas limit as the transaction gas limit -/
def submitted (bs : List Bt) : List Bt := bs.filter (·.members ≠ [])

/-- what `Execute` hashes and signs: the non-empty batches, each under its positional session id -/
def signedFrom (msgId : String) : Nat → List Bt → List (String × List Nat)
  | _, [] => []
  | k, b :: bs =>
    if b.members = [] then signedFrom msgId (k+1) bs
    else (sessionId msgId k, b.members.map (·.1)) :: signedFrom msgId (k+1) bs

def signed (msgId : String) (bs : List Bt) : List (String × List Nat) := signedFrom msgId 0 bs

/-! ### the property, as an executable predicate on *any* candidate output -/

def sumGas (ms : List (Nat × Nat)) : Nat := (ms.map (·.2)).sum

/-- P14: partition in order ∧ own gas ∧ over-cap only if single ∧ an empty batch only for an empty delivery -/
def P14 (cap : Nat) (pend : List (Nat × Nat)) (bs : List Bt) : Prop :=
  (bs.map (·.members)).flatten = pend ∧
  (∀ b ∈ bs, b.gas = sumGas b.members) ∧
  (∀ b ∈ bs, cap ≤ b.gas → b.members.length ≤ 1) ∧
  (∀ b ∈ bs, b.members = [] → bs.length = 1)

instance (cap : Nat) (pend : List (Nat × Nat)) (bs : List Bt) : Decidable (P14 cap pend bs) := by
  unfold P14; infer_instance

/-- no uint64 wrap anywhere in the delivery -/
def NoOverflow (pend : List (Nat × Nat)) : Prop := sumGas pend < M

end Sygma.C14
