/-
  C05 — scan cursor, persistence, crashes and restarts.
  Executable model + executable property predicate. Core Lean only.

  Builds on the scan-loop machine of Model/C04.lean (`step`): adds
    * the persisted cursor (sygma-core `store.BlockStore`: `StoreBlock` / `GetStartBlock`),
    * the start-block wiring of `app.Run` per chain type (`GetStartBlock`, for EVM/Substrate the head read at
      boot when no start is given and `chains.CalculateStartingBlock`; for BTC — after the repair — the result
      of `GetStartBlock` as it is, `nil` meaning "start at the head"),
    * process death between any two externally visible steps of a round (`truncate`),
    * any number of process lifetimes sharing one block store (`runAll`).
-/
import SygmaModel.Model.C04
namespace Sygma.C05
open Sygma.C04

/-- start-block configuration of one chain -/
structure Wiring where
  cfgStart : Int      -- `startBlock` of the chain config
  latest   : Bool     -- `latest` flag: ignore everything, start at the head
  fresh    : Bool     -- `fresh` flag: ignore the block store
  boot     : Int      -- head read by `app.Run` when `GetStartBlock` yields nil (EVM / Substrate)
deriving Repr

/-- sygma-core `BlockStore.GetLastStoredBlock`; `stored = none` is an absent key (read as 0) -/
def lastStored (stored : Option Int) : Int := match stored with | some v => v | none => 0

/-- sygma-core `BlockStore.GetStartBlock` -/
def getStartBlock (w : Wiring) (stored : Option Int) : Option Int :=
  if w.latest then none
  else if w.fresh then some w.cfgStart
  else if lastStored stored > w.cfgStart then some (lastStored stored) else some w.cfgStart

/-- `chains.CalculateStartingBlock`: `s − s mod k` (`big.Int.Mod` is the Euclidean modulus, like `Int.emod`);
    `k = 0` is a division-by-zero panic and is modelled by the driver as such -/
def align (s k : Int) : Int := s - s % k

/-- the start block `app.Run` hands to the chain object, hence to `ListenToEvents` -/
def startOf (cfg : Cfg) (w : Wiring) (stored : Option Int) : Option Int :=
  match cfg.kind with
  | .btc => getStartBlock w stored
  | _ => some (align (match getStartBlock w stored with | some s => s | none => w.boot) cfg.k)

/-- process death after `n` externally visible actions of the round (handler calls, then the store write) -/
def truncate (n : Nat) (o : Obs) : Obs :=
  ⟨o.head, o.calls.take n, if o.calls.length < n then o.store else none⟩

/-- the persisted value after an observation -/
def storeUpd (stored : Option Int) (o : Obs) : Option Int :=
  match o.store with
  | some (v, true) => some v
  | _ => stored

/-- a scripted round, with an optional process death inside it -/
abbrev SRound := Round × Option Nat

/-- one process lifetime: observations and the persisted value it leaves behind -/
def runLife (cfg : Cfg) : Option Int → Option Int → List SRound → List Obs × Option Int
  | _, stored, [] => ([], stored)
  | cur, stored, (r, crash) :: rs =>
    let o := (step cfg cur r).2
    match crash with
    | some n => ([truncate n o], storeUpd stored (truncate n o))
    | none =>
      let rest := runLife cfg (step cfg cur r).1 (storeUpd stored o) rs
      (o :: rest.1, rest.2)

/-- all lifetimes over one block store: per lifetime the start block handed to the listener and what it did -/
def runAll (cfg : Cfg) (w : Wiring) : Option Int → List (List SRound) → List (Option Int × List Obs)
  | _, [] => []
  | stored, l :: ls =>
    let s := startOf cfg w stored
    let res := runLife cfg s stored l
    (s, res.1) :: runAll cfg w res.2 ls

/-! ### the property, as an executable checker over *any* candidate history

  The checker keeps the frontier `hi`: every block from the first start up to (excluding) `hi` has been handed to
  ALL handlers in a round in which all of them returned nil. `none` = not anchored yet (nil start: the frontier
  is anchored at the first range handled). A history is accepted iff
    * every range handed to a handler starts at or below the frontier (no block is skipped, within a lifetime
      and across restarts), handlers are invoked in order 0,1,… on one and the same range `[s, last s]`;
    * `StoreBlock(v)` is attempted only in a round in which all handlers were invoked and none failed, and
      `v` is not beyond the frontier (the cursor is never persisted past an unhandled range);
    * a lifetime without the `latest` flag starts at or below the frontier. -/

def imax (a b : Int) : Int := if a < b then b else a

/-- all handlers were invoked in this round and none of them failed -/
def fully (cfg : Cfg) (r : Round) (o : Obs) : Bool := completes cfg r && o.calls.length == cfg.nh

/-- the frontier, anchored at `s` if it is not anchored yet -/
def anchor (hi : Option Int) (s : Int) : Int := match hi with | some H => H | none => s

def chkRound (cfg : Cfg) (hi : Option Int) (r : Round) (o : Obs) : Option (Option Int) :=
  match o.calls.head? with
  | none => if o.store.isSome then none else some hi
  | some c =>
    if o.calls ≠ callsUpTo cfg c.s o.calls.length then none else
    let H := anchor hi c.s
    if H < c.s then none else
    let H' := if fully cfg r o then imax H (c.e + 1) else H
    match o.store with
    | none => some (some H')
    | some (v, _) => if fully cfg r o ∧ v ≤ H' then some (some H') else none

def chkStart (w : Wiring) (hi : Option Int) (s : Option Int) : Option (Option Int) :=
  if w.latest then some s
  else match s, hi with
    | none, _ => none
    | some s, none => some (some s)
    | some s, some H => if s ≤ H then some (some H) else none

def chkLife (cfg : Cfg) : Option Int → List SRound → List Obs → Option (Option Int)
  | hi, _, [] => some hi
  | _, [], _ :: _ => none
  | hi, (r, _) :: rs, o :: os =>
    match chkRound cfg hi r o with
    | none => none
    | some hi' => chkLife cfg hi' rs os

def chkAll (cfg : Cfg) (w : Wiring) : Option Int → List (List SRound) → List (Option Int × List Obs) → Option (Option Int)
  | hi, [], [] => some hi
  | hi, l :: ls, (s, os) :: rest =>
    match chkStart w hi s with
    | none => none
    | some hi1 =>
      match chkLife cfg hi1 l os with
      | none => none
      | some hi2 => chkAll cfg w hi2 ls rest
  | _, _, _ => none

/-- value of `GetStartBlock` without the `latest` flag: the relayer's starting point -/
def gsb (w : Wiring) (stored : Option Int) : Int :=
  if w.fresh then w.cfgStart
  else if lastStored stored > w.cfgStart then lastStored stored else w.cfgStart

/-- P05. The frontier starts at the relayer's starting point (stored / configured start block; everything below
    it is not this relayer's business), so the FIRST lifetime, too, must start at or below it: a scan that begins
    above its starting point has skipped blocks. With `latest` the frontier is anchored at the first start. -/
def P05 (cfg : Cfg) (w : Wiring) (stored0 : Option Int) (lifes : List (List SRound)) (hist : List (Option Int × List Obs)) : Bool :=
  (chkAll cfg w (if w.latest then none else some (gsb w stored0)) lifes hist).isSome

/-! ### what the checker is supposed to establish, said declaratively -/

/-- the (scripted round, observation) pairs of a history, lifetime by lifetime -/
def pairsOf : List (List SRound) → List (Option Int × List Obs) → List (Round × Obs)
  | l :: ls, (_, os) :: rest => (l.map (·.1)).zip os ++ pairsOf ls rest
  | _, _ => []

/-- in this round block `b` was handed to EVERY handler (handlers 0 … nh−1, each on one and the same range that
    contains `b`) and none of them was scripted to fail -/
def HandledIn (cfg : Cfg) (p : Round × Obs) (b : Int) : Prop :=
  completes cfg p.1 = true ∧ ∃ s, p.2.calls = callsUpTo cfg s cfg.nh ∧ s ≤ b ∧ b ≤ cfg.last s

def Handled (cfg : Cfg) (ps : List (Round × Obs)) (b : Int) : Prop := ∃ p ∈ ps, HandledIn cfg p b

/-- `StoreBlock(v)` was attempted somewhere in the history -/
def StoredIn (ps : List (Round × Obs)) (v : Int) : Prop := ∃ p ∈ ps, ∃ w, p.2.store = some (v, w)

/-- the rounds of a lifetime before its first scripted process death -/
def alivePrefix (l : List SRound) : List Round := (l.takeWhile (·.2.isNone)).map (·.1)

/-- no further waiting, per lifetime (the C04 predicate `traceOk` on the rounds before the first process death): a range
    that is deep enough is handed to the first handler in that very round, whatever happened in earlier rounds -/
def lifePrompt (cfg : Cfg) (start : Option Int) (l : List SRound) (os : List Obs) : Bool :=
  traceOk cfg start (alivePrefix l) (os.take (alivePrefix l).length)

def histPrompt (cfg : Cfg) (lifes : List (List SRound)) (hist : List (Option Int × List Obs)) : Bool :=
  lifes.length == hist.length && (lifes.zip hist).all fun (l, h) => lifePrompt cfg h.1 l h.2

/-- handler level: a failed fetch makes `HandleEvents` fail (so the loop retries the range) -/
def handlerResult (fetchFailed : Bool) : String := if fetchFailed then "err" else "ok"

end Sygma.C05
