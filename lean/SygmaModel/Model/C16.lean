/-
  C16 — Bitcoin withdrawal transaction construction
  (`chains/btc/executor/executor.go: rawTx / outputs / inputs / fee`, `chains/btc/mempool/mempool.go: Utxos`,
   `chains/btc/executor/message-handler.go: ERC20MessageHandler`).
  Executable model of the code AS REPAIRED (sufficiency test against amount + fee; UTXO order keyed by
  (block time, txid, vout)) + executable property predicates.  Core Lean only.

  uint64 arithmetic is `Nat` with `% M` written out; `int64(x)` is `toInt64`.
  Outside world = inputs: the two fee quotes (`RecommendedFee` is called twice), the uploader's CID, the UTXO listing,
  and per recipient the script `btcutil.DecodeAddress`+`txscript.PayToAddrScript` produce (`none` = does not decode).
-/
import SygmaModel.Base
namespace Sygma.C16

def M : Nat := 2 ^ 64

/-- Go `int64(x)` for a uint64 `x` -/
def toInt64 (n : Nat) : Int := if n % M < 2 ^ 63 then ((n % M : Nat) : Int) else ((n % M : Nat) : Int) - (M : Int)

/-- a proposal as `outputs` sees it -/
structure Prp where
  amount : Nat             -- `Data.Amount` (uint64)
  script : Option Bytes    -- pay-to-address script of `Data.Recipient`; `none` = the recipient does not decode
deriving Repr, DecidableEq

structure Utxo where
  txid  : List Nat         -- bytes of the `txid` string
  vout  : Nat
  value : Nat
  btime : Nat              -- `status.block_time` (0 when the service omits it: unconfirmed outputs)
  confirmed : Bool         -- `status.confirmed`; carried along, never consulted by the ordering or the selection
deriving Repr, DecidableEq

structure TxOut where
  value  : Int             -- int64
  script : Bytes
deriving Repr, DecidableEq

structure Tx where
  ins  : List Utxo
  outs : List TxOut
deriving Repr, DecidableEq

structure Inp where
  rate1  : Option Nat          -- economy fee answered to the first `RecommendedFee` call (`none` = call fails)
  rate2  : Option Nat          -- … to the second call
  cid    : Option Bytes        -- uploader result (`none` = upload fails)
  bridge : Bytes               -- pay-to-address script of the resource's (bridge) address
  props  : List Prp
  utxos  : Option (List Utxo)  -- what `mempool.Utxos` returns, in that order (`none` = call fails)
deriving Repr

/-- `fee(numOfInputs, numOfOutputs)`: (in·180 + out·34) · ((rate/5)·5 + 5) in uint64 -/
def feeOf (rate nin nout : Nat) : Nat := ((nin * 180 + nout * 34) * (rate / 5 * 5 + 5)) % M

/-- `txscript.NullDataScript("syg_" + cid)`: OP_RETURN + canonical push; more than 80 bytes is an error -/
def nullData (cid : Bytes) : Option Bytes :=
  let d : Bytes := [0x73, 0x79, 0x67, 0x5f] ++ cid
  if d.length > 80 then none
  else if d.length ≤ 75 then some (0x6a :: UInt8.ofNat d.length :: d)
  else some (0x6a :: 0x4c :: UInt8.ofNat d.length :: d)

/-- one output per proposal, in order; the first recipient that does not decode aborts -/
def propOuts : List Prp → Option (List TxOut)
  | [] => some []
  | p :: ps =>
    match p.script with
    | none => none
    | some s => (propOuts ps).map (⟨toInt64 p.amount, s⟩ :: ·)

def sumAmounts (ps : List Prp) : Nat := (ps.map (·.amount)).sum
def sumValues (us : List Utxo) : Nat := (us.map (·.value)).sum
def sumOuts (os : List TxOut) : Int := (os.map (·.value)).sum

def isHexChar (c : Nat) : Bool := (48 ≤ c && c ≤ 57) || (97 ≤ c && c ≤ 102) || (65 ≤ c && c ≤ 70)

/-- `chainhash.NewHashFromStr` succeeds: at most 64 hex characters -/
def validTxid (t : List Nat) : Bool := t.length ≤ 64 && t.all isHexChar

/-- the loop of `inputs`: take UTXOs in the listed order until the running total exceeds `target`;
    returns the total and the UTXOs used; an undecodable txid met on the way aborts -/
def select (target : Nat) : List Utxo → Nat → Option (Nat × List Utxo)
  | [], acc => some (acc, [])
  | u :: us, acc =>
    if !validTxid u.txid then none
    else
      let acc' := (acc + u.value) % M
      if acc' > target then some (acc', [u])
      else (select target us acc').map fun r => (r.1, u :: r.2)

/-- `btcutil.MaxSatoshi` -/
def maxSat : Nat := 21 * 10 ^ 14

/-- the model of `rawTx(proposals, resource)`; `none` = an error is returned and no transaction exists.
    `outputs` refuses a proposal amount or a running total above `btcutil.MaxSatoshi`; since amounts and the total before
    each addition are then ≤ 21·10^14 the uint64 running total is exact, so that test is `sumAmounts > maxSat`. -/
def rawTx (i : Inp) : Option Tx :=
  if sumAmounts i.props > maxSat then none else
  match propOuts i.props, i.cid.bind nullData with
  | some pouts, some nd =>
    let n := i.props.length
    let outAmt := sumAmounts i.props % M
    match i.rate1, i.utxos with
    | some r1, some us =>
      match select ((outAmt + feeOf r1 n n) % M) us 0 with
      | none => none
      | some (inAmt, used) =>
        if inAmt < outAmt then none
        else match i.rate2 with
          | none => none
          | some r2 =>
            let fee := feeOf r2 used.length (n + 1)
            if inAmt < (outAmt + fee) % M then none
            else
              let ret := (inAmt + 2 * M - fee - outAmt) % M      -- uint64: inputAmount - fee - outputAmount
              let change := if ret > 0 then [⟨toInt64 ret, i.bridge⟩] else []
              some ⟨used, pouts ++ [⟨0, nd⟩] ++ change⟩
    | _, _ => none
  | _, _ => none

/-! ### the property, as an executable predicate on any candidate outcome -/

/-- the outputs every withdrawal must start with: one per proposal paying exactly its amount to its recipient, then the
    zero-value metadata output; `none` if a recipient is invalid or there is no metadata -/
def fixedOuts (i : Inp) : Option (List TxOut) :=
  match i.props.mapM (fun p => p.script.map fun s => (⟨(p.amount : Int), s⟩ : TxOut)), i.cid.bind nullData with
  | some po, some nd => some (po ++ [⟨0, nd⟩])
  | _, _ => none

/-- at most one change output, to the bridge address, of positive value -/
def changeOk (bridge : Bytes) : List TxOut → Bool
  | [] => true
  | [o] => decide (0 < o.value) && o.script == bridge
  | _ => false

/-- **P16** for a candidate outcome of building the withdrawal for `i` (`none` = no transaction):
    outputs = one per proposal (exact amount, recipient's script) ++ zero-value metadata ++ at most one positive change to
    the bridge; inputs are a prefix of the bridge's UTXO list; no negative output value; inputs − outputs = the relayer's
    fee quote (second call) for the shape (#inputs, #proposals + 1 outputs) — the change output is not counted, as in the code;
    an invalid recipient or missing quote/listing/metadata admits no transaction. -/
def P16 (i : Inp) : Option Tx → Prop
  | none => True
  | some tx =>
    match fixedOuts i, i.rate2, i.utxos with
    | some fixed, some r2, some us =>
      tx.outs.take fixed.length = fixed ∧
      changeOk i.bridge (tx.outs.drop fixed.length) = true ∧
      tx.ins = us.take tx.ins.length ∧
      (∀ o ∈ tx.outs, 0 ≤ o.value) ∧
      (sumValues tx.ins : Int) - sumOuts tx.outs = (feeOf r2 tx.ins.length (i.props.length + 1) : Int)
    | _, _, _ => False

instance (i : Inp) (o : Option Tx) : Decidable (P16 i o) := by
  unfold P16; split
  · infer_instance
  · split <;> infer_instance

/-- no prefix of the listing covers amounts plus the fee quoted for that many inputs -/
def cannotCover (i : Inp) (r2 : Nat) (us : List Utxo) : Prop :=
  ∀ k, k ≤ us.length → sumValues (us.take k) < sumAmounts i.props + feeOf r2 k (i.props.length + 1)

/-- bounds under which no uint64/int64 wrap can occur (amounts need none: `outputs` refuses what exceeds the supply) -/
def WF (i : Inp) : Prop :=
  i.props.length ≤ 10 ^ 6 ∧
  (∀ r, i.rate1 = some r → r ≤ 10 ^ 6) ∧ (∀ r, i.rate2 = some r → r ≤ 10 ^ 6) ∧
  (∀ us, i.utxos = some us → us.length ≤ 10 ^ 6 ∧ ∀ u ∈ us, u.value ≤ 21 * 10 ^ 14)

instance (i : Inp) : Decidable (WF i) := by
  unfold WF
  have : Decidable (∀ r, i.rate1 = some r → r ≤ 10 ^ 6) := by
    cases i.rate1 with
    | none => exact isTrue (by simp)
    | some r => exact decidable_of_iff (r ≤ 10 ^ 6) (by simp)
  have : Decidable (∀ r, i.rate2 = some r → r ≤ 10 ^ 6) := by
    cases i.rate2 with
    | none => exact isTrue (by simp)
    | some r => exact decidable_of_iff (r ≤ 10 ^ 6) (by simp)
  have : Decidable (∀ us, i.utxos = some us → us.length ≤ 10 ^ 6 ∧ ∀ u ∈ us, u.value ≤ 21 * 10 ^ 14) := by
    cases i.utxos with
    | none => exact isTrue (by simp)
    | some us => exact decidable_of_iff (us.length ≤ 10 ^ 6 ∧ ∀ u ∈ us, u.value ≤ 21 * 10 ^ 14) (by simp)
  infer_instance

/-! ### the UTXO service's ordering (`mempool.Utxos`) -/

/-- Go string `<` on the txid bytes -/
def natsLt : List Nat → List Nat → Bool
  | [], [] => false
  | [], _ :: _ => true
  | _ :: _, [] => false
  | a :: as, b :: bs => decide (a < b) || (a == b && natsLt as bs)

/-- "`a` may stand before `b`": keys (block time, txid, vout), lexicographic.  The `confirmed` flag is not a key: the
    code does not look at it, so unconfirmed outputs (block time 0) stand first, ordered among themselves by txid, vout. -/
def keyLe (a b : Utxo) : Bool :=
  decide (a.btime < b.btime) ||
  (a.btime == b.btime && (natsLt a.txid b.txid || (a.txid == b.txid && decide (a.vout ≤ b.vout))))

/-- "`a` stands strictly before `b`": the `less` function handed to `sort.Slice` — (block time, txid, vout), lexicographic, strict -/
def lexLt (a b : Utxo) : Bool :=
  decide (a.btime < b.btime) ||
  (a.btime == b.btime && (natsLt a.txid b.txid || (a.txid == b.txid && decide (a.vout < b.vout))))

/-- the comparator as found (block time, txid only): `b` is not strictly before `a` -/
def keyLeAsFound (a b : Utxo) : Bool :=
  decide (a.btime < b.btime) || (a.btime == b.btime && !natsLt b.txid a.txid)

/-- the model of `Utxos`: the listing sorted by the key -/
def sortUtxos (l : List Utxo) : List Utxo := l.mergeSort keyLe

/-- no two entries of a UTXO set name the same outpoint -/
def OutpointsDistinct (l : List Utxo) : Prop :=
  ∀ a ∈ l, ∀ b ∈ l, a.txid = b.txid → a.vout = b.vout → a = b

instance (l : List Utxo) : Decidable (OutpointsDistinct l) := by unfold OutpointsDistinct; infer_instance

/-- **P16 (ordering)**: the returned list is the same UTXO set, ordered by the key -/
def P16sort (listing out : List Utxo) : Prop := out.Perm listing ∧ out.Pairwise (fun a b => keyLe a b = true)

instance (listing out : List Utxo) : Decidable (P16sort listing out) := by unfold P16sort; infer_instance

/-! ### ERC20MessageHandler: amount bytes → proposal amount -/

/-- `new(big.Int).SetBytes(amount) / 10^10`; an amount that is no uint64 is refused (`none`) -/
def msgAmount (amountBytes : Bytes) : Option Nat :=
  if beToNat amountBytes / 10 ^ 10 < M then some (beToNat amountBytes / 10 ^ 10) else none

/-! ### which proposals of a batch are executed (`proposalsForExecution`) -/

/-- status of a deposit in the proposal store; the last two are the store's faults (status read fails / status write fails
    while the status reads as missing) -/
inductive PStatus | missing | failed | pending | executed | readErr | writeErr
deriving DecidableEq, Repr

/-- identity of a deposit: (source domain, destination domain, deposit nonce) -/
abbrev Key := Nat × Nat × Nat

structure BProp where
  key : Key
  prp : Prp
deriving Repr, DecidableEq

abbrev Store := List (Key × PStatus)

/-- last write wins; an unknown deposit is `missing` -/
def lookup (st : Store) (k : Key) : PStatus :=
  match st.find? (·.1 = k) with
  | some e => e.2
  | none => .missing

def executable (s : PStatus) : Bool := s = .missing || s = .failed

/-- the loop of `proposalsForExecution`: look the deposit up, skip it unless missing/failed, mark it pending, select it;
    a store fault aborts the batch (`none`).  Returns the selection and the store afterwards.  Because the mark is written
    before the next look-up, a second copy of the same deposit later in the batch is skipped. -/
def forExec : Store → List BProp → Option (List BProp) × Store
  | st, [] => (some [], st)
  | st, p :: ps =>
    match lookup st p.key with
    | .readErr | .writeErr => (none, st)
    | .missing | .failed =>
      let r := forExec ((p.key, .pending) :: st) ps
      (r.1.map (p :: ·), r.2)
    | _ => forExec st ps

/-- **P16 (selection)** for a candidate selection `sel` out of batch `ps` with the store as it was before the batch:
    no deposit is selected twice, only deposits whose status was missing/failed are selected, and the selection is a
    subsequence of the batch (nothing invented, order kept) -/
def P16sel (st : Store) (ps sel : List BProp) : Prop :=
  (sel.map (·.key)).Nodup ∧ (∀ p ∈ sel, executable (lookup st p.key) = true) ∧ sel.Sublist ps

instance (st : Store) (ps sel : List BProp) : Decidable (P16sel st ps sel) := by unfold P16sel; infer_instance

/-- the withdrawal built for a batch: selection, then `rawTx` for the selected proposals -/
def withdraw (st : Store) (i : Inp) (ps : List BProp) : Option (List BProp × Option Tx) :=
  (forExec st ps).1.map fun sel => (sel, rawTx { i with props := sel.map (·.prp) })

end Sygma.C16
