/-
  C13 — connection gating, sender attribution, topology refresh.

  Modelled code: `comm/p2p/gater.go` (five `ConnectionGater` hooks over `NetworkTopology.IsAllowedPeer`),
  `comm/p2p/libp2p.go: ProcessMessagesFromStream` (decode a line, then overwrite `From` with the connection's remote peer),
  `topology/topology.go: TopologyProvider.NetworkTopology` + `ProcessRawTopology`, `topology/encryption.go: Decrypt` (only its
  16-byte precondition), `topology/store.go: StoreTopology` (success / failure to open), and
  `chains/evm/listener/eventHandlers/tss.go: RefreshEventHandler.HandleEvents` up to `p2p.LoadPeers`.
  The outside world is a parameter (`Env`): the hash (SHA-256 in the driver), AES-CTR decryption, the JSON/multiaddr/ParseInt
  parser. Core Lean only.
-/
import SygmaModel.Base
import SygmaModel.Model.C13Sha256
namespace Sygma.C13

abbrev PeerId := Nat

structure Topo where
  peers     : List PeerId
  threshold : Nat
deriving DecidableEq, Repr

/-- `NetworkTopology.IsAllowedPeer` -/
def Topo.allows (t : Topo) (p : PeerId) : Bool := t.peers.contains p

/-! ## the connection gater -/

inductive Hook
  | peerDial      -- InterceptPeerDial
  | addrDial      -- InterceptAddrDial
  | accept        -- InterceptAccept
  | securedIn     -- InterceptSecured, inbound
  | securedOut    -- InterceptSecured, outbound
  | upgraded      -- InterceptUpgraded
deriving DecidableEq, Repr

def gate (t : Topo) (h : Hook) (p : PeerId) : Bool :=
  match h with
  | .peerDial | .securedIn | .securedOut => t.allows p
  | .addrDial | .accept | .upgraded => true

inductive Dir | inbound | outbound
deriving DecidableEq, Repr

/-- the hooks libp2p consults before a connection of that direction with the (authenticated) peer `p` is usable -/
def hooksOf : Dir → List Hook
  | .outbound => [.peerDial, .addrDial, .securedOut, .upgraded]
  | .inbound  => [.accept, .securedIn, .upgraded]

def connAllowed (t : Topo) (d : Dir) (p : PeerId) : Bool := (hooksOf d).all fun h => gate t h p

/-! ## sender attribution -/

/-- what `json.Unmarshal` can populate in a `comm.WrappedMessage`: `From` is tagged `json:"-"` and is not among them -/
structure Wire where
  mtype   : Nat
  session : String
  payload : Bytes
deriving DecidableEq, Repr

structure Msg where
  wire   : Wire
  sender : PeerId
deriving DecidableEq, Repr

/-- one line of a stream: decoded, then `wrappedMsg.From = remotePeerID` -/
def attributeMsg (decode : Bytes → Option Wire) (remote : PeerId) (line : Bytes) : Option Msg :=
  (decode line).map fun w => ⟨w, remote⟩

/-- `ProcessMessagesFromStream`: lines are processed in order until the first one that does not decode -/
def processStream (decode : Bytes → Option Wire) (remote : PeerId) : List Bytes → List Msg
  | [] => []
  | l :: ls =>
    match attributeMsg decode remote l with
    | none => []
    | some m => m :: processStream decode remote ls

/-! ## topology refresh -/

structure Env where
  H       : Bytes → Bytes                          -- SHA-256
  decrypt : Bytes → Bytes                          -- AES-CTR with iv = ct[:16] over ct[16:]
  parse   : Bytes → Option (List PeerId × Int)     -- json.Unmarshal, peer.AddrInfoFromString, strconv.ParseInt(threshold, 0, 0)

inductive Fetched
  | error
  | body (b : Bytes)
deriving DecidableEq, Repr

/-- one call of `RefreshEventHandler.HandleEvents` as seen from outside -/
structure Ev where
  hashes  : Option (List String)   -- `FetchRefreshEvents`: `none` = error, otherwise the announced hashes in block order
  fetched : Fetched                -- what the HTTP fetcher returns
  storeOk : Bool                   -- whether the topology file can be opened for writing
deriving DecidableEq, Repr

/-- sets of peers are kept in canonical form (sorted, no duplicates): that is all the gater (`IsAllowedPeer`) and the
    peerstore (`Peers()`) let anybody observe -/
def insertU (x : PeerId) : List PeerId → List PeerId
  | [] => [x]
  | y :: ys => if x < y then x :: y :: ys else if x = y then y :: ys else y :: insertU x ys

def canon (l : List PeerId) : List PeerId := l.foldr insertU []

structure St where
  stored : Option Topo     -- the topology file (`TopologyStore.Topology()`), `none` = unreadable
  gate   : List PeerId     -- the gater's admission list (canonical)
  pstore : List PeerId     -- the peerstore, i.e. the dial targets (canonical)
deriving DecidableEq, Repr

/-- `StoreTopology(t)`, `SetTopology(t)`, `LoadPeers(h, t.Peers)` -/
def adopt (t : Topo) : St := ⟨some t, canon t.peers, canon t.peers⟩

/-- does the state admit peer `p` (both gate hooks that look at the peer) -/
def St.admits (st : St) (p : PeerId) : Bool := st.gate.contains p

/-- `strings.TrimSuffix(body, "\n")` -/
def trimNl (b : Bytes) : Bytes := if b.getLast? = some 10 then b.dropLast else b

/-- `hex.DecodeString` on the body text -/
def hexBody (b : Bytes) : Option Bytes := fromHexChars (b.map fun x => Char.ofNat x.toNat)

inductive PR
  | err
  | panic
  | ok (t : Topo)
deriving DecidableEq, Repr

/-- `TopologyProvider.NetworkTopology(hash)` -/
def provider (e : Env) (hash : String) (f : Fetched) : PR :=
  match f with
  | .error => .err
  | .body b =>
    match hexBody (trimNl b) with
    | none => .err
    | some ct =>
      if hash ≠ "" ∧ toHex (e.H ct) ≠ hash then .err
      else if ct.length < 16 then .panic           -- `ct[:aes.BlockSize]` slice bounds out of range
      else
        match e.parse (e.decrypt ct) with
        | none => .err
        | some (peers, thr) => if thr < 1 then .err else .ok ⟨peers, thr.toNat⟩

inductive Outcome | done | panic
deriving DecidableEq, Repr

/-- `RefreshEventHandler.HandleEvents` up to and including `p2p.LoadPeers` -/
def refresh (e : Env) (st : St) (ev : Ev) : St × Outcome :=
  match ev.hashes with
  | none => (st, .done)
  | some hs =>
    match hs.getLast? with
    | none => (st, .done)
    | some hash =>
      if hash = "" then (st, .done) else
      match provider e hash ev.fetched with
      | .err => (st, .done)
      | .panic => (st, .panic)
      | .ok t => if ev.storeOk then (adopt t, .done) else (st, .done)

/-- start-up (`app.Run`): use the topology file if it can be read; otherwise fetch WITHOUT a hash to compare with
    (`NetworkTopology("")`), store it (a failure of either is fatal: `none`); the gate and the host's peerstore are then
    built from that topology -/
def bootstrap (e : Env) (file : Option Topo) (f : Fetched) (storeOk : Bool) : Option St :=
  match file with
  | some t => some ⟨some t, canon t.peers, canon t.peers⟩
  | none =>
    match provider e "" f with
    | .ok t => if storeOk then some (adopt t) else none
    | _ => none

/-- a sequence of refresh calls (a panic kills the process; the restarted process loads the stored topology, which by
    `Props.C13.consistent_run` is the gate's, so the state component is all that matters) -/
def run (e : Env) (st : St) (evs : List Ev) : St := evs.foldl (fun s ev => (refresh e s ev).1) st

/-! ## the property, as executable predicates on ANY candidate output -/

/-- the topology that this call is entitled to adopt, if any: non-empty announced hash (of the last event), body that
    hex-decodes to a ciphertext whose SHA-256 is that hash, decrypts and parses to a topology with threshold ≥ 1, store works -/
def adoptable (e : Env) (ev : Ev) : Option Topo :=
  match ev.hashes, ev.fetched with
  | some hs, .body b =>
    match hs.getLast?, hexBody (trimNl b) with
    | some hash, some ct =>
      if hash ≠ "" ∧ toHex (e.H ct) = hash ∧ 16 ≤ ct.length ∧ ev.storeOk then
        match e.parse (e.decrypt ct) with
        | some (peers, thr) => if 1 ≤ thr then some ⟨peers, thr.toNat⟩ else none
        | none => none
      else none
    | _, _ => none
  | _, _ => none

/-- P13 (refresh): the state after the call is the state before, or the adoption of the one topology that was announced -/
def RefreshOk (e : Env) (st : St) (ev : Ev) (st' : St) : Prop :=
  st' = st ∨ ∃ t, adoptable e ev = some t ∧ st' = adopt t

instance (e : Env) (st : St) (ev : Ev) (st' : St) : Decidable (RefreshOk e st ev st') := by
  unfold RefreshOk
  cases h : adoptable e ev with
  | none => exact if h' : st' = st then isTrue (Or.inl h') else isFalse (by rintro (h1 | ⟨t, h2, _⟩); exact h' h1; cases h2)
  | some t =>
    exact if h' : st' = st then isTrue (Or.inl h')
      else if h'' : st' = adopt t then isTrue (Or.inr ⟨t, rfl, h''⟩)
      else isFalse (by
        rintro (h1 | ⟨t', h2, h3⟩)
        · exact h' h1
        · cases h2; exact h'' h3)

/-! ## several handlers, one store / gate / peerstore

  `app.Run` creates ONE `RefreshEventHandler` PER EVM chain; they share the provider, the `TopologyStore`, the
  `ConnectionGate` and the host, and each chain's listener runs in its own goroutine. An accepted refresh performs three
  separate writes (file, gate pointer, peerstore) with nothing that makes them one step, so the writes of two handlers
  can interleave. -/

inductive Write
  | store (t : Topo)     -- `topologyStore.StoreTopology(t)`
  | gate (t : Topo)      -- `connectionGate.SetTopology(t)`
  | peers (t : Topo)     -- `p2p.LoadPeers(host, t.Peers)`
deriving DecidableEq, Repr

def Write.topo : Write → Topo
  | .store t | .gate t | .peers t => t

def applyWrite (st : St) : Write → St
  | .store t => { st with stored := some t }
  | .gate t => { st with gate := canon t.peers }
  | .peers t => { st with pstore := canon t.peers }

/-- what one handler call contributes: nothing, or its three writes in program order -/
def writesOf (e : Env) (ev : Ev) : List Write :=
  match adoptable e ev with
  | some t => [.store t, .gate t, .peers t]
  | none => []

/-- `ws` is an interleaving of the lists `ls` (each list keeps its own order) -/
inductive Interleaving : List (List Write) → List Write → Prop
  | done (ls : List (List Write)) (h : ∀ l ∈ ls, l = []) : Interleaving ls []
  | step (pre : List (List Write)) (w : Write) (l : List Write) (post : List (List Write)) (ws : List Write)
      (h : Interleaving (pre ++ l :: post) ws) : Interleaving (pre ++ (w :: l) :: post) (w :: ws)

def applyWrites (st : St) (ws : List Write) : St := ws.foldl applyWrite st

end Sygma.C13
