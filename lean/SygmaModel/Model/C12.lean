/-
  C12 — subscription ids (`comm/subID.go`) and the session subscription manager (`comm/p2p/subscription.go`),
  with the fan-out of `ProcessMessagesFromStream` (`comm/p2p/libp2p.go`) seen as "deliver to GetSubscribers".
  Executable model of the code AS IT IS after the `fix:` commit (Unwrap splits from the right) + the reference
  semantics (spec) + the executable property predicate. Core Lean only.

  Go strings are byte strings: `Str = List UInt8`. The nested Go maps session → type → key → channel are one flat
  association list of entries (at most one entry per (session, type, key)); channels are numbered by the subscribe
  call that registered them. The time-derived suffix `uint32(time.Now().UnixNano())` is an INPUT of the model.
-/
import SygmaModel.Base
namespace Sygma.C12

abbrev Str := List UInt8

/-- ASCII text as bytes (for examples and the driver) -/
def str (s : String) : Str := s.toList.map fun c => UInt8.ofNat c.toNat

/-- the separator `-` -/
def dash : UInt8 := 45

/-! ### `%d` and `strconv.ParseInt(·, 10, 8)` -/

def digit (d : Nat) : UInt8 := UInt8.ofNat (48 + d)

/-- digits of `n`, most significant first; `fuel` bounds the recursion (structural, so the kernel can evaluate it) -/
def decAux : Nat → Nat → Str
  | 0, n => [digit (n % 10)]
  | f + 1, n => if n < 10 then [digit n] else decAux f (n / 10) ++ [digit (n % 10)]

/-- Go `%d` of a non-negative integer -/
def dec (n : Nat) : Str := decAux n n

def isDigit (c : UInt8) : Bool := 48 ≤ c.toNat && c.toNat ≤ 57

def parseDigitsAux : Nat → Str → Option Nat
  | acc, [] => some acc
  | acc, c :: cs => if isDigit c then parseDigitsAux (acc * 10 + (c.toNat - 48)) cs else none

/-- a non-empty run of ASCII digits, as a natural number (unbounded: overflow is decided by the caller) -/
def parseDigits (s : Str) : Option Nat := if s = [] then none else parseDigitsAux 0 s

/-- `strconv.ParseInt(s, 10, 8)`: optional sign, digits only (no `_`, no prefix in base 10), range −128 … 127;
    `none` = any error (syntax or range) -/
def parseInt8 (s : Str) : Option Int :=
  match s with
  | [] => none
  | c :: r =>
    if c = 43 then (parseDigits r).bind fun n => if n ≤ 127 then some (n : Int) else none
    else if c = 45 then (parseDigits r).bind fun n => if n ≤ 128 then some (-(n : Int)) else none
    else (parseDigits (c :: r)).bind fun n => if n ≤ 127 then some (n : Int) else none

/-! ### subscription ids -/

/-- `fmt.Sprintf("%s-%d-%d", sessionID, msgType, suffix)` -/
def newId (s : Str) (t u : Nat) : Str := s ++ dash :: (dec t ++ dash :: dec u)

/-- `i := strings.LastIndex(s, "-")`; `(s[:i], s[i+1:])`, `none` when there is no separator -/
def splitLast (c : UInt8) : Str → Option (Str × Str)
  | [] => none
  | x :: xs =>
    match splitLast c xs with
    | some (a, b) => some (x :: a, b)
    | none => if x = c then some ([], xs) else none

/-- number of the `Unknown` message type (the largest declared one) -/
def unknownType : Nat := 13

/-- `SubscriptionID.Unwrap` (repaired: the id is split from the right) → (session, type, key) -/
def unwrap (id : Str) : Option (Str × Nat × Str) :=
  match splitLast dash id with
  | none => none
  | some (rest, sub) =>
    match splitLast dash rest with
    | none => none
    | some (sess, ty) =>
      match parseInt8 ty with
      | none => none
      | some v => if v > (unknownType : Int) then none else some (sess, (v % 256).toNat, sub)

/-- `SubscriptionID.SubscriptionIdentifier()`: the key, or "" when the id does not parse -/
def keyOf (id : Str) : Str := match unwrap id with | some (_, _, k) => k | none => []

/-! ### the manager -/

structure Entry where
  sess : Str
  ty   : Nat
  key  : Str
  ch   : Nat
deriving DecidableEq, Repr

abbrev St := List Entry

def Entry.at (e : Entry) (s : Str) (t : Nat) (k : Str) : Bool := e.sess = s && e.ty = t && e.key = k

/-- `SubscribeTo`: the channel is stored under the key parsed back out of the freshly made id
    (an existing entry with that key is overwritten) -/
def subscribe (st : St) (s : Str) (t u : Nat) (ch : Nat) : St × Str :=
  let id := newId s t u
  let k := keyOf id
  (st.filter (fun e => !e.at s t k) ++ [⟨s, t, k, ch⟩], id)

/-- `UnSubscribeFrom` -/
def unsubscribe (st : St) (id : Str) : St :=
  match unwrap id with
  | none => st
  | some (s, t, k) => st.filter fun e => !e.at s t k

/-- `GetSubscribers` (as channel numbers; Go's map order is not modelled, the driver sorts) -/
def subscribers (st : St) (s : Str) (t : Nat) : List Nat :=
  (st.filter fun e => e.sess = s && e.ty = t).map (·.ch)

/-! ### histories -/

inductive Op where
  | sub (s : Str) (t u : Nat)      -- Subscribe; `u` = the suffix the clock produced
  | unsub (k : Nat)                -- UnSubscribe(the id returned by the k-th Subscribe)
  | unsubRaw (id : Str)            -- UnSubscribe(any string)
  | deliver (s : Str) (t : Nat)    -- an inbound message of (session, type), of any size
  | close (s : Str)                -- CloseSession(s): releases the session's OUTBOUND streams; not a cancellation
deriving Repr

inductive Res where
  | id (s : Str)
  | unit
  | recv (chs : List Nat)
deriving Repr, DecidableEq

structure Run where
  st  : St
  ids : List Str      -- ids returned so far; the next channel number is `ids.length`
  out : List Res
deriving Repr

def step (r : Run) : Op → Run
  | .sub s t u =>
    let p := subscribe r.st s t u r.ids.length
    ⟨p.1, r.ids ++ [p.2], r.out ++ [.id p.2]⟩
  | .unsub k =>
    match r.ids[k]? with
    | some id => ⟨unsubscribe r.st id, r.ids, r.out ++ [.unit]⟩
    | none => ⟨r.st, r.ids, r.out ++ [.unit]⟩
  | .unsubRaw id => ⟨unsubscribe r.st id, r.ids, r.out ++ [.unit]⟩
  | .deliver s t => ⟨r.st, r.ids, r.out ++ [.recv (subscribers r.st s t)]⟩
  | .close _ => ⟨r.st, r.ids, r.out ++ [.unit]⟩

def run (ops : List Op) : Run := ops.foldl step ⟨[], [], []⟩

/-! ### reference semantics: the set of live subscriptions, by handle -/

structure Live where
  h    : Nat
  sess : Str
  ty   : Nat
deriving DecidableEq, Repr

structure SRun where
  live : List Live
  n    : Nat                 -- subscriptions issued so far
  out  : List (List Nat)     -- what each delivery reached
deriving Repr

def sstep (r : SRun) : Op → SRun
  | .sub s t _ => ⟨r.live ++ [⟨r.n, s, t⟩], r.n + 1, r.out⟩
  | .unsub k => ⟨r.live.filter (fun l => l.h != k), r.n, r.out⟩
  | .unsubRaw _ => r          -- outside the property (excluded by `wf`)
  | .deliver s t => ⟨r.live, r.n, r.out ++ [(r.live.filter fun l => l.sess = s && l.ty = t).map (·.h)]⟩
  | .close _ => r             -- closing a session cancels nobody

def srun (ops : List Op) : SRun := ops.foldl sstep ⟨[], 0, []⟩

/-- what the deliveries of a run reached -/
def deliveries : List Res → List (List Nat)
  | [] => []
  | .recv c :: rs => c :: deliveries rs
  | _ :: rs => deliveries rs

/-- the retained subscriptions of a manager state, keys forgotten -/
def retained (st : St) : List Live := st.map fun e => ⟨e.ch, e.sess, e.ty⟩

/-- **P12**, on any candidate observation (what each delivery reached, what is retained at the end):
    every delivery reached exactly the live subscribers of its (session, type), and exactly the live
    subscriptions are retained. -/
def P12 (ops : List Op) (dels : List (List Nat)) (ret : List Live) : Bool :=
  dels == (srun ops).out && ret == (srun ops).live

/-- well-formed histories: declared message types only, only ids the manager handed out are cancelled, and the
    clock never repeats a suffix within one (session, type) -/
def wfFrom : List (Str × Nat × Nat) → List Op → Bool
  | _, [] => true
  | seen, .sub s t u :: ops => decide (t ≤ unknownType) && !seen.contains (s, t, u) && wfFrom (seen ++ [(s, t, u)]) ops
  | seen, .unsub _ :: ops => wfFrom seen ops
  | _, .unsubRaw _ :: _ => false
  | seen, .deliver _ _ :: ops => wfFrom seen ops
  | seen, .close _ :: ops => wfFrom seen ops

def wf (ops : List Op) : Bool := wfFrom [] ops

/-- the INPUT half of `wf`: declared message types only, only handed-out ids are cancelled -/
def wfIn : List Op → Bool
  | [] => true
  | .sub _ t _ :: ops => decide (t ≤ unknownType) && wfIn ops
  | .unsub _ :: ops => wfIn ops
  | .unsubRaw _ :: _ => false
  | .deliver _ _ :: ops => wfIn ops
  | .close _ :: ops => wfIn ops

/-- the OUTPUT half of `wf` — a statement about the identifiers the implementation handed out (the suffix of each
    `sub` is read off the id it returned): every identifier is FRESH, i.e. different from every identifier handed
    out before for that (session, type), live or cancelled -/
def freshFrom : List (Str × Nat × Nat) → List Op → Bool
  | _, [] => true
  | seen, .sub s t u :: ops => !seen.contains (s, t, u) && freshFrom (seen ++ [(s, t, u)]) ops
  | seen, _ :: ops => freshFrom seen ops

def fresh (ops : List Op) : Bool := freshFrom [] ops

/-- **P12, complete**: the identifiers handed out are fresh, every delivery reached exactly the live subscribers of
    its (session, type), and exactly the live subscriptions are retained. This is what the driver evaluates on the
    implementation's observations. -/
def PFull (ops : List Op) (dels : List (List Nat)) (ret : List Live) : Bool :=
  fresh ops && P12 ops dels ret

/-! ### histories that leave the theorems' hypotheses: the predicate is evaluated on the longest well-formed prefix -/

def Op.okIn : Op → Bool
  | .sub _ t _ => decide (t ≤ unknownType)
  | .unsubRaw _ => false
  | _ => true

/-- the longest prefix of a history made of declared types and handed-out ids only -/
def wfPrefix (ops : List Op) : List Op := ops.takeWhile Op.okIn

/-- **P12 on arbitrary histories.** Up to the first operation that leaves the hypotheses (a foreign id string, an
    undeclared message type) the identifiers are fresh and every delivery reached exactly the live subscribers; if
    the whole history stays inside, exactly the live subscriptions are retained at the end. One stray operation no
    longer voids the predicate for what came before it. -/
def PPrefix (ops : List Op) (dels : List (List Nat)) (ret : List Live) : Bool :=
  let pre := wfPrefix ops
  fresh pre && dels.take (srun pre).out.length == (srun pre).out &&
  (pre.length != ops.length || (dels == (srun ops).out && ret == (srun ops).live))

end Sygma.C12
