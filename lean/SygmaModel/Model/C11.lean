/-
  C11 — classification of a failed signing attempt and the retry without the culprits.  Executable model, core only.
  Models the code AFTER the repair `fix: classify tss failures with errors.As` (handleError used a type switch on the
  top-level error, which never matched because conc pools wrap every task error with errors.Join on go ≥ 1.20).

  Go → here:
  * error values                                   → `Err α`: typed leaves, `other`, and the two shapes conc's
        `ErrorPool.addErr` produces with `errors.Join`: `wrap e` = Join(nil, e), `pair a e` = Join(a, e)
  * `pool.Wait()` of a pool whose failing tasks returned `errs` in completion order → `poolWait errs`
  * `errors.As(err, &target)` (pre-order, left to right over `Unwrap() []error`)  → `findCoord/findComm/findTss/findSubset`
  * `handleError`'s switch                          → `classify` then `plan`
  * `Execute`'s `Retryable()` test                  → `afterFailure`
  * `retry`: `common.ExcludePeers(ValidCoordinators(), excluded)` handed to the bully elector, `start(…, excluded)`
                                                    → `excludePeers`, `nextCandidates`; the announced subset of the
        second attempt is C07's `initiate` with `cfg.excluded = excluded`
  * bully elector's `setCoordinator` on a Select message (Alive answers are never accepted by `listen`, so the
        election always ends by self-selection after ElectionWaitTime) → `bullyElected`
-/
import SygmaModel.Model.C07
namespace Sygma.C11
open Sygma.C07

inductive Err (α : Type) where
  | coord (p : Option α)                        -- *tss.CoordinatorError{Peer}; `none` = the empty peer id
  | comm                                         -- *comm.CommunicationError
  | tss (culprits : List α) (decodable : Bool)   -- *tss.Error; `decodable = false`: some culprit id does not parse
  | subset                                       -- *tss.SubsetError
  | other                                        -- any other error (watchdog time-out, fail message, decode error …)
  | wrap (e : Err α)                             -- errors.Join(nil, e)
  | pair (a b : Err α)                           -- errors.Join(a, b)
deriving Repr, DecidableEq

section
variable {α : Type}

/-- conc `ErrorPool.addErr`: `p.errs = errors.Join(p.errs, err)` -/
def poolJoin (acc : Option (Err α)) (e : Err α) : Err α :=
  match acc with
  | none => .wrap e
  | some a => .pair a e

/-- `pool.Wait()` for the non-nil task errors in completion order (`none` = nil) -/
def poolWait (errs : List (Err α)) : Option (Err α) :=
  errs.foldl (fun acc e => some (poolJoin acc e)) none

/-- `errors.As(err, &*CoordinatorError)` -/
def findCoord : Err α → Option (Option α)
  | .coord p => some p
  | .wrap e => findCoord e
  | .pair a b => (findCoord a).orElse fun _ => findCoord b
  | _ => none

def findComm : Err α → Bool
  | .comm => true
  | .wrap e => findComm e
  | .pair a b => findComm a || findComm b
  | _ => false

def findTss : Err α → Option (List α × Bool)
  | .tss cs d => some (cs, d)
  | .wrap e => findTss e
  | .pair a b => (findTss a).orElse fun _ => findTss b
  | _ => none

def findSubset : Err α → Bool
  | .subset => true
  | .wrap e => findSubset e
  | .pair a b => findSubset a || findSubset b
  | _ => false

inductive Class (α : Type) where
  | coord (p : Option α) | comm | tss (culprits : List α) (decodable : Bool) | subset | unknown
deriving Repr, DecidableEq

/-- the switch of the repaired `handleError` (cases tried in the source order) -/
def classify (e : Err α) : Class α :=
  match findCoord e with
  | some p => .coord p
  | none =>
    if findComm e then .comm else
    match findTss e with
    | some (cs, d) => .tss cs d
    | none => if findSubset e then .subset else .unknown

inductive Plan (α : Type) where
  | retry (excluded : List α)   -- bully election among the non-excluded key holders, then `start` with `excluded`
  | waitStart                    -- left out of the subset: wait `TssTimeout` for a start message from anyone
  | giveUp (err : Err α)         -- the session ends, `Execute` returns `err`
deriving Repr, DecidableEq

/-- what `handleError` does for a classified cause of the error `e` it was given -/
def plan (e : Err α) : Class α → Plan α
  | .coord p => .retry p.toList
  | .comm => .retry []
  | .tss cs true => .retry cs
  | .tss _ false => .giveUp .other   -- `PeersFromParties` failed: ITS (untyped) error is returned
  | .subset => .waitStart
  | .unknown => .giveUp e            -- unrecognised: the error itself is returned

/-- `Execute` after the first attempt failed with `e` -/
def afterFailure (retryable : Bool) (e : Err α) : Plan α :=
  if retryable then plan e (classify e) else .giveUp e

/-- the six kinds of tss processes and what their `Retryable()` answers (regenerated fact: Oblig/C11 `gen_retryable`) -/
inductive Kind where
  | ecdsaKeygen | ecdsaSigning | ecdsaResharing | frostKeygen | frostSigning | frostResharing
deriving DecidableEq, Repr

def Kind.isSigning : Kind → Bool
  | .ecdsaSigning => true
  | .frostSigning => true
  | _ => false

def retryableOf (k : Kind) : Bool := k.isSigning

/-! ### the intended classification (specification): the typed leaves decide -/

/-- the typed leaves of an error tree, left to right -/
def typedLeaves : Err α → List (Class α)
  | .coord p => [.coord p]
  | .comm => [.comm]
  | .tss cs d => [.tss cs d]
  | .subset => [.subset]
  | .other => []
  | .wrap e => typedLeaves e
  | .pair a b => typedLeaves a ++ typedLeaves b

/-- the failure cause when it is unambiguous: no typed leaf ⇒ unrecognised; all typed leaves equal ⇒ that one -/
def intended (e : Err α) [DecidableEq α] : Option (Class α) :=
  match typedLeaves e with
  | [] => some .unknown
  | k :: ks => if ks.all (· = k) then some k else none

/-- the culprits the relayer identifies for a failure cause -/
def culprits : Class α → List α
  | .coord p => p.toList
  | .tss cs _ => cs
  | _ => []

/-- a cause that leads to a new election -/
def Retried : Class α → Prop
  | .coord _ => True
  | .comm => True
  | .tss _ d => d = true
  | _ => False

variable [DecidableEq α]

/-- `common.ExcludePeers` -/
def excludePeers (peers excluded : List α) : List α := peers.filter (fun p => decide (p ∉ excluded))

/-- candidates handed to the bully elector by `retry` -/
def nextCandidates (valid excluded : List α) : List α := excludePeers valid excluded

/-- index of a peer in the bully elector's sorted list, 0 when it is not listed (`isPeerIDHigher` as written) -/
def bullyIdx (sorted : List α) (p : α) : Nat :=
  match sorted.idxOf? p with
  | some i => i
  | none => 0

/-- outcome of the bully election on this relayer when at most one peer `claimant` announces itself (Select) -/
def bullyElected (key : α → Nat) (self : α) (candidates : List α) (claimant : Option α) : α :=
  let s := sortDesc key candidates
  match claimant with
  | none => self
  | some r => if bullyIdx s r < bullyIdx s self || r = self then r else self

/-- the INTENDED outcome (what C11 asks for: culprits take no part in the new election): a claimant that is not among
    the candidates is ignored. Differs from `bullyElected` exactly on the known finding C11-bully-unlisted-claimant. -/
def bullyElectedListed (key : α → Nat) (self : α) (candidates : List α) (claimant : Option α) : α :=
  match claimant with
  | some r => if r ∈ candidates then bullyElected key self candidates (some r) else self
  | none => self

/-! ### the second attempt as a whole -/

/-- what the relayer does after the failure, as far as a scenario can observe it -/
inductive Outcome (α : Type) where
  | ended (err : Err α)      -- the session ends; `Execute` returns `err`
  | idle                     -- waits for a start message; none came
  | follows (c : α)          -- answers `c`'s initiate with ready and runs the process with `c`'s start params
  | announces (n : Nat) (S : List α) -- coordinates the new attempt itself; announces `S` after `n` ready messages
  | neverReady               -- coordinates the new attempt itself; the ready messages ran out before `Ready`
deriving Repr, DecidableEq

structure Second (α : Type) where
  election : Option (List α)   -- the candidates in election order, when a bully election was started
  outcome  : Outcome α
deriving Repr, DecidableEq

/-- `Execute` after the first attempt failed with `e`, up to the second attempt's start: `elect` is the election rule
    (`bullyElected` as written, `bullyElectedListed` as intended), `claimant` a peer that announces itself coordinator /
    sends the replacement start, `arrivals` the senders of ready messages if this relayer coordinates. -/
def secondAttempt (elect : (α → Nat) → α → List α → Option α → α) (key : α → Nat) (self : α) (t : Nat)
    (holders : List α) (e : Err α) (retryable : Bool) (claimant : Option α) (arrivals : List α) : Second α :=
  match afterFailure retryable e with
  | .giveUp err => ⟨none, .ended err⟩
  | .waitStart => ⟨none, match claimant with | some r => .follows r | none => .idle⟩
  | .retry ex =>
    let cands := nextCandidates holders ex
    let elected := elect key self cands claimant
    ⟨some (sortDesc key cands),
      if elected = self then
        match initiate key ⟨self, holders, t, ex⟩ arrivals with
        | some (n, S) => .announces n S
        | none => .neverReady
      else .follows elected⟩

/-! ### the coordinator time-out with a clock: which messages re-arm it -/

/-- a message, or one unit of time passing -/
inductive CEv (α : Type) where
  | msg (e : Ev α)
  | tick
deriving DecidableEq, Repr

structure CSt (α : Type) where
  w        : WSt α
  elapsed  : Nat     -- time units since the time-out was (re-)armed
  timedOut : Bool    -- waitForStart returned CoordinatorError{coordinator}
deriving Repr

/-- `waitForStart(…, c, limit)` with its ticker made explicit: the ticker fires when `limit` units have passed since it
    was last re-armed, and it is re-armed ONLY by an initiate message of the coordinator `c` itself — a message that is
    ignored because of its sender leaves it alone. (Once a process runs, the loop and its ticker are gone.) -/
def stepClock (c : α) (limit : Nat) (s : CSt α) : CEv α → CSt α
  | .tick =>
    if s.timedOut then s else
    match s.w.phase with
    | .waiting => if limit ≤ s.elapsed + 1 then { s with timedOut := true } else { s with elapsed := s.elapsed + 1 }
    | _ => s
  | .msg e =>
    if s.timedOut then s else
    { s with w := stepWait (some c) s.w e,
             elapsed := if e = Ev.init c ∧ s.w.phase = .waiting then 0 else s.elapsed }

def runClock (c : α) (limit : Nat) (tr : List (CEv α)) : CSt α :=
  tr.foldl (stepClock c limit) ⟨initW, 0, false⟩

def ticksOf : List (CEv α) → Nat
  | [] => 0
  | .tick :: es => ticksOf es + 1
  | .msg _ :: es => ticksOf es

def msgsOfC : List (CEv α) → List (Ev α)
  | [] => []
  | .msg e :: es => e :: msgsOfC es
  | .tick :: es => msgsOfC es

/-! ### the relayer left out of the subset, with a clock -/

structure LSt (α : Type) where
  w        : WSt α
  sinceArm : Nat     -- time units since waitForStart's ticker (period TssTimeout) was re-armed by an initiate message
  total    : Nat     -- time units since handleError started its fail watcher, whose TssTimeout ticker is NEVER re-armed
  timedOut : Bool
deriving Repr

/-- `handleError`'s SubsetError case: `waitForStart(…, "", TssTimeout)` next to `watchExecution(…, "")`. Time adds up:
    the watcher's ticker runs from the start and is never reset, so the wait ends `tssLimit` units after it began no
    matter how the silence is distributed; CoordinatorTimeout plays no role. -/
def stepLeftOut (tssLimit : Nat) (s : LSt α) : CEv α → LSt α
  | .tick =>
    if s.timedOut then s else
    match s.w.phase with
    | .finished _ => s
    | .waiting =>
      if tssLimit ≤ s.total + 1 || tssLimit ≤ s.sinceArm + 1 then { s with timedOut := true }
      else { s with total := s.total + 1, sinceArm := s.sinceArm + 1 }
    | .running =>
      if tssLimit ≤ s.total + 1 then { s with timedOut := true } else { s with total := s.total + 1 }
  | .msg e =>
    if s.timedOut then s else
    { s with w := stepWait2 none none s.w e,
             sinceArm := match e, s.w.phase with
               | .init _, .waiting => 0     -- with the empty coordinator id every initiate message is accepted
               | _, _ => s.sinceArm }

def runLeftOut (tssLimit : Nat) (tr : List (CEv α)) : LSt α :=
  tr.foldl (stepLeftOut tssLimit) ⟨initW, 0, 0, false⟩

/-! ### what a scenario observes of the second attempt, and C11 as a predicate on it -/

/-- how the harness renders the error `Execute` returned (errors.As in the order coordinator, subset, communication,
    tss; anything else `other`) -/
inductive Res11 (α : Type) where
  | ok | coord (p : Option α) | subset | comm | tss | other | panic
deriving DecidableEq, Repr

def renderErr (e : Err α) : Res11 α :=
  match findCoord e with
  | some p => .coord p
  | none => if findSubset e then .subset else if findComm e then .comm else if (findTss e).isSome then .tss else .other

structure Seen (α : Type) where
  election : Option (List α)   -- peers of the relayer's own Select broadcast = the candidates, in election order
  readyTo  : List α            -- targets of the ready messages it sent
  consumed : Nat               -- ready messages it took as coordinator
  start    : Option (List α)   -- the subset it announced
  crun     : Option (List α)   -- the subset of its coordinator Run
  wrun     : Bool              -- it ran the process as a participant
  res      : Res11 α
deriving DecidableEq, Repr

/-- the observation the model predicts -/
def seenOf (arrivals : List α) (s : Second α) : Seen α :=
  match s.outcome with
  | .ended err => ⟨s.election, [], 0, none, none, false, renderErr err⟩
  | .idle => ⟨s.election, [], 0, none, none, false, .ok⟩
  | .follows c => ⟨s.election, [c], 0, none, none, true, .ok⟩
  | .announces n S => ⟨s.election, [], n, some S, some S, false, .ok⟩
  | .neverReady => ⟨s.election, [], arrivals.length, none, none, false, .ok⟩

/-- the session ended with `err` and nothing else happened -/
def EndedWith (err : Err α) (o : Seen α) : Prop :=
  o.election = none ∧ o.readyTo = [] ∧ o.start = none ∧ o.crun = none ∧ o.wrun = false ∧ o.res = renderErr err

/-- **C11 as a decidable predicate on ANY observation** `o` of a relayer whose attempt failed with error `e` of
    unambiguous cause `k`: `coordinates` says whether the (intended) re-election makes this relayer the coordinator of
    the new attempt; `claimant` is the peer that announces itself / sends the replacement start, if any. -/
def P11 (self : α) (holders : List α) (t : Nat) (e : Err α) (k : Class α) (retryable coordinates : Bool)
    (claimant : Option α) (arrivals : List α) (o : Seen α) : Prop :=
  if retryable = false then EndedWith e o else
  match k with
  | .unknown => EndedWith e o                      -- ends with that error
  | .tss _ false => EndedWith .other o             -- (excluded point: undecodable culprit; the decode error is returned)
  | .subset =>                                     -- left out: no election, waits for the replacement start
    o.election = none ∧ o.start = none ∧ o.crun = none ∧ o.res = .ok ∧
    (match claimant with
      | some r => o.wrun = true ∧ o.readyTo = [r]
      | none => o.wrun = false ∧ o.readyTo = [])
  | _ =>                                           -- retried without the culprits
    let K := culprits k
    (∃ cs, o.election = some cs ∧ ∀ c ∈ cs, c ∈ holders ∧ c ∉ K) ∧
    (∀ c ∈ o.readyTo, c ∉ K) ∧
    (coordinates = false → ∀ c ∈ o.readyTo, some c = claimant) ∧   -- it answers nobody but the re-elected coordinator
    o.crun = o.start ∧
    (match o.start with | some S => ∀ c ∈ S, c ∉ K | none => True) ∧
    (coordinates = true → o.consumed ≤ arrivals.length ∧
      AnnouncedOk ⟨self, holders, t, K⟩ (arrivals.take o.consumed) arrivals o.start) ∧
    o.res = .ok

instance (err : Err α) (o : Seen α) : Decidable (EndedWith err o) := by unfold EndedWith; infer_instance

instance (self : α) (holders : List α) (t : Nat) (e : Err α) (k : Class α) (retryable coordinates : Bool)
    (claimant : Option α) (arrivals : List α) (o : Seen α) :
    Decidable (P11 self holders t e k retryable coordinates claimant arrivals o) := by
  unfold P11
  split
  · infer_instance
  · split
    · infer_instance
    · infer_instance
    · cases claimant <;> infer_instance
    · have : Decidable (∃ cs, o.election = some cs ∧ ∀ c ∈ cs, c ∈ holders ∧ c ∉ culprits k) := by
        cases h : o.election with
        | none => exact isFalse (by simp)
        | some cs =>
          exact decidable_of_iff (∀ c ∈ cs, c ∈ holders ∧ c ∉ culprits k) (by simp)
      cases o.start <;> infer_instance

/-- the time-outs `NewCoordinator` sets, in nanoseconds: InitiatePeriod 15 s, CoordinatorTimeout 3 min, TssTimeout 15 min -/
structure Timeouts where
  initiate : Nat
  coord    : Nat
  tss      : Nat
deriving DecidableEq, Repr

def defaultTimeouts : Timeouts := ⟨15 * 1000000000, 180 * 1000000000, 900 * 1000000000⟩

/-- what the classification of an unresponsive coordinator needs of ANY configuration: the coordinator re-broadcasts
    its initiate message well within the others' patience, and an unresponsive coordinator is noticed (typed
    CoordinatorError, retried) before the attempt's watchdog ends the session with its untyped time-out error -/
def TimeoutsOk (t : Timeouts) : Prop := 0 < t.initiate ∧ t.initiate < t.coord ∧ t.coord < t.tss

instance (t : Timeouts) : Decidable (TimeoutsOk t) := by unfold TimeoutsOk; infer_instance

/-! ### the code as found (before the repair), kept to state the defect -/

/-- the type switch of the as-found `handleError`: only the outermost value is looked at -/
def classifyAsFound : Err α → Class α
  | .coord p => .coord p
  | .comm => .comm
  | .tss cs d => .tss cs d
  | .subset => .subset
  | _ => .unknown

end
end Sygma.C11
