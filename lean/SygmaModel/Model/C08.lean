/-
  C08 — the repository's own logic around the threshold-signature libraries (DESIGN.md 5.8, parts (i)–(iv)):
  party mapping (`tss/ecdsa/common/utils.go`), resharing start parameters, their validation and the party order
  (`tss/ecdsa/resharing/resharing.go`), the release rule and readiness (`tss/ecdsa/signing/signing.go`,
  `tss/frost/signing/signing.go`). Executable; core Lean only.

  A peer is the byte string of its textual id (what `peer.ID.String()` / `Pretty()` returns); a party's key is that
  byte string read as a big-endian integer (`big.NewInt(0).SetBytes([]byte(peerID))`).
-/
import SygmaModel.Base
namespace Sygma.C08

abbrev Peer := Bytes

/-- `CreatePartyID(peerID).Key` -/
def pkey (p : Peer) : Nat := beToNat p

/-- order used by `tss.SortPartyIDs` (ascending by key) -/
def keyLE (a b : Peer) : Bool := decide (pkey a ≤ pkey b)

structure Party where
  id    : Peer
  index : Nat
deriving DecidableEq, Repr

/-- `tss.SortPartyIDs`: ascending by key … -/
def sortPeers (ps : List Peer) : List Peer := ps.mergeSort keyLE

/-- … then `Index` := position -/
def reindexFrom (k : Nat) : List Peer → List Party
  | [] => []
  | p :: ps => ⟨p, k⟩ :: reindexFrom (k + 1) ps

/-- `common.PartiesFromPeers` -/
def partiesFromPeers (ps : List Peer) : List Party := reindexFrom 0 (sortPeers ps)

/-- `common.PeersFromParties` (on ids that decode, which is every id produced by `PartiesFromPeers`) -/
def peersFromParties (ps : List Party) : List Peer := ps.map (·.id)

/-! ### resharing: party order -/

/-- the slice `newParties` of `sortParties`: `none` = a nil entry -/
abbrev Slots := List (Option Party)

/-- `newParties[i] = p` — `none` = index out of range (run-time panic) -/
def writeAt (xs : Slots) (i : Nat) (p : Party) : Option Slots :=
  if i < xs.length then some (xs.set i (some p)) else none

/-- the loop of `sortParties`: every party that is not an old participant goes to the next free index and gets that index -/
def fill (oldIds : List Peer) : List Party → Nat → Slots → Option Slots
  | [], _, acc => some acc
  | p :: ps, idx, acc =>
    if oldIds.contains p.id then fill oldIds ps idx acc
    else match writeAt acc idx ⟨p.id, idx⟩ with
      | some acc' => fill oldIds ps (idx + 1) acc'
      | none => none

/-- `make(tss.SortedPartyIDs, n)` followed by `copy(newParties, oldParties)` -/
def initSlots (n : Nat) (old : List Party) : Slots :=
  (old.take n).map some ++ List.replicate (n - old.length) none

/-- `Resharing.sortParties(parties, oldParties)` -/
def sortParties (parties old : List Party) : Option Slots :=
  fill (old.map (·.id)) parties old.length (initSlots parties.length old)

/-- what the theorem says the result is, when the old subset lies inside the new committee -/
def sortPartiesSpec (nw od : List Peer) : List Party :=
  reindexFrom 0 (sortPeers od ++ (sortPeers nw).filter (fun p => !od.contains p))

/-! ### resharing: start parameters -/

/-- `common.PeersIntersection(old, new)`: the members of `old`, in `old`'s order, that occur in `new` -/
def peersIntersection (old new : List Peer) : List Peer := old.filter (new.contains ·)

structure StartParams where
  oldThreshold : Int
  oldSubset    : List Peer
deriving DecidableEq, Repr

/-- `Resharing.StartParams` of a relayer whose key share lists `keyPeers` with threshold `thr` -/
def startParams (keyPeers : List Peer) (thr : Int) (peerstore : List Peer) : StartParams :=
  ⟨thr, peersIntersection keyPeers peerstore⟩

/-- byte-wise lexicographic order of Go strings (`slices.Sort` on `[]peer.ID`) -/
def lexLE : Peer → Peer → Bool
  | [], _ => true
  | _ :: _, [] => false
  | a :: as, b :: bs => if a < b then true else if b < a then false else lexLE as bs

def lexSort (ps : List Peer) : List Peer := ps.mergeSort lexLE

/-- `validateStartParams` (true = accepted) for a relayer whose key share lists `keyPeers` (`[]` = none yet) -/
def validate (keyPeers peerstore : List Peer) (sp : StartParams) : Bool :=
  if sp.oldThreshold ≤ 0 then false
  else if (sp.oldSubset.length : Int) < sp.oldThreshold then false
  else if keyPeers.length ≠ 0 ∧ lexSort sp.oldSubset ≠ peersIntersection (lexSort keyPeers) peerstore then false
  else true

/-! ### signing: release rule, readiness, subset size -/

inductive Released where
  | sig    -- the signature is handed to the result channel
  | nil    -- `nil` is handed to the result channel
deriving DecidableEq, Repr

/-- ECDSA `processEndMessage` -/
def releaseECDSA (coordinator : Bool) : Released := if coordinator then .sig else .nil

/-- `readyParticipants` -/
def readyParticipants (keyPeers ready : List Peer) : List Peer := ready.filter (keyPeers.contains ·)

/-- `Signing.Ready` (ECDSA and FROST) -/
def ready (keyPeers : List Peer) (thr : Int) (rdy : List Peer) : Bool :=
  ((readyParticipants keyPeers rdy).length : Int) == thr + 1

/-- size of the subset chosen by `Signing.StartParams`: peers are appended until the length EQUALS threshold+1 -/
def subsetSize (keyPeers : List Peer) (thr : Int) (rdy : List Peer) : Nat :=
  let n := (readyParticipants keyPeers rdy).length
  if 1 ≤ thr + 1 ∧ thr + 1 ≤ n then (thr + 1).toNat else n

/-! ### a Signing object that is run more than once (the coordinator retries a session on the same object) -/

/-- the part of `Signing` the release rule reads -/
structure SigningObj where
  coordinator : Bool
deriving DecidableEq, Repr

/-- `Run(ctx, coordinator, …)`: `s.coordinator = coordinator` — an assignment, whatever the flag was before and however
    the run ends -/
def SigningObj.run (_o : SigningObj) (coordinator : Bool) : SigningObj := ⟨coordinator⟩

/-- the object after the runs `roles` (`none`: never run — `processEndMessage` does not exist yet) -/
def afterRuns : List Bool → Option SigningObj
  | [] => none
  | c :: cs => some (cs.foldl SigningObj.run ⟨c⟩)

/-- what `processEndMessage` hands out when the signature arrives after those runs -/
def releaseAfterRuns (roles : List Bool) : Option Released := (afterRuns roles).map fun o => releaseECDSA o.coordinator

/-! ### resharing: what the library is told -/

/-- the four numbers `Resharing.Run` passes to `tss.NewReSharingParameters` -/
structure ReshareParams where
  oldThreshold : Int
  oldCount     : Nat
  newThreshold : Int
  newCount     : Nat
deriving DecidableEq, Repr

/-- old committee and old threshold come from the START PARAMETERS, new committee = the peer store, new threshold = the
    process's own (the one the refreshed share will be stored under) -/
def reshareParams (sp : StartParams) (newThreshold : Int) (peerstore : List Peer) : ReshareParams :=
  ⟨sp.oldThreshold, sp.oldSubset.length, newThreshold, peerstore.length⟩

/-- `tss.Parameters.Validate` as observed: 0 < threshold < party count, on both sides (library behaviour, assumed) -/
def ReshareParams.libOk (r : ReshareParams) : Bool :=
  decide (0 < r.oldThreshold) && decide (r.oldThreshold < r.oldCount) &&
  decide (0 < r.newThreshold) && decide (r.newThreshold < r.newCount)

/-! ### Bitcoin: one signing session per transaction input -/

/-- what `executeResourceProps` hands to `signing.NewSigning` for one input -/
structure SigningStart where
  sessionId : String   -- `hex.EncodeToString(signingHash)` of THIS input
  msg       : Bytes    -- the digest this process signs
deriving DecidableEq, Repr

/-- for the per-input taproot signature hashes `digests` of one transaction -/
def btcSignings (digests : List Bytes) : List SigningStart := digests.map fun d => ⟨toHex d, d⟩

/-! ### what a Signing object holds across runs, and what keygen / resharing store at the end -/

/-- `BaseTss.PartyStore` (a Go map peer id ↦ *PartyID) as an association list searched from the front: the newest entry
    for an id is the one that counts -/
abbrev PartyStore := List (Peer × Nat)

def PartyStore.lookup (st : PartyStore) (p : Peer) : Option Nat := (st.find? fun e => e.1 == p).map (·.2)

/-- `PopulatePartyStore(parties)`: `b.PartyStore[party.Id] = party` for every party — an existing entry is OVERWRITTEN -/
def populate (st : PartyStore) (parties : List Party) : PartyStore :=
  parties.map (fun p => (p.id, p.index)) ++ st

/-- the party-store effect of ecdsa `Signing.Run(…, params)` on an object whose store is `st`: a relayer outside the subset
    returns before touching it; otherwise the store is populated from the parties of THIS subset -/
def signingRunStore (self : Peer) (st : PartyStore) (subset : List Peer) : PartyStore :=
  if subset.contains self then populate st (partiesFromPeers subset) else st

/-- what `processEndMessage` of ecdsa keygen / resharing hands to the storer next to the key material: the process's own
    (new) threshold and the peers of the host's peer store — the NEW committee — whatever the old share listed -/
def storedAtEnd (_oldKeyPeers : List Peer) (newThreshold : Int) (peerstore : List Peer) : Int × List Peer :=
  (newThreshold, peerstore)

/-! ### the coordinator collecting `ready` answers (`tss/coordinator.go initiate`, with `Signing.Ready`) -/

/-- answers are taken one by one; one from an excluded relayer, or from a relayer that is ALREADY in the list, is ignored;
    after each the process is asked whether it is ready; the list at that moment is what the signing subset is picked from -/
def initiateFrom (kp : List Peer) (thr : Int) (excluded : List Peer) : List Peer → List Peer → Option (List Peer)
  | _, [] => none
  | acc, w :: ws =>
    let acc' := if !excluded.contains w && !acc.contains w then acc ++ [w] else acc
    if ready kp thr acc' then some acc' else initiateFrom kp thr excluded acc' ws

/-- the coordinator itself is ready from the start -/
def initiate (self : Peer) (kp : List Peer) (thr : Int) (excluded answers : List Peer) : Option (List Peer) :=
  initiateFrom kp thr excluded [self] answers

/-! ### Bitcoin: collecting the per-input signatures and attaching them (`watchExecution`, `sendTx`) -/

/-- outcome of the collection loop over a finite list of arrivals -/
inductive Collected where
  | sent (witnesses : List (List Bytes))   -- complete: the transaction goes out with these witness stacks, input by input
  | waiting                                -- not complete yet (the loop keeps waiting, in the end the time-out)
  | panic                                  -- `signatures[signatureData.Id]` out of range
deriving DecidableEq, Repr

/-- `signaturesFilled`: no slot is empty -/
def filled (slots : List Bytes) : Bool := slots.all (· ≠ [])

/-- `sendTx`: input `i` gets its OWN one-element witness stack holding `signatures[i]` -/
def witnesses (slots : List Bytes) : List (List Bytes) := slots.map fun s => [s]

/-- the loop of `watchExecution`: a `nil` result is skipped; a result is stored in the slot NAMED BY ITS Id (arrival order
    plays no part, a repeated result overwrites its own slot); as soon as every slot is filled the transaction is sent -/
def collectFrom (slots : List Bytes) : List (Option (Nat × Bytes)) → Collected
  | [] => .waiting
  | none :: r => collectFrom slots r
  | some (id, s) :: r =>
    if id < slots.length then
      let slots' := slots.set id s
      if filled slots' then .sent (witnesses slots') else collectFrom slots' r
    else .panic

/-- for a transaction with `n` inputs: `signatures := make([]taproot.Signature, n)` -/
def collect (n : Nat) (arrivals : List (Option (Nat × Bytes))) : Collected :=
  collectFrom (List.replicate n []) arrivals

end Sygma.C08
