def hello := "world"
