import SygmaModel.Drv.Util
import SygmaModel.Model.C09
namespace Sygma.Drv.C09
open Sygma.C09

def stLetter : St → String
  | .idle => "I" | .yield => "Y" | .running => "R" | .refused => "X" | .done => "D"

def parseSt : String → Option St
  | "I" => some .idle | "Y" => some .yield | "R" => some .running | "X" => some .refused | "D" => some .done
  | _ => none

def sortedSids (sids : List Sid) : List Sid := (sids.eraseDups).mergeSort (fun a b => a ≤ b)

/-- `k=v,k=v` -/
def parseKV (s : String) : Option (List (String × Nat)) :=
  (items s ",").mapM fun it =>
    match it.splitOn "=" with
    | [k, v] => v.toNat?.map (k, ·)
    | _ => none

def showKV (xs : List (String × Nat)) : String := joinOr (xs.map fun x => x.1 ++ "=" ++ toString x.2) ","

/-- `st=…;max=…;pend=…;leak=…` -/
def parseRace (s : String) : Option (List St × List (String × Nat) × List (String × Nat) × List (String × Nat)) :=
  match s.splitOn ";" with
  | [a, b, c, d] =>
    match a.splitOn "=", b.splitOn "max=", c.splitOn "pend=", d.splitOn "leak=" with
    | ["st", st], ["", mx], ["", pd], ["", lk] => do
      let st ← (items st ",").mapM parseSt
      let mx ← parseKV mx
      let pd ← parseKV pd
      let lk ← parseKV lk
      pure (st, mx, pd, lk)
    | _, _, _, _ => none
  | _ => none

/-- role letter: p | c = participant | coordinator with processes that are not retryable; P | C = retryable -/
def parseRole : String → Option (Role × Bool)
  | "p" => some (.part, false) | "c" => some (.coord, false)
  | "P" => some (.part, true) | "C" => some (.coord, true) | _ => none

def parseOutcome : String → Option Outcome
  | "ok" => some .ok | "fail" => some .fail | "failhold" => some .fail | "failmsg" => some .failmsg
  | "gtorun" => some .gtorun | "gtorunforeign" => some .gtorun | "gtoforeign" => some .gto
  | "cancelrun" => some .cancelrun | "silent" => some .silent | "gto" => some .gto | "cancel" => some .cancel
  | "precancel" => some .precancel | "slowdial" => some .cancel
  | "badstart" => some .badstart | "stranger" => some .stranger | "readyerr" => some .readyerr
  | "comm" => some .comm | "subset" => some .subset | _ => none

/-- outcomes that exist for a role: a coordinating relayer does not wait for a start message -/
def validFor : Role → Outcome → Bool
  | .coord, .silent | .coord, .badstart | .coord, .stranger | .coord, .failmsg | .coord, .subset => false
  | .part, .readyerr => false
  | _, _ => true

/-- does `handleError` classify the failure (and so make a second attempt)? -/
def classified : Outcome → Bool
  | .silent | .comm | .subset => true
  | _ => false

/-- `elected:end`; `selfA<k>` = this relayer is elected and k alive answers arrive during the election -/
def parseSecond : String → Option Second
  | s => match s.splitOn ":" with
    | [e, f] => do
      let (e, alive) ← match e.splitOn "A" with
        | [e] => some (e, 0)
        | [e, k] => do pure (e, ← k.toNat?)
        | _ => none
      let e ← match e with | "self" => some Elected.self | "other" => some .other | "any" => some .any | _ => none
      if alive > 0 && e != .self then none else
      let f ← match f with
        | "ok" => some End2.ok | "fail" => some .fail | "cancel" => some .cancel | "idle" => some .idle
        | "silent" => some .silent | _ => none
      pure ⟨e, f, alive⟩
    | _ => none

/-- second attempts the harness can script: SubsetError waits for anybody, the other failures go through an election;
    only another relayer can stay silent as coordinator; a relayer that coordinates (role C) is alone in its election -/
def validSecond (r : Role) (o : Outcome) (t : Second) : Bool :=
  (if o = .subset then t.elected = .any else t.elected ≠ .any) &&
  (t.fin ≠ .silent || (t.elected = .other && o = .silent)) &&
  (r = .part || t.elected = .self)

def parseSess (s : String) : Option Sess :=
  let (first, second) := match s.splitOn ">" with
    | [a, b] => (a, some b)
    | _ => (s, none)
  match first.splitOn ":" with
  | [sid, r, n, o] => do
    let (r, retryable) ← parseRole r
    -- `<n>[f<mask>][w<mask>]`: bit 0 / bit 1 = the session's stream to relayer 1 / 2; f: its Close() fails, w: its writes fail
    let (n, wmask) ← match n.splitOn "w" with
      | [n] => some (n, 0)
      | [n, m] => do pure (n, ← m.toNat?)
      | _ => none
    let (n, mask) ← match n.splitOn "f" with
      | [n] => do pure (← n.toNat?, 0)
      | [n, m] => do pure (← n.toNat?, ← m.toNat?)
      | _ => none
    if mask > 3 || wmask > 3 then none else
    let opened : List Strm := match r with
      | .coord => [⟨1, mask % 2 == 1, wmask % 2 == 1⟩, ⟨2, mask / 2 == 1, wmask / 2 == 1⟩]
      | .part => [⟨1, mask % 2 == 1, wmask % 2 == 1⟩]
    let o ← parseOutcome o
    -- session names from `c` on sort this relayer before relayer 2: no other relayer can claim the election there,
    -- and only there do relayer 2's alive answers count
    let lateNames := match sid.toList.head? with
      | some ch => decide (ch.toNat ≥ 'c'.toNat)
      | none => false
    if !(validFor r o && n ≥ 1) then none else
    match second with
    | none =>
      -- a retryable process whose failure is classified always gets a second attempt: it has to be scripted
      if retryable && classified o then none else pure ⟨sid, r, n, o, retryable, none, opened⟩
    | some t => do
      let t ← parseSecond t
      if lateNames && t.elected == .other then none else
      if !lateNames && t.alive > 0 then none else
      if retryable && classified o && validSecond r o t then pure ⟨sid, r, n, o, true, some t, opened⟩ else none
  | _ => none

def showRet : Ret → String
  | .ok => "ok" | .err => "err" | .refused => "refused"

def parseRet : String → Option Ret
  | "ok" => some .ok | "err" => some .err | "refused" => some .refused | _ => none

def plusList (xs : List Nat) : String := "+".intercalate (xs.map toString)

def showReport (r : Report) : String :=
  "/".intercalate [showRet r.ret, toString r.sub, toString r.unsub, toString r.close, toString r.live,
    toString r.streams, toString r.unclosed, toString r.stale, plusList r.runs, plusList r.stops, if r.pend then "1" else "0",
    toString r.elive, toString r.estreams]

/-- report and the count of streams the host still has open -/
def parseReport (s : String) : Option (Report × Nat) :=
  match s.splitOn "/" with
  | [ret, sub, unsub, close, live, streams, op, dead, runs, stops, pend, elive, estreams] => do
    let ret ← parseRet ret
    let sub ← sub.toNat?
    let unsub ← unsub.toNat?
    let close ← close.toNat?
    let live ← live.toNat?
    let streams ← streams.toNat?
    let op ← op.toNat?
    let dead ← dead.toNat?
    let runs ← (runs.splitOn "+").mapM String.toNat?
    let stops ← (stops.splitOn "+").mapM String.toNat?
    let pend ← if pend = "1" then some true else if pend = "0" then some false else none
    let elive ← elive.toNat?
    let estreams ← estreams.toNat?
    pure (⟨ret, sub, unsub, close, live, streams, op, dead, runs, stops, pend, elive, estreams⟩, op)
  | _ => none

def handle (op : String) (args : List String) (impl : String) : Option Verdict :=
  match op, args with
  | "race", [ths, sched] => some <| Id.run do
    let some sids := (items ths ",").mapM (fun t => (t.splitOn ":").head?) | return bad
    let some sch := natList sched | return bad
    if sch.any (· ≥ sids.length) then return bad
    let w := run (init sids) sch
    let keys := sortedSids sids
    let st := ",".intercalate (w.th.map fun p => stLetter p.2)
    let mx := showKV (keys.map fun k => (k, peak (init sids) k sch))
    let pd := showKV (keys.map fun k => (k, if k ∈ w.pending then 1 else 0))
    let lk := showKV ((keys.filter fun k => running w k = 0).map fun k => (k, 0))
    let m := s!"st={st};max={mx};pend={pd};leak={lk}"
    -- the property, on the implementation's state
    let ok := match parseRace impl with
      | some (ist, imx, ipd, ilk) =>
        if ist.length ≠ sids.length then false else
        let iw : World := ⟨(ipd.filter (·.2 = 1)).map (·.1), sids.zip ist⟩
        decide (P9a iw) && imx.all (·.2 ≤ 1) && ilk.all (·.2 = 0) &&
          -- a quiescent id must be reported (nothing can hide in an omitted entry)
          (keys.all fun k => running iw k ≠ 0 || ilk.any (·.1 = k)) && keys.all (fun k => ipd.any (·.1 = k)) &&
          -- the maximum must be reported for every id as well
          keys.all (fun k => imx.any (·.1 = k))
      | none => false
    let nR := (w.th.filter (·.2 = St.refused)).length
    let nD := (w.th.filter (·.2 = St.done)).length
    return ⟨m, ok, s!"race:n={min sids.length 4}:ids={keys.length}:refused={min nR 2}:done={min nD 2}"⟩
  | "sess", [ss] => some <| Id.run do
    let some sess := (items ss ",").mapM parseSess | return bad
    let (_, reps) := executeAll (Led.empty 0) sess
    let m := joinOr (reps.map showReport) ","
    let irs := (items impl ",").map parseReport
    let ok := irs.length = sess.length && (sess.zip irs).all fun (s, r) =>
      match r with
      | some (rep, op) => decide (Clean s.nproc rep) && op = 0
      | none => false
    let tag := match sess.head? with
      | some s => s!"sess:{repr s.role}:{repr s.out}:{repr (s.second.map (·.elected))}:n={min sess.length 3}"
      | none => "sess:empty"
    return ⟨m, ok, tag⟩
  | "stress", [n] => some <| Id.run do
    -- n simultaneous requests for one id, none finishing before all have passed admission: by `exactly_one_admitted`
    -- exactly one runs. Model: arrive all, enter all (any order gives the same counts).
    let some n := n.toNat? | return bad
    if n = 0 then return bad
    let ids := List.range n
    let w := run (init (List.replicate n "a")) (ids ++ ids)
    let adm := running w "a"
    let refd := w.th.count ("a", St.refused)
    let m := s!"admitted={adm},refused={refd}"
    let ok := match parseKV impl with
      | some [("admitted", a), ("refused", r)] => a == 1 && r + 1 == n
      | _ => false
    return ⟨m, ok, s!"stress:n={min n 4}"⟩
  | "excl", [_] => some <| Id.run do
    -- every registry operation waits for the holder of the registry's lock (what makes one critical section one step
    -- of the interleaving semantics): 1 = excluded
    let m := "sub=1,unsub=1,get=1,stream=1,release=1,enter=1"
    let ok := match parseKV impl with
      | some kv => kv.length == 6 && kv.all (·.2 == 1)
      | none => false
    return ⟨m, ok, "excl"⟩
  | "latesend", [_] => some <| Id.run do
    -- a late send against a release in progress: add 1; release ‖ add 2 - by `no_stream_lost` nothing is lost in either
    -- order, and one more release closes whatever was registered
    let r := SMgr.run [.add 1, .release, .add 2]
    let lost := (r.opened.filter fun i => !(r.reg.contains i || r.closed.contains i)).length
    let r2 := r.step .release
    let stillOpen := (r2.opened.filter fun i => !r2.closed.contains i).length
    let m := s!"lost={lost},open={stillOpen}"
    let ok := match parseKV impl with
      | some [("lost", l), ("open", o)] => l == 0 && o == 0
      | _ => false
    return ⟨m, ok, "latesend"⟩
  | "twosends", [n] => some <| Id.run do
    -- n simultaneous sends of one session to one peer: one registers its stream, the others close theirs; release
    let some n := n.toNat? | return bad
    if n = 0 then return bad
    let r := SMgr.run ([SEv.add 0] ++ (List.range (n - 1)).map (fun i => SEv.dup (i + 1)))
    let r2 := r.step .release
    let m := s!"reg={r.reg.length},open={(r2.opened.filter fun i => !r2.closed.contains i).length}"
    let ok := match parseKV impl with
      | some [("reg", rg), ("open", o)] => rg == 1 && o == 0
      | _ => false
    return ⟨m, ok, s!"twosends:n={min n 3}"⟩
  | "hammer", [n] => some <| Id.run do
    let some _ := n.toNat? | return bad
    let m := "live=0,streams=0,open=0"
    let ok := match parseKV impl with
      | some [("live", l), ("streams", st), ("open", o)] => l == 0 && st == 0 && o == 0
      | _ => false
    return ⟨m, ok, "hammer"⟩
  | "sigdrop", [_kind] => some <| Id.run do
    -- a real signing has finished and is handing its result to a channel nobody reads any more; then the caller
    -- cancels: the session ends like any session cancelled while its processes run
    let (_, reps) := executeAll (Led.empty 0) [⟨"g", .part, 1, .cancelrun, true, none, []⟩]
    let some rep := reps.head? | return bad
    let m := s!"{showRet rep.ret},live={rep.live},pend={if rep.pend then 1 else 0}"
    let ok := match impl.splitOn "," with
      | [r, lv, pd] => (r == "ok" || r == "err") && lv == "live=0" && pd == "pend=0"
      | _ => false
    return ⟨m, ok, "sigdrop"⟩
  | "rerun", [_kind, n] => some <| Id.run do
    let some n := n.toNat? | return bad
    let r := rerun ⟨[], [], [], 0⟩ "a" n
    let m := s!"sub={r.next},unsub={r.next},live={r.live.length}"
    let ok := match parseKV impl with
      | some [("sub", sb), ("unsub", us), ("live", lv)] => lv == 0 && sb == us && sb == n
      | _ => false
    return ⟨m, ok, s!"rerun:n={min n 3}"⟩
  | _, _ => none

end Sygma.Drv.C09
