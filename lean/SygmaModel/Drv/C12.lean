import SygmaModel.Drv.Util
import SygmaModel.Model.C12
namespace Sygma.Drv.C12
open Sygma.C12

def hexS (s : Str) : String := toHexW s

/-- `ok:<sess>:<type>:<sub>|<sess>:<type>:<sub>` resp. `err|-:13:-` — Unwrap, then the three accessor methods -/
def showUnwrap (id : Str) : String :=
  match unwrap id with
  | some (s, t, k) =>
    let x := hexS s ++ ":" ++ toString t ++ ":" ++ hexS k
    "ok:" ++ x ++ "|" ++ x
  | none => "err|-:" ++ toString unknownType ++ ":-"

def stripPrefix : Str → Str → Option Str
  | [], s => some s
  | _ :: _, [] => none
  | p :: ps, c :: cs => if p = c then stripPrefix ps cs else none

/-- the suffix the implementation's clock produced, read off the id it returned for (s, t) -/
def suffixOf (s : Str) (t : Nat) (id : Str) : Option (Nat × Str) := do
  let rest ← stripPrefix (s ++ dash :: (dec t ++ [dash])) id
  let u ← parseDigits rest
  if dec u = rest then some (u, rest) else none

/-- wire ops of a history -/
inductive W where
  | s (sess : Str) (t : Nat)
  | u (k : Nat)
  | y (k : Nat) (variant : String)
  | x (id : Str)
  | d (sess : Str) (t : Nat)
  | m (msgs : List (Str × Nat))
  | c (sess : Str)
  | o
  | w (stream : Nat) (sess : Str) (t : Nat)
  | q (stream : Nat)

def parseST (a b : String) : Option (Str × Nat) := do
  let s ← fromHex a
  let t ← b.toNat?
  pure (s, t)

def parseW (op : String) : Option W :=
  match op.splitOn ":" with
  | ["s", a, b] => (parseST a b).map fun p => .s p.1 p.2
  | ["u", k] => k.toNat?.map .u
  | ["y", k, v] => k.toNat?.map fun k => .y k v
  | ["x", a] => (fromHex a).map .x
  | ["d", a, b] => (parseST a b).map fun p => .d p.1 p.2
  | ["c", a] => (fromHex a).map .c
  | ["o"] => some .o
  | ["q", k] => k.toNat?.map .q
  | ["w", k, a, b] => do let k ← k.toNat?; let p ← parseST a b; pure (.w k p.1 p.2)
  | ["w", k, a, b, size] => do let k ← k.toNat?; let _ ← size.toNat?; let p ← parseST a b; pure (.w k p.1 p.2)
  | "m" :: _ =>
    (((op.drop 2).toString.splitOn "+").mapM (fun (m : String) => match m.splitOn ":" with
      | [a, b] => parseST a b
      | [a, b, size] => if size.toNat?.isSome then parseST a b else none   -- payload size: no effect in the model
      | _ => none)).map W.m
  | _ => none

/-- the harness's re-spellings of an issued id (same table as `respell` in harness/drive/c12.go) -/
def respell (s : Str) (t : Nat) (suf : Str) (variant : String) : Str :=
  let d := [dash]
  match variant with
  | "0" => s ++ d ++ [43] ++ dec t ++ d ++ suf
  | "1" => s ++ d ++ [48] ++ dec t ++ d ++ suf
  | "2" => s ++ d ++ dec t ++ d ++ [48] ++ suf
  | "3" => [120] ++ s ++ d ++ dec t ++ d ++ suf
  | "4" => s ++ d ++ dec t ++ d ++ suf ++ d
  | "5" => s ++ d ++ dec t ++ suf
  | _ => s ++ d ++ dec t ++ d ++ suf

def showNats (xs : List Nat) : String := joinOr ((xs.mergeSort (· ≤ ·)).map toString) ","

def lastRecv (r : Run) : List Nat :=
  match r.out.getLast? with
  | some (.recv c) => c
  | _ => []

structure Acc where
  r     : Run := ⟨[], [], []⟩
  subs  : List (Str × Nat × Str) := []     -- (session, type, suffix text) per s-op
  ops   : List Op := []                    -- the history in model terms (for wf / the spec)
  res   : List String := []
  isub  : Nat := 0
  nopen : Nat := 0
  idsOk : Bool := true                     -- every returned id had the issued form `<session>-<type>-<digits>`

/-- run the wire history through the model's `step`; `implRes` = the implementation's per-op results (source of suffixes) -/
def runW (ws : List W) (implRes : List String) : Acc := Id.run do
  let mut a : Acc := {}
  let mut i := 0
  for w in ws do
    match w with
    | .s sess t =>
      let parsed := (implRes[i]?).bind fromHex |>.bind (suffixOf sess t)
      let (u, suf) := match parsed with
        | some p => p
        | none => (1000000 + i, dec (1000000 + i))
      -- an identifier that was already handed out for this (session, type) — live or cancelled — is NOT what the
      -- property allows: the expected result is a fresh identifier, whatever the implementation returned
      let stale := a.subs.any fun x => x.1 == sess && x.2.1 == t && x.2.2 == suf
      let op := Op.sub sess t u
      let r' := step a.r op
      let id := match r'.out.getLast? with | some (.id x) => x | _ => []
      let shown := if stale then "FRESH-ID-EXPECTED" else hexS id
      a := { a with r := r', subs := a.subs ++ [(sess, t, suf)], ops := a.ops ++ [op], res := a.res ++ [shown],
                    idsOk := a.idsOk && parsed.isSome }
    | .u k =>
      a := { a with r := step a.r (.unsub k), ops := a.ops ++ [.unsub k], res := a.res ++ ["."] }
    | .y k v =>
      match a.subs[k]? with
      | some (sess, t, suf) =>
        let op := Op.unsubRaw (respell sess t suf v)
        a := { a with r := step a.r op, ops := a.ops ++ [op], res := a.res ++ ["."] }
      | none => a := { a with res := a.res ++ ["."] }
    | .x id =>
      a := { a with r := step a.r (.unsubRaw id), ops := a.ops ++ [.unsubRaw id], res := a.res ++ ["."] }
    | .o => a := { a with res := a.res ++ ["."], nopen := a.nopen + 1 }
    | .q _ => a := { a with res := a.res ++ ["."] }
    | .w k sess t =>
      -- a message on an open stream is a delivery at that moment (on a stream that was never opened: nothing)
      if k < a.nopen then
        let r' := step a.r (.deliver sess t)
        a := { a with r := r', ops := a.ops ++ [.deliver sess t], res := a.res ++ [showNats (lastRecv r')] }
      else a := { a with res := a.res ++ ["-"] }
    | .c sess =>
      a := { a with r := step a.r (.close sess), ops := a.ops ++ [.close sess], res := a.res ++ ["."] }
    | .d sess t =>
      let r' := step a.r (.deliver sess t)
      a := { a with r := r', ops := a.ops ++ [.deliver sess t], res := a.res ++ [showNats (lastRecv r')] }
    | .m msgs =>
      let mut parts : List String := []
      for (sess, t) in msgs do
        let r' := step a.r (.deliver sess t)
        parts := parts ++ [showNats (lastRecv r')]
        a := { a with r := r', ops := a.ops ++ [.deliver sess t] }
      a := { a with res := a.res ++ ["+".intercalate parts] }
    i := i + 1
  return a

def showEntry (e : Entry) : String :=
  -- the key is not observable from outside (the harness finds retained channels by reflection): session, type, channel
  hexS e.sess ++ ":" ++ toString e.ty ++ ":" ++ toString e.ch

def showSt (st : St) : String := joinOr ((st.map showEntry).mergeSort (· ≤ ·)) ";"

/-- the implementation's deliveries, in order, one list per delivered message (`d` results and the parts of `m` results) -/
def implDeliveries (ws : List W) (implRes : List String) : Option (List (List Nat)) := do
  let mut out : List (List Nat) := []
  let mut i := 0
  let mut nopen := 0
  for w in ws do
    if (match w with | .o => true | _ => false) then nopen := nopen + 1
    let r ← implRes[i]?
    match w with
    | .d _ _ => out := out ++ [← natList r]
    | .w k _ _ => if k < nopen then out := out ++ [← natList r] else pure ()
    | .m _ =>
      for p in r.splitOn "+" do
        out := out ++ [← natList p]
    | _ => pure ()
    i := i + 1
  return out

/-- the implementation's retained entries as (channel, session, type), ascending by channel -/
def implRetained (s : String) : Option (List Live) := do
  let es ← (items s ";").mapM fun e =>
    match e.splitOn ":" with
    | [a, t, c] => do
      let sess ← fromHex a
      pure (⟨← c.toNat?, sess, ← t.toNat?⟩ : Live)
    | _ => none
  pure (es.mergeSort fun a b => a.h ≤ b.h)

def handle (op : String) (args : List String) (impl : String) : Option Verdict :=
  match op, args with
  | "unwrap", [a] => some <| Id.run do
    let some id := fromHex a | return bad
    let m := showUnwrap id
    -- the property says nothing about arbitrary strings; ids of the issued form are covered by `newid`
    return ⟨m, true, s!"unwrap:{if (unwrap id).isSome then "ok" else "err"}:dashes={min (id.count dash) 4}"⟩
  | "newid", [a, t] => some <| Id.run do
    let some s := fromHex a | return bad
    let some t := t.toNat? | return bad
    let implId := ((impl.splitOn "|").headD "")
    let tag := s!"newid:enum={decide (t ≤ unknownType)}:dashes={min (s.count dash) 4}"
    match (fromHex implId).bind (suffixOf s t) with
    | none => return ⟨"BADID", false, tag⟩
    | some (u, suf) =>
      let id := newId s t u
      let m := hexS id ++ "|" ++ showUnwrap id
      -- property: the id handed out parses back to exactly (session, type, suffix)
      let want := "ok:" ++ hexS s ++ ":" ++ toString t ++ ":" ++ hexS suf
      let ok := decide (t > unknownType) || ((impl.splitOn "|").getD 1 "") == want
      return ⟨m, ok, tag⟩
  | "run", [spec] => some <| Id.run do
    let some ws := (items spec ";").mapM parseW | return bad
    let implParts := impl.splitOn "|"
    let implRes := items (implParts.headD "") ";"
    let a := runW ws implRes
    let m := joinOr a.res ";" ++ "|" ++ showSt a.r.st
    let wfOk := wfIn a.ops
    let freshOk := fresh a.ops
    let nsub := a.subs.length
    let big := spec.splitOn ":" |>.any fun x => match x.splitOn "+" with | n :: _ => (n.splitOn ";").head?.bind String.toNat? |>.any (· > 3000) | _ => false
    let closes := a.ops.any fun o => match o with | .close _ => true | _ => false
    let preLen := (wfPrefix a.ops).length
    let tag := s!"run:wf={wfOk}:prefix={if preLen == a.ops.length then "all" else if preLen == 0 then "0" else "part"}:fresh={freshOk}:big={big}:close={closes}:subs={min nsub 3}:dashed={a.subs.any fun x => x.1.contains dash}:live={min a.r.st.length 3}:cancel={a.ops.any fun o => match o with | .unsub _ => true | _ => false}"
    -- the property predicate on the implementation's observations: fresh identifiers ∧ exact deliveries ∧ exact
    -- retention (no claim for histories with undeclared types or foreign ids)
    -- the property predicate on the implementation's observations, evaluated up to the first operation that leaves the
    -- theorems' hypotheses (foreign id string / undeclared type): fresh identifiers ∧ exact deliveries, and exact
    -- retention when the whole history stays inside (PPrefix; theorem refines_prefix)
    let ok := match implParts, implDeliveries ws implRes with
      | [_, ret], some dels =>
        (match implRetained ret with
         | some live => a.idsOk && PPrefix a.ops dels live && !impl.contains '!'
         | none => false)
      | _, _ => false
    return ⟨m, ok, tag⟩
  | _, _ => none

end Sygma.Drv.C12
