import SygmaModel.Drv.Util
import SygmaModel.Model.C04
namespace Sygma.Drv.C04
open Sygma.C04

def parseKind (s : String) : Option Kind :=
  if s = "btc" then some .btc else if s = "evm" then some .evm else if s = "sub" then some .sub else none

def kindStr : Kind → String | .btc => "btc" | .evm => "evm" | .sub => "sub"

/-- `head:fail:store[:crash]`; head = int | E | F ; returns the round and the crash field.
    `fail = p<i>`: handler `i` PANICS. The model of a panic is the death of the process at that point: handler `i`
    was invoked and did not return nil (`fail = some i`), and nothing happens after it (`crash = some (i+1)`). -/
def parseRound (s : String) : Option (Round × Option Nat) :=
  match s.splitOn ":" with
  | hd :: fl :: st :: rest => do
    -- `<height>~<c>`: the BTC node reports `c` confirmations for the best block it hands out (c > 1: the tip moved on
    -- between the two RPCs). The code under test reads only the height; the head of the round is that height, which IS
    -- the true tip at the time of the head query (GetBestBlockHash).
    let hd := (hd.splitOn "~").headD hd
    let head ← if hd = "E" || hd = "F" then some none else (hd.toInt?).map some
    let pan ← if fl.startsWith "p" then ((fl.drop 1).toString.toNat?).map some else some none
    -- `<idx>[a|b][kind]`: which of the handler's node reads fails and with which KIND of error; for the model a failed
    -- read is a failed handler, whatever the kind
    let digits := String.ofList (fl.toList.takeWhile Char.isDigit)
    let fail ← if fl = "n" then some none else if pan.isSome then some pan else (digits.toNat?).map some
    -- `s@<h>` / `x@<h>`: a retry request for height h is handled (by the retry message handler that shares the chain
    -- config with the listener) right before this round; it must not influence the scan
    let st := (st.splitOn "@").headD st
    let ok ← if st = "s" then some true else if st = "x" then some false else none
    let crash ← match rest with
      | [] => some (pan.map (· + 1))
      | [c] => (c.toNat?).map some
      | _ => none
    pure (⟨head, fail, ok⟩, crash)
  | _ => none

def parseStart (s : String) : Option (Option Int) :=
  if s = "nil" then some none else (s.toInt?).map some

def showCall (c : Call) : String := s!"{c.idx}.{c.s}.{c.e}"

def showObs (o : Obs) : String :=
  let h := match o.head with | some h => toString h | none => "E"
  let st := match o.store with
    | some (v, true) => s!"S{v}"
    | some (v, false) => s!"X{v}"
    | none => "-"
  h ++ "/" ++ joinOr (o.calls.map showCall) "," ++ "/" ++ st

def showRun (os : List Obs) : String := joinOr (os.map showObs) ";"

def parseCall (s : String) : Option Call :=
  match s.splitOn "." with
  | [i, a, b] => do pure ⟨← i.toNat?, ← a.toInt?, ← b.toInt?⟩
  | _ => none

def parseObs (s : String) : Option Obs :=
  match s.splitOn "/" with
  | [h, cs, st] => do
    let head ← if h = "E" then some none else (h.toInt?).map some
    let calls ← (items cs ",").mapM parseCall
    let store ← if st = "-" then some none
      else if st.startsWith "S" then ((st.drop 1).toString.toInt?).map fun v => some (v, true)
      else if st.startsWith "X" then ((st.drop 1).toString.toInt?).map fun v => some (v, false)
      else none
    pure ⟨head, calls, store⟩
  | _ => none

def parseRun (s : String) : Option (List Obs) := (items s ";").mapM parseObs

/-- `E`/`F` = the head could not be read -/
def parseHead (s : String) : Option (Option Int) :=
  if s.startsWith "E" || s.startsWith "F" then some none else (s.toInt?).map some

/-- retry ops: `okOut` is printed when the guard passes -/
def retryVerdict (name : String) (head : Option Int) (ready : Int → Bool) (confirmedB : Int → Bool)
    (okOut : String) (impl : String) (rejOut : String := "err") (exact : Bool := true) : Verdict :=
  match head with
  | none => ⟨"err", impl == "err", name ++ ":rpc-error"⟩
  | some l =>
    let m := if ready l then okOut else rejOut
    -- property on the implementation's output: processed ⇒ confirmed, and what is processed is the retried block
    let processed := impl != "err" && impl != "skip"
    let ok := if processed then confirmedB l && (impl == okOut || !exact) else true
    ⟨m, ok, s!"{name}:ready={ready l}"⟩

/-- one step of a sequence on shared objects, evaluated with the ORIGINAL confirmations: model output and the
    property predicate for that step's implementation output -/
def seqStep (kind : Kind) (conf k : Int) (step : String) : Option (String × (String → Bool)) :=
  match step.splitOn "," with
  | ["r", latest, h] => do
    let l ← latest.toInt?
    let h ← h.toInt?
    let okOut := s!"proc:{h}.{h}"
    pure (if retryReady l h conf then okOut else "err",
          fun impl => if impl != "err" then decide (conf ≤ l - h) && impl == okOut else true)
  | ["t", latest, r] => do
    let l ← latest.toInt?
    let r ← r.toInt?
    pure (if retryReady l r conf then "ok:2" else "err", fun impl => if impl != "err" then decide (conf ≤ l - r) else true)
  | ["s", head, start] => do
    let hd ← head.toInt?
    let st ← parseStart start
    let cfg : Cfg := ⟨kind, k, conf, 1⟩
    let rs : List Round := [⟨some hd, none, true⟩]
    pure (showRun (run cfg st rs), fun impl => match parseRun impl with
      | some os => traceOk cfg st rs os
      | none => false)
  | _ => none

def handle (op : String) (args : List String) (impl : String) : Option Verdict :=
  match op, args with
  | "seq", [kind, conf, k, steps] => some <| Id.run do
    let some kind := parseKind kind | return bad
    let some conf := conf.toInt? | return bad
    let some k := k.toInt? | return bad
    let some ss := (items steps ";").mapM (seqStep kind conf k) | return bad
    let m := "|".intercalate (ss.map (·.1))
    let outs := impl.splitOn "|"
    let ok := outs.length == ss.length && (ss.zip outs).all fun (st, o) => st.2 o
    let accepted := ss.any fun st => st.1.startsWith "proc" || st.1.startsWith "ok"
    let scanned := ss.any fun st => (st.1.splitOn "/S").length > 1
    return ⟨m, ok, s!"seq:{kindStr kind}:n={min ss.length 4}:accepted={accepted}:scanned={scanned}"⟩
  | "scan", [kind, conf, k, nh, start, rounds] => some <| Id.run do
    let some kind := parseKind (String.ofList (kind.toList.filter (· != '+'))) | return bad
    let some conf := conf.toInt? | return bad
    let some k := k.toInt? | return bad
    let some nh := nh.toNat? | return bad
    let some start := parseStart start | return bad
    let some rs := (items rounds ";").mapM parseRound | return bad
    let rs := rs.map (·.1)
    let cfg : Cfg := ⟨kind, k, conf, nh⟩
    let m := run cfg start rs
    let ok := match parseRun impl with
      | some os => traceOk cfg start rs os
      | none => false
    let handled := m.any (fun o => !o.calls.isEmpty)
    let waited := m.any (fun o => o.head.isSome && o.calls.isEmpty)
    let failed := m.any (fun o => !o.calls.isEmpty && o.store.isNone)
    return ⟨showRun m, ok, s!"scan:{kindStr kind}:n={min rs.length 3}:handled={handled}:waited={waited}:hfail={failed}:nilstart={start.isNone}"⟩
  | "evmretrytx", [latest, receipt, conf] => some <| Id.run do
    let some latest := parseHead latest | return bad
    let some conf := conf.toInt? | return bad
    if receipt = "E" then return ⟨"err", impl == "err", "evmretrytx:rpc-error"⟩
    -- a receipt without a block number: the block of the deposit is unknown, so nothing can be called confirmed; the code
    -- as it is dereferences nil there (the RetryV1 handler recovers and emits nothing) unless the head query failed first
    if receipt = "N" then
      return ⟨if latest.isNone then "err" else "panic", !(impl.startsWith "ok"), "evmretrytx:no-block-number"⟩
    let some r := receipt.toInt? | return bad
    return retryVerdict "evmretrytx" latest (fun l => retryReady l r conf) (fun l => decide (conf ≤ l - r)) "ok:2" impl "err" false
  | "subretryevents", [fin, hs] => some <| Id.run do
    let some fin := parseHead fin | return bad
    let some hs := (items hs ",").mapM String.toInt? | return bad
    let some f := fin | return ⟨"err", impl == "err", "subretryevents:rpc-error"⟩
    let okHs := hs.filter fun h => subRetryEventReady f h
    let m := if okHs.isEmpty then "skip" else "fetched:" ++ ",".intercalate (okHs.map toString)
    -- property: every block fetched is one of the retried heights and is not above the finalized head
    let ok := impl == "skip" || (impl.startsWith "fetched:" &&
      (((impl.drop 8).toString.splitOn ",").all fun x => match x.toInt? with
        | some v => hs.contains v && decide (v ≤ f)
        | none => false))
    return ⟨m, ok, s!"subretryevents:n={min hs.length 3}:ready={min okHs.length 3}"⟩
  | "retryv2", [kind, latest, h, conf] => some <| Id.run do
    let some latest := parseHead latest | return bad
    let some conf := conf.toInt? | return bad
    let some h := h.toInt? | return bad
    -- the retried height is the event's height, unchanged, whatever its size
    if kind == "sub" then
      return retryVerdict "retryv2:sub" latest (fun l => subRetryMsgReady l h) (fun l => decide (h ≤ l)) s!"proc:{h}.{h}" impl
    return retryVerdict s!"retryv2:{kind}" latest (fun l => retryReady l h conf) (fun l => decide (conf ≤ l - h)) s!"proc:{h}.{h}" impl
  | "evmretryreal", [latest, h, conf, faults] => some <| Id.run do
    let some latest := parseHead latest | return bad
    let some conf := conf.toInt? | return bad
    let some h := h.toInt? | return bad
    let some l := latest | return ⟨"reads=-;err", impl == "reads=-;err", "evmretryreal:rpc-error"⟩
    let nf := (items faults ",").length
    let ready := retryReady l h conf
    let m := if !ready then "reads=-;err" else if nf > 0 then s!"reads={h}.{h};err" else s!"reads={h}.{h};proc:0"
    -- property: the node is only ever asked for exactly the retried block, and only when that block is confirmed —
    -- whatever kind of error a read fails with
    let readsPart := ((impl.splitOn ";").headD "").drop 6
    let reads := items readsPart.toString ","
    let ok := reads.all (fun r => r == s!"{h}.{h}") && (reads.isEmpty || decide (conf ≤ l - h))
    return ⟨m, ok, s!"evmretryreal:ready={ready}:faults={min nf 3}"⟩
  | "retrypair", [kind, la, ha, lb, hb, conf, order] => some <| Id.run do
    let some la := la.toInt? | return bad
    let some ha := ha.toInt? | return bad
    let some lb := lb.toInt? | return bad
    let some hb := hb.toInt? | return bad
    let some conf := conf.toInt? | return bad
    -- each request is judged against ITS OWN height and the head IT read, whatever else the handler is doing
    let rdy := fun (l h : Int) => if kind == "sub" then subRetryMsgReady l h else retryReady l h conf
    let cnf := fun (l h : Int) => if kind == "sub" then decide (h ≤ l) else decide (conf ≤ l - h)
    let ra := rdy la ha
    let rb := rdy lb hb
    let procs := ((if ra then [s!"{ha}.{ha}"] else []) ++ (if rb then [s!"{hb}.{hb}"] else [])).mergeSort (· ≤ ·)
    let m := s!"A:{if ra then "ok" else "err"}#B:{if rb then "ok" else "err"}#proc:{joinOr procs ","}"
    let ok := match impl.splitOn "#" with
      | [a, b, p] =>
        (a != "A:ok" || cnf la ha) && (b != "B:ok" || cnf lb hb) &&
        (items (p.drop 5).toString ",").all fun x =>
          (x == s!"{ha}.{ha}" && cnf la ha) || (x == s!"{hb}.{hb}" && cnf lb hb)
      | _ => false
    return ⟨m, ok, s!"retrypair:{kind}:{order}:a={ra}:b={rb}"⟩
  | "evmretrymsg", [latest, h, conf] => some <| Id.run do
    let some latest := parseHead latest | return bad
    let some conf := conf.toInt? | return bad
    let some h := h.toInt? | return bad
    return retryVerdict "evmretrymsg" latest (fun l => retryReady l h conf) (fun l => decide (conf ≤ l - h)) s!"proc:{h}.{h}" impl
  | "btcretrymsg", [latest, h, conf] => some <| Id.run do
    let some latest := parseHead latest | return bad
    let some conf := conf.toInt? | return bad
    let some h := h.toInt? | return bad
    return retryVerdict "btcretrymsg" latest (fun l => retryReady l h conf) (fun l => decide (conf ≤ l - h)) s!"proc:{h}.{h}" impl
  | "subretrymsg", [fin, h] => some <| Id.run do
    let some fin := parseHead fin | return bad
    let some h := h.toInt? | return bad
    return retryVerdict "subretrymsg" fin (fun l => subRetryMsgReady l h) (fun l => decide (h ≤ l)) s!"proc:{h}.{h}" impl
  | "subretryevent", [fin, h] => some <| Id.run do
    let some fin := parseHead fin | return bad
    let some h := h.toInt? | return bad
    return retryVerdict "subretryevent" fin (fun l => subRetryEventReady l h) (fun l => decide (h ≤ l)) s!"fetched:{h}" impl "skip"
  | _, _ => none

end Sygma.Drv.C04
