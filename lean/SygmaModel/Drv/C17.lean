import SygmaModel.Drv.Util
import SygmaModel.Model.C17
import SygmaModel.Drv.C03
namespace Sygma.Drv.C17
open Sygma.C03 (Status Store lookup)
open Sygma.C17
open Sygma.Drv.C03 (statusOf showStatus chars bits)

def K : Nat := 2 ^ 64

/-- deposits flagged `!` / `?` / `#` cannot be handled by the RetryV1 path (handler panics / errs / foreign data) -/
def badIdx (s : String) : List Nat :=
  ((items s ",").zipIdx.filter fun (it, _) => it.endsWith "!" || it.endsWith "?" || it.endsWith "#").map (·.2)

/-- `dest.res.nonce` items (optionally flagged); idx = position -/
def parseDeps (s : String) : Option (List Dep) :=
  ((items s ",").zipIdx.mapM fun (it, i) =>
    let it := if it.endsWith "!" || it.endsWith "?" || it.endsWith "#" then (it.dropEnd 1).toString else it
    match it.splitOn "." with
    | [d, r, n] => do
      let d ← d.toNat?; let r ← r.toNat?; let n ← n.toNat?
      pure ({ dest := d, res := r, key := d * K + n, idx := i } : Dep)
    | _ => none)

/-- status map from the per-deposit initial statuses (a later deposit with the same key overrides) -/
def mkMap (ds : List Dep) (sts : List Status) : List (Nat × Status) :=
  (ds.zip sts).foldl (fun m (d, v) => (d.key, v) :: m) []

def showIdx (ds : List Dep) : String := joinOr (ds.map fun d => toString d.idx) ","

def showFinal (m : List (Nat × Status)) (ds : List Dep) : String :=
  if ds.isEmpty then "-" else String.join (ds.map fun d => showStatus (lookup m d.key))

/-- emitted indices → deposits (none if an index is unknown) -/
def depsOfIdx (ds : List Dep) (s : String) : Option (List Dep) := do
  let is ← natList s
  is.mapM fun i => ds.find? (·.idx = i)

/-- the implementation's final statuses as a map over the deposits' keys (none if malformed or inconsistent) -/
def implMap (ds : List Dep) (fin : String) : Option (List (Nat × Status)) := do
  let fs ← (chars fin).mapM statusOf
  if fs.length ≠ ds.length then none
  let m := (ds.zip fs).map fun (d, v) => (d.key, v)
  if (ds.zip fs).all (fun (d, v) => lookup m d.key == v) then some m else none

def byDest (out : List Dep) : List (Nat × List Dep) :=
  let dests := (out.map (·.dest)).eraseDups.mergeSort (· ≤ ·)
  dests.map fun t => (t, out.filter (·.dest = t))

def showGroups (out : List Dep) : String :=
  joinOr ((byDest out).map fun (t, g) => toString t ++ ":" ++ showIdx g) ";"

structure HParsed where
  ops : List HOp

/-- `<id>` (the whole delivery) or `<id>=<nonces>` (one resource group of it) -/
def idGroup (arg : String) : Option (Nat × List Nat) :=
  match arg.splitOn "=" with
  | [id] => id.toNat?.map fun i => (i, List.range 64)
  | [id, ns] => do let i ← id.toNat?; let g ← natList ns; pure (i, g)
  | _ => none

def parseHOps (s : String) : Option (List HOp) :=
  (items s "/").mapM fun x => do
    let body := if x.length ≤ 1 then "" else (x.drop 1).toString
    let (arg, fl) := match body.splitOn "@" with
      | [a, f] => (a, f)
      | _ => (body, "-")
    let f ← bits fl
    let arg := if arg = "" then "-" else arg
    match x.front with
    | 'D' => do let ns ← natList arg; pure (HOp.deliver ns f)
    | 'S' => do let (id, grp) ← idGroup arg; pure (HOp.outcome id grp true f)
    | 'F' => do let (id, grp) ← idGroup arg; pure (HOp.outcome id grp false f)
    | 'T' => do let (id, grp) ← idGroup arg; pure (HOp.lost id grp)
    | 'R' => do
      let ns ← natList arg
      pure (HOp.retry (ns.zipIdx.map fun (n, i) => ({ dest := 2, res := 97, key := n, idx := i } : Dep)) 97 2 f)
    | _ => none

def showNats (ns : List Nat) : String := joinOr (ns.map toString) ","

def showRes : HRes → String
  | .selected none => "e"
  | .selected (some ps) => "s:" ++ showNats ps
  | .emitted ds => "r:" ++ showNats (ds.map (·.key))
  | .done => "d"
  | .hang => "hang"

def snapshot (m : List (Nat × Status)) (n : Nat) : String :=
  if n = 0 then "-" else String.join ((List.range n).map fun i => showStatus (lookup m i))

def dbErrOf : Char → Option DbErr
  | 'n' | 'N' => some .notFound | 'c' | 'C' => some .closed | 'r' | 'R' => some .readOnly
  | 's' | 'S' => some .snapshotReleased | 'i' | 'I' => some .iterReleased | 'k' | 'K' => some .corrupted
  | '1' => some .generic | _ => none

/-- `w<n><s>` | `r<n>` | `X<n>` | `R<n>` -/
def parseSCall (s : String) : Option SCall :=
  match s.toList with
  | 'w' :: r => do
    let v ← r.getLast?.bind statusOf
    let k ← (String.ofList r.dropLast).toNat?
    pure (.write k v)
  | 'r' :: r => (String.ofList r).toNat?.map .read
  | 'X' :: r => (String.ofList r).toNat?.map .record
  | 'R' :: r => (String.ofList r).toNat?.map .retry
  | _ => none

def showSRes (c : SCall) (r : SRes) : String :=
  match c, r with
  | .write _ _, _ => "nil"
  | .record _, _ => "d"
  | _, .status v => showStatus v
  | _, .emitted n => "r" ++ toString n
  | _, .done => "d"

def parseSRes (c : SCall) (s : String) : Option SRes :=
  match c with
  | .write _ _ => if s == "nil" then some .done else none
  | .record _ => if s == "d" then some .done else none
  | .read _ => (s.toList.head?.bind statusOf).map .status
  | .retry _ => if s.startsWith "r" then ((s.drop 1).toString.toNat?).map .emitted else none

def handle (op : String) (args : List String) (impl : String) : Option Verdict :=
  match op, args with
  | "race", [sts, kb, ka] => some <| Id.run do
    let some sts := (chars sts).mapM statusOf | return bad
    let some kb := natList kb | return bad
    let some ka := natList ka | return bad
    let n := sts.length
    let m := ((List.range n).zip sts).reverse
    -- the code as it is: B holds propMutex while parked, so B's delivery comes first
    let r := raceOrder m kb ka true
    let model := showRes r.1 ++ "|" ++ showRes r.2.1 ++ "|" ++ snapshot r.2.2 n ++ "|held"
    let parseSel := fun (s : String) =>
      if s == "e" then some (HRes.selected none)
      else if s.startsWith "s:" then (natList (s.drop 2).toString).map fun ks => HRes.selected (some ks) else none
    let ok := match impl.splitOn "|" with
      | [sb, sa, fin, _] =>
        match parseSel sb, parseSel sa, (chars fin).mapM statusOf with
        | some sb, some sa, some fs => fs.length == n && decide (PRace m kb ka sb sa ((List.range n).zip fs) n)
        | _, _, _ => false
      | _ => false
    let shared := kb.any fun k => ka.contains k && (lookup m k == Status.missing || lookup m k == Status.failed)
    return ⟨model, ok, s!"race:n={min n 4}:sharedExecutable={shared}"⟩
  | "overlap", [a, b, init] => some <| Id.run do
    let some ca := parseSCall a | return bad
    let some cb := parseSCall b | return bad
    let some kv := (items init ",").mapM (fun it => match it.splitOn ":" with
      | [k, v] => do let k ← k.toNat?; let v ← v.toList.head?.bind statusOf; pure (k, v)
      | _ => none) | return bad
    let m := kv.reverse
    let keys := kv.map (·.1)
    -- the harness suspends A inside the database before it has looked at its key, runs B, then lets A go on
    let r := runTwo m cb ca
    let model := showSRes ca r.2.1 ++ "," ++ showSRes cb r.1 ++ "|" ++
      (if keys.isEmpty then "-" else String.join (keys.map fun k => showStatus (lookup r.2.2 k)))
    let ok := match impl.splitOn "|" with
      | [rs, fin] =>
        match rs.splitOn ",", (chars fin).mapM statusOf with
        | [ra, rb], some fs =>
          match parseSRes ca ra, parseSRes cb rb with
          | some ra, some rb => fs.length == keys.length && decide (PLinear m ca cb ra rb (keys.zip fs) keys)
          | _, _ => false
        | _, _ => false
      | _ => false
    return ⟨model, ok, s!"overlap:{a.take 1}:{b.take 1}:samekey={ca.key == cb.key}"⟩
  | "propstatus", [kind, stored] => some <| Id.run do
    let some st := (stored.toList.head?).bind statusOf | return bad
    let some k := kind.toList.head? | return bad
    let ro : Option (Except DbErr Status) := if k = '0' then some (.ok st) else (dbErrOf k).map .error
    let some r := ro | return bad
    let showO := fun (o : Option Status) => match o with | some v => showStatus v ++ ",nil" | none => "m,err"
    let model := showO (propStatus r)
    let ok := match impl.splitOn "," with
      | [v, e] =>
        match (v.toList.head?).bind statusOf with
        | some v => (e == "nil" || e == "err") && decide (PPropStatus r (if e == "nil" then some v else none))
        | none => false
      | _ => false
    return ⟨model, ok, s!"propstatus:{kind}"⟩
  | "storestatus", [kind, st] => some <| Id.run do
    let some v := (st.toList.head?).bind statusOf | return bad
    let some k := kind.toList.head? | return bad
    if k ≠ '0' && (dbErrOf k).isNone then return bad
    -- `StorePropStatus` hands every database error on; nothing is stored then
    let model := if k = '0' then "nil," ++ showStatus v else "err,m"
    return ⟨model, impl == model, s!"storestatus:{kind}"⟩
  | "lvldb", [mode, sts] => some <| Id.run do
    let some sts := (chars sts).mapM statusOf | return bad
    let n := sts.length
    let ds : List Dep := (List.range n).map fun i => { dest := 2, res := 1, key := i, idx := i }
    let m := ((List.range n).zip sts).reverse
    let closed := mode == "closed"
    let fl := if closed then List.replicate (4 * n + 4) true else []
    let (out, s1) := filterDeposits 1 2 ⟨m, fl⟩ ds
    let (sel, s2) := Sygma.C03.forExec ⟨s1.m, fl⟩ (List.range n)
    let snap := fun (mm : List (Nat × Status)) => if closed then (if n = 0 then "-" else String.join (List.replicate n "x")) else snapshot mm n
    let showSel := match sel with | some ps => "s:" ++ showNats ps | none => "e"
    let model := showIdx out ++ "|" ++ snap s1.m ++ "|" ++ showSel ++ "|" ++ snap s2.m
    let ok := match impl.splitOn "|" with
      | [em, sn1, sl, sn2] =>
        if closed then
          -- the store cannot be read: nothing is re-emitted, nothing is selected, every status read is an error
          em == "-" && (n == 0 || sl == "e") && sn1 == snap [] && sn2 == snap []
        else
          match depsOfIdx ds em, implMap ds sn1, (if sl.startsWith "s:" then natList (sl.drop 2).toString else none) with
          | some o, some m1, some ps =>
            decide (P17 m [] (isMatch 1 2) ds o m1) &&
            decide (Sygma.C03.P03 false (Sygma.C03.executable m1 (List.range n)) (if ps.isEmpty then [] else [ps]))
          | _, _, _ => false
      | _ => false
    return ⟨model, ok, s!"lvldb:{mode}:n={min n 4}"⟩
  | "filter", [deps, res, dest, sts, faults] => some <| Id.run do
    let some ds := parseDeps deps | return bad
    let some res := res.toNat? | return bad
    let some dest := dest.toNat? | return bad
    let some sts := (chars sts).mapM statusOf | return bad
    let some fl := bits faults | return bad
    if sts.length ≠ ds.length then return bad
    let m := mkMap ds sts
    let s : Store := ⟨m, fl⟩
    let (out, s') := filterDeposits res dest s ds
    let model := showIdx out ++ "|" ++ showFinal s'.m ds
    let ok := match impl.splitOn "|" with
      | [em, fin] =>
        match depsOfIdx ds em, implMap ds fin with
        | some o, some m' => decide (P17 m s.faults (isMatch res dest) ds o m')
        | _, _ => false
      | _ => false
    return ⟨model, ok, s!"filter:n={min ds.length 4}:emitted={min out.length 3}:faultfree={faultFree s}:withheld={decide (out.length < (eligible m (isMatch res dest) ds).length)}"⟩
  | "retryv1", [deps0, sts, faults] => some <| Id.run do
    -- '+' separates the retried transactions of the handled range: their deposits are handled one after the other and
    -- the messages of ALL of them are sent, grouped by destination (an empty transaction is written `-`)
    let deps := joinOr (((deps0.splitOn "+").filter (· ≠ "-")).map fun e => e) ","
    let some ds := parseDeps deps | return bad
    let some sts := (chars sts).mapM statusOf | return bad
    let some fl := bits faults | return bad
    if sts.length ≠ ds.length then return bad
    let m := mkMap ds sts
    let s : Store := ⟨m, fl⟩
    -- a deposit that cannot be handled makes no store call and is not re-emitted; every other deposit of the retried
    -- transaction is processed as usual (per-deposit isolation): the loop with the matcher "can be handled"
    let bads := badIdx deps
    let mt : Dep → Bool := fun d => !bads.contains d.idx
    let (out, s') := filterBy mt s ds
    let model := showGroups out ++ "|" ++ showFinal s'.m ds
    let ok := match impl.splitOn "|" with
      | [em, fin] =>
        -- groups `<dest>:<idx,…>`: each homogeneous in destination; merged back into block order
        let groups := (items em ";").map fun g => g.splitOn ":"
        let parsed := groups.mapM fun g => match g with
          | [t, is] => do
            let t ← t.toNat?
            let o ← depsOfIdx ds is
            if o.all (·.dest = t) && !o.isEmpty then some o else none
          | _ => none
        match parsed, implMap ds fin with
        | some gs, some m' =>
          let all := gs.flatten
          let merged := ds.filter fun d => all.any (·.idx = d.idx)
          merged.length == all.length &&
          gs.all (fun g => (g.map (·.idx)).Pairwise (· < ·)) &&
          ((gs.map fun g => (g.head?.map (·.dest)).getD 0).Pairwise (· ≠ ·)) &&
          decide (P17 m s.faults mt ds merged m')
        | _, _ => false
      | _ => false
    return ⟨model, ok, s!"retryv1:n={min ds.length 4}:groups={min (byDest out).length 3}:faultfree={faultFree s}:unhandled={min bads.length 2}:txs={min (deps0.splitOn "+").length 3}"⟩
  | "handler", [kind, latest, height, conf, deps, res, dest, sts, faults] => some <| Id.run do
    let some latest := latest.toNat? | return bad
    let some height := height.toNat? | return bad
    let some conf := conf.toNat? | return bad
    let some ds := parseDeps deps | return bad
    let some res := res.toNat? | return bad
    let some dest := dest.toNat? | return bad
    let some sts := (chars sts).mapM statusOf | return bad
    let some fl := bits faults | return bad
    if sts.length ≠ ds.length then return bad
    let conf := if kind = "sub" then 0 else conf
    let m := mkMap ds sts
    let s : Store := ⟨m, fl⟩
    if !confirmed latest height conf then
      let model := "err|-|" ++ showFinal m ds
      return ⟨model, impl == model, s!"handler:{kind}:unconfirmed"⟩
    let (out, s') := filterDeposits res dest s ds
    let model := "nil|" ++ showIdx out ++ "|" ++ showFinal s'.m ds
    let ok := match impl.splitOn "|" with
      | [ret, em, fin] =>
        ret == "nil" &&
        match depsOfIdx ds em, implMap ds fin with
        | some o, some m' => decide (P17 m s.faults (isMatch res dest) ds o m')
        | _, _ => false
      | _ => false
    return ⟨model, ok, s!"handler:{kind}:emitted={min out.length 2}:faultfree={faultFree s}"⟩
  | "hist", [n, ops] => some <| Id.run do
    let some n := n.toNat? | return bad
    let some ops := parseHOps ops | return bad
    let run := hrun true init ops
    let fin := hfinal true init ops
    let model := joinOr (run.map fun x => showRes x.1 ++ "~" ++ snapshot x.2.m n) "/" ++ "#" ++ (if fin.held then "held" else "free")
    let sequential := seqRun true init ops
    let ok := match impl.splitOn "#" with
      | [steps, mx] =>
        let steps := items steps "/"
        let snaps := steps.mapM fun st => match st.splitOn "~" with
          | [r, sn] => do
            let fs ← (chars sn).mapM statusOf
            if r == "hang" || fs.length ≠ n then none else some ((List.range n).zip fs)
          | _ => none
        -- a delivery selects only records that were missing or failed in the previous snapshot
        let selOk := fun (prev : List (Nat × Status)) (st : String) =>
          match ((st.splitOn "~").headD "").splitOn ":" with
          | ["s", ks] => match natList ks with
            | some ks => ks.all fun k => lookup prev k == Status.missing || lookup prev k == Status.failed
            | none => false
          | _ => true
        -- … and is recorded pending (in flight) when Execute goes on to sign it (deliver_marks_selected_pending)
        let markOk := fun (next : List (Nat × Status)) (st : String) =>
          match ((st.splitOn "~").headD "").splitOn ":" with
          | ["s", ks] => match natList ks with
            | some ks => ks.all fun k => k ≥ n || lookup next k == Status.pending
            | none => false
          | _ => true
        match snaps with
        | some sn =>
          mx == "free" && steps.length == ops.length &&
          (sn.zip steps).all (fun (next, st) => markOk next st) &&
          ((([] : List (Nat × Status)) :: sn).zip steps).all (fun (prev, st) => selOk prev st) &&
          ((([] : List (Nat × Status)) :: sn).zip (sn.zip ops)).all (fun (prev, (next, op)) => stepOk op prev next n) &&
          (!sequential || (List.range n).all fun k => finalAlong k ([] :: sn))
        | none => false
      | _ => false
    return ⟨model, ok, s!"hist:ops={min ops.length 6 / 2}:sequential={sequential}:executedSeen={run.any fun x => (List.range n).any fun k => lookup x.2.m k == Status.executed}"⟩
  | "histstrict", [n, ops] => some <| Id.run do
    let some n := n.toNat? | return bad
    let some ops := parseHOps ops | return bad
    let run := hrunStrict init ops
    let fin := (run.getLast?.map (·.2)).getD init
    let model := joinOr (run.map fun x => showRes x.1 ++ "~" ++ snapshot x.2.m n) "/" ++ "#" ++ (if fin.held then "held" else "free")
    let sequential := seqRun true init ops
    let ok := match impl.splitOn "#" with
      | [steps, mx] =>
        let steps := items steps "/"
        let snaps := steps.mapM fun st => match st.splitOn "~" with
          | [r, sn] => do
            let fs ← (chars sn).mapM statusOf
            if r == "hang" || fs.length ≠ n then none else some ((List.range n).zip fs)
          | _ => none
        -- a delivery selects only records that were missing or failed in the previous snapshot
        let selOk := fun (prev : List (Nat × Status)) (st : String) =>
          match ((st.splitOn "~").headD "").splitOn ":" with
          | ["s", ks] => match natList ks with
            | some ks => ks.all fun k => lookup prev k == Status.missing || lookup prev k == Status.failed
            | none => false
          | _ => true
        -- … and is recorded pending (in flight) when Execute goes on to sign it (deliver_marks_selected_pending)
        let markOk := fun (next : List (Nat × Status)) (st : String) =>
          match ((st.splitOn "~").headD "").splitOn ":" with
          | ["s", ks] => match natList ks with
            | some ks => ks.all fun k => k ≥ n || lookup next k == Status.pending
            | none => false
          | _ => true
        match snaps with
        | some sn =>
          mx == "free" && steps.length == ops.length &&
          (sn.zip steps).all (fun (next, st) => markOk next st) &&
          ((([] : List (Nat × Status)) :: sn).zip steps).all (fun (prev, st) => selOk prev st) &&
          ((([] : List (Nat × Status)) :: sn).zip (sn.zip ops)).all (fun (prev, (next, op)) => stepOk op prev next n) &&
          ((List.range n).all fun k => finalAlong k ([] :: sn))
        | none => false
      | _ => false
    return ⟨model, ok, s!"histstrict:ops={min ops.length 6 / 2}:sequential={sequential}:executedSeen={run.any fun x => (List.range n).any fun k => lookup x.2.m k == Status.executed}"⟩
  | "retryv2", [lis, src, dst, height, res] => some <| Id.run do
    let some lis := lis.toNat? | return bad
    let some src := src.toNat? | return bad
    let some dst := dst.toNat? | return bad
    let some height := height.toNat? | return bad
    let some res := res.toNat? | return bad
    let r := retryV2 lis src dst height res
    let model := s!"{r.msgSource},{r.msgDest},RetryMessage|{r.src},{r.dst},{r.height},{r.res}"
    let ok := match impl.splitOn "|" with
      | [hd, body] =>
        match hd.splitOn ",", natList body with
        | [ms, md, ty], some [a, b, c, d] =>
          ty == "RetryMessage" &&
          (match ms.toNat?, md.toNat? with
           | some ms, some md => decide (PRequest src dst height res ⟨ms, md, a, b, c, d⟩)
           | _, _ => false)
        | _, _ => false
      | _ => false
    return ⟨model, ok, "retryv2"⟩
  | "outcome", [acc, init, ns, faults] => some <| Id.run do
    let some sts := (chars init).mapM statusOf | return bad
    let some ns := natList ns | return bad
    let some fl := bits faults | return bad
    let accepted := acc == "accept"
    let n := sts.length
    let m := ((List.range n).zip sts).reverse
    let s : Store := ⟨m, fl⟩
    let v := outcomeStatus accepted
    let s' := Sygma.C03.storeStatus s ns v
    let model := (if accepted then "nil" else "err") ++ "|" ++ snapshot s'.m n ++ "|1|" ++
      (if accepted then "-" else "TssFailMsg") ++ "|free"
    let ok := match impl.splitOn "|" with
      | [_, fin, _, _, mx] =>
        match (chars fin).mapM statusOf with
        | some fs =>
          fs.length == n && mx == "free" &&
          decide (POutcome m (faultFree s) ns v ((List.range n).zip fs) (List.range n))
        | none => false
      | _ => false
    return ⟨model, ok, s!"outcome:{acc}:faultfree={faultFree s}:n={min ns.length 3}"⟩
  | "live", [_, _] => some ⟨"returned", impl == "returned", "live"⟩
  | _, _ => none

end Sygma.Drv.C17
