import SygmaModel.Drv.Util
import SygmaModel.Model.C20
import SygmaModel.Model.C20Dur
namespace Sygma.Drv.C20
open Sygma.C20

/-- canonical decimal integer text (what `strconv.FormatInt` prints): optional `-`, digits, no leading zero -/
def canonInt (s : String) : Option Int :=
  let body := if s.startsWith "-" then (s.drop 1).toString else s
  if body.isEmpty || !body.all Char.isDigit then none
  else if body.length > 1 && body.startsWith "0" then none
  else if s == "-0" then none
  else s.toInt?

def classOf (n : Int) (out : Option Nat) : String :=
  match out with
  | none => "err"
  | some p => if (p : Int) == n then "id" else if (p : Int) == n % 65536 then "wrap" else "bad"

/-- compress classes of lo..hi into runs `<class>:<a>..<b>` -/
def runsOf (f : Int → String) (lo hi : Int) : String := Id.run do
  let mut out : Array String := #[]
  let mut cur := f lo
  let mut start := lo
  let mut n := lo + 1
  let cnt := (hi - lo).toNat
  for _ in [0:cnt] do
    let c := f n
    if c != cur then
      out := out.push s!"{cur}:{start}..{n - 1}"
      cur := c
      start := n
    n := n + 1
  out := out.push s!"{cur}:{start}..{hi}"
  return ";".intercalate out.toList

/-- the outcome the implementation reported for `n`, read from its runs -/
def implOutcome (runs : List (String × Int × Int)) (n : Int) : Option (Option Nat) :=
  match runs.find? (fun r => decide (r.2.1 ≤ n) && decide (n ≤ r.2.2)) with
  | some ("err", _, _) => some none
  | some ("id", _, _) => some (some n.toNat)
  | some ("wrap", _, _) => some (some (n % 65536).toNat)
  | some _ => some (some 70000)
  | none => none

def parseRuns (s : String) : Option (List (String × Int × Int)) :=
  (s.splitOn ";").mapM fun r =>
    match r.splitOn ":" with
    | [c, rng] =>
      match rng.splitOn ".." with
      | [a, b] => do pure (c, ← a.toInt?, ← b.toInt?)
      | _ => none
    | _ => none

def optInt (s : String) : Option (Option Int) :=
  if s == "_" then some none else (canonInt s).map some

def kindOf : String → Option Kind
  | "evm" => some .evm | "sub" => some .sub | "btc" => some .btc | _ => none

def showChainOut : Option ChainOut → String
  | none => "err"
  | some o =>
    let bc := match o.bc with | some b => toString b | none => "_"
    let al := match o.aligned with | some a => toString a | none => "panic"
    s!"ok:{bc}:{o.bi}:{o.sb}:{o.riNs}:{al}"

def parseChainOut (s : String) : Option (Option ChainOut) :=
  if s == "err" then some none else
  match s.splitOn ":" with
  | ["ok", bc, bi, sb, ri, al] => do
    let bc ← if bc == "_" then some none else bc.toInt?.map some
    let al ← if al == "panic" then some none else al.toInt?.map some
    pure (some ⟨bc, ← bi.toInt?, ← sb.toInt?, ← ri.toInt?, al⟩)
  | _ => none

/-! merge wire format -/

/-- decimal text with at most three fractional digits, in thousandths: `2.5` ↦ 2500, `-0.125` ↦ -125 -/
def parseMilli (s : String) : Option Int :=
  match s.splitOn "." with
  | [i] => (canonInt i).map (· * 1000)
  | [i, f] =>
    if f.isEmpty || f.length > 3 || !f.all Char.isDigit || f.endsWith "0" then none else
    let neg := i.startsWith "-"
    let ip := if neg then (i.drop 1).toString else i
    match canonInt ip, (f ++ String.ofList (List.replicate (3 - f.length) '0')).toNat? with
    | some a, some b => some ((if neg then -1 else 1) * (a * 1000 + (b : Int)))
    | _, _ => none
  | _ => none

def numOfMilli (m : Int) (isFloat : Bool) : V := if m % 1000 == 0 then .num (m / 1000) isFloat else .frac m

def parseV (loaderFloat : Bool) (s : String) : Option V :=
  if s == "t" then some (.bool true) else if s == "b" then some (.bool false)
  else if s.startsWith "s" then some (.str (s.drop 1).toString)
  else if s.startsWith "n" then (canonInt (s.drop 1).toString).map fun n => .num n loaderFloat
  else if s.startsWith "f" || s.startsWith "r" then (parseMilli (s.drop 1).toString).map fun m => numOfMilli m true
  else if s.startsWith "l" then some (.list (items (if s.length == 1 then "-" else (s.drop 1).toString) "|"))
  else none

def parseChains (loaderFloat : Bool) (s : String) : Option (List Chain) :=
  (items s ";").mapM fun c => (items c ",").mapM fun kv =>
    match kv.splitOn "=" with
    | k :: rest => (parseV loaderFloat ("=".intercalate rest)).map fun v => (k, v)
    | _ => none

/-- Go `strconv.FormatFloat(x, 'g', -1, 64)` of milli/1000 for the small magnitudes generated -/
def showMilli (m : Int) : String :=
  let a := m.natAbs
  let f := a % 1000
  let fs := toString f
  let fs := String.ofList (List.replicate (3 - fs.length) '0') ++ fs
  let fs := String.ofList (fs.toList.reverse.dropWhile (· == '0')).reverse
  (if m < 0 then "-" else "") ++ toString (a / 1000) ++ "." ++ fs

def showV : V → String
  | .num n _ => s!"n{n}"
  | .frac m => "r" ++ showMilli m
  | .str s => "s" ++ s
  | .bool true => "t"
  | .bool false => "b"
  | .list l => "l" ++ "|".intercalate l

def showChains (cs : List Chain) : String :=
  joinOr (cs.map fun c => joinOr ((c.map fun (k, v) => k ++ "=" ++ showV v).mergeSort (· ≤ ·)) ",") ";"

/-- printed chains lose the int / float64 distinction: the predicates are evaluated with it erased on all sides -/
def normV : V → V
  | .num n _ => .num n false
  | v => v

def norm (c : Chain) : Chain := c.map fun (k, v) => (k, normV v)

/-- some local entry holds an empty value where its shared partner has a visibly different one -/
def hasClash (locals shareds : List Chain) : Bool :=
  locals.any fun l =>
    match shareds.find? (fun s => sameId (l.get "id") (s.get "id")) with
    | some s => !noEmptyClashB (norm l) (norm s)
    | none => false

/-- the property predicate on the implementation's printed result: loading fails unless every local entry has a
    shared entry of numerically equal id, and each result is the merge (`P` = PMerge or PMergeExc) with that entry -/
def mergeOk (P : Chain → Chain → Chain → Bool) (locals shareds : List Chain) (impl : String) : Bool :=
  if impl == "err" then
    -- a failure is what the property demands exactly when some entry has no partner / no id / no type
    (processChains mergeIdeal locals shareds).isNone
  else
    match parseChains false impl with
    | some merged =>
      merged.length == locals.length &&
      (locals.zip merged).all fun (l, mg) =>
        match shareds.find? (fun s => sameId (l.get "id") (s.get "id")) with
        | some s => P (norm l) (norm s) (norm mg)
        | none => false
    | none => false

/-! durations -/

def unitOf : String → Option DUnit
  | "ns" => some .ns | "us" => some .us | "µs" => some .us | "μs" => some .us
  | "ms" => some .ms | "s" => some .s | "m" => some .m | "h" => some .h | _ => none

partial def durTerms (cs : List Char) (acc : List (Nat × DUnit)) : Option (List (Nat × DUnit)) :=
  if cs.isEmpty then some acc else
  let ds := cs.takeWhile Char.isDigit
  let rest := cs.dropWhile Char.isDigit
  let us := rest.takeWhile fun c => !(c.isDigit || c == '.')
  let rest' := rest.dropWhile fun c => !(c.isDigit || c == '.')
  if ds.isEmpty || us.isEmpty then none else
  match (String.ofList ds).toNat?, unitOf (String.ofList us) with
  | some v, some u => durTerms rest' (acc ++ [(v, u)])
  | _, _ => none

/-- (negative?, terms) — `some (neg, none)` is the literal `0`; `none` = outside the integer-term grammar -/
def parseDurText (s : String) : Option (Bool × Option (List (Nat × DUnit))) :=
  let cs := s.toList
  let (neg, body) := match cs with
    | '-' :: r => (true, r)
    | '+' :: r => (false, r)
    | r => (false, r)
  if body == ['0'] then some (neg, none)
  else if body.isEmpty then none
  else (durTerms body []).map fun ts => (neg, some ts)

def durDefault : String → Option Int
  | "comm" => some 300000000000 | "pingwait" => some 1000000000 | "pingbackoff" => some 1000000000
  | "pinginterval" => some 1000000000 | "election" => some 2000000000 | "bullywait" => some 180000000000 | _ => none

def showDur : Option Int → String
  | some x => s!"ok:{x}"
  | none => "err"

def parseDurOut (s : String) : Option (Option Int) :=
  if s == "err" then some none else
  match s.splitOn ":" with
  | ["ok", x] => x.toInt?.map some
  | _ => none


/-! strings, numeric strings -/

def sfieldOf : String → Option SField
  | "otel" => some .otel | "logfile" => some .logfile | "env" => some .env | "id" => some .id
  | "keyshare" => some .keyshare | "frostkeyshare" => some .frostkeyshare | "key" => some .key
  | "enckey" => some .enckey | "topourl" => some .topourl | "topopath" => some .topopath
  | "upurl" => some .upurl | "uptoken" => some .uptoken | _ => none

def showStrOut : Option Bytes → String
  | some b => "ok:" ++ toHexW b
  | none => "err"

def parseStrOut (s : String) : Option (Option Bytes) :=
  if s == "err" then some none
  else if s.startsWith "ok:" then (fromHex (s.drop 3).toString).map some
  else none

def numFieldKnown (kind field : String) : Bool :=
  match kind with
  | "evm" => ["maxGasPrice", "gasMultiplier", "gasIncreasePercentage", "gasLimit", "transferGas", "startBlock",
              "blockConfirmations", "blockInterval", "blockRetryInterval"].contains field
  | "sub" => ["chainID", "startBlock", "blockInterval", "blockRetryInterval", "substrateNetwork", "tip"].contains field
  | "btc" => ["startBlock", "blockInterval", "blockRetryInterval", "blockConfirmations", "feeAmount"].contains field
  | _ => false


/-! describe / general -/

def intList (s : String) : Option (List Int) := (s.splitOn ",").mapM String.toInt?

def showInts (xs : List Int) : String := ",".intercalate (xs.map toString)

def descHandle (specs : List FSpec) (tagName : String) (args : List String) (impl : String) : Verdict := Id.run do
  match args with
  | repr :: ws =>
    if !(repr == "i" || repr == "f") || ws.length != specs.length then return bad
    let some ws := ws.mapM optInt | return bad
    let out := loadFields specs ws
    let m := match out with
      | some fs => let f := showInts fs; s!"ok:{f}|{showInts (describe fs)}|{showInts (describe (describe fs))}|{showInts (describe fs)}|t"
      | none => "err"
    -- predicate on the implementation's observations: every snapshot is the written values, the two descriptions agree
    let ok := if impl == "err" then PDescribe specs ws none else
      match (impl.drop 3).toString.splitOn "|" with
      | [a, b, c, d, same] =>
        (match [a, b, c, d].mapM intList with
         | some snaps => PDescribe specs ws (some snaps) && same == "t" && impl.startsWith "ok:"
         | none => false)
      | _ => false
    return ⟨m, ok, s!"{tagName}:{if out.isSome then "ok" else "err"}:written={min (ws.filter Option.isSome).length 3}"⟩
  | _ => return bad

def tbOpt : String → Option (Option Bool)
  | "_" => some none | "t" => some (some true) | "b" => some (some false) | _ => none

def tbShow (b : Bool) : String := if b then "t" else "b"

def lvldb : Bytes := "./lvldbdata".toUTF8.toList


/-! numbers written as JSON numbers -/

def nfieldOf (kind field : String) : Option NField :=
  let has (l : List String) := l.contains field
  let known := match kind with
    | "evm" => has ["id", "maxGasPrice", "gasMultiplier", "gasIncreasePercentage", "gasLimit", "transferGas", "startBlock", "blockConfirmations", "blockInterval", "blockRetryInterval"]
    | "sub" => has ["id", "chainID", "startBlock", "blockInterval", "blockRetryInterval", "tip"]
    | "btc" => has ["id", "startBlock", "blockInterval", "blockRetryInterval", "blockConfirmations"]
    | _ => false
  if !known then none else
  match field with
  | "id" => some ⟨.u8, none, 1⟩
  | "gasMultiplier" => some ⟨.f64, none, 1⟩
  | "transferGas" | "tip" => some ⟨.u64, none, 1⟩
  | "blockRetryInterval" => some ⟨.u64, none, 1000000000⟩
  | "blockConfirmations" | "blockInterval" => some ⟨.i64, some 1, 1⟩
  | _ => some ⟨.i64, none, 1⟩

def showNum (f : NField) : Option Int → String
  | none => "err"
  | some v => if f.kind == .f64 then (if v % 1000 == 0 then s!"ok:{v / 1000}" else "ok:" ++ showMilli v) else s!"ok:{v}"

def parseNumOut (f : NField) (s : String) : Option (Option Int) :=
  if s == "err" then some none
  else if s.startsWith "ok:" then
    let t := (s.drop 3).toString
    if f.kind == .f64 then (parseMilli t).map some else t.toInt?.map some
  else none

def handle (op : String) (args : List String) (impl : String) : Option Verdict :=
  match op, args with
  | "portrange", [w, lo, hi] => some <| Id.run do
    let some lo := lo.toInt? | return bad
    let some hi := hi.toInt? | return bad
    if !(w == "h" || w == "m") || hi < lo then return bad
    let m := runsOf (fun n => classOf n (port n)) lo hi
    let ok := match parseRuns impl with
      | some runs => Id.run do
        let mut good := true
        let mut n := lo
        for _ in [0:(hi - lo).toNat + 1] do
          match implOutcome runs n with
          | some out => if !decide (PPort n out) then good := false
          | none => good := false
          n := n + 1
        return good
      | none => false
    return ⟨m, ok, s!"portrange:{w}"⟩
  | "port", [w, loader, text] => some <| Id.run do
    if !(w == "h" || w == "m") || !(loader == "d" || loader == "f" || loader == "e") then return bad
    -- the other port keeps its default
    let (dh, dm) := ((9001 : Nat), (9000 : Nat))
    let showOk (p : Nat) := if w == "h" then s!"ok:{p}:{dm}" else s!"ok:{dh}:{p}"
    if text == "-" then
      let m := s!"ok:{dh}:{dm}"
      return ⟨m, impl == m, s!"port:{loader}:unwritten"⟩
    match canonInt text with
    | none =>
      -- not a plain decimal integer: only strings that no base-0 parser accepts are generated
      return ⟨"err", impl == "err", s!"port:{loader}:malformed"⟩
    | some n =>
      let m := match port n with | some p => showOk p | none => "err"
      let implOut : Option (Option Nat) :=
        if impl == "err" then some none else
        match impl.splitOn ":" with
        | ["ok", h, mm] => (if w == "h" then h.toNat? else mm.toNat?).map some
        | _ => none
      let ok := match implOut with | some o => decide (PPort n o) | none => false
      return ⟨m, ok, s!"port:{loader}:{classOf n (port n)}"⟩
  | "chain", [kind, repr, bc, bi, sb, ri] => some <| Id.run do
    let some k := kindOf kind | return bad
    if !(repr == "i" || repr == "f") then return bad
    let some bc := optInt bc | return bad
    let some bi := optInt bi | return bad
    let some sb := optInt sb | return bad
    let some ri := optInt ri | return bad
    let c : ChainIn := ⟨k, bc, bi, sb, ri⟩
    if ri.getD defRi * 1000000000 ≥ 2 ^ 63 then return bad   -- that class is the op `retrywrap`
    let out := loadChain c
    let ok := match parseChainOut impl with | some o => PChainB c o | none => false
    let tag := s!"chain:{kind}:{if out.isSome then "ok" else "err"}:bc={bc.isSome}:bi={bi.isSome}:ri={ri.isSome}"
    return ⟨showChainOut out, ok, tag⟩
  | "retrywrap", [kind, ri] => some <| Id.run do
    let some k := kindOf kind | return bad
    let some ri := canonInt ri | return bad
    if ri * 1000000000 < 2 ^ 63 then return bad
    let c : ChainIn := ⟨k, none, none, none, some ri⟩
    -- KNOWN FINDING class: the property demands a rejection (the value does not fit a Duration)
    let ok := match parseChainOut impl with | some o => PChainB c o | none => false
    return ⟨"err", ok, "retrywrap"⟩
  | "merge", [loader, loc, sh] => some <| Id.run do
    if !(loader == "d" || loader == "f" || loader == "e") then return bad
    let some locals := parseChains (loader != "d") loc | return bad
    let some shareds := parseChains false sh | return bad
    -- expected: the IDEAL merge (a written local value always wins); the generator sends inputs with an
    -- empty-local-value clash to `mergeclash` / `mergeexc` instead, so here it coincides with the code's merge
    let want := processChains mergeIdeal locals shareds
    let m := match want with | some cs => showChains cs | none => "err"
    let fracId := locals.any fun l => match l.get "id" with | some (.frac _) => true | _ => false
    return ⟨m, mergeOk PMerge locals shareds impl,
      s!"merge:{loader}:{if want.isSome then "ok" else "err"}:chains={min locals.length 3}:fracid={fracId}:clash={hasClash locals shareds}"⟩
  | "mergeclash", [loader, loc, sh] => some <| Id.run do
    -- KNOWN FINDING class, strict predicate: the property demands the ideal merge
    if !(loader == "d" || loader == "f" || loader == "e") then return bad
    let some locals := parseChains (loader != "d") loc | return bad
    let some shareds := parseChains false sh | return bad
    if !hasClash locals shareds then return bad
    let want := processChains mergeIdeal locals shareds
    let m := match want with | some cs => showChains cs | none => "err"
    return ⟨m, mergeOk PMerge locals shareds impl, s!"mergeclash:{loader}"⟩
  | "mergeexc", [loader, loc, sh] => some <| Id.run do
    -- the same inputs with the known point excused: expected = the code's merge as modelled (theorem merge_excused);
    -- any OTHER deviation on such an input is an ordinary violation
    if !(loader == "d" || loader == "f" || loader == "e") then return bad
    let some locals := parseChains (loader != "d") loc | return bad
    let some shareds := parseChains false sh | return bad
    let want := processChains mergeChain locals shareds
    let m := match want with | some cs => showChains cs | none => "err"
    return ⟨m, mergeOk PMergeExc locals shareds impl, s!"mergeexc:{loader}:{if want.isSome then "ok" else "err"}:chains={min locals.length 3}"⟩
  | "dur", [field, loader, hex] => some <| Id.run do
    let some dflt := durDefault field | return bad
    if !(loader == "d" || loader == "f" || loader == "e") then return bad
    if hex == "-" then
      let m := showDur (some dflt)
      return ⟨m, impl == m, "dur:unwritten"⟩
    let some bytes := fromHex hex | return bad
    let some text := String.fromUTF8? ⟨bytes.toArray⟩ | return bad
    match parseDurText text with
    | none =>
      -- outside the modelled grammar: only texts that ParseDuration rejects are generated (never fractions)
      return ⟨"err", impl == "err", "dur:malformed"⟩
    | some (_, none) => return ⟨"ok:0", impl == "ok:0", "dur:zero"⟩
    | some (neg, some ts) =>
      let out := parseDur neg ts
      let ok := match parseDurOut impl with | some o => PDur neg ts o | none => false
      return ⟨showDur out, ok, s!"dur:{if out.isSome then "ok" else "err"}:terms={min ts.length 3}:neg={neg}"⟩
  | "str", [field, loader, hex] => some <| Id.run do
    let some f := sfieldOf field | return bad
    if !(loader == "d" || loader == "f" || loader == "e") then return bad
    let some v := fromHex hex | return bad
    let out := loadStr f v
    let ok := match parseStrOut impl with | some o => PStr f v o | none => false
    let special := v.any fun c => c == 61 || c == 58 || c == 44 || c == 32 || c == 34 || c == 35 || c ≥ 128
    return ⟨showStrOut out, ok, s!"str:{loader}:{if out.isSome then "ok" else "err"}:special={special}:long={decide (v.length > 100)}"⟩
  | "numstr", [kind, field, hex] => some <| Id.run do
    if !numFieldKnown kind field then return bad
    let some t := fromHex hex | return bad
    let out := if field == "feeAmount" then loadFee t else loadTypedFromString t
    -- fee amount: the decimal value AND every decimal numeral loads (PFee); typed fields refuse strings (failure allowed)
    let ok := match parseDurOut impl with
      | some o => if field == "feeAmount" then PFee t o else PNumStr t o
      | none => false
    return ⟨showDur out, ok, s!"numstr:{if field == "feeAmount" then "fee" else "typed"}:{if out.isSome then "ok" else "err"}:decimal={(decimalSpec t).isSome}"⟩
  | pop, [w, loader, hex] =>
    if !(pop == "porttext" || pop == "portbase" || pop == "portbasex") then none else some <| Id.run do
    if !(w == "h" || w == "m") || !(loader == "d" || loader == "f" || loader == "e") then return bad
    let some t := fromHex hex | return bad
    if t.isEmpty then return bad
    let showP (o : Option Nat) : String := match o with
      | some p => if w == "h" then s!"ok:{p}:9000" else s!"ok:9001:{p}"
      | none => "err"
    let implOut : Option (Option Nat) :=
      if impl == "err" then some none else
      match impl.splitOn ":" with
      | ["ok", h, mm] => (if w == "h" then h.toNat? else mm.toNat?).map some
      | _ => none
    let asIs := portText t
    let conforms := PPortText t asIs
    let ideal : Option Nat := match decDigits t with | some p => if p ≤ 65535 then some p else none | none => none
    match pop with
    | "porttext" =>
      -- strict: the generator sends only texts whose base-0 reading is their decimal reading (or an error)
      let ok := match implOut with | some o => PPortText t o | none => false
      return ⟨showP (if conforms then asIs else ideal), ok, s!"porttext:{loader}:{if asIs.isSome then "ok" else "err"}"⟩
    | "portbase" =>
      -- KNOWN FINDING class (base prefixes / leading-zero octal / underscores), strict predicate
      let ok := match implOut with | some o => PPortText t o | none => false
      return ⟨showP (if conforms then asIs else ideal), ok, s!"portbase:{if conforms then "conforms" else "reinterpreted"}"⟩
    | _ =>
      -- the same texts with exactly the base-0 value excused
      let ok := match implOut with | some o => PPortTextExc t o | none => false
      return ⟨showP asIs, ok, s!"portbasex:{loader}:{if asIs.isSome then "ok" else "err"}"⟩
  | "descevm", args => some (descHandle evmSpecs "descevm" args impl)
  | "descsub", args => some (descHandle subSpecs "descsub" args impl)
  | gop, [kind, mode, fr, la, bs, ff, fl, fb] =>
    if !(gop == "general" || gop == "generalbs" || gop == "generalbsx") then none else some <| Id.run do
    if (kindOf kind).isNone || !(mode == "v" || mode == "b") then return bad
    let some fr := tbOpt fr | return bad
    let some la := tbOpt la | return bad
    let some bs := (if bs == "_" then some none else (fromHex bs).map some) | return bad
    let some (some ff) := tbOpt ff | return bad
    let some (some fl) := tbOpt fl | return bad
    let some fbGiven := (if fb == "_" then some none else (fromHex fb).map some) | return bad
    -- what viper reports for --blockstore: the given value; with the real flag wiring its default when not given
    let fbAsIs : Bytes := match fbGiven with | some v => v | none => if mode == "b" then lvldb else []
    let inClass := mode == "b" && fbGiven.isNone && (bs.getD []) != []
    -- generalbs (KNOWN FINDING class): the flag was NOT given, the property demands the written per-chain path
    let g : GenIn := ⟨fr, la, bs, ff, fl, if gop == "generalbs" then (fbGiven.getD []) else fbAsIs⟩
    if gop != "general" && !inClass then return bad
    if gop == "general" && inClass then return bad
    let o := loadGeneral g
    let m := s!"ok:{tbShow o.fresh}:{tbShow o.latest}:{toHexW o.bs}"
    let ok := match impl.splitOn ":" with
      | ["ok", a, b, c] =>
        (match tbOpt a, tbOpt b, fromHex c with
         | some (some a), some (some b), some c => PGeneral g ⟨a, b, c⟩
         | _, _, _ => false)
      | _ => false
    return ⟨m, ok, s!"{gop}:{mode}:fresh={fr.isSome}:{ff}:latest={la.isSome}:{fl}"⟩
  | nop, [repr, n] =>
    if !(nop == "subnet" || nop == "subnetwrap" || nop == "subnetwrapx") then none else some <| Id.run do
    if !(repr == "i" || repr == "f") then return bad
    let some n := canonInt n | return bad
    let inRange := decide (0 ≤ n) && decide (n ≤ 65535)
    if (nop == "subnet") != inRange then return bad
    let implOut : Option (Option Nat) := if impl == "err" then some none else
      match impl.splitOn ":" with | ["ok", v] => v.toNat?.map some | _ => none
    let asIs := loadSubNet n
    match nop with
    | "subnetwrap" =>   -- KNOWN FINDING class, strict: the property demands a rejection
      return ⟨"err", (match implOut with | some o => PSubNet n o | none => false), "subnetwrap"⟩
    | "subnetwrapx" =>  -- the same inputs with exactly the 16-bit wrap excused
      return ⟨s!"ok:{asIs}", (match implOut with | some o => PSubNet n o || o == some asIs | none => false), "subnetwrapx"⟩
    | _ =>
      return ⟨s!"ok:{asIs}", (match implOut with | some o => PSubNet n o | none => false), "subnet"⟩
  | vop, [kind, field, repr, text] =>
    if !(vop == "numval" || vop == "numvalk" || vop == "numvalx") then none else some <| Id.run do
    let some f := nfieldOf kind field | return bad
    if !(repr == "i" || repr == "f") then return bad
    let some milli := parseMilli text | return bad
    if repr == "i" && milli % 1000 != 0 then return bad
    let asIs := loadNum f milli
    let conforms := PNum f milli asIs
    let ideal : Option Int := if numValid f milli then some (numWanted f milli) else none
    let implOut := parseNumOut f impl
    let tag := s!"{vop}:{field}:{if asIs.isSome then "ok" else "err"}:frac={decide (milli % 1000 != 0)}"
    if vop == "numvalx" then
      -- the known points excused: the candidate may also be exactly what the decoder yields (truncation / 8-bit wrap)
      return ⟨showNum f asIs, (match implOut with | some o => PNum f milli o || o == asIs | none => false), tag⟩
    else
      -- numval: strict, ordinary; numvalk: strict, KNOWN FINDING classes (fraction into an integer field, domain id > 255)
      if vop == "numval" && !conforms then return bad
      return ⟨showNum f (if conforms then asIs else ideal), (match implOut with | some o => PNum f milli o | none => false), tag⟩
  | cop, [_hex] =>
    if !(cop == "chainsenv" || cop == "chainsfile" || cop == "chainsfilek") then none else some <| Id.run do
    -- impl = <outcome>/<oracle>; the oracle (encoding/json on the same text, computed by the harness) says whether the text
    -- is a list of objects and how many. Property: a malformed list fails, a well-formed one loads with every entry.
    match impl.splitOn "/" with
    | [out, oracle] =>
      if !(oracle == "err" || oracle.startsWith "ok:") then return bad
      return ⟨oracle ++ "/" ++ oracle, out == oracle, s!"{cop}:{if oracle == "err" then "malformed" else "wellformed"}"⟩
    | _ => return ⟨"BADOUT", false, cop⟩
  | _, _ => none

end Sygma.Drv.C20
