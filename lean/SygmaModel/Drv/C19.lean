import SygmaModel.Drv.Util
import SygmaModel.Drv.C04
import SygmaModel.Drv.C05
import SygmaModel.Model.C19
import SygmaModel.Drv.C14
namespace Sygma.Drv.C19
open Sygma.C04 Sygma.C05 Sygma.C19 Sygma.Drv.C04 Sygma.Drv.C05

/-- a 32-byte resource id as 64 hex digits; ids are compared as byte strings of equal length = as big-endian numbers -/
def hex2 (n : Nat) : String := toHex (pad32 n)

/-- `idHex:addrIdx:feeSat`; idHex = up to 32 bytes, right-padded with zeros (Go `copy` into a `[32]byte`) -/
def parseRes (s : String) : Option Res :=
  match s.splitOn ":" with
  | [i, a, f] => do
    let b ← fromHex i
    if b.length > 32 then none
    pure ⟨beToNat (rightPad 32 b), ← a.toNat?, ← f.toInt?⟩
  | _ => none

def parseVout (s : String) : Option Vout :=
  match s.splitOn ":" with
  | [a, v, t] => do pure ⟨← a.toNat?, (← v.toNat?) * 100000000, t == "t"⟩
  | _ => none

def parseTx (s : String) : Option Tx :=
  match s.splitOn "~" with
  | [d, vs] => do
    let data ← if d = "bad" then some Data.bad else if d = "none" then some Data.missing else (d.toNat?).map Data.dest
    pure ⟨data, ← (items vs ",").mapM parseVout⟩
  | _ => none

def showBtc (ms : List (Nat × Nat × Int × String)) : String :=
  let ds := ((ms.map (·.1)).eraseDups).mergeSort (· ≤ ·)
  joinOr (ds.map fun d =>
    toString d ++ "=" ++ ",".intercalate ((ms.filter (·.1 == d)).map fun m => s!"{hex2 m.2.1}.{m.2.2.1}.{m.2.2.2}")) ";"

def parseDep (i : Nat) (s : String) : Option Dep :=
  if s.startsWith "x" then ((s.drop 1).toString.toNat?).map fun d => ⟨d, i, true⟩
  else (s.toNat?).map fun d => ⟨d, i, false⟩

/-- the model: the Go loop over an association list, printed with destinations ascending -/
def showGroups (src : Nat) (s e : Int) (ds : List Dep) : String :=
  let m := groupLoop src s e ds
  let dd := (m.map (·.1)).mergeSort (· ≤ ·)
  joinOr (dd.map fun d =>
    toString d ++ "=" ++ ",".intercalate ((lookupD m d).map fun x => s!"{x.1}.{x.2}")) ";"

def parseGroups (s : String) : Option (List (Nat × List (Nat × String))) :=
  (items s ";").mapM fun g =>
    match g.splitOn "=" with
    | [d, ms] => do
      let d ← d.toNat?
      let ms ← (ms.splitOn ",").mapM fun m =>
        match m.splitOn "." with
        | [n, id] => do pure (← n.toNat?, id)
        | _ => none
      pure (d, ms)
    | _ => none

/-- the property: exactly the destinations of the surviving deposits, each group = the deposits to it in log
    order under the range's message id -/
def groupsOk (src : Nat) (s e : Int) (ds : List Dep) (gs : List (Nat × List (Nat × String))) : Bool :=
  (gs.map (·.1)).mergeSort (· ≤ ·) == (dests ds).mergeSort (· ≤ ·) &&
  gs.all fun g => g.2 == groupOf src s e ds g.1

/-- one relayer of the two-relayer op: `conf,nh,cfgStart,flags,stored0,boot,lifetimes` -/
def parseRel (kind : Kind) (k : Int) (s : String) : Option (Cfg × Wiring × Option Int × List (List SRound)) :=
  match s.splitOn "," with
  | [conf, nh, cfgStart, flags, stored0, boot, lifes] => do
    let stored0 ← if stored0 = "none" then some none else (stored0.toInt?).map some
    let ls ← (lifes.splitOn "|").mapM parseLife
    pure (⟨kind, k, ← conf.toInt?, ← nh.toNat?⟩, ⟨← cfgStart.toInt?, flags.contains 'L', flags.contains 'F', ← boot.toInt?⟩, stored0, ls)
  | _ => none

/-- deposits of the fixed fake chain seen through the ranges handed to handler 0: nonce ↦ message ids -/
def seenIds (kind : Kind) (h : List (Option Int × List Obs)) : List (Nat × String) :=
  (histCalls h).flatMap fun c =>
    if c.idx != 0 then [] else
    if kind == .btc then (if c.s < 0 then [] else [(c.s.toNat, btcMsgId 1 (2 + c.s.toNat % 2) c.s)]) else
    (List.range (c.e - c.s + 1).toNat).filterMap fun (i : Nat) =>
      let b : Int := c.s + Int.ofNat i
      if b < 0 then none else some (b.toNat, msgId 1 (2 + b.toNat % 2) c.s c.e)

def idsOf (xs : List (Nat × String)) (n : Nat) : String :=
  "+".intercalate ((((xs.filter (·.1 == n)).map (·.2)).eraseDups).mergeSort (· ≤ ·))

/-- groups of one range under a constant id prefix (`retry-` for the retry handlers) -/
def showGroupsP (pre : String) (src : Nat) (s e : Int) (ds : List Dep) : String :=
  let m := groupLoop src s e ds
  let dd := (m.map (·.1)).mergeSort (· ≤ ·)
  joinOr (dd.map fun d =>
    toString d ++ "=" ++ ",".intercalate ((lookupD m d).map fun x => s!"{x.1}.{pre}{x.2}")) ";"

def idsVerdict (pre tag : String) (src s e ds impl : String) : Verdict := Id.run do
  let some src := src.toNat? | return bad
  let some s := s.toInt? | return bad
  let some e := e.toInt? | return bad
  let some ds := ((items ds ",").zipIdx.mapM fun (x, i) => parseDep i x) | return bad
  let m := showGroupsP pre src s e ds
  -- property: one result for every instance/history, each group = the surviving deposits to that destination in log
  -- order, every id = prefix ++ the range's message id
  let ok := !(impl.contains '|') && match parseGroups impl with
    | some gs =>
      gs.all (fun g => g.2.all fun x => x.2.startsWith pre) &&
      groupsOk src s e ds (gs.map fun g => (g.1, g.2.map fun x => (x.1, (x.2.drop pre.length).toString)))
    | none => false
  return ⟨m, ok, s!"{tag}:n={min ds.length 4}:dests={min (dests ds).length 3}"⟩

def handle (op : String) (args : List String) (impl : String) : Option Verdict :=
  match op, args with
  | "appboot", [k, conf, head, doms] => some <| Id.run do
    let some k := k.toInt? | return bad
    let some conf := conf.toInt? | return bad
    let some head := head.toInt? | return bad
    -- per domain: wiring and initial store content
    let some ws := (items doms ",").mapM (fun d =>
      if d == "L" then some ((⟨0, true, false, head⟩ : Wiring), (none : Option Int))
      else if d.startsWith "c" then ((d.drop 1).toString.toInt?).map fun v => (⟨v, false, false, head⟩, none)
      else if d.startsWith "s" then ((d.drop 1).toString.toInt?).map fun v => (⟨0, false, false, head⟩, some v)
      else none) | return bad
    if k == 0 then return bad
    let cfg : Cfg := ⟨.evm, k, conf, 1⟩
    let starts := ws.map fun (w, st) => startOf cfg w st
    let m := ";".intercalate (starts.map fun s => match s with
      | some c => s!"{c}-{c + k - 1}+{c + k}-{c + 2 * k - 1}"
      | none => "?")
    -- property: every range the real app.Run makes the node read is a cell of the partition fixed by the interval,
    -- consecutive ranges are adjacent, and a domain with a start block does not begin above it
    let parts := impl.splitOn ";"
    let ok := parts.length == ws.length && (parts.zip ws).all fun (p, (w, st)) =>
      match (p.splitOn "+").mapM (fun r => match r.splitOn "-" with
        | [a, b] => do pure ((← a.toInt?), (← b.toInt?))
        | _ => none) with
      | some [(a1, b1), (a2, b2)] =>
        decide (a1 % k = 0 ∧ b1 = a1 + k - 1 ∧ a2 = b1 + 1 ∧ b2 = a2 + k - 1) && (w.latest || decide (a1 ≤ gsb w st))
      | _ => false
    return ⟨m, ok, s!"appboot:domains={min ws.length 3}:latest={ws.any (·.1.latest)}:stored={ws.any (·.2.isSome)}"⟩
  | "evmsigsession", args => some <| Id.run do
    -- the ids the signing processes RUN under = the ids of the delivery's signed batches, `<messageID>-<batch index>`
    let some one := Sygma.Drv.C14.handle "exec" args "" | return bad
    if one.model == "err" then return ⟨"-", impl == "-", "evmsigsession:lookup-error"⟩
    let sids := ((items one.model ";").map fun it => (it.splitOn "=").headD "").mergeSort (· ≤ ·)
    let m := joinOr sids ","
    let distinct := (items impl ",").eraseDups.length == (items impl ",").length
    return ⟨m, impl == m && distinct, s!"evmsigsession:batches={min sids.length 3}"⟩
  | "subsession", [msgId, statuses] => some <| Id.run do
    let pending := (items statuses ",").any (· == "p")
    -- the Substrate executor signs a delivery under its message id — for every relayer, fresh or not
    let m := if pending then subSessionId msgId else "-"
    return ⟨m, impl == m, s!"subsession:pending={pending}:n={min (items statuses ",").length 3}"⟩
  | "btcsessionu", [_msgId, n, np, unk] => some <| Id.run do
    let some n := n.toNat? | return bad
    -- transfers of an unconfigured resource in the same delivery do not keep the configured resource from being signed,
    -- under the same per-input session ids on every relayer and in every run (map order must not decide)
    return ⟨s!"same:{n}", impl == s!"same:{n}", s!"btcsessionu:inputs={n}:props={np}:unknown={unk}"⟩
  | "btcsession", [_msgId, n, np] => some <| Id.run do
    let some n := n.toNat? | return bad
    -- per-input session ids = hex sighashes: identical for every relayer / history, one per input
    return ⟨s!"same:{n}", impl.startsWith "same:", s!"btcsession:inputs={n}:props={np}"⟩
  | "evmoutage", [src, ranges] => some <| Id.run do
    let some src := src.toNat? | return bad
    let rs := (ranges.splitOn "/").zipIdx
    let some parsed := rs.mapM (fun (r, i) => match r.splitOn ":" with
      | [o, ds] => do
        let ds ← ((items ds ",").zipIdx.mapM fun ((x : String), (j : Nat)) => parseDep j (String.ofList (x.toList.filter (· != 'b'))))
        pure (o == "o", (Int.ofNat (10 * i)), (Int.ofNat (10 * i + 4)), ds)
      | _ => none) | return bad
    -- a range handled while the lookup is down loses its deposits (code as it is; see C05's known finding) — every
    -- OTHER range must yield exactly its own deposits under its own ids, as a relayer that never saw the outage does
    let m := "/".intercalate (parsed.map fun ((o : Bool), s, e, ds) => if o then "-" else showGroups src s e ds)
    let outs := impl.splitOn "/"
    let ok := outs.length == parsed.length && (parsed.zip outs).all fun (((o : Bool), s, e, ds), out) =>
      o || (match parseGroups out with
        | some gs => groupsOk src s e ds gs
        | none => false)
    return ⟨m, ok, s!"evmoutage:ranges={min parsed.length 4}:outage={parsed.any (·.1)}"⟩
  | "subids", [src, s, e, ds] => some (idsVerdict "" "subids" src s e ds impl)
  | "subretryids", [src, s, e, _h, ds] => some (idsVerdict "retry-" "subretryids" src s e ds impl)
  | "evmretry1ids", [src, s, e, ds] => some (idsVerdict "retry-" "evmretry1ids" src s e ds impl)
  | "evmretry2ids", [dom, _s, _e, evs] => some <| Id.run do
    let some dom := dom.toNat? | return bad
    let some es := (items evs ",").mapM (fun it => match it.splitOn "." with
      | [a, b, h] => do pure ((← a.toNat?), (← b.toNat?), (← h.toInt?))
      | _ => none) | return bad
    let lines := (es.map fun (a, b, h) => s!"{retryV2MsgId a b}/{dom}/{a}/{a}.{b}.{h}").mergeSort (· ≤ ·)
    -- property: one message per event, its id a function of the event's own (source, destination) only
    let its := items impl ","
    let ok := !(impl.contains '|') && its.length == es.length && its.all fun it =>
      match it.splitOn "/" with
      | [id, _, _, ev] => (match ev.splitOn "." with
        | [a, b, _] => (match a.toNat?, b.toNat? with
          | some a, some b => id == retryV2MsgId a b
          | _, _ => false)
        | _ => false)
      | _ => false
    return ⟨joinOr lines ",", ok, s!"evmretry2ids:n={min es.length 3}"⟩
  | "btccredit", [block, rs, feeAddr, txs] => some <| Id.run do
    let some block := block.toInt? | return bad
    let some rs := (items rs ";").mapM parseRes | return bad
    let some feeAddr := feeAddr.toNat? | return bad
    let some txs := (items txs "/").mapM parseTx | return bad
    let m := showBtc (btcBlock 1 block feeAddr rs txs)
    -- property: one result whatever the map iteration order, and every credited resource is one the transaction pays
    let multi := txs.any fun tx => (rs.filter fun r => (decode feeAddr tx r).isSome).length > 1
    -- … and it is the result of the rule itself: per transaction the FIRST resource in resource-id order that the
    -- transaction is a deposit to (`credit feeAddr (sortRes rs)`), its amount, the id `source-destination-block`;
    -- `m` is exactly that (`btcBlock` is defined through `credit (sortRes rs)`), so a wrong resource, a wrong amount, a
    -- dropped or an invented transaction all fail here
    let ok := !(impl.contains '|') && impl != "err" && impl == m
    return ⟨m, ok, s!"btccredit:txs={min txs.length 3}:res={min rs.length 3}:multi={multi}:any={m != "-"}"⟩
  | "btcnonce", [_, _] => some ⟨"same", impl == "same", "btcnonce"⟩
  | "evmids", [src, s, e, ds] => some <| Id.run do
    let some src := src.toNat? | return bad
    let some s := s.toInt? | return bad
    let some e := e.toInt? | return bad
    let some ds := ((items ds ",").zipIdx.mapM fun (x, i) => parseDep i x) | return bad
    let m := showGroups src s e ds
    let ok := match parseGroups impl with
      | some gs => groupsOk src s e ds gs
      | none => false
    return ⟨m, ok, s!"evmids:n={min ds.length 4}:dests={min (dests ds).length 3}"⟩
  | "tworel", [kind, k, ra, rb] => some <| Id.run do
    let some kind := parseKind kind | return bad
    let some k := k.toInt? | return bad
    let some (cfgA, wA, stA, lsA) := parseRel kind k ra | return bad
    let some (cfgB, wB, stB, lsB) := parseRel kind k rb | return bad
    let hA := runAll cfgA wA stA lsA
    let hB := runAll cfgB wB stB lsB
    let (iA, iB) := (seenIds kind hA, seenIds kind hB)
    let common := (((iA.map (·.1)).filter fun n => iB.any (·.1 == n)).eraseDups).mergeSort (· ≤ ·)
    let ids := joinOr (common.map fun n => s!"{n}={idsOf iA n}/{idsOf iB n}") ","
    let m := s!"A:{showHist hA}#B:{showHist hB}#ids:{ids}"
    -- property on the implementation's output
    let ok := match impl.splitOn "#" with
      | [a, b, i] =>
        match parseHist (a.drop 2).toString, parseHist (b.drop 2).toString with
        | some ha, some hb =>
          rangesOk cfgA ha hb &&
          (items (i.drop 4).toString ",").all fun it =>
            match it.splitOn "=" with
            | [_, p] => match p.splitOn "/" with
              | [x, y] => x == y && !(x.contains '+')
              | _ => false
            | _ => false
        | _, _ => false
      | _ => false
    let overlap := (histCalls hA).any fun c1 => (histCalls hB).any fun c2 => decide (c1.s ≤ c2.e ∧ c2.s ≤ c1.e)
    return ⟨m, ok, s!"tworel:{kindStr kind}:overlap={overlap}:common={min common.length 3}"⟩
  -- the per-batch signing session ids of the EVM executor (`<message id>-<batch index>`): what `Execute` hashes and signs
  -- and under which session id, as a function of the delivery only (model and predicate are C14's `exec`)
  | "evmsession2", args => some <| Id.run do
    -- the same delivery executed twice on one Executor: both rounds are the history-free sessions of the delivery
    let some one := Sygma.Drv.C14.handle "exec" args "" | return bad
    let parts := impl.splitOn "#"
    let each := parts.all fun p => match Sygma.Drv.C14.handle "exec" args p with
      | some v => v.propOk
      | none => false
    let ok := parts.length == 2 && each && parts.headD "" == parts.getD 1 "?"
    return ⟨one.model ++ "#" ++ one.model, ok, "evmsession2:" ++ one.tag⟩
  | "evminterleave", [src, s1, e1, s2, e2, order, ds] => some <| Id.run do
    let some src := src.toNat? | return bad
    let some s1 := s1.toInt? | return bad
    let some e1 := e1.toInt? | return bad
    let some s2 := s2.toInt? | return bad
    let some e2 := e2.toInt? | return bad
    let some ds := ((items ds ",").zipIdx.mapM fun (x, i) => parseDep i x) | return bad
    let m := "A:" ++ showGroups src s1 e1 ds ++ "#B:" ++ showGroups src s2 e2 ds
    -- each call's messages carry the ids of ITS OWN range, whatever else the handler object is doing meanwhile
    let ok := match impl.splitOn "#" with
      | [a, b] =>
        (match parseGroups (a.drop 2).toString with | some gs => a.startsWith "A:" && groupsOk src s1 e1 ds gs | none => false) &&
        (match parseGroups (b.drop 2).toString with | some gs => b.startsWith "B:" && groupsOk src s2 e2 ds gs | none => false)
      | _ => false
    return ⟨m, ok, s!"evminterleave:{order}:n={min ds.length 3}"⟩
  | "evmsession", args => (Sygma.Drv.C14.handle "exec" args impl).map fun v => { v with tag := "evmsession:" ++ v.tag }
  | _, _ => none

end Sygma.Drv.C19
