import SygmaModel.Drv.Util
import SygmaModel.Model.C15
namespace Sygma.Drv.C15
open Sygma.C15

/-- `ty,addr,sats,hex[,variant]` (the variant only changes how the harness spells the same decimal) -/
def parseVout (s : String) : Option Vout :=
  match s.splitOn "," with
  | ty :: addr :: sats :: hx :: _ => do
    let a ← addr.toNat?
    let d ← sats.toNat?
    let t := if ty = "t" then VType.taproot else if ty = "n" then VType.nulldata else VType.other
    pure ⟨t, a, d, fromHex hx⟩
  | _ => none

def parseVouts (s : String) : Option (List Vout) := (items s ";").mapM parseVout

def showDec : Dec → String
  | .err => "err" | .panic => "panic" | .notDeposit => "none"
  | .deposit a d => s!"dep/{a}/{toHexW d}"

def parseDec (s : String) : Option Dec :=
  if s = "err" then some .err else if s = "panic" then some .panic else if s = "none" then some .notDeposit
  else match s.splitOn "/" with
    | ["dep", a, d] => do pure (.deposit (← a.toNat?) (← fromHex d))
    | _ => none

/-- would truncation of the hardware product differ from the decimal? (coverage tag only; Lean `Float` = the same binary64) -/
def truncDiffers (d : Nat) : Bool :=
  (Float.ofScientific d true 8 * 1e8).floor.toUInt64.toNat != d

def showMsg (src height : Nat) (m : Msg) : String :=
  s!"{m.dest}/{m.nonce}/{toHexW m.amount}/{toHexW m.recipient}/{src}-{m.dest}-{height}/{src}/07aa"

/-- `dest/nonce/amounthex/recipienthex/msgid/src/rid` → message, provided the identity fields are the ones passed in -/
def parseMsg (src height : Nat) (s : String) : Option Msg :=
  match s.splitOn "/" with
  | [d, n, a, r, mid, sc, rid] => do
    let d ← d.toNat?
    let n ← n.toNat?
    let a ← fromHex a
    let r ← fromHex r
    if mid = s!"{src}-{d}-{height}" ∧ sc = toString src ∧ rid = "07aa" then pure ⟨d, n, a, r⟩ else none
  | _ => none

def parseTx (s : String) : Option Tx :=
  match s.splitOn "~" with
  | [h, vs] => do pure ⟨← fromHex h, ← parseVouts vs⟩
  | _ => none

/-- remove the first element satisfying `p` -/
def takeFirst (p : Msg → Bool) : List Msg → Option (Msg × List Msg)
  | [] => none
  | m :: ms => if p m then some (m, ms) else (takeFirst p ms).map fun (x, r) => (x, m :: r)

/-- every transaction in block order either accounts for one emitted message that satisfies P15tx, or P15tx holds with
    nothing emitted; no emitted message is left over -/
def checkBlock (height b f : Nat) (fa : Int) : List Tx → List Msg → Bool
  | [], rest => rest.isEmpty
  | tx :: txs, rest =>
    match takeFirst (fun m => decide (P15tx height b f fa tx (some m))) rest with
    | some (_, rest') => checkBlock height b f fa txs rest'
    | none => decide (P15tx height b f fa tx none) && checkBlock height b f fa txs rest

/-! ### `events`: one handler across a sequence of HandleEvents calls, several resources from the real NewBtcConfig -/

def ridHex (rid : Nat) : String := toHex [UInt8.ofNat rid, 0xaa]

def showMsgR (src height : Nat) (x : Nat × Msg) : String :=
  let m := x.2
  s!"{m.dest}/{m.nonce}/{toHexW m.amount}/{toHexW m.recipient}/{src}-{m.dest}-{height}/{src}/{ridHex x.1}"

def parseMsgR (src height : Nat) (s : String) : Option (Nat × Msg) :=
  match s.splitOn "/" with
  | [d, n, a, r, mid, sc, rid] => do
    let d ← d.toNat?
    let n ← n.toNat?
    let a ← fromHex a
    let r ← fromHex r
    let ridB ← fromHex rid
    match ridB with
    | [x, 0xaa] => if mid = s!"{src}-{d}-{height}" ∧ sc = toString src then pure (x.toNat, ⟨d, n, a, r⟩) else none
    | _ => none
  | _ => none

def parseRes (s : String) : Option Res :=
  match s.splitOn "," with
  | [rid, a, f] => do pure ⟨← rid.toNat?, ← a.toNat?, ← f.toInt?⟩
  | _ => none

def takeFirstR (p : Nat × Msg → Bool) : List (Nat × Msg) → Option ((Nat × Msg) × List (Nat × Msg))
  | [] => none
  | m :: ms => if p m then some (m, ms) else (takeFirstR p ms).map fun (x, r) => (x, m :: r)

/-- every transaction of the block accounts for exactly one forwarded message satisfying P15txR, or P15txR holds with nothing
    forwarded; nothing forwarded is left over (so: nothing twice, nothing lost, nothing invented) -/
def checkBlockR (height f : Nat) (rs : List Res) : List Tx → List (Nat × Msg) → Bool
  | [], rest => rest.isEmpty
  | tx :: txs, rest =>
    match takeFirstR (fun m => decide (P15txR height f rs tx (some m))) rest with
    | some (_, rest') => checkBlockR height f rs txs rest'
    | none => decide (P15txR height f rs tx none) && checkBlockR height f rs txs rest

/-- group by destination: ascending destinations, block order inside a batch -/
def batchesOf (ms : List (Nat × Msg)) : List (List (Nat × Msg)) :=
  let dests := ((ms.map (·.2.dest)).eraseDups).mergeSort (· ≤ ·)
  dests.map fun d => ms.filter (·.2.dest = d)

structure Call where
  height : Nat
  fault  : Nat
  txs    : List Tx

def parseCall (s : String) : Option Call :=
  match s.splitOn "^" with
  | [h, f, txs] => do pure ⟨← h.toNat?, ← f.toNat?, ← (items txs "|").mapM parseTx⟩
  | _ => none

/-- the history-free answer to one HandleEvents call -/
def modelCall (src f : Nat) (rs : List Res) (c : Call) : String :=
  if c.fault ≠ 0 then "err"
  else joinOr ((batchesOf (processR c.height f rs c.txs)).map fun b => joinOr (b.map (showMsgR src c.height)) ";") "+"

/-- the property on what one call actually did: a failed fetch forwards nothing and reports the error; otherwise one batch
    per destination, and the forwarded messages are exactly the block's credited deposits, each once -/
def checkCall (src f : Nat) (rs : List Res) (c : Call) (impl : String) : Bool :=
  if c.fault ≠ 0 then impl == "err"
  else
    match (items impl "+").mapM (fun b => (items b ";").mapM (parseMsgR src c.height)) with
    | none => false
    | some bs =>
      bs.all (fun b => !b.isEmpty && b.all (fun m => some m.2.dest == (b.head?.map (·.2.dest)))) &&
      decide ((bs.filterMap (·.head?.map (·.2.dest))).eraseDups.length = bs.length) &&
      checkBlockR c.height f rs c.txs bs.flatten

/-- do the runs `a+n` spell exactly start, start+1, …, start+cnt-1 (any `none*n` / `err*n` run: no) -/
def creditedAre (start cnt : Nat) (runs : List String) : Bool :=
  let r := runs.foldl (fun (acc : Option Nat) run =>
    acc.bind fun next =>
      match run.splitOn "+" with
      | [a, n] => match a.toNat?, n.toNat? with
        | some a, some n => if a = next ∧ 0 < n then some (next + n) else none
        | _, _ => none
      | _ => none) (some start)
  r == some (start + cnt)

/-- unparsable arguments (the runner rejects BADARGS candidates when it shrinks a structured argument) -/
def badArgs : Verdict := ⟨"BADARGS", false, "badargs"⟩

def handle (op : String) (args : List String) (impl : String) : Option Verdict :=
  match op, args with
  | "decode", [b, f, fa, vs] => some <| Id.run do
    let some b := b.toNat? | return badArgs
    let some f := f.toNat? | return badArgs
    let some fa := fa.toInt? | return badArgs
    let some vs := parseVouts vs | return badArgs
    let m := decode b f fa vs
    let ok := match parseDec impl with
      | some o => decide (P15dec b f fa vs o)
      | none => false
    let kind := match m with | .err => "err" | .panic => "panic" | .notDeposit => "none" | .deposit _ _ => "dep"
    let tag := s!"decode:{kind}:n={min vs.length 4}:wf={WF vs}:bridge={paysBridge b vs}:trunc-differs={vs.any (fun v => truncDiffers v.sats)}"
    return ⟨showDec m, ok, tag⟩
  | "convrange", [start, cnt, mode] => some <| Id.run do
    let some start := start.toNat? | return badArgs
    let some cnt := cnt.toNat? | return badArgs
    -- impl = run-length encoding of the amounts the real code credited for d = start … start+cnt-1 (`a+n` = a, a+1, …, a+n-1);
    -- property: the d-th credited amount is d — evaluated here on the decoded sequence
    let ok := creditedAre start cnt (items impl ",")
    return ⟨if cnt = 0 then "-" else s!"{start}+{cnt}", ok, s!"convrange:{mode}"⟩
  | "handle", [src, nonce, blk, amt, data] => some <| Id.run do
    let some src := src.toNat? | return badArgs
    let some nonce := nonce.toNat? | return badArgs
    let some blk := blk.toNat? | return badArgs
    let some amt := amt.toNat? | return badArgs
    let some data := fromHex data | return badArgs
    let m := handleDeposit amt data
    let ms := match m with
      | .err => "err" | .panic => "panic"
      | .msg d a r => "msg/" ++ showMsg src blk ⟨d, nonce, a, r⟩
    let out : Option HOut :=
      if impl = "err" then some .err else if impl = "panic" then some .panic
      else if impl.startsWith "msg/" then
        (parseMsg src blk (impl.drop 4).toString).bind fun x => if x.nonce = nonce then some (.msg x.dest x.amount x.recipient) else none
      else none
    let ok := match out with | some o => decide (P15handle amt data o) | none => false
    let kind := match m with | .err => "err" | .panic => "panic" | .msg _ _ _ => "msg"
    return ⟨ms, ok, s!"handle:{kind}:fields={min (splitOn 0x5f data).length 3}:addrlen={min ((fromHexGeth (field0 data)).length / 10) 3}"⟩
  | "nonce", [h, tx] => some <| Id.run do
    let some h := h.toNat? | return badArgs
    let some tx := fromHex tx | return badArgs
    -- property: the value is calculateNonce(height, tx hash) — a function of those two alone (the op also runs handlers
    -- with different state and prints `nondeterministic` if they disagree)
    let ok := impl.toNat? == some (calculateNonce h tx)
    return ⟨toString (calculateNonce h tx), ok, s!"nonce:len={min tx.length 64}"⟩
  | "sha", [m] => some <| Id.run do
    let some m := fromHex m | return badArgs
    let r := toHex (Sha256.hash m)
    return ⟨r, r == impl, s!"sha:blocks={(m.length + 9 + 63) / 64}"⟩
  | "process", [src, height, b, f, fa, txs] => some <| Id.run do
    let some src := src.toNat? | return badArgs
    let some height := height.toNat? | return badArgs
    let some b := b.toNat? | return badArgs
    let some f := f.toNat? | return badArgs
    let some fa := fa.toInt? | return badArgs
    let some txs := (items txs "|").mapM parseTx | return badArgs
    if height = 0 then return ⟨"err", impl == "err", "process:fetch-error"⟩   -- the harness fails the block fetch at height 0
    let ms := (process height b f fa txs).mergeSort (fun x y => x.dest ≤ y.dest)
    let ok := match (items impl ";").mapM (parseMsg src height) with
      | some out => checkBlock height b f fa txs out
      | none => false
    return ⟨joinOr (ms.map (showMsg src height)) ";", ok, s!"process:txs={min txs.length 4}:msgs={min ms.length 3}"⟩
  | "events", [src, f, rs, calls] => some <| Id.run do
    let some src := src.toNat? | return badArgs
    let some f := f.toNat? | return badArgs
    let some rs := (items rs ";").mapM parseRes | return badArgs
    let rs := rs.mergeSort (fun a b => a.rid ≤ b.rid)     -- ProcessDeposits matches resources in resource-id order
    let some cs := (calls.splitOn "!").mapM parseCall | return badArgs
    let m := "!".intercalate (cs.map (modelCall src f rs))
    let outs := impl.splitOn "!"
    let ok := outs.length == cs.length && (cs.zip outs).all fun (c, o) => checkCall src f rs c o
    let dests := (cs.map fun c => (batchesOf (processR c.height f rs c.txs)).length).foldl max 0
    let repeated := decide ((cs.map (·.height)).eraseDups.length < cs.length)
    return ⟨m, ok, s!"events:calls={min cs.length 4}:res={min rs.length 3}:max-dests={min dests 3}:faults={cs.any (·.fault ≠ 0)}:repeated-height={repeated}"⟩
  | _, _ => none

end Sygma.Drv.C15
