import SygmaModel.Drv.Util
import SygmaModel.Model.C14
import SygmaModel.Drv.C03
namespace Sygma.Drv.C14
open Sygma.C14

/-- `none`|`<gas>` `:` `p`|`e`  e.g. `n:p;100:e` -/
def parseP (s : String) : Option (PIn × Bool) :=
  -- an optional third field (source domain) does not influence batching
  match (s.splitOn ":").take 2 with
  | [g, st] => do
    let gas ← if g = "n" then some none else (g.toNat?).map some
    let ex ← if st = "p" || st = "x" then some false else if st = "e" then some true else none
    pure (⟨gas, ex⟩, st = "x")
  | _ => none

def showSigned (xs : List (String × List Nat)) : String :=
  let ss := xs.map fun x => x.1 ++ "=" ++ joinOr (x.2.map toString) ","
  joinOr (ss.mergeSort (fun a b => a ≤ b)) ";"

def showBt (b : Bt) : String :=
  joinOr (b.members.map (fun m => toString m.1)) "," ++ "/" ++ toString b.gas

def showBs (bs : List Bt) : String := joinOr (bs.map showBt) ";"

/-- parse an implementation output back into batches, attaching allowances by index lookup in `pend` -/
def parseBs (pend : List (Nat × Nat)) (s : String) : Option (List Bt) :=
  (items s ";").mapM fun b =>
    match b.splitOn "/" with
    | [ms, g] => do
      let idx ← natList ms
      let gas ← g.toNat?
      let mem ← idx.mapM fun i => (pend.find? (·.1 = i))
      pure ⟨mem, gas⟩
    | _ => none

def handleCore (op : String) (args : List String) (impl : String) : Option Verdict :=
  match op, args with
  | "batches", [cap, tg, ps] => some <| Id.run do
    let some cap := cap.toNat? | return bad
    let some tg := tg.toNat? | return bad
    let some psx := (items ps ";").mapM parseP | return bad
    if psx.any (·.2) then return ⟨"err", impl == "err", "batches:lookup-error"⟩
    let ps := psx.map (·.1)
    let pend := pending tg ps
    let m := batches cap tg ps
    let wraps := decide (M ≤ sumGas pend)
    let tag := s!"batches:n={min ps.length 4}:b={min m.length 3}:wrap={wraps}:gasmeta={ps.any (·.gas.isSome)}:exec={ps.any (·.executed)}"
    let ok := match parseBs pend impl with
      | some bs => wraps || decide (P14 cap pend bs)
      | none => false
    return ⟨showBs m, ok, tag⟩
  | "batchseq", [cap, tg, dels] => some <| Id.run do
    let some cap := cap.toNat? | return bad
    let some tg := tg.toNat? | return bad
    let ds := dels.splitOn "|"
    let outs := impl.splitOn "|"
    let mut ms : List String := []
    let mut ok := outs.length == ds.length
    for (d, o) in ds.zip (outs ++ List.replicate ds.length "") do
      let some psx := (items d ";").mapM parseP | return bad
      match batchesOpt cap tg psx with
      | none => ms := ms ++ ["err"]; ok := ok && o == "err"
      | some bs =>
        let pend := pending tg (psx.map (·.1))
        ms := ms ++ [showBs bs]
        ok := ok && (match parseBs pend o with
          | some ibs => decide (M ≤ sumGas pend) || decide (P14 cap pend ibs)
          | none => false)
    return ⟨"|".intercalate ms, ok, s!"batchseq:d={min ds.length 4}"⟩
  | "submit", [cap, tg, ps] => some <| Id.run do
    let some cap := cap.toNat? | return bad
    let some tg := tg.toNat? | return bad
    let some psx := (items ps ";").mapM parseP | return bad
    match batchesOpt cap tg psx with
    | none => return ⟨"err", impl == "err", "submit:lookup-error"⟩
    | some bs =>
      let pend := pending tg (psx.map (·.1))
      let sent := bs.filter (·.members ≠ [])
      -- property on the impl output: every submitted transaction carries exactly its members' allowances,
      -- and together they are the pending proposals in order
      let ok := match parseBs pend impl with
        | some ibs => decide (M ≤ sumGas pend) ||
            (decide ((ibs.map (·.members)).flatten = pend) && ibs.all (fun b => b.gas == sumGas b.members && b.members ≠ []))
        | none => false
      return ⟨showBs sent, ok, s!"submit:tx={min sent.length 3}:overcap={sent.any (fun b => decide (cap < b.gas))}"⟩
  | "exec", [cap, tg, msgId, ps] => some <| Id.run do
    let some cap := cap.toNat? | return bad
    let some tg := tg.toNat? | return bad
    let some psx := (items ps ";").mapM parseP | return bad
    match batchesOpt cap tg psx with
    | none => return ⟨"err", impl == "err", "exec:lookup-error"⟩
    | some bs =>
      let m := showSigned (signed msgId bs)
      -- property on the impl output: no empty signed batch, session ids pairwise distinct,
      -- signed members = pending in order (after sorting by position is not needed: compare as sets of lines)
      let implItems := items impl ";"
      let sids := implItems.map fun it => (it.splitOn "=").headD ""
      let mems := implItems.map fun it => ((it.splitOn "=").getD 1 "-")
      let nonEmpty := mems.all (· ≠ "-")
      -- the session ids are observed through the log line that announces a session; when the source does not log them
      -- (no such line any more) every id reads `?`: the id clauses are then not observable HERE (they are checked on the
      -- ids the signing processes really run under, op `sigsession`) and only the batch contents are judged
      let unobserved := implItems ≠ [] && sids.all (· == "?")
      let distinct := unobserved || sids.eraseDups.length == sids.length
      -- every session id is `<message id>-<decimal batch position>`
      let wellFormed := unobserved || sids.all fun sid =>
        sid.startsWith (msgId ++ "-") && ((sid.drop (msgId.length + 1)).toString.toNat?).isSome
      let allIdx := (mems.filterMap natList).flatten
      let part := allIdx.mergeSort == (pending tg (psx.map (·.1))).map (·.1)
      let m' := if unobserved then ";".intercalate (((items m ";").map fun it => "?=" ++ ((it.splitOn "=").getD 1 "-")).mergeSort (· ≤ ·)) else m
      return ⟨m', nonEmpty && distinct && wellFormed && part && impl != "err",
        s!"exec:signed={min (signed msgId bs).length 3}{if unobserved then ":sid-unobserved" else ""}"⟩
  -- the ids the EVM signing processes actually RUN under (real NewSigning + real coordinator; op shared with C19):
  -- `<messageID>-<batch index>` for every non-empty batch, pairwise distinct
  | "sigsession", [cap, tg, msgId, ps] => some <| Id.run do
    let some cap := cap.toNat? | return bad
    let some tg := tg.toNat? | return bad
    let some psx := (items ps ";").mapM parseP | return bad
    match batchesOpt cap tg psx with
    | none => return ⟨"-", impl == "-", "sigsession:lookup-error"⟩
    | some bs =>
      let sids := ((signed msgId bs).map (·.1)).mergeSort (· ≤ ·)
      let m := joinOr sids ","
      let distinct := (items impl ",").eraseDups.length == (items impl ",").length
      return ⟨m, impl == m && distinct, s!"sigsession:batches={min sids.length 3}"⟩
  -- what reaches ExecuteProposals after executed-status ticks that precede the signature (real watchExecution; op and
  -- model shared with C03): the batch that was hashed, with its own gas limit, unchanged
  | "sigwatch", args => (Sygma.Drv.C03.handle "sigwatch" args impl).map fun v => { v with tag := "c14:" ++ v.tag }
  | "session", [msgId, i] => some <| Id.run do
    let some i := i.toNat? | return bad
    let m := sessionId msgId i
    return ⟨m, m == impl, "session"⟩
  | _, _ => none

def handle (op : String) (args : List String) (impl : String) : Option Verdict :=
  match op, args with
  | "submitlate", [cap, tg, ps, late] =>
    -- members reported executed only AFTER batching do not change what is submitted: same model, same predicate
    (handleCore "submit" [cap, tg, ps] impl).map fun v =>
      { v with tag := "late=" ++ toString (late != "-") ++ ":" ++ v.tag }
  | _, _ => handleCore op args impl

end Sygma.Drv.C14
