import SygmaModel.Drv.C08
import SygmaModel.Drv.C14
import SygmaModel.Drv.C18
namespace Sygma.Drv

def dispatch (prop op : String) (args : List String) (impl : String) : Option Verdict :=
  match prop with
  | "C08" => C08.handle op args impl
  | "C14" => C14.handle op args impl
  | "C18" => C18.handle op args impl
  | _ => none

end Sygma.Drv
