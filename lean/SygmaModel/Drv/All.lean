import SygmaModel.Drv.C04
import SygmaModel.Drv.C05
import SygmaModel.Drv.C14
import SygmaModel.Drv.C19
namespace Sygma.Drv

def dispatch (prop op : String) (args : List String) (impl : String) : Option Verdict :=
  match prop with
  | "C04" => C04.handle op args impl
  | "C05" => C05.handle op args impl
  | "C14" => C14.handle op args impl
  | "C19" => C19.handle op args impl
  | _ => none

end Sygma.Drv
