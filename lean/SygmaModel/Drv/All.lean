import SygmaModel.Drv.C02
import SygmaModel.Drv.C13
import SygmaModel.Drv.C14
namespace Sygma.Drv

def dispatch (prop op : String) (args : List String) (impl : String) : Option Verdict :=
  match prop with
  | "C02" => C02.handle op args impl
  | "C13" => C13.handle op args impl
  | "C14" => C14.handle op args impl
  | _ => none

end Sygma.Drv
