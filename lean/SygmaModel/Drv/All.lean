import SygmaModel.Drv.C12
import SygmaModel.Drv.C14
import SygmaModel.Drv.C20
namespace Sygma.Drv

def dispatch (prop op : String) (args : List String) (impl : String) : Option Verdict :=
  match prop with
  | "C12" => C12.handle op args impl
  | "C14" => C14.handle op args impl
  | "C20" => C20.handle op args impl
  | _ => none

end Sygma.Drv
