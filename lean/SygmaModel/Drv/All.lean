import SygmaModel.Drv.C07
import SygmaModel.Drv.C11
import SygmaModel.Drv.C14
namespace Sygma.Drv

def dispatch (prop op : String) (args : List String) (impl : String) : Option Verdict :=
  match prop with
  | "C07" => C07.handle op args impl
  | "C11" => C11.handle op args impl
  | "C14" => C14.handle op args impl
  | _ => none

end Sygma.Drv
