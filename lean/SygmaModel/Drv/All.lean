import SygmaModel.Drv.C09
import SygmaModel.Drv.C10
import SygmaModel.Drv.C14
namespace Sygma.Drv

def dispatch (prop op : String) (args : List String) (impl : String) : Option Verdict :=
  match prop with
  | "C09" => C09.handle op args impl
  | "C10" => C10.handle op args impl
  | "C14" => C14.handle op args impl
  | _ => none

end Sygma.Drv
