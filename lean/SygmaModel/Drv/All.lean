import SygmaModel.Drv.C01
import SygmaModel.Drv.C06
import SygmaModel.Drv.C14
namespace Sygma.Drv

def dispatch (prop op : String) (args : List String) (impl : String) : Option Verdict :=
  match prop with
  | "C01" => C01.handle op args impl
  | "C06" => C06.handle op args impl
  | "C14" => C14.handle op args impl
  | _ => none

end Sygma.Drv
