import SygmaModel.Drv.Util
import SygmaModel.Model.C01
namespace Sygma.Drv.C01
open Sygma.C01

/-- tail-recursive hex decoding (multi-megabyte calldata lines); shadows `Sygma.fromHex` in this file -/
def fromHexGo' : List Char → Array UInt8 → Option (Array UInt8)
  | [], acc => some acc
  | [_], _ => none
  | a :: b :: rest, acc =>
    match hexVal a, hexVal b with
    | some x, some y => fromHexGo' rest (acc.push (UInt8.ofNat (x * 16 + y)))
    | _, _ => none

def fromHex (s : String) : Option Bytes :=
  if s = "-" then some [] else (fromHexGo' s.toList #[]).map (·.toList)

def parseType : String → Option TType
  | "fungible" => some .fungible | "semiFungible" => some .semiFungible | "nonFungible" => some .nonFungible
  | "permissionedGeneric" => some .permissionedGeneric | "permissionlessGeneric" => some .permissionlessGeneric | _ => none

/-- payload item `b:<hex>` or `i:<n,n,…>` -/
def parseItem (s : String) : Option PItem :=
  if s.startsWith "b:" then (fromHex (s.drop 2).toString).map PItem.bytes
  else if s.startsWith "i:" then (natList (s.drop 2).toString).map PItem.ints
  else none

def lenBucket (n : Nat) : String :=
  if n < 256 then "<256" else if n < 65536 then "<65536" else "≥65536"

def itemLen : PItem → Nat
  | .bytes b => b.length
  | .ints xs => xs.length

def parseSk : String → Option SrcKind
  | "erc20" => some .erc20 | "erc721" => some .erc721 | "erc1155" => some .erc1155
  | "generic" => some .generic | "sub" => some .sub | "btc" => some .btc | _ => none

def parseDk : String → Option DstKind
  | "evm" => some .evm | "sub" => some .sub | "btc" => some .btc | _ => none

def showGas : Option Nat → String
  | none => "n"
  | some g => toString g

def showOut : Out → String
  | .errSrc => "err:src" | .panicSrc => "panic:src" | .errDst => "err:dst" | .panicDst => "panic:dst"
  | .ok p =>
    let d := match p.data with
      | .evm b => toHexW b
      | .btc a r => toString a ++ "/" ++ toHexW r
    s!"ok:{p.id.src}:{p.id.dst}:{p.id.nonce}:{toHexW p.id.rid}:{d}:{showGas p.gas}"

def parseOut (s : String) : Option Out :=
  match s with
  | "err:src" => some .errSrc | "panic:src" => some .panicSrc | "err:dst" => some .errDst | "panic:dst" => some .panicDst
  | _ =>
    match s.splitOn ":" with
    | ["ok", src, dst, nonce, rid, d, g] => do
      let src ← src.toNat?
      let dst ← dst.toNat?
      let nonce ← nonce.toNat?
      let rid ← fromHex rid
      let gas ← if g = "n" then some none else g.toNat?.map some
      let data ← match d.splitOn "/" with
        | [h] => (fromHex h).map PData.evm
        | [a, r] => do
          let a ← a.toNat?
          let r ← fromHex r
          pure (PData.btc a r)
        | _ => none
      pure (.ok ⟨⟨src, dst, nonce, rid⟩, data, gas⟩)
    | _ => none

def outClass : Out → String
  | .ok _ => "ok" | .errSrc => "errSrc" | .panicSrc => "panicSrc" | .errDst => "errDst" | .panicDst => "panicDst"

def parseInput (sk dk s d nonce rid a1 a2 : String) : Option Input := do
  let sk' ← parseSk sk
  let dk' ← parseDk dk
  let s ← s.toNat?
  let d ← d.toNat?
  let nonce ← nonce.toNat?
  let rid ← fromHex rid
  match sk' with
  | .sub => do
    let cd ← fromHex a1
    let tt ← a2.toNat?
    pure ⟨sk', dk', ⟨s, d, nonce, rid⟩, cd, [], tt⟩
  | .btc => do
    let sat ← a1.toNat?
    let text ← fromHex a2
    pure ⟨sk', dk', ⟨s, d, nonce, rid⟩, text, [], sat⟩
  | _ => do
    let cd ← fromHex a1
    let resp ← fromHex a2
    pure ⟨sk', dk', ⟨s, d, nonce, rid⟩, cd, resp, 0⟩

/-- one step of `hseq`: kind,fault,src,dst,nonce,rid,calldata,resp -/
def parseStep (dk : String) (st : String) : Option (Input × String) :=
  match st.splitOn "," with
  | [sk, fault, s, d, nonce, rid, a1, a2] => (parseInput sk dk s d nonce rid a1 a2).map fun i => (i, fault)
  | _ => none

/-- one deposit of `range`: kind,dst,nonce,rid,calldata,resp (the source domain is the handler's) -/
def parseRangeStep (dk src : String) (st : String) : Option Input :=
  match st.splitOn "," with
  | [sk, d, nonce, rid, a1, a2] => parseInput sk dk src d nonce rid a1 a2
  | _ => none

def handle (op : String) (args : List String) (impl : String) : Option Verdict :=
  match op, args with
  | "relay", [sk, dk, s, d, nonce, rid, a1, a2] => some <| Id.run do
    let some sk' := parseSk sk | return bad
    let some dk' := parseDk dk | return bad
    let some s := s.toNat? | return bad
    let some d := d.toNat? | return bad
    let some nonce := nonce.toNat? | return bad
    let some rid := fromHex rid | return bad
    let inp : Option Input := match sk' with
      | .sub => do
        let cd ← fromHex a1
        let tt ← a2.toNat?
        pure ⟨sk', dk', ⟨s, d, nonce, rid⟩, cd, [], tt⟩
      | .btc => do
        let sat ← a1.toNat?
        let text ← fromHex a2
        pure ⟨sk', dk', ⟨s, d, nonce, rid⟩, text, [], sat⟩
      | _ => do
        let cd ← fromHex a1
        let resp ← fromHex a2
        pure ⟨sk', dk', ⟨s, d, nonce, rid⟩, cd, resp, 0⟩
    let some inp := inp | return bad
    let m := relay inp
    let wf := (expected inp).isSome
    let ok := match parseOut impl with
      | some o => decide (P01 inp o)
      | none => false
    return ⟨showOut m, ok, s!"{sk}>{dk}:{if wf then "wf" else "nwf"}:{outClass m}"⟩
  -- two deposits relayed one after the other, both proposals inspected only after the second exists
  -- (a proposal must not change when a later message is handled)
  | "relay2", [sk, dk, s, d, nonce, rid, a1, a2, sk2, dk2, s2, d2, nonce2, rid2, b1, b2] => some <| Id.run do
    let some i1 := parseInput sk dk s d nonce rid a1 a2 | return bad
    let some i2 := parseInput sk2 dk2 s2 d2 nonce2 rid2 b1 b2 | return bad
    let m1 := relay i1
    let m2 := relay i2
    let ok := match impl.splitOn "|" with
      | [o1, o2] => (match parseOut o1, parseOut o2 with
          | some x, some y => decide (P01 i1 x) && decide (P01 i2 y)
          | _, _ => false)
      | _ => false
    return ⟨showOut m1 ++ "|" ++ showOut m2, ok, s!"seq:{sk}>{dk},{sk2}>{dk2}:{outClass m1}:{outClass m2}"⟩
  -- a message handed directly to the destination handler
  | "msg", [dk, typ, s, d, nonce, rid, payload, gas] => some <| Id.run do
    let some dk' := parseDk dk | return bad
    let some typ' := parseType typ | return bad
    let some s := s.toNat? | return bad
    let some d := d.toNat? | return bad
    let some nonce := nonce.toNat? | return bad
    let some rid := fromHex rid | return bad
    let some pl := (items payload ";").mapM parseItem | return bad
    let some gas := (if gas = "n" then some none else gas.toNat?.map some) | return bad
    let m : Msg := ⟨⟨s, d, nonce, rid⟩, typ', pl, gas⟩
    let o := destOut dk' m
    let wf := (expectedMsg dk' m).isSome
    let ok := match parseOut impl with
      | some x => decide (P01m dk' m x)
      | none => false
    let mx := pl.foldl (fun a i => max a (itemLen i)) 0
    return ⟨showOut o, ok, s!"msg:{typ}>{dk}:{if wf then "fits" else "nofit"}:{outClass o}:maxfield{lenBucket mx}"⟩
  -- several deposits in ONE polled range / ONE retried transaction: each comes out with its own identity and payload
  | "range", [mode, dk, src, steps] => some <| Id.run do
    let some parsed := (items steps ";").mapM (parseRangeStep dk src) | return bad
    -- the deposits that yield a message, ordered by (nonce, destination) like the implementation's answer
    let live := parsed.filter fun i => match relay i with
      | .errSrc | .panicSrc => false
      | _ => true
    let sorted := live.mergeSort fun a b => a.id.nonce < b.id.nonce || (a.id.nonce == b.id.nonce && a.id.dst ≤ b.id.dst)
    let model := joinOr (sorted.map fun i => showOut (relay i)) "|"
    let outs := items impl "|"
    let ok := outs.length == sorted.length && (sorted.zip outs).all fun (i, o) =>
      match parseOut o with
      | some x => decide (P01 i x)
      | none => false
    return ⟨model, ok, s!"range:{mode}:n={min parsed.length 6}:live={min sorted.length 6}"⟩
  -- ONE ETHDepositHandler over a sequence of deposits of different resources, the handler lookup failing at scripted steps
  | "hseq", [dk, steps] => some <| Id.run do
    let some parsed := (items steps ";").mapM (parseStep dk) | return bad
    let model := parsed.map fun (i, fault) => if fault = "ok" then showOut (relay i) else "err:src"
    let outs := impl.splitOn "|"
    let ok := outs.length == parsed.length && (parsed.zip outs).all fun ((i, fault), o) =>
      if fault = "ok" then
        match parseOut o with
        | some x => decide (P01 i x)
        | none => false
      else o == "err:src" || o == "panic:src"   -- a failed lookup never yields a proposal
    let faults := (parsed.filter fun p => p.2 ≠ "ok").length
    return ⟨"|".intercalate model, ok, s!"hseq:steps={min parsed.length 6}:faults={min faults 3}"⟩
  -- ONE listener + handler object, the same deposit handled k times: every answer is the history-free one
  | "seq", [mode, k, sk, dk, s, d, nonce, rid, a1, a2] => some <| Id.run do
    let some k := k.toNat? | return bad
    let some inp := parseInput sk dk s d nonce rid a1 a2 | return bad
    let one := match relay inp with
      | .errSrc | .panicSrc => "none"
      | o => showOut o
    let m := "|".intercalate (List.replicate k one)
    let outs := impl.splitOn "|"
    let ok := outs.length == k && outs.all fun o =>
      match (if o = "none" then some Out.errSrc else parseOut o) with
      | some x => decide (P01 inp x)
      | none => false
    return ⟨m, ok, s!"seq:{mode}:{sk}>{dk}:{if (expected inp).isSome then "wf" else "nwf"}:{if one = "none" then "none" else outClass (relay inp)}"⟩
  -- a V2 retry message from another domain through the source chain's RetryMessageHandler: identity stays the deposit's
  | "retrymsg", [chain, _r, sk, dk, s, d, nonce, rid, a1, a2] => some <| Id.run do
    let some inp := parseInput sk dk s d nonce rid a1 a2 | return bad
    -- the retry asks for (resource, destination) = the deposit's own; a deposit addressed elsewhere is filtered out
    let dstOk := match source inp with
      | .ok msg => msg.id.dst == inp.id.dst
      | _ => true
    let m := if !dstOk then "none" else match relay inp with
      | .errSrc | .panicSrc => "none"
      | o => showOut o
    -- a deposit addressed to another destination than the retry names must NOT be forwarded
    let ok := if !dstOk then impl == "none" else
      match (if impl = "none" then some Out.errSrc else parseOut impl) with
      | some x => decide (P01 inp x)
      | none => false
    return ⟨m, ok, s!"retrymsg:{chain}:{sk}>{dk}:{if (expected inp).isSome then "wf" else "nwf"}:{if m = "none" then "none" else outClass (relay inp)}"⟩
  | "e2e", [sk, dk, s, d, nonce, rid, a1, a2] => some <| Id.run do
    let some sk' := parseSk sk | return bad
    let some dk' := parseDk dk | return bad
    let some s := s.toNat? | return bad
    let some d := d.toNat? | return bad
    let some nonce := nonce.toNat? | return bad
    let some rid := fromHex rid | return bad
    let some cd := fromHex a1 | return bad
    let some resp := fromHex a2 | return bad
    let inp : Input := ⟨sk', dk', ⟨s, d, nonce, rid⟩, cd, resp, 0⟩
    -- inside ProcessDeposits a handler error is logged and a panic recovered: no message
    let m := match relay inp with
      | .errSrc | .panicSrc => "none"
      | o => showOut o
    let wf := (expected inp).isSome
    let ok := match (if impl = "none" then some Out.errSrc else parseOut impl) with
      | some o => decide (P01 inp o)
      | none => false
    return ⟨m, ok, s!"e2e:{sk}>{dk}:{if wf then "wf" else "nwf"}:{if m = "none" then "none" else outClass (relay inp)}"⟩
  | _, _ => none

end Sygma.Drv.C01
