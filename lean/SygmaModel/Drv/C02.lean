import SygmaModel.Drv.Util
import SygmaModel.Model.C02
namespace Sygma.Drv.C02
open Sygma.C02 Sygma.Keccak

/-- `origin:nonce:rid:data` -/
def parseProp (s : String) : Option Prop' :=
  match s.splitOn ":" with
  | [o, n, r, d] => do
    let o ← o.toNat?
    let n ← n.toNat?
    let r ← fromHex r
    let d ← fromHex d
    pure ⟨o, n, r, d⟩
  | _ => none

def parseProps (s : String) : Option (List Prop') := (items s ";").mapM parseProp

/-- `common.IsHexAddress` + `common.HexToAddress`: optional 0x/0X prefix, then exactly 40 hex digits -/
def parseAddr (s : String) : Option Bytes :=
  let cs := s.toList
  let cs := match cs with
    | '0' :: 'x' :: rest => rest
    | '0' :: 'X' :: rest => rest
    | _ => cs
  if cs.length = 40 then fromHexChars cs else none

def wire (s : String) : String := if s = "-" then "" else s

def showH (o : Option Bytes) : String := match o with | some h => toHex h | none => "err"

def handle (op : String) (args : List String) (impl : String) : Option Verdict :=
  match op, args with
  | "keccak", [m] => some <| Id.run do
    let some b := fromHex m | return bad
    let out := toHex (keccak256 b)
    return ⟨out, out == impl, s!"keccak:blocks={min (b.length / 136) 3}"⟩
  | "hash", [chain, contract, ver, ps] => some <| Id.run do
    let some chain := chain.toInt? | return bad
    let some ps := parseProps ps | return bad
    let contract := wire contract
    let ver := wire ver
    let addr := parseAddr contract
    let m := proposalsHash keccak256 ps chain (contract == "") addr ver
    let wf := ps.all (fun p => decide p.WF)
    let chainOk := decide (0 ≤ chain ∧ chain < 2 ^ 63)
    let tag := s!"hash:n={min ps.length 3}:{if m.isSome then "ok" else "err"}:chain={if chainOk then "ok" else "neg"}:addr={if addr.isSome then "ok" else "bad"}:ver={if ver = "3.1.0" then "std" else if ver = "" then "empty" else "other"}"
    -- the property: what is handed to signing is the contract's EIP-712 digest; on an input for which the
    -- contract has no digest (negative chain id, no address, no version) nothing may be produced at all
    let ok := match addr with
      | some a => if wf && chainOk && ver != "" then impl == toHex (Spec.digestV keccak256 ver chain.toNat a ps) else impl == "err"
      | none => impl == "err"
    return ⟨showH m, ok, tag⟩
  | "evmhash", [chain, addr, ps] => some <| Id.run do
    let some ps := parseProps ps | return bad
    let some a := fromHex addr | return bad
    if chain = "x" then return ⟨"err", impl == "err", "evmhash:client-error"⟩
    let some c := chain.toNat? | return bad
    let m := showH (evmProposalsHash keccak256 ps c a)
    let inRange := decide (c < 2 ^ 63)
    let ok := if inRange then impl == toHex (Spec.digest keccak256 c a ps) else impl == m
    return ⟨m, ok, s!"evmhash:n={min ps.length 3}:int64={inRange}"⟩
  | "subhash", [chain, ps] => some <| Id.run do
    let some ps := parseProps ps | return bad
    let some c := chain.toNat? | return bad
    let m := showH (palletProposalsHash keccak256 ps c)
    let inRange := decide (c < 2 ^ 63)
    let ok := if inRange then impl == toHex (Spec.digest keccak256 c palletContract ps) else impl == m
    return ⟨m, ok, s!"subhash:n={min ps.length 3}:int64={inRange}"⟩
  | "evmsig", [r, s, rec] => sig "evmsig" r s rec
  | "subsig", [r, s, rec] => sig "subsig" r s rec
  | "evmcall", [ps, sg] => some <| Id.run do
    let some pl := parseProps ps | return bad
    let some _ := fromHex sg | return bad
    -- the batch the contract receives (and hashes) is the batch that was hashed for signing, in order; signature unchanged
    let m := ps ++ "|" ++ sg
    return ⟨m, impl == m, s!"evmcall:n={min pl.length 3}"⟩
  | "recover", _ => some ⟨"ok", impl == "ok", "recover(test)"⟩
  | _, _ => none
where
  sig (op r s rec : String) : Option Verdict := some <| Id.run do
    let some r := fromHex r | return bad
    let some s := fromHex s | return bad
    let some rec := fromHex rec | return bad
    let m := match sigBytes r s rec with | some b => toHex b | none => "panic"
    let inScope := r.length ≤ 32 && s.length ≤ 32 && rec.length == 1
    let ok := if inScope then
        match fromHex impl, rec with
        | some b, [v] => decide (SigOk (beToNat r) (beToNat s) v b)
        | _, _ => false
      else impl == m
    let short := r.length < 32 || s.length < 32
    return ⟨m, ok, s!"{op}:scope={inScope}:short={short}:rec={match rec with | [v] => toString (min v.toNat 4) | _ => "x"}"⟩

end Sygma.Drv.C02
