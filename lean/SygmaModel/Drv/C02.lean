import SygmaModel.Drv.Util
import SygmaModel.Model.C02
import SygmaModel.Model.C14
namespace Sygma.Drv.C02
open Sygma.C02 Sygma.Keccak

/-- `origin:nonce:rid:data` -/
def parseProp (s : String) : Option Prop' :=
  match s.splitOn ":" with
  | [o, n, r, d] => do
    let o ← o.toNat?
    let n ← n.toNat?
    let r ← fromHex r
    let d ← fromHex d
    pure ⟨o, n, r, d⟩
  | _ => none

def parseProps (s : String) : Option (List Prop') := (items s ";").mapM parseProp

/-- `common.IsHexAddress` + `common.HexToAddress`: optional 0x/0X prefix, then exactly 40 hex digits -/
def parseAddr (s : String) : Option Bytes :=
  let cs := s.toList
  let cs := match cs with
    | '0' :: 'x' :: rest => rest
    | '0' :: 'X' :: rest => rest
    | _ => cs
  if cs.length = 40 then fromHexChars cs else none

def wire (s : String) : String := if s = "-" then "" else s

def showH (o : Option Bytes) : String := match o with | some h => toHex h | none => "err"

def handle (op : String) (args : List String) (impl : String) : Option Verdict :=
  match op, args with
  | "keccak", [m] => some <| Id.run do
    let some b := fromHex m | return bad
    let out := toHex (keccak256 b)
    return ⟨out, out == impl, s!"keccak:blocks={min (b.length / 136) 3}"⟩
  | "hash", [chain, contract, ver, ps] => some <| Id.run do
    let some chain := chain.toInt? | return bad
    let some ps := parseProps ps | return bad
    let contract := wire contract
    let ver := wire ver
    let addr := parseAddr contract
    let m := proposalsHash keccak256 ps chain (contract == "") addr ver
    let wf := ps.all (fun p => decide p.WF)
    let chainOk := decide (0 ≤ chain ∧ chain < 2 ^ 63)
    let tag := s!"hash:n={min ps.length 3}:{if m.isSome then "ok" else "err"}:chain={if chainOk then "ok" else "neg"}:addr={if addr.isSome then "ok" else "bad"}:ver={if ver = "3.1.0" then "std" else if ver = "" then "empty" else "other"}"
    -- the property: what is handed to signing is the contract's EIP-712 digest; on an input for which the
    -- contract has no digest (negative chain id, no address, no version) nothing may be produced at all
    let ok := match addr with
      | some a => if wf && chainOk && ver != "" then impl == toHex (Spec.digestV keccak256 ver chain.toNat a ps) else impl == "err"
      | none => impl == "err"
    return ⟨showH m, ok, tag⟩
  | "evmhash", [chain, addr, ps] => some <| Id.run do
    let some ps := parseProps ps | return bad
    let some a := fromHex addr | return bad
    if chain = "x" then return ⟨"err", impl == "err", "evmhash:client-error"⟩
    let some c := chain.toNat? | return bad
    let m := showH (evmProposalsHash keccak256 ps c a)
    let inRange := decide (c < 2 ^ 63)
    let ok := if inRange then impl == toHex (Spec.digest keccak256 c a ps) else impl == m
    return ⟨m, ok, s!"evmhash:n={min ps.length 3}:int64={inRange}"⟩
  | "subhash", [chain, ps] => some <| Id.run do
    let some ps := parseProps ps | return bad
    let some c := chain.toNat? | return bad
    let m := showH (palletProposalsHash keccak256 ps c)
    let inRange := decide (c < 2 ^ 63)
    let ok := if inRange then impl == toHex (Spec.digest keccak256 c palletContract ps) else impl == m
    return ⟨m, ok, s!"subhash:n={min ps.length 3}:int64={inRange}"⟩
  | "evmsig", [r, s, rec] => sig "evmsig" r s rec
  | "subsig", [r, s, rec] => sig "subsig" r s rec
  | "evmcall", [ps, sg] => some <| Id.run do
    let some pl := parseProps ps | return bad
    let some _ := fromHex sg | return bad
    -- the batch the contract receives (and hashes) is the batch that was hashed for signing, in order; signature unchanged
    let m := ps ++ "|" ++ sg
    return ⟨m, impl == m, s!"evmcall:n={min pl.length 3}"⟩
  | "watchsig", [kind, n, script, gas, _after] => some <| Id.run do
    let some n := n.toNat? | return bad
    let sweeps := items script "/"
    let members := joinOr ((List.range n).map toString) ","
    -- the watch loop ends as "already executed" at the first sweep that finds every member executed; otherwise the
    -- signature arrives after the scripted sweeps and the batch that was handed in (= hashed) is what is submitted
    let out := watch (List.range n) (sweeps.map fun w => w.toList.map (· == 'e'))
    let closes := out == .closed
    let g := if kind = "evm" then gas else "-"
    let m := (match out with
      | .closed => "closed"
      | .submitted b => s!"sub:{joinOr (b.map toString) ","}/{g}/65") ++ s!"|caller={members}"
    let ok := match impl.splitOn "|" with
      | [what, caller] =>
        caller == s!"caller={members}" &&
          (what == "closed" || (what.startsWith "sub:" && (((what.drop 4).toString.splitOn "/").headD "") == members && (what.splitOn ";").length == 1))
      | _ => false
    return ⟨m, ok, s!"watchsig:{kind}:n={min n 4}:sweeps={min sweeps.length 3}:closes={closes}"⟩
  | "execwatch", [kind, cap, tg, gases] => some <| Id.run do
    let some cap := cap.toNat? | return bad
    let some tg := tg.toNat? | return bad
    let gases := if gases.startsWith "r:" then (gases.drop 2).toString else gases
    -- per proposal: gas metadata, already executed (suffix e), ProposalsHash fails for its batch (suffix x)
    let some gs := (items gases ",").mapM (fun g =>
      let fx := g.endsWith "x"
      let g := if fx then (g.dropEnd 1).toString else g
      let ex := g.endsWith "e"
      let g := if ex then (g.dropEnd 1).toString else g
      if g = "n" then some (none, ex, fx) else g.toNat?.map (fun v => (some v, ex, fx))) | return bad
    let ps : List Sygma.C14.PIn := gs.map fun g => ⟨g.1, g.2.1⟩
    let failIdx := (gs.zipIdx.filter fun g => g.1.2.2).map (·.2)
    let pendingIdx := (ps.zipIdx.filter fun p => !p.1.executed).map (·.2)
    let batches : List (List Nat) :=
      if kind = "evm" then ((Sygma.C14.batches cap tg ps).map fun b => b.members.map (·.1)).filter (· ≠ [])
      else if pendingIdx.isEmpty then [] else [pendingIdx]
    let fails := fun (b : List Nat) => b.any (failIdx.contains ·)
    -- a batch whose hash cannot be computed is neither signed nor watched; the others are hashed in delivery order
    let hs := (batches.map fun b => (if fails b then "!" else "") ++ joinOr (b.map toString) ",").mergeSort (fun a b => a ≤ b)
    let watched := (batches.filter (!fails ·)).flatten
    let polls := joinOr (watched.map fun i => s!"{i}:1") ","
    let m := s!"H={joinOr hs ";"}|polls={polls}|ret={if batches.any fails then "err" else "nil"}"
    -- property on the implementation's output: what is hashed is a batch of the delivery IN ITS ORDER (identical on
    -- every relayer); every successfully hashed batch is watched as itself, nothing is watched (or signed) for a batch
    -- whose hash failed
    let ok := match impl.splitOn "|" with
      | [h, p, r] =>
        let hb := items (h.drop 2).toString ";"
        let okB := (hb.filter (!·.startsWith "!"))
        let inOrder := okB.all fun b => (batches.map fun x => joinOr (x.map toString) ",").contains b
        let hashedMembers := (okB.flatMap fun b => items b ",").mergeSort (fun a b => a ≤ b)
        let polled := ((items (p.drop 6).toString ",").map fun e => e.splitOn ":")
        let polledOnce := polled.all fun e => e.getD 1 "" == "1"
        let polledMembers := (polled.map fun e => e.headD "").mergeSort (fun a b => a ≤ b)
        h.startsWith "H=" && p.startsWith "polls=" && inOrder && polledOnce && polledMembers == hashedMembers && r != "ret=stuck"
      | _ => false
    return ⟨m, ok, s!"execwatch:{kind}:n={min ps.length 4}:batches={min batches.length 4}:hashfail={batches.any fails}"⟩
  | "execsign", [kind, cap, tg, gases] => some <| Id.run do
    let some cap := cap.toNat? | return bad
    let some tg := tg.toNat? | return bad
    let some gs := (items gases ",").mapM (fun g =>
      let ex := g.endsWith "e"
      let g := if ex then (g.dropEnd 1).toString else g
      if g = "n" then some (none, ex) else g.toNat?.map (fun v => (some v, ex))) | return bad
    let ps : List Sygma.C14.PIn := gs.map fun g => ⟨g.1, g.2⟩
    let pendingIdx := (ps.zipIdx.filter fun p => !p.1.executed).map (·.2)
    let bs := if kind = "evm" then ((Sygma.C14.batches cap tg ps).map fun b => b.members.map (·.1)).filter (· ≠ [])
      else if pendingIdx.isEmpty then [] else [pendingIdx]
    let subs := (bs.map fun b => "ok:" ++ joinOr (b.map toString) ",").mergeSort (fun a b => a ≤ b)
    let m := s!"subs={joinOr subs ";"}|left=-"
    -- property: every submission carries a signature of the group key over the digest of the batch it is submitted with
    -- (the destination recomputes and recovers), and every pending proposal gets submitted exactly once
    let ok := match impl.splitOn "|" with
      | [sb, lf] =>
        let recs := items (sb.drop 5).toString ";"
        let members := (recs.flatMap fun r => items (((r.splitOn ":").getD 1 "-")) ",").mergeSort (fun a b => a ≤ b)
        sb.startsWith "subs=" && recs.all (·.startsWith "ok:") && lf == "left=-" &&
          members == (pendingIdx.map toString).mergeSort (fun a b => a ≤ b)
      | _ => false
    return ⟨m, ok, s!"execsign:{kind}:n={min ps.length 4}:batches={min bs.length 4}"⟩
  | "bseq", [kind, chain, addr, handler, steps, batches] => some <| Id.run do
    let some c := chain.toNat? | return bad
    let some a := fromHex addr | return bad
    let some _ := fromHex handler | return bad
    let some bs := (batches.splitOn "/").mapM parseProps | return bad
    let st := items steps ","
    let hashOf := fun (k : Nat) =>
      let b := bs.getD (k % bs.length) []
      if kind = "evm" then showH (evmProposalsHash keccak256 b c a) else showH (palletProposalsHash keccak256 b c)
    let specOf := fun (k : Nat) =>
      let b := bs.getD (k % bs.length) []
      toHex (Spec.digest keccak256 c (if kind = "evm" then a else palletContract) b)
    let pks := st.filterMap fun s => if s.startsWith "p" then (s.drop 1).toString.toNat? else none
    let nh := if kind = "evm" then (st.filter (· == "h")).length else 0
    let addrOut := if kind = "evm" then addr else "-"
    let m := joinOr (pks.map hashOf) "," ++ "|addr=" ++ addrOut ++ "|h=" ++ joinOr (List.replicate nh handler) ","
    -- property: whatever happened to the object before, each digest is the contract's for (chain id, bridge address, batch)
    let ok := match impl.splitOn "|" with
      | [ds, ad, _] => ad == "addr=" ++ addrOut && (if c < 2 ^ 63 then items ds "," == pks.map specOf else items ds "," == pks.map hashOf)
      | _ => false
    return ⟨m, ok, s!"bseq:{kind}:steps={min st.length 6}:lookups={min nh 2}:hashes={min pks.length 3}"⟩
  | "recover", _ => some ⟨"ok", impl == "ok", "recover(test)"⟩
  | _, _ => none
where
  sig (op r s rec : String) : Option Verdict := some <| Id.run do
    let some r := fromHex r | return bad
    let some s := fromHex s | return bad
    let some rec := fromHex rec | return bad
    let m := match sigBytes r s rec with | some b => toHex b | none => "panic"
    let inScope := r.length ≤ 32 && s.length ≤ 32 && rec.length == 1
    let ok := if inScope then
        match fromHex impl, rec with
        | some b, [v] => decide (SigOk (beToNat r) (beToNat s) v b)
        | _, _ => false
      else impl == m
    let short := r.length < 32 || s.length < 32
    return ⟨m, ok, s!"{op}:scope={inScope}:short={short}:rec={match rec with | [v] => toString (min v.toNat 4) | _ => "x"}"⟩

end Sygma.Drv.C02
