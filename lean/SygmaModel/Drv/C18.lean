import SygmaModel.Drv.Util
import SygmaModel.Model.C18
namespace Sygma.Drv.C18
open Sygma.C18

/-- `key=value` fields separated by `;` -/
def field (fs : List String) (k : String) : Option String :=
  fs.findSome? fun f => match f.splitOn "=" with
    | [a, b] => if a = k then some b else none
    | _ => none

def pPath : Path := "data.json"
def tPath : Path := "data.json.tmp"

def showStatus : Status → String
  | .ok => "ok" | .err => "err" | .died => "died"

def parseStatus : String → Option Status
  | "ok" => some .ok | "err" => some .err | "died" => some .died | _ => none

def isPrefix : Bytes → Bytes → Bool
  | [], _ => true
  | _ :: _, [] => false
  | a :: as, b :: bs => a == b && isPrefix as bs

/-- how the harness names a file content relative to the previous and the new encoding -/
def classify (old : Option Bytes) (new : Bytes) : Option Bytes → String
  | none => "absent"
  | some c =>
    if c = new then "new"
    else if some c = old then "old"
    else if c.length < new.length && isPrefix c new then s!"pre{c.length}"
    else "other"

/-- what the getter returns for a file of that class (complete encodings decode, everything else is an error;
    for prefixes this is the JSON decoder's behaviour, assumed) -/
def getterOf : String → String
  | "new" => "new" | "old" => "old" | _ => "err"

/-- a witness content for a class named by the implementation -/
def unclassify (old : Option Bytes) (new : Bytes) (s : String) : Option Bytes :=
  if s = "new" then some new
  else if s = "old" then (match old with | some o => some o | none => some [255])
  else if s = "absent" || s = "err" then none
  else if s.startsWith "pre" then (match (s.drop 3).toString.toNat? with | some j => some (new.take j) | none => some [255])
  else some [255]

/-- `store` (ro = false) and `storero` (ro = true: the process may not create files in the directory, so
    `os.CreateTemp` fails with EACCES before anything is written — fault `fail 0`, whatever the write fault would be) -/
def handleStore (ro : Bool) (kind mode k oldS newS : String) (impl : String) : Verdict := Id.run do
    -- a value the encoder refuses (variant bit 4 of the value spec): marshalling fails before any file-system call, the
    -- store returns an error and nothing has changed — whatever fault mode was armed
    let unstorable := match newS.splitOn "." with
      | [_, _, _, _, _, v] => (v.toNat?.getD 0) / 4 % 2 == 1
      | _ => false
    let some k := k.toNat? | return bad
    let fsI := impl.splitOn ";"
    -- the lengths of the two encodings are library output (JSON); the model takes them from the run
    let some n := field fsI "n" | return ⟨"UNPARSABLE", false, "store:unparsable"⟩
    let some [a, b, c] := natList n | return ⟨"UNPARSABLE", false, "store:unparsable"⟩
    let newB : Bytes := List.replicate b 2
    let old : Option Bytes :=
      if oldS = "-" then none else some (if c = 1 then newB else List.replicate a 1)
    let fs0 : FS := FS.set (fun _ => none) pPath old
    let prog := storeAtomic pPath tPath newB
    -- RLIMIT_FSIZE = k: the kernel cuts the write of the b bytes short iff k < b
    let fault : Option Fault :=
      if mode = "none" then some .none
      else if mode = "fail" then some (if k < b then .fail 1 k [] else .none)
      else if mode = "die" then some (if k < b then .die 1 k else .none)
      else none
    let some fault := fault | return bad
    let fault := if ro || unstorable then Fault.fail 0 0 [] else fault
    let fs1 := exec prog fault fs0
    let st := status prog fault
    let file := classify old newB (fs1 pPath)
    let left := if (fs1 tPath).isSome then 1 else 0
    let m := s!"n={a},{b},{c};st={showStatus st};file={file};get={getterOf file};left={left}"
    -- the property on the implementation's output: both what is on disk and what the real getter returned
    let ok := match field fsI "st" >>= parseStatus, field fsI "file", field fsI "get" with
      | some ist, some ifile, some iget =>
        decide (P18 old newB ist (unclassify old newB ifile)) && decide (P18 old newB ist (unclassify old newB iget)) &&
          -- atomic_store_no_fault / atomic_fail_no_litter: no temp file survives a store that RETURNED (ok or err)
          (left != 0 || field fsI "left" == some "0") &&
          -- a value that cannot be encoded cannot have been stored: the store must not claim success
          (!unstorable || ist == .err)
      | _, _, _ => false
    let big := if b ≥ 1048576 then "1M" else if b ≥ 65536 then "64k" else if b ≥ 4096 then "4k" else "small"
    let tag := s!"{if ro then "storero" else if unstorable then "store-unencodable" else "store"}:{kind}:{mode}:{showStatus st}:{(file.take 3).toString}:old={oldS != "-"}:same={c}:{big}"
    return ⟨m, ok, tag⟩

/-- content of the value of class `c` with encoding length `len` (distinct classes get distinct bytes) -/
def synth (c len : Nat) : Bytes := List.replicate len (UInt8.ofNat (c + 1))

structure SeqStep where
  cls : Nat
  len : Nat
  st : String
  file : String
  get : String
  left : Nat

def parseSeqStep (s : String) : Option SeqStep :=
  match s.splitOn "," with
  | [c, l, st, f, g, lf] => do pure ⟨← c.toNat?, ← l.toNat?, st, f, g, ← lf.toNat?⟩
  | _ => none

/-- name a content relative to the values seen so far (first matching class) -/
def classifySeq (seen : List (Nat × Nat)) : Option Bytes → String
  | none => "absent"
  | some c => match seen.find? (fun v => synth v.1 v.2 == c) with
    | some v => s!"v{v.1}"
    | none => s!"x{c.length}"

/-- a witness content for what the implementation reported -/
def unclassifySeq (seen : List (Nat × Nat)) (s : String) : Option Bytes :=
  if s = "absent" || s = "err" then none
  else if s.startsWith "v" then
    match (s.drop 1).toString.toNat? with
    | some c => (match seen.find? (·.1 == c) with | some v => some (synth v.1 v.2) | none => some [255])
    | none => some [255]
  else some [255]

def handleSeq (kind steps : String) (impl : String) : Verdict := Id.run do
  let specs := (items steps ";").map (·.splitOn ":")
  let some outs := (items impl "/").mapM parseSeqStep | return ⟨"UNPARSABLE", false, "seq:unparsable"⟩
  if outs.length != specs.length then return ⟨"UNPARSABLE", false, "seq:unparsable"⟩
  let mut fs : FS := fun _ => none
  let mut seen : List (Nat × Nat) := []
  let mut tmps : List Path := []
  let mut ms : List String := []
  let mut ok := true
  let mut prevObs : Option Bytes := none       -- what the IMPLEMENTATION had at the path before this step
  let mut prevGet : Option Bytes := none
  let mut j := 0
  let mut dies := 0
  let mut shorter := false
  for (spec, o) in specs.zip outs do
    let (mode, k) := match spec with
      | [m, k, _] => (m, k.toNat?.getD 0)
      | _ => ("bad", 0)
    let newB := synth o.cls o.len
    seen := seen ++ [(o.cls, o.len)]
    let t : Path := s!"tmp{j}"
    tmps := tmps ++ [t]
    let fault : Fault :=
      if mode = "fail" && k < o.len then .fail 1 k []
      else if mode = "die" && k < o.len then .die 1 k
      else .none
    if mode = "bad" then return bad
    let prog := storeAtomic pPath t newB
    let before := fs pPath
    fs := exec prog fault fs
    let st := status prog fault
    if st == .died then dies := dies + 1
    if dies > 0 && (match before with | some c => o.len < c.length | none => false) then shorter := true
    let file := classifySeq seen (fs pPath)
    let left := (tmps.filter fun t => (fs t).isSome).length
    let get := if file.startsWith "v" then file else "err"
    ms := ms ++ [s!"{o.cls},{o.len},{showStatus st},{file},{get},{left}"]
    -- the property, step by step, on the implementation's own observations
    let obs := unclassifySeq seen o.file
    let gobs := unclassifySeq seen o.get
    match parseStatus o.st with
    | some ist =>
      ok := ok && decide (P18 prevObs newB ist obs) && decide (P18 prevGet newB ist gobs) && (left != 0 || o.left == 0)
    | none => ok := false
    prevObs := obs
    prevGet := gobs
    j := j + 1
  return ⟨joinOr ms "/", ok, s!"seq:{kind}:n={min specs.length 5}:dies={min dies 2}:shorter-after-die={shorter}"⟩

/-- `obj`: one long-lived store object; the model is `runObj` (= `specObj`, theorem obj_reads_last) -/
def handleObj (kind steps : String) (impl : String) : Verdict := Id.run do
  let specs := items steps ";"
  let outs := (items impl "/").map (·.splitOn ",")
  if outs.length != specs.length then return ⟨"UNPARSABLE", false, "obj:unparsable"⟩
  let mut fs : FS := fun _ => none
  let mut seen : List (Nat × Nat) := []
  let mut ms : List String := []
  let mut ok := true
  -- on the implementation's side: the contents a read may return now (the last successfully stored one; after a
  -- FAILED store also that store's content, until the next read settles it)
  let mut allowed : List (Option Bytes) := [none]
  let mut j := 0
  let mut gets := 0
  let mut sameLen := false
  let mut prevLen : Option Nat := none
  for (spec, o) in specs.zip outs do
    if spec = "g" then
      gets := gets + 1
      let cur := fs pPath
      let file := classifySeq seen cur
      ms := ms ++ [s!"g,{if file.startsWith "v" then file else "err"}"]
      match o with
      | ["g", res] =>
        let obs := unclassifySeq seen res
        ok := ok && allowed.contains obs
        allowed := [obs]
      | _ => ok := false
    else
      match spec.splitOn ":", o with
      | [mode, k, _], ["s", c, l, ist, ifile] =>
        let some c := c.toNat? | return ⟨"UNPARSABLE", false, "obj:unparsable"⟩
        let some l := l.toNat? | return ⟨"UNPARSABLE", false, "obj:unparsable"⟩
        let k := k.toNat?.getD 0
        let newB := synth c l
        if prevLen == some l && !(seen.any (·.1 == c)) then sameLen := true
        prevLen := some l
        seen := seen ++ [(c, l)]
        let fault : Fault := if mode = "fail" && k < l then .fail 1 k [] else .none
        let prog := storeAtomic pPath s!"tmp{j}" newB
        fs := exec prog fault fs
        let st := status prog fault
        ms := ms ++ [s!"s,{c},{l},{showStatus st},{classifySeq seen (fs pPath)}"]
        let fobs := unclassifySeq seen ifile
        if ist = "ok" then
          ok := ok && fobs == some newB
          allowed := [some newB]
        else if ist = "err" then
          -- atomic_store_exact: a store that reported an error left the target untouched
          ok := ok && allowed.contains fobs
          allowed := [fobs]
        else ok := false
      | _, _ => return ⟨"UNPARSABLE", false, "obj:unparsable"⟩
    j := j + 1
  return ⟨joinOr ms "/", ok, s!"obj:{kind}:n={min specs.length 8}:gets={min gets 4}:same-length-successor={sameLen}"⟩

/-- `life`: path spelling and neighbours do not enter the model (the spelled path is the path; neighbours are other
    paths, theorem obj_frame); steps as in `obj` plus `die` (after which a new object reads the same file) -/
def handleLife (kind spelling sibs steps : String) (impl : String) : Verdict := Id.run do
  let specs := items steps ";"
  let nsib := (items sibs ",").eraseDups.length +
    (if spelling = "dotdot" && !(items sibs ",").contains "5" then 1 else 0) +
    (if spelling = "symchain" then 1 else 0)
  let outs := (items impl "/").map (·.splitOn ",")
  if outs.length != specs.length then return ⟨"UNPARSABLE", false, "life:unparsable"⟩
  let mut fs : FS := fun _ => none
  let mut seen : List (Nat × Nat) := []
  let mut tmps : List Path := []
  let mut ms : List String := []
  let mut ok := true
  let mut allowed : List (Option Bytes) := [none]
  let mut j := 0
  let mut dies := 0
  for (spec, o) in specs.zip outs do
    if spec = "g" then
      let file := classifySeq seen (fs pPath)
      ms := ms ++ [s!"g,{if file.startsWith "v" then file else "err"},{nsib}"]
      match o with
      | ["g", res, sib] =>
        let obs := unclassifySeq seen res
        ok := ok && allowed.contains obs && sib == toString nsib
        allowed := [obs]
      | _ => ok := false
    else
      match spec.splitOn ":", o with
      | [mode, k, _], ["s", c, l, ist, ifile, ileft, isib] =>
        let some c := c.toNat? | return ⟨"UNPARSABLE", false, "life:unparsable"⟩
        let some l := l.toNat? | return ⟨"UNPARSABLE", false, "life:unparsable"⟩
        let k := k.toNat?.getD 0
        let newB := synth c l
        seen := seen ++ [(c, l)]
        let t : Path := s!"tmp{j}"
        tmps := tmps ++ [t]
        let fault : Fault :=
          if mode = "fail" && k < l then .fail 1 k []
          else if mode = "die" && k < l then .die 1 k
          else .none
        let prog := storeAtomic pPath t newB
        fs := exec prog fault fs
        let st := status prog fault
        if st == .died then dies := dies + 1
        let left := (tmps.filter fun t => (fs t).isSome).length
        ms := ms ++ [s!"s,{c},{l},{showStatus st},{classifySeq seen (fs pPath)},{left},{nsib}"]
        let fobs := unclassifySeq seen ifile
        ok := ok && isib == toString nsib
        if ist = "ok" then
          ok := ok && fobs == some newB
          allowed := [some newB]
        else if ist = "err" || ist = "died" then
          -- atomic_store_exact: a store that reported an error, or died, left the target untouched
          ok := ok && allowed.contains fobs
          allowed := [fobs]
        else ok := false
        if left == 0 then ok := ok && ileft == "0"
      | _, _ => return ⟨"UNPARSABLE", false, "life:unparsable"⟩
    j := j + 1
  return ⟨joinOr ms "/", ok, s!"life:{kind}:{spelling}:sib={min nsib 3}:dies={min dies 2}"⟩

def handle (op : String) (args : List String) (impl : String) : Option Verdict :=
  match op, args with
  | "store", [kind, mode, k, oldS, newS] => some (handleStore false kind mode k oldS newS impl)
  | "storero", [kind, mode, k, oldS, newS] => some (handleStore true kind mode k oldS newS impl)
  | "seq", [kind, steps] => some (handleSeq kind steps impl)
  | "obj", [kind, steps] => some (handleObj kind steps impl)
  | "life", [kind, spelling, sibs, steps] => some (handleLife kind spelling sibs steps impl)
  | _, _ => none

end Sygma.Drv.C18
