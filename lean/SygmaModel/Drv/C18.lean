import SygmaModel.Drv.Util
import SygmaModel.Model.C18
namespace Sygma.Drv.C18
open Sygma.C18

/-- `key=value` fields separated by `;` -/
def field (fs : List String) (k : String) : Option String :=
  fs.findSome? fun f => match f.splitOn "=" with
    | [a, b] => if a = k then some b else none
    | _ => none

def pPath : Path := "data.json"
def tPath : Path := "data.json.tmp"

def showStatus : Status → String
  | .ok => "ok" | .err => "err" | .died => "died"

def parseStatus : String → Option Status
  | "ok" => some .ok | "err" => some .err | "died" => some .died | _ => none

def isPrefix : Bytes → Bytes → Bool
  | [], _ => true
  | _ :: _, [] => false
  | a :: as, b :: bs => a == b && isPrefix as bs

/-- how the harness names a file content relative to the previous and the new encoding -/
def classify (old : Option Bytes) (new : Bytes) : Option Bytes → String
  | none => "absent"
  | some c =>
    if c = new then "new"
    else if some c = old then "old"
    else if c.length < new.length && isPrefix c new then s!"pre{c.length}"
    else "other"

/-- what the getter returns for a file of that class (complete encodings decode, everything else is an error;
    for prefixes this is the JSON decoder's behaviour, assumed) -/
def getterOf : String → String
  | "new" => "new" | "old" => "old" | _ => "err"

/-- a witness content for a class named by the implementation -/
def unclassify (old : Option Bytes) (new : Bytes) (s : String) : Option Bytes :=
  if s = "new" then some new
  else if s = "old" then (match old with | some o => some o | none => some [255])
  else if s = "absent" || s = "err" then none
  else if s.startsWith "pre" then (match (s.drop 3).toString.toNat? with | some j => some (new.take j) | none => some [255])
  else some [255]

def handle (op : String) (args : List String) (impl : String) : Option Verdict :=
  match op, args with
  | "store", [kind, mode, k, oldS, _newS] => some <| Id.run do
    let some k := k.toNat? | return bad
    let fsI := impl.splitOn ";"
    -- the lengths of the two encodings are library output (JSON); the model takes them from the run
    let some n := field fsI "n" | return ⟨"UNPARSABLE", false, "store:unparsable"⟩
    let some [a, b, c] := natList n | return ⟨"UNPARSABLE", false, "store:unparsable"⟩
    let newB : Bytes := List.replicate b 2
    let old : Option Bytes :=
      if oldS = "-" then none else some (if c = 1 then newB else List.replicate a 1)
    let fs0 : FS := FS.set (fun _ => none) pPath old
    let prog := storeAtomic pPath tPath newB
    -- RLIMIT_FSIZE = k: the kernel cuts the write of the b bytes short iff k < b
    let fault : Option Fault :=
      if mode = "none" then some .none
      else if mode = "fail" then some (if k < b then .fail 1 k [] else .none)
      else if mode = "die" then some (if k < b then .die 1 k else .none)
      else none
    let some fault := fault | return bad
    let fs1 := exec prog fault fs0
    let st := status prog fault
    let file := classify old newB (fs1 pPath)
    let left := if (fs1 tPath).isSome then 1 else 0
    let m := s!"n={a},{b},{c};st={showStatus st};file={file};get={getterOf file};left={left}"
    -- the property on the implementation's output: both what is on disk and what the real getter returned
    let ok := match field fsI "st" >>= parseStatus, field fsI "file", field fsI "get" with
      | some ist, some ifile, some iget =>
        decide (P18 old newB ist (unclassify old newB ifile)) && decide (P18 old newB ist (unclassify old newB iget))
      | _, _, _ => false
    let tag := s!"store:{kind}:{mode}:{showStatus st}:{(file.take 3).toString}:old={oldS != "-"}:same={c}"
    return ⟨m, ok, tag⟩
  | _, _ => none

end Sygma.Drv.C18
