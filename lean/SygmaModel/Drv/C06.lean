import SygmaModel.Drv.Util
import SygmaModel.Model.C06
namespace Sygma.Drv.C06
open Sygma.C06
open Sygma.C01 (Outcome)

/-- message as the driver sees it: destination, nonce, executed-flag (0 pending, 1 executed, 2 status lookup fails) -/
abbrev M := Nat × Nat × Nat

/-- observed class of one item on its own -/
def parseClass (s : String) : Option (Outcome M) :=
  match s.splitOn "." with
  | ["ok", d, n] => do pure (.ok (← d.toNat?, ← n.toNat?, 0))
  | ["ok", d, n, "e"] => do pure (.ok (← d.toNat?, ← n.toNat?, 1))
  | ["ok", d, n, "x"] => do pure (.ok (← d.toNat?, ← n.toNat?, 2))
  | ["err"] | ["perr"] | ["skip"] => some .err
  | ["panic"] => some .panic
  | ["ppanic"] => some .panic
  | _ => none

def btcClass (c : String) : Option (BtcR M) :=
  if c = "skip" then some .notDeposit else
  match parseClass c with
  | some (.ok m) => some (.msg m)
  | some .err => some .fail
  | some .panic => some .panic
  | none => none

def retryTx (tx : String) : Option (Outcome (List (Outcome M))) :=
  if tx = "E" then some .err else ((items tx ",").mapM parseClass).map Outcome.ok

def retryBlock (b : String) : Option (Outcome (List (Outcome M))) :=
  if b = "T" ∨ b = "B" ∨ b = "R" then some .err else ((items b ",").mapM parseClass).map Outcome.ok

def exOf (m : M) : Outcome Bool :=
  match m.2.2 with
  | 0 => .ok false
  | 1 => .ok true
  | _ => .err

def showGroups (f : DMap M) : String :=
  joinOr ((List.range 256).filterMap fun k =>
    if (f k).isEmpty then none else some (toString k ++ "=" ++ ",".intercalate ((f k).map fun m => toString m.2.1))) ";"

/-- impl groups `k=n,n;k=n` as a map (duplicate keys are rejected) -/
def parseGroups (s : String) : Option (DMap (Nat × Nat)) := do
  let gs ← (items s ";").mapM fun g =>
    match g.splitOn "=" with
    | [k, ns] => do
      let k ← k.toNat?
      let ns ← natList ns
      pure (k, ns)
    | _ => none
  if (gs.map (·.1)).eraseDups.length != gs.length then none
  else pure fun k => match gs.find? (·.1 = k) with
    | some g => g.2.map fun n => (k, n)
    | none => []

def proj (ms : List M) : List (Nat × Nat) := ms.map fun m => (m.1, m.2.1)

def verdict (classes : String) (impl : String) (model : Option (DMap M)) (good : List M) (tag : String) : Verdict :=
  let implGroups := ((impl.splitOn "|").getD 1 "")
  let m := match model with
    | some f => classes ++ "|" ++ showGroups f
    | none => classes ++ "|err"
  let ok := match model with
    | none => implGroups == "err"
    | some _ =>
      match parseGroups implGroups with
      | some f => decide (P06 (·.1) (proj good) f)
      | none => false
  ⟨m, ok, tag⟩

/-- one batch `d.n,d.n` (as the implementation sent it); `E` = empty batch -/
def parseBatch (s : String) : Option (List (Nat × Nat)) :=
  if s = "E" then some [] else
  (s.splitOn ",").mapM fun e =>
    match e.splitOn "." with
    | [d, n] => do pure (← d.toNat?, ← n.toNat?)
    | _ => none

def parseSends (s : String) : Option (List (List (Nat × Nat))) := (items s ";").mapM parseBatch

def showBatch (b : List M) : String := ",".intercalate (b.map fun m => s!"{m.1}.{m.2.1}")

/-- canonical order of the sends: by destination of the first message, then by text -/
def showSends (bs : List (List M)) : String :=
  let keyed := bs.map fun b => ((b.head?.map (·.1)).getD 0, showBatch b)
  let sorted := keyed.mergeSort fun a b => a.1 < b.1 || (a.1 == b.1 && a.2 ≤ b.2)
  joinOr (sorted.map (·.2)) ";"

/-- verdict at the message channel: `model` = the batches the skeleton sends (`none`: the range reports an error) -/
def verdictH (classes : String) (impl : String) (model : Option (List (List M))) (good : List M) (tag : String) : Verdict :=
  let implSends := ((impl.splitOn "|").getD 1 "")
  let m := match model with
    | some bs => classes ++ "|" ++ showSends bs
    | none => classes ++ "|err"
  let ok := match model with
    | none => implSends == "err"
    | some _ =>
      match parseSends implSends with
      | some bs => decide (P06h (·.1) (proj good) bs)
      | none => false
  ⟨m, ok, tag⟩

def sizeTag (n : Nat) : String := toString (min n 4)

/-! The classes of the single deposits are an ARGUMENT of the loop ops (`<op> <items> <classes>`): they come from a separate
    `classify` run (own child process) and the loop under test cannot influence them. The legacy one-argument form carries them
    in front of the result (`<classes>|<result>`). -/

/-- class of one EVM item recomputed from its bytes with the C01 handler models, where those apply: `none` = the model cannot
    predict it (raw logs; a model panic means an out-of-range slice, which inside a log — spare capacity — may not panic) -/
def evmItemClass (it : String) : Option String :=
  match it.splitOn ":" with
  | "d" :: kind :: dst :: nonce :: cd :: resp :: st => do
    let cd ← Sygma.fromHex cd
    let resp ← Sygma.fromHex resp
    let d ← dst.toNat?
    let n ← nonce.toNat?
    let id : Sygma.C01.Ident := ⟨1, d, n, []⟩
    let o ← match kind with
      | "1" => some (Sygma.C01.erc20Deposit id cd resp)
      | "2" => some (Sygma.C01.erc721Deposit id cd)
      | "3" => some (Sygma.C01.erc1155Deposit id cd)
      | "4" => some (Sygma.C01.genericDeposit id cd)
      | _ => some .err                                  -- no handler registered for the resource
    match o with
    | .ok _ =>
      let flag := match st with
        | ["e"] => ".e" | ["x"] => ".x" | _ => ""
      some s!"ok.{d}.{n}{flag}"
    | .err => some "err"
    | .panic => none
  | ["o"] => some "skip"
  | _ => none

/-- class of one Substrate item recomputed with the C01 model (the harness hands the handler slices with cap = len: exact) -/
def subItemClass (it : String) : Option String :=
  match it.splitOn ":" with
  | ["d", dst, nonce, cd, tt] => do
    let cd ← Sygma.fromHex cd
    let d ← dst.toNat?
    let n ← nonce.toNat?
    let tt ← tt.toNat?
    match Sygma.C01.subDeposit ⟨1, d, n, []⟩ cd tt with
    | .ok _ => some s!"ok.{d}.{n}"
    | .err => some "err"
    | .panic => some "panic"
  | ["b"] => some "err"
  | ["o"] => some "skip"
  | _ => none

/-- `classify <op> <items>`: the observed classes, cross-checked against the C01 handler models item by item -/
def handleClassify (op items impl : String) : Verdict :=
  let groups := (Sygma.Drv.items items "/").map fun g => Sygma.Drv.items g ";"
  let got := (Sygma.Drv.items impl "/").map fun g => Sygma.Drv.items g ","
  let pred : String → Option String := match op with
    | "evm" | "hevm" | "route" | "retry1" => evmItemClass
    | "sub" | "hsub" | "subretry" => subItemClass
    | _ => fun _ => none
  let structural (g : List String) : Bool := g == ["E"] || g == ["T"] || g == ["B"] || g == ["R"]
  let consistent := groups.length == got.length && (groups.zip got).all fun (g, c) =>
    if structural g then c == g
    else g.length == c.length && (g.zip c).all fun (it, cl) =>
      match pred it with
      | some p => p == cl
      | none => true
  let known := (groups.flatten.filter fun it => (pred it).isSome).length
  ⟨if consistent then impl else "classes-disagree-with-the-C01-handler-models", true,
   s!"classify:{op}:predicted={sizeTag known}:observed-only={sizeTag (groups.flatten.length - known)}"⟩

def handle1 (op : String) (args : List String) (impl0 : String) : Option Verdict :=
  -- two-argument form: classes are args[1], the implementation's answer is the result alone
  let impl := match args with
    | [_, cls] => cls ++ "|" ++ impl0
    | _ => impl0
  let strip (v : Verdict) : Verdict := match args with
    | [_, cls] => { v with model := (v.model.drop (cls.length + 1)).toString }
    | _ => v
  let classes := (impl.splitOn "|").headD ""
  (fun (r : Option Verdict) => r.map strip) <| match op with
  | "evm" | "sub" => some <| Id.run do
    let some cs := (items classes ",").mapM parseClass | return bad
    let good := cs.filterMap (okPart id)
    return verdict classes impl (some (processDeposits (·.1) id cs)) good
      s!"{op}:n={sizeTag cs.length}:bad={sizeTag (cs.length - good.length)}:good={sizeTag good.length}"
  | "btc" => some <| Id.run do
    let some cs := (items classes ",").mapM btcClass | return bad
    let txs := cs.map fun c => [c]
    let good := txs.filterMap (okPart btcTx)
    return verdict classes impl (some (btcProcess (·.1) txs)) good
      s!"btc:n={sizeTag cs.length}:bad={sizeTag (cs.length - good.length)}:good={sizeTag good.length}"
  | "hevm" | "hsub" | "route" => some <| Id.run do
    let some cs := (items classes ",").mapM parseClass | return bad
    let good := cs.filterMap (okPart id)
    let dsts := (good.map (·.1)).eraseDups.length
    return verdictH classes impl (some (handleEvents (·.1) id cs)) good
      s!"{op}:n={sizeTag cs.length}:bad={sizeTag (cs.length - good.length)}:good={sizeTag good.length}:dsts={sizeTag dsts}"
  | "hbtc" => some <| Id.run do
    let some cs := (items classes ",").mapM btcClass | return bad
    let txs := cs.map fun c => [c]
    let good := txs.filterMap (okPart btcTx)
    let dsts := (good.map (·.1)).eraseDups.length
    return verdictH classes impl (some (batches (btcProcess (·.1) txs))) good
      s!"hbtc:n={sizeTag cs.length}:bad={sizeTag (cs.length - good.length)}:good={sizeTag good.length}:dsts={sizeTag dsts}"
  | "retry2" => some <| Id.run do
    let some cs := (items classes ",").mapM parseClass | return bad
    let model := retryV2 (okPart id) cs
    let good := cs.filterMap (okPart id)
    let implSends := ((impl.splitOn "|").getD 1 "")
    -- every decodable retry event arrives as exactly one single-message batch; nothing else, no empty batch
    let ok := match parseSends implSends with
      | some bs => bs.all (·.length == 1) &&
          (bs.flatten.mergeSort (fun a b => a.1 < b.1 || (a.1 == b.1 && a.2 ≤ b.2)))
            == ((proj good).mergeSort (fun a b => a.1 < b.1 || (a.1 == b.1 && a.2 ≤ b.2)))
      | none => false
    return ⟨classes ++ "|" ++ showSends model, ok, s!"retry2:n={sizeTag cs.length}:bad={sizeTag (cs.length - good.length)}"⟩
  | "retry1" => some <| Id.run do
    let some evs := (items classes "/").mapM retryTx | return bad
    let good := (evs.flatMap (fetched id)).filterMap (okPart (retryItem id exOf))
    let total := (evs.flatMap (fetched id)).length
    return verdictH classes impl (some (batches (retryV1 (·.1) id id exOf evs))) good
      s!"retry1:tx={sizeTag evs.length}:n={sizeTag total}:bad={sizeTag (total - good.length)}:good={sizeTag good.length}"
  | "subretry" => some <| Id.run do
    let blocks := items classes "/"
    let some evs := blocks.mapM retryBlock | return bad
    -- T: retried block not final yet (skipped); B: undecodable retry event (skipped); R: the node cannot serve the block (abort)
    let aborted := blocks.any (· = "R")
    let good := (evs.flatMap (fetched id)).filterMap (okPart id)
    let total := (evs.flatMap (fetched id)).length
    let model := subRetry (·.1) (fun e : (Outcome (List (Outcome M))) × Bool => e.1) (·.2) id (evs.zip (blocks.map (· = "R")))
    return verdictH classes impl (model.map batches) good
      s!"subretry:blocks={sizeTag evs.length}:abort={aborted}:n={sizeTag total}:bad={sizeTag (total - good.length)}:good={sizeTag good.length}"
  | _ => none

/-- `iso <op> <items>`: the same op in a child process. The skeleton models are total and never crash, so a dead or
    unresponsive child (`crash` / `hang`) is a violation of "terminates without crashing the process". -/
def handleInner (op : String) (args : List String) (impl : String) : Option Verdict :=
  match op, args with
  | "classify", [inner, its] => some (handleClassify inner its impl)
  | _, _ => handle1 op args impl

def handle (op : String) (args : List String) (impl : String) : Option Verdict :=
  match op, args with
  | "iso", inner :: rest =>
    if impl = "crash" ∨ impl = "hang" then some ⟨"survives", false, s!"iso:{inner}:dead"⟩
    else (handleInner inner rest impl).map fun v => { v with tag := "iso:" ++ v.tag }
  | _, _ => handleInner op args impl

end Sygma.Drv.C06
