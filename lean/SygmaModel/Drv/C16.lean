import SygmaModel.Drv.Util
import SygmaModel.Model.C16
namespace Sygma.Drv.C16
open Sygma.C16

def strNats (s : String) : List Nat := s.toUTF8.toList.map (·.toNat)

/-- `r` | `r1/r2` | `x` | `r1/x` → the answers to the two `RecommendedFee` calls -/
def parseRate (s : String) : Option (Option Nat × Option Nat) :=
  let one (t : String) : Option (Option Nat) := if t = "x" then some none else t.toNat?.map some
  match s.splitOn "/" with
  | [a] => (one a).map fun r => (r, r)
  | [a, b] => do pure (← one a, ← one b)
  | _ => none

/-- `amount,recipient,script|x` -/
def parseProp (s : String) : Option Prp :=
  match s.splitOn "," with
  | [a, _, sc] => do
    let a ← a.toNat?
    let sc ← if sc = "x" then some none else (fromHex sc).map some
    pure ⟨a, sc⟩
  | _ => none

/-- `txid,vout,value,blocktime[,c|u]` (`u` = unconfirmed; default confirmed) -/
def parseUtxo (s : String) : Option Utxo :=
  match s.splitOn "," with
  | [t, v, x, b] => do pure ⟨strNats t, ← v.toNat?, ← x.toNat?, ← b.toNat?, true⟩
  | [t, v, x, b, c] => do
    let c ← if c = "c" then some true else if c = "u" then some false else none
    pure ⟨strNats t, ← v.toNat?, ← x.toNat?, ← b.toNat?, c⟩
  | _ => none

def lowerHex (c : Nat) : Nat := if 65 ≤ c ∧ c ≤ 70 then c + 32 else c

/-- `chainhash.Hash.String()` of a decoded txid: lower case, left-padded with '0' to 64 characters -/
def normTxid (t : List Nat) : String :=
  let l := t.map lowerHex
  String.ofList ((List.replicate (64 - l.length) '0') ++ l.map Char.ofNat)

def showTx (tx : Tx) : String :=
  "in=" ++ joinOr (tx.ins.map fun u => s!"{normTxid u.txid}:{u.vout}:{u.value}") "," ++
  "|out=" ++ joinOr (tx.outs.map fun o => s!"{o.value}:{toHexW o.script}") ","

/-- parse an implementation transaction; inputs are matched positionally against the UTXO list `us` the executor was given -/
def parseTx (us : List Utxo) (s : String) : Option Tx :=
  match s.splitOn "|" with
  | [i, o] => do
    let i ← (i.dropPrefix? "in=").map (·.toString)
    let o ← (o.dropPrefix? "out=").map (·.toString)
    let ins ← (items i ",").zipIdx.mapM fun (it, k) =>
      match it.splitOn ":" with
      | [t, v, x] => do
        let v ← v.toNat?
        let x ← x.toNat?
        match us[k]? with
        | some u => if normTxid u.txid = t then some (⟨u.txid, v, x, u.btime, u.confirmed⟩ : Utxo) else some ⟨strNats t, v, x, u.btime, u.confirmed⟩
        | none => some ⟨strNats t, v, x, 0, true⟩
      | _ => none
    let outs ← (items o ",").mapM fun it =>
      match it.splitOn ":" with
      | [v, sc] => do pure (⟨← v.toInt?, ← fromHex sc⟩ : TxOut)
      | _ => none
    pure ⟨ins, outs⟩
  | _ => none

def parseInp (rate cid bridge props utxos : String) : Option Inp := do
  let (r1, r2) ← parseRate rate
  let cid ← if cid = "x" then some none else (fromHex cid).map some
  let br ← match bridge.splitOn ":" with | [_, sc] => fromHex sc | _ => none
  let ps ← (items props ";").mapM parseProp
  let us ← if utxos = "x" then some none else ((items utxos ";").mapM parseUtxo).map some
  pure ⟨r1, r2, cid, br, ps, us⟩

def verdictTx (op : String) (i : Inp) (impl : String) : Verdict :=
  let m := rawTx i
  let ms := match m with | none => "err" | some tx => showTx tx
  let out : Option (Option Tx) :=
    if impl = "err" then some none else (parseTx (i.utxos.getD []) impl).map some
  let ok := match out with | some o => decide (P16 i o) | none => false
  let wf := decide (WF i)
  let kind := match m with
    | none => "err"
    | some tx => s!"tx:in={min tx.ins.length 4}:change={decide (tx.outs.length > i.props.length + 1)}"
  let band := match i.utxos, i.rate2 with
    | some us, some r2 =>
      let tot := sumValues us
      let amt := sumAmounts i.props
      if tot < amt then "short" else if tot < amt + feeOf r2 us.length (i.props.length + 1) then "between" else "covered"
    | _, _ => "na"
  ⟨ms, ok, s!"{op}:{kind}:wf={wf}:props={min i.props.length 3}:total={band}:recipients-valid={i.props.all (·.script.isSome)}"⟩

def showUtxo (u : Utxo) : String :=
  s!"{String.ofList (u.txid.map Char.ofNat)}:{u.vout}:{u.value}:{u.btime}:{if u.confirmed then "c" else "u"}"

def showUtxos (l : List Utxo) : String := joinOr (l.map showUtxo) ","

/-- what the `utxos` ops print: `txid:vout:value:blocktime:c|u,…` -/
def parseUtxoOut (s : String) : Option (List Utxo) :=
  (items s ",").mapM fun it =>
    match it.splitOn ":" with
    | [t, v, x, b, c] => do
      let c ← if c = "c" then some true else if c = "u" then some false else none
      pure (⟨strNats t, ← v.toNat?, ← x.toNat?, ← b.toNat?, c⟩ : Utxo)
    | _ => none

def utxoTag (l : List Utxo) : String :=
  let ties := decide ((l.map (·.btime)).eraseDups.length < l.length)
  let sameTx := decide ((l.map (·.txid)).eraseDups.length < l.length)
  s!"n={min l.length 5}:time-ties={ties}:same-txid={sameTx}:unconfirmed={min (l.filter (!·.confirmed)).length 3}:distinct={decide (OutpointsDistinct l)}"

/-! ### `batch`: one executor and one proposal store across a sequence of batches -/

def parseKey (s : String) : Option Key :=
  match s.splitOn "." with
  | [a, b, c] => do pure (← a.toNat?, ← b.toNat?, ← c.toNat?)
  | _ => none

def showKey (k : Key) : String := s!"{k.1}.{k.2.1}.{k.2.2}"

def parseStatus (s : String) : Option PStatus :=
  match s with
  | "m" => some .missing | "f" => some .failed | "p" => some .pending | "e" => some .executed
  | "x" => some .readErr | "w" => some .writeErr | _ => none

def showStatus : PStatus → String
  | .missing => "m" | .failed => "f" | .pending => "p" | .executed => "e" | .readErr => "x" | .writeErr => "w"

def parseStore (s : String) : Option Store :=
  (items s ";").mapM fun it =>
    match it.splitOn "=" with
    | [k, v] => do pure (← parseKey k, ← parseStatus v)
    | _ => none

/-- the harness prints the store as sorted `key=status` entries -/
def dumpStore (st : Store) : String :=
  let ks := (st.map (·.1)).eraseDups
  joinOr ((ks.map fun k => showKey k ++ "=" ++ showStatus (lookup st k)).mergeSort (fun a b => a ≤ b)) ";"

/-- `src.dst.nonce,amount,recipient,script|x` -/
def parseBProp (s : String) : Option BProp :=
  match s.splitOn "," with
  | [k, a, _, sc] => do
    let k ← parseKey k
    let a ← a.toNat?
    let sc ← if sc = "x" then some none else (fromHex sc).map some
    pure ⟨k, ⟨a, sc⟩⟩
  | _ => none

structure Batch where
  outcome : String
  ps      : List BProp

def parseBatch (s : String) : Option Batch :=
  match s.splitOn "^" with
  | [o, ps] => do pure ⟨o, ← (items ps ";").mapM parseBProp⟩
  | _ => none

/-- indices of the selected proposals in the batch: first unused equal entry (the harness uses the same rule) -/
def selIdx (ps : List BProp) (sel : List BProp) : List Nat :=
  (sel.foldl (fun (acc : List Nat × List Nat) p =>
    match (ps.zipIdx.find? fun (q, i) => q == p && !acc.2.contains i) with
    | some (_, i) => (acc.1 ++ [i], i :: acc.2)
    | none => (acc.1 ++ [ps.length], acc.2)) ([], [])).1

def markAll (st : Store) (sel : List BProp) (v : PStatus) : Store := sel.foldl (fun st p => (p.key, v) :: st) st

/-- the model's answer to one batch and the store afterwards -/
def modelBatch (i : Inp) (st : Store) (b : Batch) : String × Store :=
  match forExec st b.ps with
  | (none, st') => ("err|st=" ++ dumpStore st', st')
  | (some sel, st') =>
    let tx := if sel.isEmpty then none else rawTx { i with props := sel.map (·.prp) }
    let txs := if sel.isEmpty then "nothing" else match tx with | none => "err" | some t => (showTx t).replace "|" "/"
    let st'' := match tx, b.outcome with
      | some _, "e" => markAll st' sel .executed
      | some _, "f" => markAll st' sel .failed
      | _, _ => st'
    (s!"sel={joinOr ((selIdx b.ps sel).map toString) ","}|{txs}|st={dumpStore st''}", st'')

/-- the property on what the implementation did with one batch, given the store as the harness printed it BEFORE the batch:
    no deposit selected twice, only missing/failed ones, in batch order; and the transaction built for the selection satisfies P16 -/
def checkBatch (i : Inp) (pre : Store) (b : Batch) (impl : String) : Option Store :=
  match impl.splitOn "|" with
  | ["err", st] => (st.dropPrefix? "st=").bind fun x => parseStore x.toString
  | [sel, tx, st] => do
    let sel ← (sel.dropPrefix? "sel=").map (·.toString)
    let idx ← natList sel
    let post ← (st.dropPrefix? "st=").bind fun x => parseStore x.toString
    let chosen ← idx.mapM fun k => b.ps[k]?
    let increasing := (idx.zip (idx.drop 1)).all fun (a, c) => a < c
    let selOk := increasing && decide (P16sel pre b.ps chosen)
    let i' := { i with props := chosen.map (·.prp) }
    let txOk :=
      if tx = "nothing" then chosen.isEmpty
      else if chosen.isEmpty then false
      else if tx = "err" then true
      else match parseTx (i.utxos.getD []) (tx.replace "/" "|") with
        | some t => decide (P16 i' (some t))
        | none => false
    if selOk && txOk then some post else none
  | _ => none

/-- unparsable arguments (the runner rejects BADARGS candidates when it shrinks a structured argument) -/
def badArgs : Verdict := ⟨"BADARGS", false, "badargs"⟩

def handle (op : String) (args : List String) (impl : String) : Option Verdict :=
  match op, args with
  | "rawtx", [rate, cid, bridge, props, utxos] => some <| Id.run do
    let some i := parseInp rate cid bridge props utxos | return badArgs
    return verdictTx "rawtx" i impl
  | "build", [rate, cid, bridge, props, utxos] => some <| Id.run do
    let some i := parseInp rate cid bridge props utxos | return badArgs
    -- the executor sees what the UTXO service client returns: the listing, sorted
    let i := { i with utxos := i.utxos.map sortUtxos }
    return verdictTx "build" i impl
  | "utxos", [listing] => some <| Id.run do
    let some l := (items listing ";").mapM parseUtxo | return badArgs
    let m := sortUtxos l
    let ok := match parseUtxoOut impl with | some o => decide (P16sort l o) | none => false
    return ⟨showUtxos m, ok, s!"utxos:{utxoTag l}"⟩
  | "utxoperm", [l1, l2] => some <| Id.run do
    -- the real Utxos run on two listings of the same set; the property needs no model: both answers must be the same list
    let some a := (items l1 ";").mapM parseUtxo | return badArgs
    let some b := (items l2 ";").mapM parseUtxo | return badArgs
    if !decide (a.Perm b) then return badArgs
    let ok := match impl.splitOn "|" with
      | [o1, o2] => o1 == o2 && (match parseUtxoOut o1 with | some o => decide (o.Perm a) | none => false)
      | _ => false
    return ⟨showUtxos (sortUtxos a) ++ "|" ++ showUtxos (sortUtxos b), ok, s!"utxoperm:{utxoTag a}:same-order={decide (a = b)}"⟩
  | "buildperm", [rate, cid, bridge, props, l1, l2] => some <| Id.run do
    -- the real MempoolAPI + rawTx on two listings of the same UTXO set: same set and quotes ⇒ same transaction (or both refused)
    let some i1 := parseInp rate cid bridge props l1 | return badArgs
    let some i2 := parseInp rate cid bridge props l2 | return badArgs
    let some a := i1.utxos | return badArgs
    let some b := i2.utxos | return badArgs
    if !decide (a.Perm b) then return badArgs
    let sh (i : Inp) : String := match rawTx { i with utxos := i.utxos.map sortUtxos } with | none => "err" | some tx => showTx tx
    -- both listings give the same answer, and that answer is a transaction satisfying P16 for the ordered UTXO set — or a
    -- refusal where the model refuses too (so `err#err` passes only if no transaction is due)
    let is1 := { i1 with utxos := i1.utxos.map sortUtxos }
    let ok := match impl.splitOn "#" with
      | [t1, t2] =>
        t1 == t2 &&
        (if t1 = "err" then (rawTx is1).isNone
         else match parseTx (is1.utxos.getD []) t1 with
           | some t => decide (P16 is1 (some t))
           | none => false)
      | _ => false
    let kind := if (rawTx is1).isSome then "tx" else "err"
    return ⟨sh i1 ++ "#" ++ sh i2, ok, s!"buildperm:{kind}:{utxoTag a}"⟩
  | "fee", [rate, i, o] => some <| Id.run do
    let some i := i.toNat? | return badArgs
    let some o := o.toNat? | return badArgs
    if rate = "x" then return ⟨"err", impl == "err", "fee:err"⟩
    let some r := rate.toNat? | return badArgs
    let m := toString (feeOf r i o)
    return ⟨m, m == impl, s!"fee:wrap={decide (M ≤ (i * 180 + o * 34) * (r / 5 * 5 + 5))}"⟩
  | "msg", [amt, rcp] => some <| Id.run do
    let some a := fromHex amt | return badArgs
    let some r := fromHex rcp | return badArgs
    let m := match msgAmount a with
      | some x => s!"{x}/{toHexW r}/77/09"
      | none => "err"
    -- property: the proposal pays exactly (payload amount / 10^10) to the payload's recipient, unaltered — in particular never
    -- the low 64 bits of an amount that does not fit; refusing the message (no proposal) is the only other outcome
    let ok := impl == "err" || (match impl.splitOn "/" with
      | [x, rr, n, rid] => x.toNat? == some (beToNat a / 10 ^ 10) && rr == toHexW r && n == "77" && rid == "09"
      | _ => false)
    return ⟨m, ok, s!"msg:overflow={decide (M ≤ beToNat a / 10 ^ 10)}:exact={decide (beToNat a % 10 ^ 10 = 0)}"⟩
  | "withdraw", [rate, cid, bridge, msgs, utxos] => some <| Id.run do
    -- messages `amountBytesHex,recipient,script|x` through the real ERC20MessageHandler, the resulting proposals through rawTx
    let some i0 := parseInp rate cid bridge "-" utxos | return badArgs
    let some ms := (items msgs ";").mapM (fun it => match it.splitOn "," with
      | [a, _, sc] => do
        let a ← fromHex a
        let sc ← if sc = "x" then some none else (fromHex sc).map some
        pure (a, sc)
      | _ => none) | return badArgs
    -- the amounts the property speaks about are the messages' amounts / 10^10, whatever the handler made of them
    let want : List Prp := ms.map fun (a, sc) => ⟨beToNat a / 10 ^ 10, sc⟩
    match ms.mapM (fun (a, sc) => (msgAmount a).map fun x => (⟨x, sc⟩ : Prp)) with
    | none =>
      -- a message the handler must refuse: no proposal, nothing to build
      let ok := impl == "err"
      return ⟨"err", ok, "withdraw:handler-refuses"⟩
    | some ps =>
      let v := verdictTx "withdraw" { i0 with props := ps } impl
      let big := decide (sumAmounts want > maxSat)
      return ⟨v.model, v.propOk, v.tag ++ s!":beyond-supply={big}:over-int64={want.any (fun p => decide (2 ^ 63 ≤ p.amount))}"⟩
  | "batch", [rate, cid, bridge, store, utxos, batches] => some <| Id.run do
    let some i := parseInp rate cid bridge "-" utxos | return badArgs
    let some st0 := parseStore store | return badArgs
    let some bs := (batches.splitOn "!").mapM parseBatch | return badArgs
    let (outs, _) := bs.foldl (fun (acc : List String × Store) b =>
      let (o, st') := modelBatch i acc.2 b
      (acc.1 ++ [o], st')) ([], st0)
    let impls := impl.splitOn "!"
    -- predicate: every batch judged against the store the harness printed after the previous one
    let ok := impls.length == bs.length &&
      ((bs.zip impls).foldl (fun (acc : Option Store) (b, o) => acc.bind fun pre => checkBatch i pre b o) (some st0)).isSome
    let dup := bs.any fun b => decide ((b.ps.map (·.key)).eraseDups.length < b.ps.length)
    let cross := decide (((bs.map fun b => (b.ps.map (·.key)).eraseDups).flatten).eraseDups.length
                          < ((bs.map fun b => (b.ps.map (·.key)).eraseDups).flatten).length)
    let faults := st0.any fun e => e.2 = .readErr || e.2 = .writeErr
    return ⟨"!".intercalate outs, ok, s!"batch:n={min bs.length 4}:dup-in-batch={dup}:dup-across={cross}:store-faults={faults}"⟩
  | "multi", [rate, cid, steps] => some <| Id.run do
    -- one MempoolAPI client + one executor across withdrawals for several bridge addresses: every step is judged on its own
    -- (history-free): its inputs are a prefix of THAT address's ordered listing as it is at that moment, P16 for its proposals
    let some ss := (steps.splitOn "!").mapM (fun (st : String) => match st.splitOn "^" with
      | [br, ps, l] => (parseInp rate cid br ps l).map fun i => { i with utxos := i.utxos.map sortUtxos }
      | _ => none) | return badArgs
    let outs := impl.splitOn "!"
    let m := "!".intercalate (ss.map fun i => match rawTx i with | none => "err" | some tx => (showTx tx).replace "|" "/")
    let ok := outs.length == ss.length && (ss.zip outs).all fun (i, o) =>
      if o = "err" then true
      else match parseTx (i.utxos.getD []) (o.replace "/" "|") with
        | some t => decide (P16 i (some t))
        | none => false
    let addrs := (steps.splitOn "!").map fun (st : String) => (st.splitOn ":").headD ""
    return ⟨m, ok, s!"multi:steps={min ss.length 5}:addresses={min addrs.eraseDups.length 3}:txs={min ((ss.filter fun i => (rawTx i).isSome).length) 3}"⟩
  | _, _ => none

end Sygma.Drv.C16
