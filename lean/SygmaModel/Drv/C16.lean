import SygmaModel.Drv.Util
import SygmaModel.Model.C16
namespace Sygma.Drv.C16
open Sygma.C16

def strNats (s : String) : List Nat := s.toUTF8.toList.map (·.toNat)

/-- `r` | `r1/r2` | `x` | `r1/x` → the answers to the two `RecommendedFee` calls -/
def parseRate (s : String) : Option (Option Nat × Option Nat) :=
  let one (t : String) : Option (Option Nat) := if t = "x" then some none else t.toNat?.map some
  match s.splitOn "/" with
  | [a] => (one a).map fun r => (r, r)
  | [a, b] => do pure (← one a, ← one b)
  | _ => none

/-- `amount,recipient,script|x` -/
def parseProp (s : String) : Option Prp :=
  match s.splitOn "," with
  | [a, _, sc] => do
    let a ← a.toNat?
    let sc ← if sc = "x" then some none else (fromHex sc).map some
    pure ⟨a, sc⟩
  | _ => none

/-- `txid,vout,value,blocktime[,c|u]` (`u` = unconfirmed; default confirmed) -/
def parseUtxo (s : String) : Option Utxo :=
  match s.splitOn "," with
  | [t, v, x, b] => do pure ⟨strNats t, ← v.toNat?, ← x.toNat?, ← b.toNat?, true⟩
  | [t, v, x, b, c] => do
    let c ← if c = "c" then some true else if c = "u" then some false else none
    pure ⟨strNats t, ← v.toNat?, ← x.toNat?, ← b.toNat?, c⟩
  | _ => none

def lowerHex (c : Nat) : Nat := if 65 ≤ c ∧ c ≤ 70 then c + 32 else c

/-- `chainhash.Hash.String()` of a decoded txid: lower case, left-padded with '0' to 64 characters -/
def normTxid (t : List Nat) : String :=
  let l := t.map lowerHex
  String.ofList ((List.replicate (64 - l.length) '0') ++ l.map Char.ofNat)

def showTx (tx : Tx) : String :=
  "in=" ++ joinOr (tx.ins.map fun u => s!"{normTxid u.txid}:{u.vout}:{u.value}") "," ++
  "|out=" ++ joinOr (tx.outs.map fun o => s!"{o.value}:{toHexW o.script}") ","

/-- parse an implementation transaction; inputs are matched positionally against the UTXO list `us` the executor was given -/
def parseTx (us : List Utxo) (s : String) : Option Tx :=
  match s.splitOn "|" with
  | [i, o] => do
    let i ← (i.dropPrefix? "in=").map (·.toString)
    let o ← (o.dropPrefix? "out=").map (·.toString)
    let ins ← (items i ",").zipIdx.mapM fun (it, k) =>
      match it.splitOn ":" with
      | [t, v, x] => do
        let v ← v.toNat?
        let x ← x.toNat?
        match us[k]? with
        | some u => if normTxid u.txid = t then some (⟨u.txid, v, x, u.btime, u.confirmed⟩ : Utxo) else some ⟨strNats t, v, x, u.btime, u.confirmed⟩
        | none => some ⟨strNats t, v, x, 0, true⟩
      | _ => none
    let outs ← (items o ",").mapM fun it =>
      match it.splitOn ":" with
      | [v, sc] => do pure (⟨← v.toInt?, ← fromHex sc⟩ : TxOut)
      | _ => none
    pure ⟨ins, outs⟩
  | _ => none

def parseInp (rate cid bridge props utxos : String) : Option Inp := do
  let (r1, r2) ← parseRate rate
  let cid ← if cid = "x" then some none else (fromHex cid).map some
  let br ← match bridge.splitOn ":" with | [_, sc] => fromHex sc | _ => none
  let ps ← (items props ";").mapM parseProp
  let us ← if utxos = "x" then some none else ((items utxos ";").mapM parseUtxo).map some
  pure ⟨r1, r2, cid, br, ps, us⟩

def verdictTx (op : String) (i : Inp) (impl : String) : Verdict :=
  let m := rawTx i
  let ms := match m with | none => "err" | some tx => showTx tx
  let out : Option (Option Tx) :=
    if impl = "err" then some none else (parseTx (i.utxos.getD []) impl).map some
  let ok := match out with | some o => decide (P16 i o) | none => false
  let wf := decide (WF i)
  let kind := match m with
    | none => "err"
    | some tx => s!"tx:in={min tx.ins.length 4}:change={decide (tx.outs.length > i.props.length + 1)}"
  let band := match i.utxos, i.rate2 with
    | some us, some r2 =>
      let tot := sumValues us
      let amt := sumAmounts i.props
      if tot < amt then "short" else if tot < amt + feeOf r2 us.length (i.props.length + 1) then "between" else "covered"
    | _, _ => "na"
  ⟨ms, ok, s!"{op}:{kind}:wf={wf}:props={min i.props.length 3}:total={band}:recipients-valid={i.props.all (·.script.isSome)}"⟩

def showUtxo (u : Utxo) : String :=
  s!"{String.ofList (u.txid.map Char.ofNat)}:{u.vout}:{u.value}:{u.btime}:{if u.confirmed then "c" else "u"}"

def showUtxos (l : List Utxo) : String := joinOr (l.map showUtxo) ","

/-- what the `utxos` ops print: `txid:vout:value:blocktime:c|u,…` -/
def parseUtxoOut (s : String) : Option (List Utxo) :=
  (items s ",").mapM fun it =>
    match it.splitOn ":" with
    | [t, v, x, b, c] => do
      let c ← if c = "c" then some true else if c = "u" then some false else none
      pure (⟨strNats t, ← v.toNat?, ← x.toNat?, ← b.toNat?, c⟩ : Utxo)
    | _ => none

def utxoTag (l : List Utxo) : String :=
  let ties := decide ((l.map (·.btime)).eraseDups.length < l.length)
  let sameTx := decide ((l.map (·.txid)).eraseDups.length < l.length)
  s!"n={min l.length 5}:time-ties={ties}:same-txid={sameTx}:unconfirmed={min (l.filter (!·.confirmed)).length 3}:distinct={decide (OutpointsDistinct l)}"

def handle (op : String) (args : List String) (impl : String) : Option Verdict :=
  match op, args with
  | "rawtx", [rate, cid, bridge, props, utxos] => some <| Id.run do
    let some i := parseInp rate cid bridge props utxos | return bad
    return verdictTx "rawtx" i impl
  | "build", [rate, cid, bridge, props, utxos] => some <| Id.run do
    let some i := parseInp rate cid bridge props utxos | return bad
    -- the executor sees what the UTXO service client returns: the listing, sorted
    let i := { i with utxos := i.utxos.map sortUtxos }
    return verdictTx "build" i impl
  | "utxos", [listing] => some <| Id.run do
    let some l := (items listing ";").mapM parseUtxo | return bad
    let m := sortUtxos l
    let ok := match parseUtxoOut impl with | some o => decide (P16sort l o) | none => false
    return ⟨showUtxos m, ok, s!"utxos:{utxoTag l}"⟩
  | "utxoperm", [l1, l2] => some <| Id.run do
    -- the real Utxos run on two listings of the same set; the property needs no model: both answers must be the same list
    let some a := (items l1 ";").mapM parseUtxo | return bad
    let some b := (items l2 ";").mapM parseUtxo | return bad
    if !decide (a.Perm b) then return bad
    let ok := match impl.splitOn "|" with
      | [o1, o2] => o1 == o2 && (match parseUtxoOut o1 with | some o => decide (o.Perm a) | none => false)
      | _ => false
    return ⟨showUtxos (sortUtxos a) ++ "|" ++ showUtxos (sortUtxos b), ok, s!"utxoperm:{utxoTag a}:same-order={decide (a = b)}"⟩
  | "buildperm", [rate, cid, bridge, props, l1, l2] => some <| Id.run do
    -- the real MempoolAPI + rawTx on two listings of the same UTXO set: same set and quotes ⇒ same transaction (or both refused)
    let some i1 := parseInp rate cid bridge props l1 | return bad
    let some i2 := parseInp rate cid bridge props l2 | return bad
    let some a := i1.utxos | return bad
    let some b := i2.utxos | return bad
    if !decide (a.Perm b) then return bad
    let sh (i : Inp) : String := match rawTx { i with utxos := i.utxos.map sortUtxos } with | none => "err" | some tx => showTx tx
    let ok := match impl.splitOn "#" with
      | [t1, t2] => t1 == t2
      | _ => false
    let kind := if (rawTx { i1 with utxos := i1.utxos.map sortUtxos }).isSome then "tx" else "err"
    return ⟨sh i1 ++ "#" ++ sh i2, ok, s!"buildperm:{kind}:{utxoTag a}"⟩
  | "fee", [rate, i, o] => some <| Id.run do
    let some i := i.toNat? | return bad
    let some o := o.toNat? | return bad
    if rate = "x" then return ⟨"err", impl == "err", "fee:err"⟩
    let some r := rate.toNat? | return bad
    let m := toString (feeOf r i o)
    return ⟨m, m == impl, s!"fee:wrap={decide (M ≤ (i * 180 + o * 34) * (r / 5 * 5 + 5))}"⟩
  | "msg", [amt, rcp] => some <| Id.run do
    let some a := fromHex amt | return bad
    let some r := fromHex rcp | return bad
    let m := s!"{msgAmount a}/{toHexW r}/77/09"
    -- property: the proposal pays (payload amount / 10^10) to the payload's recipient, unaltered
    let ok := match impl.splitOn "/" with
      | [x, rr, n, rid] => x.toNat? == some (beToNat a / 10 ^ 10) && rr == toHexW r && n == "77" && rid == "09"
      | _ => false
    return ⟨m, ok || decide (M ≤ beToNat a / 10 ^ 10), s!"msg:wrap={decide (M ≤ beToNat a / 10 ^ 10)}:exact={decide (beToNat a % 10 ^ 10 = 0)}"⟩
  | _, _ => none

end Sygma.Drv.C16
