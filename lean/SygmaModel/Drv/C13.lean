import SygmaModel.Drv.Util
import SygmaModel.Model.C13
namespace Sygma.Drv.C13
open Sygma.C13



/-- `i,j,k/thr` -/
def parseTopo (s : String) : Option Topo :=
  match s.splitOn "/" with
  | [ps, t] => do
    let ps ← natList ps
    let t ← t.toNat?
    pure ⟨ps, t⟩
  | _ => none

def parseOracle (s : String) : Option (Option (List Nat × Int)) :=
  if s = "n" then some none else
  match s.splitOn "/" with
  | [ps, t] => do
    let ps ← natList ps
    let t ← t.toInt?
    pure (some (ps, t))
  | _ => none

def parseHook (s : String) : Option Hook :=
  match s with
  | "peerDial" => some .peerDial | "addrDial" => some .addrDial | "accept" => some .accept
  | "securedIn" => some .securedIn | "securedOut" => some .securedOut | "upgraded" => some .upgraded
  | _ => none

def showNats (l : List Nat) : String := joinOr (l.map toString) ","

def showSt (st : St) : String :=
  let s := match st.stored with
    | some t => showNats t.peers ++ "/" ++ toString t.threshold
    | none => "none"
  s!"S={s}|G={showNats st.gate}|P={showNats st.pstore}"

/-- parse the implementation's observation back into a state -/
def parseSt (parts : List String) : Option St :=
  match parts with
  | [s, g, p] => do
    let s ← if s.startsWith "S=" then some (s.drop 2).toString else none
    let g ← if g.startsWith "G=" then some (g.drop 2).toString else none
    let p ← if p.startsWith "P=" then some (p.drop 2).toString else none
    let stored ← if s = "none" then some none else (parseTopo s).map some
    let g ← natList g
    let p ← natList p
    pure ⟨stored, g, p⟩
  | _ => none

structure Line where
  kind : String
  wire : Wire

def parseLine (s : String) : Option Line :=
  match s.splitOn ":" with
  | [k, t, sess, pl, _] => do
    let t ← t.toNat?
    let pl ← fromHex pl
    pure ⟨k, ⟨t, sess, pl⟩⟩
  | _ => none

def showMsg (m : Msg) : String :=
  s!"{m.sender}:{m.wire.mtype}:{m.wire.session}:{toHexW m.wire.payload}"

def handle (op : String) (args : List String) (impl : String) : Option Verdict :=
  match op, args with
  | "sha256", [m] => some <| Id.run do
    let some b := fromHex m | return bad
    let out := toHex (Sha256.sha256 b)
    return ⟨out, out == impl, s!"sha256:blocks={min ((b.length + 8) / 64) 3}"⟩
  | "gate", [topo, hook, p] => some <| Id.run do
    let some ps := natList topo | return bad
    let some h := parseHook hook | return bad
    let some p := p.toNat? | return bad
    let t : Topo := ⟨ps, 1⟩
    let m := toString (gate t h p)
    let member := decide (p ∈ ps)
    let ok := match h with
      | .peerDial | .securedIn | .securedOut => impl == toString member
      | _ => impl == "true" || impl == "false"
    return ⟨m, ok, s!"gate:{hook}:member={member}"⟩
  | "attr", [remote, lines] => some <| Id.run do
    let some r := remote.toNat? | return bad
    let some ls := (items lines ";").mapM parseLine | return bad
    -- the structured lines stand for the JSON texts; a line decodes iff its kind is `ok`
    let idx := ls.zipIdx.map fun (l, i) => (([UInt8.ofNat i] : Bytes), l)
    let decode : Bytes → Option Wire := fun b =>
      match idx.find? (·.1 == b) with
      | some (_, l) => if l.kind = "ok" then some l.wire else none
      | none => none
    let ms := processStream decode r (idx.map (·.1))
    let out := joinOr ((ms.map showMsg).mergeSort (fun a b => a ≤ b)) ";"
    -- property on the implementation's output: every delivered message is attributed to the authenticated remote peer
    -- … and nothing is invented: each delivered message is the decoding of one of the received lines (stream_no_invention)
    let decodings := (ls.filter (·.kind = "ok")).map fun l => showMsg ⟨l.wire, r⟩
    let ok := (items impl ";").all fun it => (it.splitOn ":").headD "" == toString r && decodings.contains it
    return ⟨out, ok && impl != "panic" && impl != "hang", s!"attr:n={min ls.length 3}:delivered={min ms.length 3}:allok={ls.all (·.kind = "ok")}"⟩
  | "refreshseq", [init, evs] => some <| Id.run do
    let some t0 := parseTopo init | return bad
    let some parsed := (evs.splitOn "#").mapM (fun e =>
      match e.splitOn "~" with
      | [hashes, body, oracle, storeOk] => do
        let orc ← parseOracle oracle
        let hs : Option (List String) :=
          if hashes = "x" then none else some ((items hashes ",").map fun h => if h = "E" then "" else h)
        let fetched ← (if body = "x" then some Fetched.error else (fromHex body).map Fetched.body)
        pure (hashes == "B", orc, (⟨hs, fetched, storeOk = "1"⟩ : Ev))
      | _ => none) | return bad
    let st0 := adopt t0
    -- each call has its own decrypt/parse oracle value (the parameters of the model, fed from the real library calls);
    -- the model is history free: a call's effect depends on the state and on that call's inputs only
    let envOf := fun (orc : Option (List Nat × Int)) => (⟨Sha256.sha256, id, fun _ => orc⟩ : Env)
    let step := fun (acc : St × List String) (x : Bool × Option (List Nat × Int) × Ev) =>
      if x.1 then
        -- start-up style call NetworkTopology(""): result discarded, nothing may change (a panic is possible: short body)
        let oc := match provider (envOf x.2.1) "" x.2.2.fetched with | .panic => "panic" | _ => "done"
        (acc.1, acc.2 ++ [oc ++ "|" ++ showSt acc.1])
      else
        let (st', oc) := refresh (envOf x.2.1) acc.1 x.2.2
        (st', acc.2 ++ [(match oc with | .done => "done" | .panic => "panic") ++ "|" ++ showSt st'])
    let (_, outs) := parsed.foldl step (st0, [])
    let m := "#".intercalate outs
    -- property on the implementation's output, call by call: the observed state after a call is the observed state before
    -- it, or the adoption of the topology THAT call was entitled to adopt
    let implSteps := impl.splitOn "#"
    let ok := implSteps.length == parsed.length && Id.run do
      let mut prev := st0
      let mut good := true
      for (x, o) in parsed.zip implSteps do
        match o.splitOn "|" with
        | o :: rest =>
          match parseSt rest with
          | some st' =>
            let mayPanic :=
              if x.1 then (match provider (envOf x.2.1) "" x.2.2.fetched with | .panic => true | _ => false)
              else (refresh (envOf x.2.1) prev x.2.2).2 == .panic
            good := good && (o == "done" || (o == "panic" && mayPanic))
            if x.1 then
              good := good && st' == prev
            else
              good := good && decide (RefreshOk (envOf x.2.1) prev x.2.2 st')
            prev := st'
          | none => good := false
        | _ => good := false
      return good
    let nAdopt := (parsed.filter fun x => !x.1 && (adoptable (envOf x.2.1) x.2.2).isSome).length
    return ⟨m, ok, s!"refreshseq:n={min parsed.length 4}:adoptable={min nAdopt 3}:boot={parsed.any (·.1)}"⟩
  | "stale", [re] => some <| Id.run do
    -- B's topology after the refresh is [1,2]: a NEW connection from A = peer 0 must be refused (inside the statement);
    -- a connection accepted while A was a member is not re-examined (outside the statement: observed, not constrained)
    let after := connAllowed ⟨[1, 2], 1⟩ .inbound 0
    let m := if re = "1" then (if after then "delivered:0,delivered:0" else "delivered:0,refused") else "delivered:0,delivered:0"
    let ok := if re = "1" then impl == "delivered:0,refused" || impl == "refused,refused" else impl == m
    return ⟨m, ok, s!"stale(observation):reconnect={re}"⟩
  | "refresh2", [init, evA, evB] => some <| Id.run do
    let some t0 := parseTopo init | return bad
    let parseEv := fun (e : String) =>
      match e.splitOn "~" with
      | [hashes, body, oracle, storeOk] => do
        let orc ← parseOracle oracle
        let hs : Option (List String) :=
          if hashes = "x" then none else some ((items hashes ",").map fun h => if h = "E" then "" else h)
        let fetched ← (if body = "x" then some Fetched.error else (fromHex body).map Fetched.body)
        some ((⟨Sha256.sha256, id, fun _ => orc⟩ : Env), (⟨hs, fetched, storeOk = "1"⟩ : Ev))
      | _ => none
    let some (envA, a) := parseEv evA | return bad
    let some (envB, b) := parseEv evB | return bad
    let st0 := adopt t0
    -- the schedule the harness forces: A's store and gate, all of B, then A's peerstore load
    let wa := writesOf envA a
    let wb := writesOf envB b
    let st1 := applyWrites st0 (wa.take 2 ++ wb ++ wa.drop 2)
    -- property (interleaved_components_announced): each component is the initial one or an announced topology's
    let cands := st0 :: ([adoptable envA a, adoptable envB b].filterMap (·.map adopt))
    let ok := match parseSt (impl.splitOn "|") with
      | some st' => cands.any (·.stored == st'.stored) && cands.any (·.gate == st'.gate) && cands.any (·.pstore == st'.pstore)
      | none => false
    return ⟨showSt st1, ok, s!"refresh2:A={(adoptable envA a).isSome}:B={(adoptable envB b).isSome}:split={st1.gate != st1.pstore}"⟩
  | "cli", [t] => some <| Id.run do
    let some topo := parseTopo t | return bad
    let m := "ok:" ++ showNats topo.peers ++ "/" ++ toString topo.threshold
    return ⟨m, impl == m, "cli(test)"⟩
  | "conn", [ta, tb, via] => some <| Id.run do
    let some pa := natList ta | return bad
    let some pb := natList tb | return bad
    -- A = peer 0 dials B = peer 1: outbound at A (gater over A's topology), inbound at B (gater over B's topology)
    let allowed := connAllowed ⟨pa, 1⟩ .outbound 1 && connAllowed ⟨pb, 1⟩ .inbound 0
    let m := if allowed then "delivered:0" else "refused"
    -- property on the implementation's output: a delivery happens only between mutual members and is attributed to A
    let ok := impl == "refused" || (allowed && impl == "delivered:0")
    return ⟨m, ok, s!"conn(test):{via}:allowed={allowed}"⟩
  | "refresh", [init, hashes, body, oracle, storeOk] => some <| Id.run do
    let some t0 := parseTopo init | return bad
    let some orc := parseOracle oracle | return bad
    let hs : Option (List String) :=
      if hashes = "x" then none else some ((items hashes ",").map fun h => if h = "E" then "" else h)
    let some fetched := (if body = "x" then some Fetched.error else (fromHex body).map Fetched.body) | return bad
    let sOk := storeOk = "1"
    let env : Env := ⟨Sha256.sha256, id, fun _ => orc⟩
    let st0 : St := { adopt t0 with stored := if sOk then some t0 else none }
    let ev : Ev := ⟨hs, fetched, sOk⟩
    let (st1, oc) := refresh env st0 ev
    let m := (match oc with | .done => "done" | .panic => "panic") ++ "|" ++ showSt st1
    -- a panic is acceptable only where the model says the code panics (announced ciphertext shorter than an AES block)
    let ok := match impl.splitOn "|" with
      | o :: rest => match parseSt rest with
        | some st' => decide (RefreshOk env st0 ev st') && (o == "done" || (o == "panic" && oc == .panic))
        | none => false
      | _ => false
    let why :=
      if hs.isNone then "listener-error" else if hs == some [] then "no-event"
      else if (hs.getD []).getLast? == some "" then "empty-hash"
      else if st1 != st0 then "adopted"
      else if oc == .panic then "decrypt-panic"
      else match fetched with
        | .error => "fetch-error"
        | .body b => match hexBody (trimNl b) with
          | none => "not-hex"
          | some ct => if toHex (Sha256.sha256 ct) != (hs.getD []).getLast?.getD "" then "hash-mismatch"
                       else if !sOk then "store-failed" else if orc.isNone then "unparsable" else "rejected-or-same"
    return ⟨m, ok, s!"refresh:{why}:events={min (hs.getD []).length 3}"⟩
  | _, _ => none

end Sygma.Drv.C13
