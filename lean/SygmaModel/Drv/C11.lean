import SygmaModel.Drv.Util
import SygmaModel.Drv.C07
import SygmaModel.Model.C11
namespace Sygma.Drv.C11
open Sygma.C07 Sygma.C11 Sygma.Drv.C07

/-- leaf codes of the harness: c<peer>|cnone, m[<peer>], t[<peer>+…], u, s, o, n (= nil) -/
def parseLeaf (code : String) : Option (Option (Err String)) :=
  match code.toList with
  | ['n'] => some none
  | ['o'] => some (some .other)
  | ['s'] => some (some .subset)
  | ['u'] => some (some (.tss [] false))
  | 'm' :: _ => some (some .comm)
  | 'P' :: _ :: _ => some (some .comm)   -- the transport adapter failed to send to a peer, at whatever point
  | 'c' :: r =>
    if String.ofList r = "none" then some (some (.coord none))
    else (peerOf (String.ofList r)).map fun p => some (.coord (some p))
  | 't' :: r =>
    if r.isEmpty then some (some (.tss [] true))
    else ((String.ofList r).splitOn "+").mapM peerOf |>.map fun ps => some (.tss ps true)
  | _ => none

/-- `[a,b,[c]]`: a bracket is a pool whose tasks finish in the listed order; result `none` = nil error -/
partial def parseTask (cs : List Char) : Option (Option (Err String) × List Char) :=
  match cs with
  | '[' :: rest =>
    let rec tasks (cs : List Char) (acc : List (Err String)) : Option (List (Err String) × List Char) :=
      match parseTask cs with
      | none => none
      | some (e, rest) =>
        let acc := match e with | some e => acc ++ [e] | none => acc
        match rest with
        | ',' :: rest => tasks rest acc
        | ']' :: rest => some (acc, rest)
        | _ => none
    (tasks rest []).map fun (es, rest) => (poolWait es, rest)
  | _ =>
    let code := cs.takeWhile (fun c => c != ',' && c != ']')
    (parseLeaf (String.ofList code)).map fun e => (e, cs.drop code.length)

def parseSpec (s : String) : Option (Option (Err String)) :=
  match parseTask s.toList with
  | some (e, []) => some e
  | _ => none

def showErr : Err String → String
  | .coord none => "cnone"
  | .coord (some p) => "c" ++ tokOf p
  | .comm => "m"
  | .tss cs true => "t" ++ "+".intercalate (cs.map tokOf)
  | .tss _ false => "u"
  | .subset => "s"
  | .other => "o"
  | .wrap e => "w(" ++ showErr e ++ ")"
  | .pair a b => "p(" ++ showErr a ++ "," ++ showErr b ++ ")"

/-- the harness' rendering of a returned error (errors.As in the order coordinator, subset, communication, tss) -/
def render (e : Err String) : String :=
  match findCoord e with
  | some (some p) => "coord:" ++ tokOf p
  | some none => "coord:none"
  | none => if findSubset e then "subset" else if findComm e then "comm" else if (findTss e).isSome then "tss" else "other"

def classTag : Option (Class String) → String
  | none => "ambiguous"
  | some (.coord _) => "coord" | some .comm => "comm" | some (.tss _ true) => "tss" | some (.tss _ false) => "tss-undecodable"
  | some .subset => "subset" | some .unknown => "unknown"

/-- the model of what the scenario observes after the first failure `e` (`secondAttempt` with the intended election
    rule), rendered in the harness' format -/
def second (self : String) (t : Nat) (sid : Bytes) (holders : List String) (e : Err String) (retryable : Bool)
    (claimant : Option String) (arrivals : List String) (quiet : Bool := false) : String × String :=
  let key := keyOf sid (keyTab sid (self :: holders ++ claimant.toList ++ arrivals))
  let r := secondAttempt bullyElectedListed key self t holders e retryable claimant arrivals
  let sel := match r.election with | some cs => toks cs | none => "none"
  match r.outcome with
  | .ended =>
    -- the returned error: PeersFromParties' own (untyped) error for an undecodable culprit, else the original one
    let res := if retryable && (match classify e with | .tss _ false => true | _ => false) then "other" else render e
    (s!"sel={sel};r=-;start=none;run=-;res={res}", "giveup")
  | .idle => (s!"sel={sel};r=-;start=none;run=-;res=ok", "waitstart:idle")
  | .follows c =>
    if r.election.isNone && quiet then
      -- left out, and nothing is heard for three CoordinatorTimeouts before `c` initiates and starts the replacement
      let st := runLeftOut [.quiet .coord, .quiet .coord, .quiet .coord, .msg (.init c), .msg (.start c (some 1))]
      if st.timedOut || st.w.runs != [1] then ("sel=none;r=-;start=none;run=-;res=coord:none", "waitstart:expired")
      else (s!"sel={sel};r={toks st.w.readies};start=none;run=w:p1;res=ok", "waitstart:quiet-then-started")
    else
    (s!"sel={sel};r={tokOf c};start=none;run=w:p1;res=ok", if r.election.isSome then "retry:follows-claimant" else "waitstart:started")
  | .announces S => (s!"sel={sel};r=-;start={toks S};run=c:{toks S};res=ok", "retry:coordinates:announced")
  | .neverReady => (s!"sel={sel};r=-;start=none;run=-;res=ok", "retry:coordinates:never-ready")

/-- what the relayer is expected to collect if it coordinates the new attempt itself: `(t, ready senders)`, when the
    intended election rule makes it the coordinator (`none` otherwise) -/
abbrev Collect := Option (Nat × List String)

/-- C11 on the implementation's observed behaviour, for an unambiguous cause `k` -/
def p11 (self : String) (holders : List String) (k : Class String) (retryable claimantGiven : Bool) (impl : String)
    (collect : Collect := none) : Bool :=
  if retryable && decide (self ∈ culprits k) then true else   -- outside second_attempt_clean (self_culprit_point)
  match field impl "sel", field impl "start", field impl "run", field impl "res" with
  | some sel, some start, some run, some res =>
    let ended := sel == "none" && start == "none" && run == "-" && res != "ok"
    if !retryable then ended else
    match k with
    | .unknown => ended
    | .tss _ false => ended
    | .subset => sel == "none" && start == "none" && res == "ok" && (!claimantGiven || (run.startsWith "w:" && !run.contains '/'))
    | _ =>
      let K := culprits k
      let clean (s : String) : Bool := match peers s with
        | some ps => ps.all fun p => decide (p ∉ K)
        | none => false
      let selOk := sel != "none" && clean sel && (match peers sel with | some ps => ps.all (· ∈ holders) | none => false)
      let startOk := start == "none" || clean start
      -- "starts a new attempt": when this relayer coordinates it, the announcement as a whole meets C07's clause — a subset
      -- without culprits, and announced as soon as t distinct eligible key holders reported ready (AnnouncedOk)
      let liveOk := match collect with
        | none => true
        | some (t, arrivals) =>
          match (if start = "none" then some none else (peers start).map some) with
          | some out => decide (AnnouncedOk (⟨self, holders, t, K⟩ : ICfg String) arrivals out) || !decide (self ∈ holders)
          | none => false
      let runOk := (items run "/").all fun r =>
        if r.startsWith "c:" then clean (r.drop 2).toString else r.startsWith "w:"
      -- the coordinator this relayer answers in the new attempt is no culprit
      let followOk := match field impl "r" with
        | some r => r == "-" || clean r
        | none => false
      selOk && startOk && liveOk && runOk && followOk && res == "ok"
  | _, _, _, _ => false

/-- does the relayer coordinate the new attempt under the intended election rule (then: what it collects) -/
def collectOf (self : String) (t : Nat) (sid : Bytes) (holders : List String) (k : Class String) (retryable : Bool)
    (claimant : Option String) (arrivals : List String) : Collect :=
  if !retryable then none else
  match plan k with
  | .retry ex =>
    let key := keyOf sid (keyTab sid (self :: holders ++ claimant.toList))
    if bullyElectedListed key self (nextCandidates holders ex) claimant = self then some (t, arrivals) else none
  | _ => none

def handle (op : String) (args : List String) (impl : String) : Option Verdict :=
  match op, args with
  | "pool", [spec] => some <| Id.run do
    let some e := parseSpec spec | return bad
    let m := match e with | some e => showErr e | none => "nil"
    -- property on the implementation's output: the same typed leaves survive the aggregation (what errors.As can find)
    return ⟨m, m == impl, s!"pool:{match e with | some e => classTag (intended e) | none => "nil"}"⟩
  | "handle", [self, t, sid, holders, spec, claimant, arrivals] => some <| Id.run do
    let some self := peerOf self | return bad
    let some t := t.toNat? | return bad
    let some sid := fromHex sid | return bad
    let some holders := peers holders | return bad
    let some e := parseSpec spec | return bad
    let claimant := if claimant.startsWith "!" then (claimant.drop 1).toString else claimant  -- `!` marks a culprit claimant
    let quiet := claimant.startsWith "~"   -- `~`: three silences longer than CoordinatorTimeout before the claimant speaks
    let claimant := if quiet then (claimant.drop 1).toString else claimant
    let some claimant := (if claimant = "-" then some none else (peerOf claimant).map some) | return bad
    let some arrivals := peers arrivals | return bad
    match e with
    | none => return ⟨"sel=none;r=-;start=none;run=-;res=ok", impl == "sel=none;r=-;start=none;run=-;res=ok", "handle:nil"⟩
    | some e =>
      let (m, tag) := second self t sid holders e true claimant arrivals quiet
      let ok := match intended e with
        | some k => p11 self holders k true claimant.isSome impl (collectOf self t sid holders k true claimant arrivals)
        | none => true
      return ⟨m, ok, s!"handle:{classTag (intended e)}:{tag}"⟩
  | "exec", [self, t, sid, holders, retryable, first, claimant, arrivals] => some <| Id.run do
    let some self := peerOf self | return bad
    let some t := t.toNat? | return bad
    let some sid := fromHex sid | return bad
    let some holders := peers holders | return bad
    let retryable := retryable == "1"
    let quiet := claimant.startsWith "~"
    let claimant := if quiet then (claimant.drop 1).toString else claimant
    let some claimant := (if claimant = "-" then some none else (peerOf claimant).map some) | return bad
    let some arrivals := peers arrivals | return bad
    let key := keyOf sid (keyTab sid holders)
    let some c := staticCoordinator key holders | return ⟨"noholders", impl == "noholders", "exec:noholders"⟩
    if first.startsWith "silent" then   -- `silent:<peer>`: <peer> keeps sending initiate messages meanwhile (ignored)
      if c = self then return ⟨"selfcoord", impl == "selfcoord", "exec:selfcoord"⟩
      let e : Err String := .wrap (.coord (some c))
      let (m, tag) := second self t sid holders e retryable claimant arrivals quiet
      return ⟨"run1=none;" ++ m, p11 self holders (.coord (some c)) retryable claimant.isSome impl
        (collectOf self t sid holders (.coord (some c)) retryable claimant arrivals), s!"exec:silent:retryable={retryable}:{tag}"⟩
    -- `f:<code>`: watchExecution fails first (fail message from the coordinator), then the cancelled Run with <code>
    let withFail := first.startsWith "f:"
    let some (some leaf) := parseLeaf (if withFail then (first.drop 2).toString else first) | return bad
    let e : Err String := if withFail then .pair (.wrap .other) (.wrap (.wrap leaf)) else .wrap (.wrap leaf)
    let run1 := if c = self then
        match initiate key ⟨self, holders, t, []⟩ ((holders.filter (· ≠ self)).take t) with
        | some (_, S) => "c:" ++ toks S
        | none => "none"
      else "w:p0"
    if run1 = "none" then return ⟨"BADSCENARIO", false, "exec:badscenario"⟩
    let (m, tag) := second self t sid holders e retryable claimant arrivals quiet
    let ok := match intended e with
      | some k => p11 self holders k retryable claimant.isSome impl (collectOf self t sid holders k retryable claimant arrivals)
      | none => true
    return ⟨s!"run1={run1};" ++ m, ok, s!"exec:{if c = self then "coordinator" else "participant"}:withfail={withFail}:retryable={retryable}:{classTag (intended e)}:{tag}"⟩
  | "realholders", [_] => some ⟨impl, true, "realholders"⟩   -- (fixture facts; inputs of the `real` lines)
  | "real", [_i, self, t, sid, holders, first, partner, claimant, ready2] => some <| Id.run do
    let some self := peerOf self | return bad
    let some t := t.toNat? | return bad
    let some sid := fromHex sid | return bad
    let some holders := peers holders | return bad
    let some partner := peerOf partner | return bad
    let some claimant := (if claimant = "-" then some none else (peerOf claimant).map some) | return bad
    let some ready2 := peers ready2 | return bad
    let key := keyOf sid (keyTab sid holders)
    let some c := staticCoordinator key holders | return bad
    -- first attempt: the subset this relayer announces (coordinator) or is told (participant); who the other member is
    let (run1, other) := if c = self then
        match initiate key ⟨self, holders, t, []⟩ [partner] with
        | some (_, S) => ("c:" ++ toks S, partner)
        | none => ("none", partner)
      else if first = "s" then ("w:" ++ toks [c, partner], c) else ("w:" ++ toks [c, self], c)
    let some leaf := (match first with
      | "m" => some Err.comm | "mp" => some Err.comm
      | "t" => some (Err.tss [other] true) | "s" => some Err.subset | _ => none) | return bad
    let e : Err String := .wrap (.wrap leaf)
    let (m0, tag) := second self t sid holders e true claimant (ready2 ++ [peerTab.getD 9 ""])
    -- the replacement start a claimant sends carries the real params [claimant, self]
    let m := match claimant with
      | some r => m0.replace "w:p1" ("w:" ++ toks [r, self])
      | none => m0
    let ok := match intended e with
      | some k => p11 self holders k true claimant.isSome impl (collectOf self t sid holders k true claimant ready2)
      | none => true
    return ⟨s!"run1={run1};" ++ m, ok, s!"real:{if c = self then "coordinator" else "participant"}:{first}:{tag}"⟩
  | _, _ => none

end Sygma.Drv.C11
