import SygmaModel.Drv.Util
import SygmaModel.Drv.C07
import SygmaModel.Model.C11
namespace Sygma.Drv.C11
open Sygma.C07 Sygma.C11 Sygma.Drv.C07

/-- leaf codes of the harness: c<peer>|cnone, m[<peer>], t[<peer>+…], u, s, o, n (= nil) -/
def parseLeaf (code : String) : Option (Option (Err String)) :=
  match code.toList with
  | ['n'] => some none
  | ['o'] => some (some .other)
  | ['s'] => some (some .subset)
  | ['u'] => some (some (.tss [] false))
  | 'm' :: _ => some (some .comm)
  | 'P' :: _ :: _ => some (some .comm)   -- the transport adapter failed to send to a peer, at whatever point
  | 'c' :: r =>
    if String.ofList r = "none" then some (some (.coord none))
    else (peerOf (String.ofList r)).map fun p => some (.coord (some p))
  | 't' :: r =>
    if r.isEmpty then some (some (.tss [] true))
    else ((String.ofList r).splitOn "+").mapM peerOf |>.map fun ps => some (.tss ps true)
  | _ => none

/-- `[a,b,[c]]`: a bracket is a pool whose tasks finish in the listed order; result `none` = nil error -/
partial def parseTask (cs : List Char) : Option (Option (Err String) × List Char) :=
  match cs with
  | '[' :: rest =>
    let rec tasks (cs : List Char) (acc : List (Err String)) : Option (List (Err String) × List Char) :=
      match parseTask cs with
      | none => none
      | some (e, rest) =>
        let acc := match e with | some e => acc ++ [e] | none => acc
        match rest with
        | ',' :: rest => tasks rest acc
        | ']' :: rest => some (acc, rest)
        | _ => none
    (tasks rest []).map fun (es, rest) => (poolWait es, rest)
  | _ =>
    let code := cs.takeWhile (fun c => c != ',' && c != ']')
    (parseLeaf (String.ofList code)).map fun e => (e, cs.drop code.length)

def parseSpec (s : String) : Option (Option (Err String)) :=
  match parseTask s.toList with
  | some (e, []) => some e
  | _ => none

def showErr : Err String → String
  | .coord none => "cnone"
  | .coord (some p) => "c" ++ tokOf p
  | .comm => "m"
  | .tss cs true => "t" ++ "+".intercalate (cs.map tokOf)
  | .tss _ false => "u"
  | .subset => "s"
  | .other => "o"
  | .wrap e => "w(" ++ showErr e ++ ")"
  | .pair a b => "p(" ++ showErr a ++ "," ++ showErr b ++ ")"

def showRes11 : Res11 String → String
  | .ok => "ok" | .coord (some p) => "coord:" ++ tokOf p | .coord none => "coord:none" | .subset => "subset"
  | .comm => "comm" | .tss => "tss" | .other => "other" | .panic => "panic"

def parseRes11 (s : String) : Option (Res11 String) :=
  match s with
  | "ok" => some .ok | "subset" => some .subset | "comm" => some .comm | "tss" => some .tss | "other" => some .other
  | "panic" => some .panic | "coord:none" => some (.coord none)
  | _ => if s.startsWith "coord:" then (peerOf (s.drop 6).toString).map fun p => .coord (some p) else none

/-- an observation in the harness' format; `wparams` is what a participant Run is printed with -/
def showSeen (o : Seen String) (wparams : String := "p1") : String :=
  let sel := match o.election with | some cs => toks cs | none => "none"
  let start := match o.start with | some S => toks S | none => "none"
  let run := match o.crun, o.wrun with
    | some S, _ => "c:" ++ toks S
    | none, true => "w:" ++ wparams
    | none, false => "-"
  s!"sel={sel};r={toks o.readyTo};n={o.consumed};start={start};run={run};res={showRes11 o.res}"

def parseSeen (impl : String) : Option (Seen String) := do
  let sel ← field impl "sel"
  let election ← if sel = "none" then some none else (peers sel).map some
  let readyTo ← (field impl "r").bind peers
  let consumed ← (field impl "n").bind String.toNat?
  let st ← field impl "start"
  let start ← if st = "none" then some none else (peers st).map some
  let run ← field impl "run"
  let (crun, wrun) ← match items run "/" with
    | [] => some (none, false)
    | [r] => if r.startsWith "c:" then (peers (r.drop 2).toString).map fun S => (some S, false)
             else if r.startsWith "w:" then some (none, true) else none
    | _ => none                       -- more than one Run in the second attempt
  let res ← (field impl "res").bind parseRes11
  pure ⟨election, readyTo, consumed, start, crun, wrun, res⟩

def kindOf : String → Option Kind
  | "ecdsa-keygen" => some .ecdsaKeygen | "ecdsa-signing" => some .ecdsaSigning | "ecdsa-resharing" => some .ecdsaResharing
  | "frost-keygen" => some .frostKeygen | "frost-signing" => some .frostSigning | "frost-resharing" => some .frostResharing
  | _ => none

def fixA : String := "QmcvEg7jGvuxdsUFRUiE4VdrL2P1Yeju5L83BsJvvXz7zX"
def fixB : String := "QmeTuMtdpPB7zKDgmobEwSvxodrf5aFVSmBXX3SQJVjJaT"
def fixC : String := "QmYAYuLUPNwYEBYJaKHcE7NKjUhiUV8txx2xDXHvcYa1xK"

def classTag : Option (Class String) → String
  | none => "ambiguous"
  | some (.coord _) => "coord" | some .comm => "comm" | some (.tss _ true) => "tss" | some (.tss _ false) => "tss-undecodable"
  | some .subset => "subset" | some .unknown => "unknown"

def electionKey' (sid : Bytes) (self : String) (holders : List String) (claimant : Option String) (arrivals : List String) :
    String → Nat :=
  keyOf sid (keyTab sid (self :: holders ++ claimant.toList ++ arrivals))

/-- the model of what the scenario observes after the first failure `e`: `seenOf (secondAttempt …)` with the intended
    election rule; `mode` = "" | "~" (three CoordinatorTimeout-long silences, then the claimant speaks) | "^" (the
    claimant only keeps initiating until TssTimeout has passed) -/
def second (self : String) (t : Nat) (sid : Bytes) (holders : List String) (e : Err String) (retryable : Bool)
    (claimant : Option String) (arrivals : List String) (mode : String := "") : Seen String × String :=
  let key := electionKey' sid self holders claimant arrivals
  let r := secondAttempt bullyElectedListed key self t holders e retryable claimant arrivals
  let o := seenOf arrivals r
  let tag := match r.outcome with
    | .ended _ => "giveup" | .idle => "waitstart:idle"
    | .follows _ => if r.election.isSome then "retry:follows-claimant" else "waitstart:started"
    | .announces _ _ => "retry:coordinates:announced" | .neverReady => "retry:coordinates:never-ready"
  match r.outcome, r.election, mode with
  | .follows c, none, "~" =>
    -- left out; TssTimeout is 10 units, CoordinatorTimeout 2: three silences of 3 units, then `c` initiates and starts
    let st := runLeftOut 10 [.tick, .tick, .tick, .tick, .tick, .tick, .tick, .tick, .tick, .msg (.init c), .msg (.start c (some 1))]
    if st.timedOut || st.w.runs != [1] then (⟨none, [], 0, none, none, false, .coord none⟩, "waitstart:expired")
    else ({ o with readyTo := st.w.readies }, "waitstart:quiet-then-started")
  | .follows c, none, "^" =>
    -- left out; `c` initiates again and again (each initiate re-arms waitForStart's ticker) but never starts: the fail
    -- watcher's TssTimeout ticker, which nothing re-arms, ends the wait with its (untyped) time-out error
    let st := runLeftOut 4 [.msg (.init c), .tick, .tick, .msg (.init c), .tick, .tick, .msg (.init c), .tick]
    if st.timedOut then (⟨none, [c], 0, none, none, false, .other⟩, "waitstart:tss-timeout")
    else ({ o with wrun := false }, "waitstart:unexpected")
  | _, _, _ => (o, tag)

/-- C11 on the implementation's observed behaviour, for an error `e` of unambiguous cause `k`: the decidable predicate
    `P11` of the model (theorem model_satisfies_p11) on the parsed observation -/
def p11 (self : String) (t : Nat) (sid : Bytes) (holders : List String) (e : Err String) (k : Class String)
    (retryable : Bool) (claimant : Option String) (arrivals : List String) (impl : String) (mode : String := "")
    (wparams : String := "p1") : Bool :=
  if retryable && decide (self ∈ culprits k) then true else   -- outside model_satisfies_p11 (self_culprit_point)
  match parseSeen impl with
  | none => false
  | some o =>
    if mode = "^" && k = .subset && retryable then
      -- the wait for the replacement start ends at TssTimeout (left_out_gives_up_at_tss_timeout): no election, no Run,
      -- the watcher's untyped time-out error
      decide (o.election = none) && decide (o.start = none) && decide (o.crun = none) && !o.wrun && decide (o.res = .other)
    else
    let key := electionKey' sid self holders claimant arrivals
    let coordinates := decide (bullyElectedListed key self (nextCandidates holders (culprits k)) claimant = self)
    -- (ready targets: the same coordinator may be answered more than once when it initiates more than once)
    -- a participant Run of the new attempt carries the params of the claimant's start message — nobody else's
    (!o.wrun || field impl "run" == some ("w:" ++ wparams)) &&
    decide (P11 self holders t e k retryable coordinates claimant arrivals { o with readyTo := o.readyTo.eraseDups })

def handle (op : String) (args : List String) (impl : String) : Option Verdict :=
  match op, args with
  | "pool", [spec] => some <| Id.run do
    let some e := parseSpec spec | return bad
    let m := match e with | some e => showErr e | none => "nil"
    -- property on the implementation's output: the same typed leaves survive the aggregation (what errors.As can find)
    return ⟨m, m == impl, s!"pool:{match e with | some e => classTag (intended e) | none => "nil"}"⟩
  | "handle", [self, t, sid, holders, spec, claimant, arrivals] => some <| Id.run do
    let some self := peerOf self | return bad
    let some t := t.toNat? | return bad
    let some sid := fromHex sid | return bad
    let some holders := peers holders | return bad
    let some e := parseSpec spec | return bad
    let claimant := if claimant.startsWith "!" then (claimant.drop 1).toString else claimant  -- `!` marks a culprit claimant
    -- `~`: three silences longer than CoordinatorTimeout before the claimant speaks; `^`: it only initiates, past TssTimeout
    let mode := if claimant.startsWith "~" then "~" else if claimant.startsWith "^" then "^" else ""
    let claimant := if mode != "" then (claimant.drop 1).toString else claimant
    let some claimant := (if claimant = "-" then some none else (peerOf claimant).map some) | return bad
    let some arrivals := peers arrivals | return bad
    match e with
    | none =>
      let m := showSeen ⟨none, [], 0, none, none, false, .ok⟩
      return ⟨m, impl == m, "handle:nil"⟩
    | some e =>
      let (o, tag) := second self t sid holders e true claimant arrivals mode
      let ok := match intended e with
        | some k => p11 self t sid holders e k true claimant arrivals impl mode
        | none => true      -- two different typed causes at once: outside the property's quantifier (level_note)
      return ⟨showSeen o, ok, s!"handle:{classTag (intended e)}:{tag}"⟩
  | "exec", [self, t, sid, holders, retryable, first, claimant, arrivals] => some <| Id.run do
    let some self := peerOf self | return bad
    let some t := t.toNat? | return bad
    let some sid := fromHex sid | return bad
    let some holders := peers holders | return bad
    -- retryable: 0 | 1, or one of the six process kinds (then: what the REAL process object answered to Retryable())
    let some retryable := (match retryable with
      | "0" => some false | "1" => some true
      | k => (kindOf k).map retryableOf) | return bad
    let mode := if claimant.startsWith "~" then "~" else if claimant.startsWith "^" then "^" else ""
    let claimant := if mode != "" then (claimant.drop 1).toString else claimant
    let some claimant := (if claimant = "-" then some none else (peerOf claimant).map some) | return bad
    let some arrivals := peers arrivals | return bad
    let key := keyOf sid (keyTab sid holders)
    let some c := staticCoordinator key holders | return ⟨"noholders", impl == "noholders", "exec:noholders"⟩
    if first.startsWith "silent" then   -- `silent:<peer>`: <peer> keeps sending initiate messages meanwhile (ignored)
      if c = self then return ⟨"selfcoord", impl == "selfcoord", "exec:selfcoord"⟩
      let e : Err String := .wrap (.coord (some c))
      let (o, tag) := second self t sid holders e retryable claimant arrivals mode
      return ⟨"run1=none;" ++ showSeen o, p11 self t sid holders e (.coord (some c)) retryable claimant arrivals impl mode,
        s!"exec:silent:retryable={retryable}:{tag}"⟩
    -- `f:<code>`: watchExecution fails first (fail message from the coordinator), then the cancelled Run with <code>
    let withFail := first.startsWith "f:"
    let some (some leaf) := parseLeaf (if withFail then (first.drop 2).toString else first) | return bad
    let e : Err String := if withFail then .pair (.wrap .other) (.wrap (.wrap leaf)) else .wrap (.wrap leaf)
    let run1 := if c = self then
        match initiate key ⟨self, holders, t, []⟩ ((holders.filter (· ≠ self)).take t) with
        | some (_, S) => "c:" ++ toks S
        | none => "none"
      else "w:p0"
    if run1 = "none" then return ⟨"BADSCENARIO", false, "exec:badscenario"⟩
    let (o, tag) := second self t sid holders e retryable claimant arrivals mode
    let ok := match intended e with
      | some k => p11 self t sid holders e k retryable claimant arrivals impl mode
      | none => true
    return ⟨s!"run1={run1};" ++ showSeen o, ok, s!"exec:{if c = self then "coordinator" else "participant"}:withfail={withFail}:retryable={retryable}:{classTag (intended e)}:{tag}"⟩
  | "realholders", [i] =>
    -- the three fixture relayers (tss/test/pks, tss/test/keyshares): owner;holders as pinned here
    let m := match i with
      | "0" => s!"{fixA};{fixA},{fixB},{fixC}" | "1" => s!"{fixB};{fixB},{fixC},{fixA}" | "2" => s!"{fixC};{fixB},{fixA},{fixC}"
      | _ => "BADARGS"
    some ⟨m, m == impl, "realholders"⟩
  | "defaults", [] =>
    -- what NewCoordinator sets; property on the implementation's values: TimeoutsOk (InitiatePeriod < CoordinatorTimeout
    -- < TssTimeout), without which an unresponsive coordinator is never classified (coordinator_timeout_precedes_watchdog)
    let d := defaultTimeouts
    let m := s!"init={d.initiate};coord={d.coord};tss={d.tss}"
    let ok := match (field impl "init").bind String.toNat?, (field impl "coord").bind String.toNat?, (field impl "tss").bind String.toNat? with
      | some i, some c, some t => decide (TimeoutsOk ⟨i, c, t⟩)
      | _, _, _ => false
    some ⟨m, ok, "defaults"⟩
  | "retryable", [k] =>
    -- the real process object's answer to Retryable(): only signing is retryable (obligation gen_retryable)
    match kindOf k with
    | some kind => let m := if retryableOf kind then "1" else "0"; some ⟨m, m == impl, s!"retryable:{k}"⟩
    | none => some bad
  | "real", [_i, self, t, sid, holders, first, partner, claimant, ready2] => some <| Id.run do
    let some self := peerOf self | return bad
    let some t := t.toNat? | return bad
    let some sid := fromHex sid | return bad
    let some holders := peers holders | return bad
    let some partner := peerOf partner | return bad
    let some claimant := (if claimant = "-" then some none else (peerOf claimant).map some) | return bad
    let some ready2 := peers ready2 | return bad
    let key := keyOf sid (keyTab sid holders)
    let some c := staticCoordinator key holders | return bad
    -- first attempt: the subset this relayer announces (coordinator) or is told (participant); who the other member is
    let (run1, other) := if c = self then
        match initiate key ⟨self, holders, t, []⟩ [partner] with
        | some (_, S) => ("c:" ++ toks S, partner)
        | none => ("none", partner)
      else if first = "s" then ("w:" ++ toks [c, partner], c) else ("w:" ++ toks [c, self], c)
    let some leaf := (match first with
      | "m" => some Err.comm | "mp" => some Err.comm
      | "t" => some (Err.tss [other] true) | "s" => some Err.subset | _ => none) | return bad
    let e : Err String := .wrap (.wrap leaf)
    let (o, tag) := second self t sid holders e true claimant ready2
    -- the replacement start a claimant sends carries the real params [claimant, self]
    let m := showSeen o (match claimant with | some r => toks [r, self] | none => "p1")
    let ok := match intended e with
      | some k => p11 self t sid holders e k true claimant ready2 impl "" (match claimant with | some r => toks [r, self] | none => "p1")
      | none => true
    return ⟨s!"run1={run1};" ++ m, ok, s!"real:{if c = self then "coordinator" else "participant"}:{first}:{tag}"⟩
  | _, _ => none

end Sygma.Drv.C11
