import SygmaModel.Drv.Util
import SygmaModel.Model.C03
namespace Sygma.Drv.C03
open Sygma.C03

def showRet : Ret → String
  | .nil => "nil" | .err => "err" | .panic => "panic"

def showSessions (ss : List (List Nat)) : String :=
  joinOr ((sortSessions ss).map fun s => joinOr (s.map toString) ",") ";"

def showOut (o : Out) : String := showRet o.ret ++ "|" ++ showSessions o.sessions

def parseSessions (s : String) : Option (List (List Nat)) :=
  (items s ";").mapM natList

def ansOf : Char → Option Ans
  | 'p' => some .notExec | 'e' => some .exec | 'x' => some .err | _ => none

def statusOf : Char → Option Status
  | 'm' => some .missing | 'p' => some .pending | 'f' => some .failed | 'e' => some .executed | _ => none

def showStatus : Status → String
  | .missing => "m" | .pending => "p" | .failed => "f" | .executed => "e"

def chars (s : String) : List Char := if s = "-" then [] else s.toList

/-- fault script: '0' = the call succeeds; '1' or a kind letter (generic, leveldb closed / read-only / snapshot released /
    iterator released / corrupted, plain or %w-wrapped) = the call fails; a leading 'W' (absent keys are reported with a
    wrapped ErrNotFound) does not change the model -/
def bits (s : String) : Option (List Bool) :=
  let cs := match chars s with
    | 'W' :: r => r
    | r => r
  cs.mapM fun c => if c = '0' then some false else if "1cCrRsSiIkK".toList.contains c then some true else none

def delivery (script : String) : Option Delivery :=
  ((chars script).mapM ansOf).map fun as => (List.range as.length).zip as

/-- `<ret>|<sessions>` of the implementation -/
def implSessions (impl : String) : Option (List (List Nat)) :=
  match impl.splitOn "|" with
  | _ :: ss :: _ => parseSessions ss
  | _ => none

def showStatuses (m : List (Nat × Status)) (n : Nat) : String :=
  if n = 0 then "-" else String.join ((List.range n).map fun i => showStatus (lookup m i))

/-- D<nonces> | X<nonces> | L<k> -/
def parseOps (s : String) : Option (List Op) := do
  let rec go (xs : List String) (fail : Option Nat) : Option (List Op) :=
    match xs with
    | [] => some []
    | x :: r =>
      let arg := if x.length ≤ 1 then "-" else (x.drop 1).toString
      match x.front with
      | 'D' => do let ns ← natList arg; let t ← go r none; pure (Op.deliver ns fail :: t)
      | 'X' => do let ns ← natList arg; let t ← go r fail; pure (Op.execute ns :: t)
      | 'L' => do let k ← arg.toNat?; go r (some k)
      | _ => none
  go (items s "/") none

/-- D<nonces>[@faults] | S<nonces>[@faults] | F<nonces>[@faults] -/
def parseBOps (s : String) : Option (List BOp) :=
  (items s "/").mapM fun x => do
    let body := if x.length ≤ 1 then "" else (x.drop 1).toString
    let (arg, fl) := match body.splitOn "@" with
      | [a, f] => (a, f)
      | _ => (body, "-")
    let ns ← natList (if arg = "" then "-" else arg)
    let f ← bits fl
    match x.front with
    | 'D' => some (BOp.deliver ns f)
    | 'S' => some (BOp.outcome true ns f)
    | 'F' => some (BOp.outcome false ns f)
    | 'T' => some (BOp.timeout ns)
    | _ => none

/-- the BTC part of the property on one delivery's observed sessions -/
def btcOk (res : Nat → Nat) (s : Store) (d : List Nat) (ss : List (List Nat)) : Bool :=
  decide (P03 (faulted s d) (executable s.m d) ss) &&
  ss.all (fun x => x.all fun n => res n == res (x.headD 0))

/-- `0,1/0/…` — the members asked about per tick; the last entry is the closing sweep -/
def parseSweeps (s : String) : Option (List (List Nat)) := (items s "/").mapM natList

def handle (op : String) (args : List String) (impl : String) : Option Verdict :=
  match op, args with
  | "sub", [script] => some <| Id.run do
    let some d := delivery script | return bad
    let o := sub d
    let ok := match implSessions impl with
      | some ss => decide (P03ord (hasErr d) (wanted d) ss)
      | none => false
    return ⟨showOut o, ok, s!"sub:err={hasErr d}:signed={min (wanted d).length 3}:skipped={d.any (·.2 = .exec)}"⟩
  | "evm", [cap, tg, script] => some <| Id.run do
    let some cap := cap.toNat? | return bad
    let some tg := tg.toNat? | return bad
    let some d := delivery script | return bad
    let o := evm cap tg d
    let ok := match implSessions impl with
      | some ss => decide (P03ord (hasErr d) (wanted d) ss)
      | none => false
    return ⟨showOut o, ok, s!"evm:err={hasErr d}:sessions={min o.sessions.length 3}:skipped={d.any (·.2 = .exec)}"⟩
  | "btc", [res, init, faults] => some <| Id.run do
    let some sts := (chars init).mapM statusOf | return bad
    let some fl := bits faults | return bad
    let rs := (chars res).map (·.toNat)
    let resOf := fun n => rs.getD n 97
    let m := (List.range sts.length).zip sts
    let d := List.range sts.length
    let s : Store := ⟨m, fl⟩
    let (o, s') := btc resOf s d
    let model := showOut o ++ "|" ++ showStatuses s'.m sts.length
    let ok := match impl.splitOn "|" with
      | [_, ss, fin] =>
        match parseSessions ss, (chars fin).mapM statusOf with
        | some ss, some fs =>
          btcOk resOf s d ss &&
          ss.flatten.all (fun n => fs[n]? == some Status.pending) &&                -- in flight is recorded durably
          (List.range sts.length).all (fun n => sts[n]? != some Status.executed || fs[n]? == some Status.executed)
        | _, _ => false
      | _ => false
    return ⟨model, ok, s!"btc:fault={faulted s d}:signed={min (executable m d).length 3}:n={min d.length 3}"⟩
  | "hist", [kind, ops] => some <| Id.run do
    let some ops := parseOps ops | return bad
    let exec : Delivery → Out := if kind = "evm" then evm 150 60 else sub
    let runs := runHist exec [] ops
    let model := joinOr (runs.map fun r => showOut r.2.2.2) "/"
    let outs := items impl "/"
    let dl := fun (r : List Nat × List Nat × Option Nat × Out) => answers r.1 r.2.1 r.2.2.1
    let ok := outs.length == runs.length &&
      (runs.zip outs).all fun (r, o) =>
        match implSessions o with
        | some ss => decide (P03 (hasErr (dl r)) (wanted (dl r)) ss)
        | none => false
    return ⟨model, ok, s!"hist:{kind}:deliveries={min runs.length 4}:redelivered={runs.any fun r => (dl r).any (·.2 = .exec)}"⟩
  | "histbtc", [n, ops] => some <| Id.run do
    let some n := n.toNat? | return bad
    let some ops := parseBOps ops | return bad
    let resOf := fun k => k % 2
    -- the model, op by op (the same computation as `runBtc`, with a snapshot after every op)
    let step := fun (m : List (Nat × Status)) (op : BOp) => match op with
      | .deliver ns f => let (o, s') := btc resOf ⟨m, f⟩ ns; (showOut o, s'.m)
      | .outcome ok ns f => ("-", (storeStatus ⟨m, f⟩ ns (if ok then .executed else .failed)).m)
      | .timeout _ => ("-", m)
    let (entries, mf) := ops.foldl (fun (acc : List String × List (Nat × Status)) op =>
      let (r, m') := step acc.2 op
      (acc.1 ++ [r ++ "~" ++ showStatuses m' n], m')) ([], [])
    let model := joinOr entries "/" ++ "#" ++ showStatuses mf n
    -- the property, evaluated on the implementation's OWN record: each delivery against the statuses the
    -- implementation showed just before it; executed survives every delivery and every time-out
    let ok := match impl.splitOn "#" with
      | [outs, fin] =>
        let outs := items outs "/"
        let parsed := outs.mapM fun o => match o.splitOn "~" with
          | [r, sn] => ((chars sn).mapM statusOf).bind fun fs =>
              if fs.length = n then some (r, (List.range n).zip fs) else none
          | _ => none
        match parsed with
        | some ps =>
          ((chars fin).mapM statusOf).isSome && ps.length == ops.length &&
          (((([] : List (Nat × Status)) :: ps.map (·.2)).zip (ps.zip ops)).all fun (prev, ((r, next), op)) =>
            let keeps := (List.range n).all fun k => lookup prev k != Status.executed || lookup next k == Status.executed
            match op with
            | .deliver ns f =>
              (match implSessions r with
               | some ss => btcOk resOf ⟨prev, f⟩ ns ss && ss.flatten.all (fun k => k ≥ n || lookup next k == Status.pending)
               | none => false) && keeps
            | .timeout _ => keeps
            | .outcome okk ns f =>
              -- the outcome is durably recorded under the key the filters read: only the listed proposals move, to
              -- the outcome's status; all of them when no store call fails (storeStatus_lookup / storeStatus_nofault)
              let v := if okk then Status.executed else Status.failed
              (List.range n).all (fun k => lookup next k == lookup prev k || (ns.contains k && lookup next k == v)) &&
              (f.any id || ns.all (fun k => k ≥ n || lookup next k == v)))
        | none => false
      | _ => false
    return ⟨model, ok, s!"histbtc:ops={min ops.length 6 / 2}:timeout={ops.any fun o => match o with | .timeout _ => true | _ => false}"⟩
  | "tick", [kind, answers] => some <| Id.run do
    let some v := (chars answers).mapM ansOf | return bad
    let model := (if allExecuted v then "true" else "false") ++ "|" ++ joinOr ((asked v).map toString) ","
    let ok := match impl.splitOn "|" with
      | [r, _] => (r == "true" || r == "false") && decide (PTick v (r == "true"))
      | _ => false
    return ⟨model, ok, s!"tick:{kind}:n={min v.length 4}:all={allExecuted v}:err={v.any (· = .err)}"⟩
  | "watch", [kind, n, script] => some <| Id.run do
    let some n := n.toNat? | return bad
    let some sc := (items script "/").mapM (fun t => (chars t).mapM ansOf) | return bad
    if sc.any (·.length ≠ n) || n = 0 then return bad
    let showSweeps := fun (ss : List (List Nat)) => joinOr (ss.map fun x => joinOr (x.map toString) ",") "/"
    let model := (match watch sc with | some t => s!"closed@{t}" | none => "waiting") ++ "|" ++ showSweeps (sweeps sc)
    let ok := match impl.splitOn "|" with
      | [r, sw] =>
        match parseSweeps sw with
        | none => false
        | some sws =>
          if r == "waiting" then decide (PWatch sc none [])
          else match r.splitOn "@" with
            | ["closed", t] => (match t.toNat? with
                | some t => sws.length == t + 1 && decide (PWatch sc (some t) (sws.getLastD []))
                | none => false)
            | _ => false
      | _ => false
    return ⟨model, ok, s!"watch:{kind}:n={min n 4}:ticks={min sc.length 4}:closed={(watch sc).isSome}:pendingAtSomeTick={sc.any (·.any (· ≠ .exec))}"⟩
  | "sigwatch", [kind, gas, ns, script] => some <| Id.run do
    let some ns := natList ns | return bad
    let some sc := (items script "/").mapM (fun t => (chars t).mapM ansOf) | return bad
    if sc.any (·.length ≠ ns.length) || ns.isEmpty then return bad
    let g := if kind = "evm" then gas else "-"
    let showSub := fun (x : List Nat) => joinOr (x.map toString) "," ++ "/" ++ g
    let showSweeps := fun (ss : List (List Nat)) => joinOr (ss.map fun x => joinOr (x.map toString) ",") "/"
    let model := (match watch sc with
      | some t => s!"closed@{t}|-|ok"
      | none => "submitted|" ++ joinOr ((submitAfterTicks sc ns).map showSub) ";" ++ "|ok") ++ "|" ++ showSweeps (sweeps sc)
    let ok := match impl.splitOn "|" with
      | [r, subs, inputs, sw] =>
        inputs == "ok" &&
        (match parseSweeps sw with
         | none => false
         | some sws =>
          if r == "submitted" then
            (match (items subs ";").mapM (fun it => match it.splitOn "/" with
                | [xs, gg] => if gg == g then natList xs else none
                | _ => none) with
              | some ss => decide (PSubmit ns ss) && decide (PWatch sc none [])
              | none => false)
          else match r.splitOn "@" with
            | ["closed", t] => subs == "-" && (match t.toNat? with
                | some t => sws.length == t + 1 && decide (PWatch sc (some t) (sws.getLastD []))
                | none => false)
            | _ => false)
      | _ => false
    return ⟨model, ok, s!"sigwatch:{kind}:n={min ns.length 4}:ticks={min sc.length 3}:closed={(watch sc).isSome}:partly={sc.any fun v => v.any (· = .exec) && v.any (· ≠ .exec)}"⟩
  | "submit", [kind, outcome, gas, ns] => some <| Id.run do
    let some ns := natList ns | return bad
    let g := if kind = "evm" then gas else "-"
    let showSub := fun (x : List Nat) => joinOr (x.map toString) "," ++ "/" ++ g
    let model := (if outcome = "ok" then "nil" else "err") ++ "|" ++ joinOr ((submitted ns).map showSub) ";"
    let ok := match impl.splitOn "|" with
      | [_, subs] =>
        let parsed := (items subs ";").mapM fun it => match it.splitOn "/" with
          | [xs, gg] => if gg == g then natList xs else none
          | _ => none
        match parsed with
        | some ss => decide (PSubmit ns ss)
        | none => false
      | _ => false
    return ⟨model, ok, s!"submit:{kind}:{outcome}:n={min ns.length 3}"⟩
  | "lookupseq", [kind, qs] => some <| Id.run do
    let some qs := (items qs ",").mapM (fun q => match q.splitOn "." with
      | [s, n, a] => do let s ← s.toNat?; let n ← n.toNat?; let a ← a.toList.head?.bind ansOf; pure (s, n, a)
      | _ => none) | return bad
    let showA := fun (a : Ans) => match a with | .notExec => "p" | .exec => "e" | .err => "x"
    let model := joinOr ((lookupSeq qs).map fun (q, r) => match q with
      | some q => s!"{q.domain}:{q.nonce}={showA r}"
      | none => s!"noask={showA r}") ","
    let steps := items impl ","
    let ok := steps.length == qs.length &&
      ((List.range qs.length).zip (qs.zip steps)).all fun (i, ((s, n, a), st)) =>
        match st.splitOn "=" with
        | [asked, r] =>
          match r.toList.head?.bind ansOf with
          | some r =>
            let q : Option (Option Query) :=
              if asked == "noask" then some none
              else match asked.splitOn ":" with
                | [d, k] => (match d.toNat?, k.toNat? with | some d, some k => some (some ⟨d, k⟩) | _, _ => none)
                | _ => none
            (match q with
             | some q => decide (PLookupStep (qs.take i) s n a q r)
             | none => false)
          | none => false
        | _ => false
    let clash := (List.range qs.length).any fun i => (qs.take i).any fun p => p.2.1 == (qs.getD i (0, 0, .err)).2.1 && p.1 != (qs.getD i (0, 0, .err)).1
    return ⟨model, ok, s!"lookupseq:{kind}:n={min qs.length 4}:sameNonceOtherDomain={clash}"⟩
  | "lookupevm", [src, dst, nonce, ans] => some <| Id.run do
    let some src := src.toNat? | return bad
    let some dst := dst.toNat? | return bad
    let some nonce := nonce.toNat? | return bad
    let some a := (ans.toList.head?).bind ansOf | return bad
    let q := lookupQuery src dst nonce
    let model := s!"isProposalExecuted:{q.domain}:{q.nonce}|{ans}"
    let ok := match impl.splitOn "|" with
      | [asked, r] =>
        match asked.splitOn ":", (r.toList.head?).bind ansOf with
        | [m, d, n], some r =>
          m == "isProposalExecuted" &&
          (match d.toNat?, n.toNat? with
           | some d, some n => decide (PLookup src nonce a ⟨d, n⟩ r)
           | _, _ => false)
        | _, _ => false
      | _ => false
    return ⟨model, ok, s!"lookupevm:{ans}"⟩
  | "lookupsub", [src, dst, nonce, ans] => some <| Id.run do
    let some src := src.toNat? | return bad
    let some dst := dst.toNat? | return bad
    let some nonce := nonce.toNat? | return bad
    let some a := (ans.toList.head?).bind ansOf | return bad
    let q := lookupQuery src dst nonce
    let model := s!"sygma_isProposalExecuted:uint64={q.nonce}:uint8={q.domain}|{ans}"
    let ok := match impl.splitOn "|" with
      | [asked, r] =>
        match asked.splitOn ":", (r.toList.head?).bind ansOf with
        | [m, n, d], some r =>
          m == "sygma_isProposalExecuted" &&
          (match ((d.splitOn "=").getD 1 "").toNat?, ((n.splitOn "=").getD 1 "").toNat? with
           | some dv, some nv =>
             (d.splitOn "=").head? == some "uint8" && (n.splitOn "=").head? == some "uint64" &&
             decide (PLookup src nonce a ⟨dv, nv⟩ r)
           | _, _ => false)
        | _, _ => false
      | _ => false
    return ⟨model, ok, s!"lookupsub:{ans}"⟩
  | _, _ => none

end Sygma.Drv.C03
