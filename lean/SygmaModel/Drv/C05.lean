import SygmaModel.Drv.Util
import SygmaModel.Drv.C04
import SygmaModel.Model.C05
namespace Sygma.Drv.C05
open Sygma.C04 Sygma.C05 Sygma.Drv.C04

def showStart : Option Int → String
  | some s => toString s
  | none => "nil"

def showHist (h : List (Option Int × List Obs)) : String :=
  "|".intercalate (h.map fun (s, os) => showStart s ++ "@" ++ showRun os)

def parseLife (s : String) : Option (List SRound) := (items s ";").mapM parseRound

def parseHist (s : String) : Option (List (Option Int × List Obs)) :=
  (s.splitOn "|").mapM fun l =>
    match l.splitOn "@" with
    | [st, os] => do pure (← parseStart st, ← parseRun os)
    | _ => none

/-- every node (or store) read each real handler makes while it handles a range; `none` = not a read of that handler
    (the generator must not ask for it). C05: if ANY of them fails the range must not count as handled. -/
def performs (handler failAt : String) : Option Bool :=
  let reads : List String := match handler with
    | "evmdeposit" => ["events", "lookup"]
    | "evmretry1" => ["events", "retrydeposits", "lookup", "propstatus"]
    | "evmretry2" | "evmkeygen" | "evmfrostkeygen" | "evmrefresh" => ["events"]
    | "subdeposit" => ["events"]
    | "subsys" => ["events", "metadata"]
    | "subretry" => ["events", "head", "block", "blockhash", "blockevents"]
    | "btcdeposit" => ["hash", "block", "nilblock"]
    | _ => []
  if reads.isEmpty then none
  else if failAt == "-" then some false
  -- conditions under which NO read fails and the range must be handled (an event that can never be decoded)
  else if handler == "subretry" && failAt == "badretry" then some false
  else if reads.contains failAt then some true
  else none

def handle (op : String) (args : List String) (impl : String) : Option Verdict :=
  match op, args with
  | "life", [kind, conf, k, nh, cfgStart, flags, stored0, boot, lifes]
  | "lifedb", [kind, conf, k, nh, cfgStart, flags, stored0, boot, lifes]
  | "lifereal", [kind, conf, k, nh, cfgStart, flags, stored0, boot, lifes] => some <| Id.run do
    let some kind := parseKind kind | return bad
    let some conf := conf.toInt? | return bad
    let some k := k.toInt? | return bad
    let some nh := nh.toNat? | return bad
    let some cfgStart := cfgStart.toInt? | return bad
    let some boot := boot.toInt? | return bad
    let some stored0 := (if stored0 = "none" then some none else (stored0.toInt?).map some) | return bad
    let some ls := (lifes.splitOn "|").mapM parseLife | return bad
    let cfg : Cfg := ⟨kind, k, conf, nh⟩
    let w : Wiring := ⟨cfgStart, flags.contains 'L', flags.contains 'F', boot⟩
    if k == 0 && kind != .btc then return ⟨"panic", impl == "panic", "life:k=0"⟩
    let m := runAll cfg w stored0 ls
    let ok := match parseHist impl with
      | some h => P05 cfg w stored0 ls h && histPrompt cfg ls h
      | none => false
    let crashed := ls.any (fun l => l.any (fun r => r.2.isSome))
    let panics := decide ((lifes.splitOn ":p").length > 1)
    let hfail := m.any (fun l => l.2.any (fun o => !o.calls.isEmpty && o.store.isNone))
    let sfail := m.any (fun l => l.2.any (fun o => match o.store with | some (_, false) => true | _ => false))
    let rescan := m.any (fun l => l.2.any (fun o => o.store.isSome))
    return ⟨showHist m, ok, s!"{op}:{kindStr kind}:lifes={min ls.length 3}:flags={flags}:crash={crashed}:panic={panics}:hfail={hfail}:sfail={sfail}:progress={rescan}"⟩
  | "evmdeposits", [calls] => some <| Id.run do
    -- history-free: every call forwards exactly the deposits of its own range that have a handler here; a range during
    -- which the node could not be read (`m`: the on-chain handler lookup fails) must FAIL so that it is scanned again —
    -- the code as it is drops that deposit and reports success: known finding C05-evm-deposit-lookup-swallowed
    let cs := calls.splitOn "/"
    let exp := cs.map fun c =>
      if (items c ",").contains "m" then "err" else s!"ok:{((items c ",").filter (· == "r")).length}"
    let m := ";".intercalate exp
    return ⟨m, impl == m, s!"evmdeposits:calls={min cs.length 4}:unresolvable={calls.contains 'u' || calls.contains 'm'}"⟩
  | "btcdeposits", [blocks] => some <| Id.run do
    -- every block forwards exactly its well-formed deposits, wherever the rejected / panicking / foreign transactions sit
    let bs := blocks.splitOn "/"
    let m := ";".intercalate (bs.map fun b => s!"ok:{((items b ",").filter (· == "g")).length}")
    return ⟨m, impl == m, s!"btcdeposits:blocks={min bs.length 3}:rejected={blocks.contains 'e'}:panics={blocks.contains 'p'}"⟩
  | "hfetch", [handler, failAt] => some <| Id.run do
    let some fails := performs handler failAt | return bad
    -- a node that answers without error and without a block: the nil dereference is a panic (process death), never success
    if failAt == "nilblock" then return ⟨"panic", impl != "ok", s!"hfetch:{handler}:{failAt}"⟩
    let m := handlerResult fails
    -- property: a node read that fails while the range is handled must make HandleEvents fail (the listener then retries
    -- the range and neither stores nor advances); without a failure the handler returns nil
    let ok := if fails then impl == "err" else impl == "ok"
    return ⟨m, ok, s!"hfetch:{handler}:{failAt}"⟩
  | "align", [s, k] => some <| Id.run do
    let some s := s.toInt? | return bad
    let some k := k.toInt? | return bad
    if k == 0 then return ⟨"panic", impl == "panic", "align:k=0"⟩
    let m := align s k
    let ok := match impl.toInt? with
      | some v => decide (v ≤ s ∧ s < v + k ∧ v % k = 0)
      | none => false
    return ⟨toString m, ok, s!"align:exact={decide (m = s)}"⟩
  | _, _ => none

end Sygma.Drv.C05
