import SygmaModel.Drv.Util
import SygmaModel.Model.C08
namespace Sygma.Drv.C08
open Sygma.C08

def toPeer (s : String) : Peer := s.toUTF8.toList
def showPeer (p : Peer) : String := String.ofList (p.map fun b => Char.ofNat b.toNat)

def peers (s : String) : List Peer := (items s ",").map toPeer
def showPeers (ps : List Peer) : String := joinOr (ps.map showPeer) ","

def showParty (p : Party) : String := s!"{p.index}:{showPeer p.id}:{pkey p.id}"
def showParties (ps : List Party) : String := joinOr (ps.map showParty) ";"
def showSlots (ss : Slots) : String :=
  joinOr (ss.map fun | some p => showParty p | none => "nil") ";"

/-- `index:id:key` -/
def parseParty (s : String) : Option (Nat × Peer × Nat) :=
  match s.splitOn ":" with
  | [i, id, k] => do pure (← i.toNat?, toPeer id, ← k.toNat?)
  | _ => none

def parseParties (s : String) : Option (List (Nat × Peer × Nat)) := (items s ";").mapM parseParty

def sortedNat : List Nat → Bool
  | a :: b :: t => a ≤ b && sortedNat (b :: t)
  | _ => true

def indexIsPosition (xs : List (Nat × Peer × Nat)) : Bool := xs.map (·.1) == List.range xs.length

def nodup (ps : List Peer) : Bool := ps.eraseDups.length == ps.length

/-- a party list is a correct answer for the committee `ps`: the same peers, each with its own key, ascending by
    key, `Index` = position -/
def partiesOk (ps : List Peer) (out : List (Nat × Peer × Nat)) : Bool :=
  (out.map (·.2.1)).isPerm ps && out.all (fun x => x.2.2 == pkey x.2.1) &&
    sortedNat (out.map (·.2.2)) && indexIsPosition out

def handle (op : String) (args : List String) (impl : String) : Option Verdict :=
  match op, args with
  | "parties", [ps] => some <| Id.run do
    let ps := peers ps
    let m := showParties (partiesFromPeers ps)
    let ok := match parseParties impl with
      | some out => partiesOk ps out
      | none => false
    return ⟨m, ok, s!"parties:n={min ps.length 4}:dup={!nodup ps}"⟩
  | "roundtrip", [ps] => some <| Id.run do
    let ps := peers ps
    let m := showPeers (peersFromParties (partiesFromPeers ps))
    let out := peers impl
    let ok := impl != "err" && out.isPerm ps && sortedNat (out.map pkey)
    return ⟨m, ok, s!"roundtrip:n={min ps.length 4}"⟩
  | "sortparties", [nw, od] => some <| Id.run do
    let nw := peers nw
    let od := peers od
    let res := sortParties (partiesFromPeers nw) (partiesFromPeers od)
    let m := match res with
      | some ss => showSlots ss
      | none => "panic"
    let pre := nodup nw && nodup od && od.all (nw.contains ·)
    -- the property, on the implementation's output, when the old subset lies inside the new committee:
    -- no panic, no nil entry, the new committee exactly, Index = position, the old parties first in their own order
    let ok := !pre || (match parseParties impl with
      | some out =>
        let ids := out.map (·.2.1)
        ids.isPerm nw && indexIsPosition out && out.all (fun x => x.2.2 == pkey x.2.1) &&
          ids.take od.length == sortPeers od && sortedNat ((ids.drop od.length).map pkey)
      | none => false)
    let tag := s!"sortparties:pre={pre}:new={min nw.length 4}:old={min od.length 3}:{if res.isNone then "panic" else if (res.getD []).any (·.isNone) then "nil" else "full"}"
    return ⟨m, ok, tag⟩
  | "startparams", [kp, thr, store] => some <| Id.run do
    let some thr := thr.toInt? | return bad
    let (kp, thr) := if kp = "none" then (([] : List Peer), (0 : Int)) else (peers kp, thr)
    let store := peers store
    let sp := startParams kp thr store
    let m := s!"{sp.oldThreshold}/{showPeers sp.oldSubset}"
    -- property: the old threshold of the key, and exactly the key's peers that are in the peer store
    let ok := match impl.splitOn "/" with
      | [t, s] =>
        let out := peers s
        t.toInt? == some thr && out.all (fun p => kp.contains p && store.contains p) &&
          kp.all (fun p => !store.contains p || out.contains p)
      | _ => false
    return ⟨m, ok, s!"startparams:key={kp.length != 0}:inter={min sp.oldSubset.length 3}"⟩
  | "validate", [kp, store, thr, subset] => some <| Id.run do
    let some thr := thr.toInt? | return bad
    let kp := if kp = "none" then [] else peers kp
    let store := peers store
    let subset := peers subset
    let acc := validate kp store ⟨thr, subset⟩
    let m := if acc then "ok" else "err"
    -- property (order-free): accepted ⇔ threshold positive ∧ enough old parties ∧ (a key holder sees exactly its
    -- own old committee restricted to the peer store)
    let spec := decide (0 < thr) && decide (thr ≤ (subset.length : Int)) &&
      (kp.isEmpty || subset.isPerm (peersIntersection kp store))
    let ok := (impl == "ok" || impl == "err") && ((impl == "ok") == spec)
    return ⟨m, ok, s!"validate:{m}:key={!kp.isEmpty}:thr={decide (0 < thr)}"⟩
  | "release", [kind, c] => some <| Id.run do
    if kind != "ecdsa" then return bad
    let m := match releaseECDSA (c == "1") with
      | .sig => "sig"
      | .nil => "nil"
    -- only the coordinator's process hands out the signature
    let ok := if c == "1" then impl == "sig" else impl == "nil"
    return ⟨m, ok, s!"release:{kind}:{c}"⟩
  | "ready", [kind, kp, thr, rdy] => some <| Id.run do
    let some thr := thr.toInt? | return bad
    let r := ready (peers kp) thr (peers rdy)
    let m := (if r then "true" else "false") ++ ";in=same"
    return ⟨m, impl == m, s!"ready:{kind}:{r}"⟩
  | "subset", [kind, kp, thr, rdy, _sid] => some <| Id.run do
    let some thr := thr.toInt? | return bad
    let n := subsetSize (peers kp) thr (peers rdy)
    let m := s!"n={n};in=1;dup=0"
    return ⟨m, impl == m, s!"subset:{kind}:n={min n 4}"⟩
  | "tweak", [_fx, _t] => some ⟨"ok", impl == "ok", "tweak"⟩
  | "release2", [kind, roles, _how] => some <| Id.run do
    if kind != "ecdsa" then return bad
    let flags := roles.toList.map (· == 'T')
    let m := match releaseAfterRuns flags with
      | some .sig => "sig"
      | some .nil => "nil"
      | none => "nothing"
    -- the signature leaves this process iff its LATEST run was the coordinator's
    let ok := match flags.getLast? with
      | some true => impl == "sig"
      | some false => impl == "nil"
      | none => impl == "nothing"
    return ⟨m, ok, s!"release2:{roles}"⟩
  | "reshareparams", [oldThr, newThr, oldIdx, newIdx] => some <| Id.run do
    let some oldThr := oldThr.toInt? | return bad
    let some newThr := newThr.toInt? | return bad
    let some old := natList oldIdx | return bad
    let some nw := natList newIdx | return bad
    let toP : Nat → Peer := fun i => [UInt8.ofNat i]
    let kp := old.map toP
    let store := nw.map toP
    let sp := startParams kp oldThr store
    let rp := reshareParams sp newThr store
    let accepted := validate kp store sp && rp.libOk
    let m := if accepted then s!"t={rp.oldThreshold},n={rp.oldCount};nt={rp.newThreshold},nn={rp.newCount}" else "err"
    -- the property on the implementation's output: when the library got parameters at all, the NEW sharing has the
    -- process's own new threshold over the whole peer store, the OLD one the announced threshold over the old subset
    let ok := impl == "err" && !accepted || impl == m
    let dir := if newThr < oldThr then "lower" else if newThr > oldThr then "raise" else "equal"
    return ⟨m, ok, s!"reshareparams:{if accepted then dir else "err"}:join={decide (nw.length > (peersIntersection kp store).length)}"⟩
  | "btcsessions", [n, _self, _msgId, _seed] => some <| Id.run do
    let some n := n.toNat? | return bad
    let digests : List Bytes := (List.range n).map fun i => [UInt8.ofNat i]
    let ss := btcSignings digests
    let distinct := (ss.map (·.sessionId)).eraseDups.length == ss.length
    let own := ss.all fun s => s.sessionId == toHex s.msg
    let m := s!"n={n};sessions={ss.length};distinct={if distinct then 1 else 0};own={if own then 1 else 0};digests=1"
    -- the harness could not see session ids / digests in the log output any more: nothing observable to judge
    if impl == "unobserved" then return ⟨"unobserved", true, s!"btcsessions:n={n}:unobserved"⟩
    return ⟨m, impl == m, s!"btcsessions:n={n}"⟩
  | "btcwitness", [n, arrivals, _seed] => some <| Id.run do
    let some n := n.toNat? | return bad
    let sigOf : Nat → Bytes := fun i => [UInt8.ofNat (i + 1)]
    let some arr := (items arrivals ",").mapM (fun (t : String) =>
      if t = "n" then some (none : Option (Nat × Bytes)) else t.toNat?.map fun i => some (i, sigOf i)) | return bad
    let bits (xs : List Bool) : String := joinOr (xs.map fun b => if b then "1" else "0") ","
    let m := match collect n arr with
      | .sent ws =>
        let own := (List.range n).map fun i => ws.getD i [] == [sigOf i]
        -- a signature verifies for an input iff it was made over that input's digest
        s!"ret=nil;sent=1;valid={bits own};own={bits own}"
      | .waiting => "ret=err;sent=0;valid=-;own=-"
      | .panic => "panic"
    -- the property on the implementation's output: whatever was submitted, every input verifies under the output key
    -- over its own digest (and nothing is submitted twice)
    let f := impl.splitOn ";"
    let sent := (f.find? (·.startsWith "sent=")).getD ""
    let valid := (f.find? (·.startsWith "valid=")).getD ""
    let ok := sent == "sent=0" && valid == "valid=-" ||
      sent == "sent=1" && valid == "valid=" ++ bits (List.replicate n true)
    let inOrder := arr.filterMap id |>.map (·.1)
    return ⟨m, ok && (impl == m || sent == "sent=0"), s!"btcwitness:n={n}:sorted={decide (inOrder.Pairwise (· ≤ ·))}:dups={inOrder.eraseDups.length != inOrder.length}"⟩
  | "endstore", [kind, kp, _kthr, store, nthr] => some <| Id.run do
    let some nthr := nthr.toInt? | return bad
    let old := if kp = "none" then [] else peers kp
    let st := storedAtEnd old nthr (peers store)
    let m := s!"thr={st.1};peers={showPeers st.2};pub=1"
    -- the share goes to the store with the NEW threshold and the NEW committee (as a set), key material intact
    let ok := match impl.splitOn ";" with
      | [t, p, pub] => t == s!"thr={nthr}" && pub == "pub=1" &&
          (match p.splitOn "=" with | [_, ps] => (peers ps).isPerm (peers store) | _ => false)
      | _ => false
    return ⟨m, ok, s!"endstore:{kind}:old={if kp = "none" then "none" else if (peers kp).isPerm (peers store) then "same" else "other"}"⟩
  | "rerun", [kind, self, subsets, probes, holders] => some <| Id.run do
    let hs := peers holders
    let some self := self.toNat? | return bad
    let pick (idx : String) : Option (List (Nat × Peer)) := (natList idx).bind fun is => is.mapM fun i => (hs[i]?).map fun p => (i, p)
    let some subs := (subsets.splitOn "|").mapM pick | return bad
    let some prbs := (probes.splitOn "|").mapM pick | return bad
    let some me := hs[self]? | return bad
    let bit (b : Bool) : String := if b then "1" else "0"
    let rd := joinOr (prbs.map fun pr => bit (ready hs 1 (pr.map (·.2)))) ","
    let ns := joinOr (prbs.map fun pr => toString (subsetSize hs 1 (pr.map (·.2)))) ","
    let mut st : PartyStore := []
    let mut ms : List String := []
    let mut ok := true
    let outs := impl.splitOn "/"
    let mut j := 0
    let mut moved := false
    let mut prevIdx : Option Nat := none
    for sub in subs do
      let member := (sub.map (·.2)).contains me
      st := signingRunStore me st (sub.map (·.2))
      let idx := if kind = "ecdsa" then
          joinOr (sub.map fun (i, p) => s!"{i}:{match st.lookup p with | some k => toString k | none => "-"}") ","
        else "-"
      ms := ms ++ [s!"{if member then "started" else "notmember"};idx={idx};ready={rd};n={ns}"]
      -- the property, against the history-free answer: after a run that took part, every member of the CURRENT subset
      -- has its index in PartiesFromPeers(current subset); Ready / StartParams answer as on a fresh object
      let want := if kind = "ecdsa" && member then
          let ps := partiesFromPeers (sub.map (·.2))
          joinOr (sub.map fun (i, p) => s!"{i}:{match ps.find? (·.id == p) with | some q => toString q.index | none => "-"}") ","
        else ""
      if kind = "ecdsa" && member then
        let mine := (partiesFromPeers (sub.map (·.2))).find? (·.id == me) |>.map (·.index)
        if prevIdx.isSome && prevIdx != mine then moved := true
        prevIdx := mine
      match (outs.getD j "").splitOn ";" with
      | [r, ix, ird, ins] =>
        ok := ok && r == (if member then "started" else "notmember") && ird == s!"ready={rd}" && ins == s!"n={ns}" &&
          (want == "" || ix == s!"idx={want}")
      | _ => ok := false
      j := j + 1
    if outs.length != subs.length then ok := false
    return ⟨joinOr ms "/", ok, s!"rerun:{kind}:runs={min subs.length 4}:index-moved={moved}"⟩
  | "initready", [kind, thr, answers] => some <| Id.run do
    let some thr := thr.toInt? | return bad
    let some ans := natList answers | return bad
    let toP : Nat → Peer := fun i => [UInt8.ofNat i]
    let kp := [toP 0, toP 1, toP 2]
    let m := match initiate (toP 0) kp thr [] (ans.map toP) with
      | some r => let k := subsetSize kp thr r; s!"n={k};distinct={k};holders=1"
      | none => "nostart"
    -- the property on the implementation's output: a session that is started is started with threshold+1 DISTINCT key holders
    let ok := impl == "nostart" || impl == s!"n={thr + 1};distinct={thr + 1};holders=1"
    return ⟨m, ok && (impl == m || m == "nostart"), s!"initready:{kind}:thr={thr}:repeats={ans.eraseDups.length != ans.length}:{if m == "nostart" then "nostart" else "start"}"⟩
  | "storelife", [kind, _holder, steps] => some <| Id.run do
    -- history-free: whatever was constructed on the store before, every look at the share shows the stored share
    let view := if kind = "ecdsa" then "1,-,3,1" else "1,1,3,1"
    let m := joinOr ((items steps ";").map (fun st =>
      if st = "g" then view
      else if st = "s" then (if kind = "ecdsa" then "ready2=true" else view ++ ",ready2=true")
      else "r") ++ ["file:" ++ view]) "/"
    let aborted := (items steps ";").any (·.startsWith "r")
    return ⟨m, impl == m, s!"storelife:{kind}:aborted-refresh={aborted}"⟩
  | "frostpair", _ => some ⟨"sign=ok;refresh=ok", impl == "sign=ok;refresh=ok", "frostpair"⟩
  | "resharerun", _ => some ⟨"ok", impl == "ok", "resharerun"⟩
  | "signrun", _ => some ⟨"ok", impl == "ok", "signrun"⟩
  | "keygenrun", _ => some ⟨"ok", impl == "ok", "keygenrun"⟩
  | "refreshrun", _ => some ⟨"ok", impl == "ok", "refreshrun"⟩
  | "refreshsign", _ => some ⟨"ok", impl == "ok", "refreshsign"⟩
  | _, _ => none

end Sygma.Drv.C08
