import SygmaModel.Drv.Util
import SygmaModel.Model.C10
namespace Sygma.Drv.C10
open Sygma.C10

def parseKind : String → Option Kind
  | "ekeygen" => some .ekeygen | "fkeygen" => some .fkeygen | "eresharing" => some .eresharing
  | "fresharing" => some .fresharing | "esigning" => some .esigning | "fsigning" => some .fsigning | _ => none

/-- `cell <signing kind> retried`: constructor, a Run that leaves at its first conditional return (SubsetError), a Run
    that runs the protocol, Stop -/
def retriedDelta (k : Kind) (h : Nat) : Option Delta := do
  let p := table k
  let c ← (pathsOf p.ctor .full).head?
  let r1 ← (pathsOf p.run .early).head?
  let r2 ← (pathsOf p.run .full).head?
  let st ← (pathsOf p.stop .full).head?
  pure (activation st (activation r2 (activation r1 (activation c (Delta.start h)))))

/-- harness outcome ↦ (model outcome, what Execute returns) -/
def parseOutcome : String → Option (Outcome × String)
  | "refused" => some (.refused, "refused")
  | "silent" => some (.never, "err") | "gto" => some (.never, "err") | "cancel" => some (.never, "ok")
  | "precancel" => some (.never, "ok")
  | "rejected" => some (.rejected, "err")
  | "failed" => some (.ran, "err") | "ok" => some (.ran, "ok")
  | "noshare" => some (.ctorerr, "ctorerr")
  | _ => none

def showDelta (d : Delta) : String :=
  let r := match d.runHeld with | some n => toString n | none => "-"
  s!"L={d.locks},U={d.unlocks},F={d.fatal},H={d.held},R={r},A={d.accL}/{d.accU}"

/-- `L=1,U=1,F=0,H=0,R=-,A=1/0` -/
def parseDelta (s : String) : Option Delta :=
  match (s.splitOn ",").map (·.splitOn "=") with
  | [["L", l], ["U", u], ["F", f], ["H", h], ["R", r], ["A", a]] => do
    let l ← l.toNat?
    let u ← u.toNat?
    let f ← f.toNat?
    let h ← h.toNat?
    let r ← if r = "-" then some none else r.toNat?.map some
    let (al, au) ← match a.splitOn "/" with
      | [x, y] => do pure (← x.toNat?, ← y.toNat?)
      | _ => none
    pure ⟨h, l, u, f, 0, al, au, r, false⟩
  | _ => none

def handle (op : String) (args : List String) (impl : String) : Option Verdict :=
  match op, args with
  | "ctor", [kind, variant] => some <| Id.run do
    -- the constructor alone on an unusable share / a bad tweak. The signing constructors fail (at whichever of their
    -- error exits: all are covered by `constructor_failure_balanced`); the others carry on with an empty key and are
    -- stopped by their owner.
    let some k := parseKind kind | return bad
    if !(["noshare", "badshare", "emptyshare"].contains variant ||
         (kind == "fsigning" && ["tweakhex", "tweaklen", "tweakorder"].contains variant)) then return bad
    let fails := !k.exclusive
    let some d := (sessionFrom true (table k) (if fails then .ctorerr else .never) 0).head? | return bad
    let m := (if fails then "ctorerr;" else "ctorok;") ++ showDelta d
    let ok := match impl.splitOn ";" with
      | [r, ds] => (r == "ctorerr" || r == "ctorok") && (match parseDelta ds with
        | some id => decide (Balanced id)
        | none => false)
      | _ => false
    return ⟨m, ok, s!"ctor:{kind}:{variant}"⟩
  | "cell", [kind, "busy"] => some <| Id.run do
    -- the lock is held by somebody else when the process wants it, the session is cancelled while it waits.
    -- ECDSA keygen waits in Run (then leaves at once: unsatisfiable threshold); the others wait in the constructor and
    -- are executed with the cancelled context afterwards.
    let some k := parseKind kind | return bad
    let (o, ret) := if k == Kind.ekeygen then (Outcome.rejected, "err") else (Outcome.never, "ok")
    let some c := (contendedFrom (table k) o).head? | return bad
    let d := c.d
    let m := ret ++ ";" ++ showDelta d
    let ok := match impl.splitOn ";" with
      | [r, ds] => r == ret && (match parseDelta ds with
        | some id => decide (Balanced id)
        | none => false)
      | _ => false
    return ⟨m, ok, s!"cell:{kind}:busy"⟩
  | "midrun", [kind] => some <| Id.run do
    -- the lock watched while the protocol is in its rounds: key generation and resharing hold it all the time
    let some k := parseKind kind | return bad
    if !k.exclusive then return bad
    return ⟨"R=1", impl == "R=1", s!"midrun:{kind}"⟩
  | "multi", [kinds, oc] => some <| Id.run do
    -- one session of several processes, each on its own store; what Execute returns depends on the FIRST process only
    -- (a retryable one whose coordinator stays silent is retried, nobody answers, the caller cancels)
    let some ks := (kinds.splitOn "+").mapM parseKind | return bad
    let some k0 := ks.head? | return bad
    let some (o, ret) := (match oc with
      | "refused" => some (Outcome.refused, "refused")
      | "silent" => some (Outcome.never, if k0.exclusive then "err" else "ok")
      | "gto" => some (Outcome.never, "err")
      | "cancel" | "precancel" => some (Outcome.never, "ok")
      | _ => none) | return bad
    let per := multiFrom table ks o (fun _ _ => 1)
    let some ds := per.mapM (·.head?) | return bad
    let m := ret ++ ";" ++ "|".intercalate (ds.map showDelta)
    let ok := match impl.splitOn ";" with
      | [r, rest] => ["ok", "err", "refused"].contains r &&
          (let parts := rest.splitOn "|"
           parts.length == ks.length && parts.all fun p => match parseDelta p with
             | some id => decide (Balanced id)
             | none => false)
      | _ => false
    return ⟨m, ok, s!"multi:n={min ks.length 3}:{oc}"⟩
  | "handler", [which, oc] => some <| Id.run do
    let some k := (match which with
      | "keygen" => some Kind.ekeygen | "fkeygen" => some .fkeygen | "refresh" => some .eresharing | _ => none) | return bad
    -- `+key`: the relayer already has a share. The ECDSA keygen handler then returns before constructing anything (its
    -- existence check comes first); the FROST keygen handler has no such check and runs the key generation as usual.
    let (oc, hasKey) := match oc.splitOn "+" with
      | [o, "key"] => (o, true)
      | _ => (oc, false)
    if hasKey && which == "refresh" then return bad
    let skip := hasKey && which == "keygen"
    -- no event / fetch error: nothing is constructed; a failed Execute is logged, HandleEvents still returns nil
    let some (d, ret) := (if skip then some (Delta.start 0, "ok") else match oc with
      | "noevents" => some (Delta.start 0, "ok")
      -- refresh only: the event carries no hash / the topology cannot be fetched / cannot be stored: the handler
      -- gives up (logs, returns nil) before it constructs the resharing
      | "emptyhash" | "topoerr" | "storefail" => if which == "refresh" then some (Delta.start 0, "ok") else none
      | "fetcherr" => some (Delta.start 0, "err")
      | "silent" | "gto" => (handlerFrom false (table k) .never 0).head?.map (·, "ok")
      | "refused" => (handlerFrom false (table k) .refused 0).head?.map (·, "ok")
      | _ => none) | return bad
    let oc := if hasKey then oc ++ "+key" else oc
    -- the ECDSA keygen handler first looks whether a share already exists - without the lock (not a signing read; noted)
    let d := if which == "keygen" then { d with accU := d.accU + 1 } else d
    let m := ret ++ ";" ++ showDelta d
    let ok := match impl.splitOn ";" with
      | [r, ds] => r != "hang" && (match parseDelta ds with
        | some id => id.held == 0 && id.fatal == 0 && id.locks == id.unlocks && id.accU ≤ (if which == "keygen" then 1 else 0)
        | none => false)
      | _ => false
    return ⟨m, ok, s!"handler:{which}:{oc}"⟩
  | "cell", [kind, "retried"] => some <| Id.run do
    let some k := parseKind kind | return bad
    if k.exclusive then return bad
    let some d := retriedDelta k 0 | return bad
    let m := "ok;" ++ showDelta d
    let ok := match impl.splitOn ";" with
      | [r, ds] => r != "hang" && (match parseDelta ds with
        | some id => decide (Balanced id) && decide (RunsUnderLock k id)
        | none => false)
      | _ => false
    return ⟨m, ok, s!"cell:{kind}:retried"⟩
  | "cell", [kind, oc] => some <| Id.run do
    let some k := parseKind kind | return bad
    let some (o, ret) := parseOutcome oc | return bad
    -- a retryable (signing) process whose coordinator stays silent is retried; nobody answers, the caller cancels
    let ret := if oc == "silent" && !k.exclusive then "ok" else ret
    -- the harness takes the FIRST conditional return where one is taken; every other path is covered by the theorem
    let some d := (sessionFrom true (table k) o 0).head? | return bad
    let m := ret ++ ";" ++ showDelta d
    -- (the model has no outcome in which Execute or the constructor does not return: `hang` never satisfies the property)
    let ok := match impl.splitOn ";" with
      | [r, ds] =>
        ["ok", "err", "refused", "ctorerr"].contains r &&
        (match parseDelta ds with
        | some id => decide (Balanced id) && (o != .ran || decide (RunsUnderLock k id))
        | none => false)
      | _ => false
    return ⟨m, ok, s!"cell:{kind}:{repr o}"⟩
  | "seq", [its] => some <| Id.run do
    -- sessions one after another on one relayer: one lock (and one counter set) per store, effects accumulate
    let some steps := (items its ",").mapM (fun it => match it.splitOn ":" with
      | [k, "retried"] => do
        let k' ← parseKind k
        if k'.exclusive then none else pure (k, k', Outcome.ran, "ok", (1 : Nat))
      | [k, "busy"] => do
        let k' ← parseKind k
        pure (k, k', if k' == Kind.ekeygen then Outcome.rejected else Outcome.never, if k' == Kind.ekeygen then "err" else "ok", (2 : Nat))
      | [k, o] => do
        let k' ← parseKind k
        let (o', ret) ← parseOutcome o
        pure (k, k', o', if o == "silent" && !k'.exclusive then "ok" else ret, (0 : Nat))
      | _ => none) | return bad
    let mut ec := Delta.start 0
    let mut fr := Delta.start 0
    let mut outs : List String := []
    for (name, k, o, ret, mode) in steps do
      let onE := name.startsWith "e"
      let cur := if onE then ec else fr
      let some d := (if mode == 1 then retriedDelta k cur.held
        else if mode == 2 then (contendedFrom (table k) o).head?.map (·.d)
        else (sessionFrom true (table k) o cur.held).head?) | return bad
      let tot := cur.add d
      if onE then ec := tot else fr := tot
      outs := outs ++ [ret ++ ";" ++ showDelta tot]
    let m := "|".intercalate outs
    let parts := impl.splitOn "|"
    let ok := parts.length = steps.length && (steps.zip parts).all fun ((_, k, o, _, _), p) =>
      match p.splitOn ";" with
      | [r, ds] => r != "hang" && (match parseDelta ds with
        | some id => decide (Balanced id) && (o != Outcome.ran || decide (RunsUnderLock k id))
        | none => false)
      | _ => false
    return ⟨m, ok, s!"seq:n={min steps.length 4}"⟩
  | "full", [kind] => some <| Id.run do
    -- ran and succeeded on every participating relayer; key generation / resharing additionally store the new
    -- share (one more access, which must be under the lock)
    let some k := parseKind kind | return bad
    let some d := (sessionFrom true (table k) .ran 0).head? | return bad
    let d := if k.exclusive then { d with accL := d.accL + 1 } else d
    let n := if k.exclusive then 3 else 2
    -- the lock is probed on every relayer once its process has subscribed to its message type (the protocol is under way)
    let one := "ok;" ++ showDelta d
    let m := "|".intercalate (List.replicate n one)
    let parts := impl.splitOn "|"
    let ok := parts.length = n && parts.all fun p =>
      match p.splitOn ";" with
      | ["ok", ds] => match parseDelta ds with
        | some id => decide (Balanced id) && id.locks ≥ 1 && decide (RunsUnderLock k id)
        | none => false
      | _ => false
    return ⟨m, ok, s!"full:{kind}"⟩
  | "stuck", [kind] => some <| Id.run do
    -- the session is failed while Run is between Subscribe and Party.Start; the property demands what it demands
    -- of any failed run: Execute returns and the lock is balanced
    let some k := parseKind kind | return bad
    let some d := (sessionFrom true (table k) .ran 0).head? | return bad
    let m := "err;" ++ showDelta { d with runHeld := none }
    let ok := match impl.splitOn ";" with
      | [r, ds] => (r == "err" || r == "ok") && (match parseDelta ds with
        | some id => decide (Balanced id)
        | none => false)
      | _ => false
    return ⟨m, ok, s!"stuck:{kind}"⟩
  | _, _ => none

end Sygma.Drv.C10
