import SygmaModel.Drv.Util
import SygmaModel.Model.C07
import SygmaModel.Model.C11
namespace Sygma.Drv.C07
open Sygma.C07

/-- the harness' fixed peer universe (base58 ids); `C07 peertab` checks it against the Go side on every run -/
def peerTab : List String := [
  "12D3KooWSFa5vRRjneMRiUXfJJR8N6APupioqcHsSprhSStCcyXW", "12D3KooWKu6S3ikK7FX8qBJ8DtaZDQf6AhRErSgqS1sR2JMdZpMu",
  "12D3KooWGoLVkxvSRKM4wdyFt2X18NnKwCFvzk57XpVikYB8DDnd", "12D3KooWK3YNdCknvvpRSmBes9T7PN7V5v1TGEnRnLm3My52ynwD",
  "12D3KooWQMVATrFxec4mScp1i9DQ84DDpDeNJrrrgCwNZ9NE8yt3", "12D3KooWRBSYtDJgoqT9kHUPfPj2PD4DDBRLU1RWuPu2aevgpja1",
  "12D3KooWT1eYuvGs9d3xU6Qva9HWeMa9FSz9sbEJJPVpo3Pvno9K", "12D3KooWAGvcLg67ziYrmDa3tNzCeJh3YwRuB79qS1ACpt3CEETR",
  "12D3KooWGfBgXTU8KAj1rknfsegBb3oTYUDgevzzaeABNLoGRGQs", "12D3KooWHkQwTXQfxMBLQvuR57LurobG2aAFAux2AKFdw7cphcLW"]

/-- wire token → base58 id -/
def peerOf (tok : String) : Option String :=
  if tok.length ≤ 2 then tok.toNat?.bind (fun i => peerTab[i]?) else some tok

def tokOf (p : String) : String :=
  match peerTab.idxOf? p with
  | some i => toString i
  | none => p

def peers (s : String) : Option (List String) := (items s ",").mapM peerOf
def toks (ps : List String) : String := joinOr (ps.map tokOf) ","

/-- the election key of every listed peer computed once (one Keccak per peer) … -/
def keyTab (sid : Bytes) (ps : List String) : List (String × Nat) :=
  ps.eraseDups.map fun p => (p, electionKey sid p)

/-- … then looked up -/
def keyOf (sid : Bytes) (tab : List (String × Nat)) (p : String) : Nat :=
  match tab.lookup p with
  | some k => k
  | none => electionKey sid p

/-- `<kind><conn>@<claimed>[:tag]` → the event with the origin claim taken out, and whether there was one -/
def stripClaim (s : String) : String × Bool :=
  match s.splitOn "@" with
  | [a, b] =>
    match b.splitOn ":" with
    | [_, tag] => (a ++ ":" ++ tag, true)
    | _ => (a, true)
  | _ => (s, false)

def parseEv (s : String) : Option (Ev String) :=
  match s.toList with
  | 'i' :: r => (peerOf (String.ofList r)).map Ev.init
  | 'f' :: r => (peerOf (String.ofList r)).map Ev.fail
  | 'x' :: r => (peerOf (String.ofList r)).map (Ev.start · none)
  | 's' :: r =>
    match (String.ofList r).splitOn ":" with
    | [f, t] => do pure (Ev.start (← peerOf f) (some (← t.toNat?)))
    | _ => none
  | _ => none

/-- ready senders and `T` (one more tick of the InitiatePeriod ticker) -/
def parseArrs (s : String) : Option (List (Arr String)) :=
  (items s ",").mapM fun t => if t = "T" then some Arr.tick else (peerOf t).map Arr.ready

/-- events of `retry2`: the messages of `wait` plus `r<from>` (ready) -/
def parseEv2 (s : String) : Option (Sum (Ev String) String) :=
  match s.toList with
  | 'r' :: r => (peerOf (String.ofList r)).map Sum.inr
  | _ => (parseEv s).map Sum.inl

/-- the first attempt's failure in `retry2`: `silent` (coordinator time-out naming the static coordinator `c`), or the
    error the first Run returned: t[<culprit>+…], c<peer>, m — as it reaches handleError through two pools -/
def firstErr (first : String) (c : String) : Option (Sygma.C11.Err String) :=
  if first.startsWith "silent" then some (.wrap (.coord (some c))) else
  match first.toList with
  | ['m'] => some (.wrap (.wrap .comm))
  | 'c' :: r => (peerOf (String.ofList r)).map fun p => .wrap (.wrap (.coord (some p)))
  | 't' :: r =>
    if r.isEmpty then some (.wrap (.wrap (.tss [] true)))
    else ((String.ofList r).splitOn "+").mapM peerOf |>.map fun ps => .wrap (.wrap (.tss ps true))
  | _ => none

/-- the harness reports an untyped error as `err` (error TEXTS are not part of the behaviour): an attempt aborted by a
    fail message and one ended by an undecodable start are both `err` -/
def showRes : Res → String
  | .ok => "ok" | .fail => "err" | .badStart => "err"

/-- the results an observed outcome may stand for -/
def parseResAny (s : String) : List Res :=
  if s = "ok" then [.ok] else if s = "err" then [.fail, .badStart] else []

/-- `k=v;k=v` → value of key k -/
def field (s k : String) : Option String :=
  (s.splitOn ";").findSome? fun kv =>
    match kv.splitOn "=" with
    | [a, b] => if a = k then some b else none
    | _ => none

def showWait (s : WSt String) : String :=
  s!"r={toks s.readies};run={joinOr (s.runs.map fun n => "p" ++ toString n) ","};res={showRes s.res}"

def parseRuns (s : String) : Option (List Nat) :=
  (items s ",").mapM fun x => match x.toList with
    | 'p' :: r => (String.ofList r).toNat?
    | _ => none

def sizeTag (n : Nat) : String := toString (min n 7)

def handleCore (op : String) (args : List String) (impl : String) : Option Verdict :=
  match op, args with
  | "keccak", [h] => some <| Id.run do
    let some b := fromHex h | return bad
    let m := toHex (Keccak.keccak256 b)
    return ⟨m, m == impl, s!"keccak:blocks={b.length / 136 + 1}"⟩
  | "peertab", [] => some ⟨",".intercalate peerTab, ",".intercalate peerTab == impl, "peertab"⟩
  | "sort", [sid, ps] => some <| Id.run do
    let some sid := fromHex sid | return bad
    let some ps := peers ps | return bad
    let key := keyOf sid (keyTab sid ps)
    let m := sortDesc key ps
    -- property on the implementation's output: a permutation of the input in descending key order
    let ok := match peers impl with
      | some out => decide (out.Perm ps) && decide (out.Pairwise (fun a b => key b ≤ key a))
      | none => false
    return ⟨toks m, ok, s!"sort:n={sizeTag ps.length}"⟩
  | "coord", [sid, ps] => some <| Id.run do
    let some sid := fromHex sid | return bad
    let some ps := peers ps | return bad
    let key := keyOf sid (keyTab sid ps)
    let m := match staticCoordinator key ps with | some c => tokOf c | none => "none"
    let ok := if impl = "none" then ps.isEmpty else
      match peerOf impl with
      | some c => decide (c ∈ ps) && ps.all (fun p => key p ≤ key c)
      | none => false
    return ⟨m, ok, s!"coord:n={sizeTag ps.length}"⟩
  | "newsigning", [_kind, _self, _t, sid, holders, peerstore] => some <| Id.run do
    let some sid := fromHex sid | return bad
    let some holders := peers holders | return bad
    let some pstore := peers peerstore | return bad
    let key := keyOf sid (keyTab sid holders)
    let valid := validCoordinators holders pstore
    let c := match staticCoordinator key valid with | some c => tokOf c | none => "none"
    -- property on the implementation's output: the holders (in any order) are the valid coordinators and the elected one
    -- is the holder with the maximal key — nothing depends on the local peerstore
    let ok := match (field impl "valid").bind peers, field impl "coord" with
      | some v, some ic => decide (v.Perm holders) && ic == c
      | _, _ => false
    let missing := holders.any (fun h => !pstore.contains h)
    return ⟨s!"valid={toks valid};coord={c}", ok, s!"newsigning:n={sizeTag holders.length}:view-incomplete={missing}"⟩
  | "subset", [_kind, t, sid, holders, ready] => some <| Id.run do
    let some t := t.toNat? | return bad
    let some sid := fromHex sid | return bad
    let some holders := peers holders | return bad
    let some ready := peers ready | return bad
    let cfg : ICfg String := ⟨"", holders, t, []⟩
    let rdy := isReady cfg ready
    let S := startParams (keyOf sid (keyTab sid ready)) cfg ready
    let m := s!"{if rdy then 1 else 0}:{toks S}"
    -- property on the implementation's answer: `SubsetSpec` (theorem startParams_spec)
    let ok := match impl.splitOn ":" with
      | [f, s] => match peers s with
        | some S' => (f == "0" || f == "1") &&
                     decide (SubsetSpec (keyOf sid (keyTab sid ready)) holders t ready (f == "1") S')
        | none => false
      | _ => false
    return ⟨m, ok, s!"subset:ready={rdy}:n={sizeTag ready.length}"⟩
  | "initiate", [_kind, self, t, sid, holders, excluded, arrivals] => some <| Id.run do
    let some self := peerOf self | return bad
    let some t := t.toNat? | return bad
    let some sid := fromHex sid | return bad
    let some holders := peers holders | return bad
    let some excluded := peers excluded | return bad
    let some arrs := parseArrs arrivals | return bad
    let arrivals := readiesOf arrs
    let ticks := arrs.any (· == Arr.tick)
    let cfg : ICfg String := ⟨self, holders, t, excluded⟩
    let wf := decide (self ∈ holders) && decide (self ∉ excluded)
    let inits := if ticks then "re" else "1"
    let (m, tag) := match initiateT (keyOf sid (keyTab sid (self :: arrivals))) cfg arrs with
      | some (n, S) => (s!"n={n};start={toks S};run={toks S};init={inits}", "announced")
      | none => (s!"n={arrs.length};start=none;run=none;init={inits}", "never-ready")
    -- property on the implementation's output: whatever subset was announced / started satisfies the C07 clause
    -- (the subset must be justified by the ready messages consumed BEFORE the announcement: n of the implementation)
    let ok := match field impl "start", field impl "run", (field impl "n").bind String.toNat? with
      | some st, some rn, some n =>
        rn == st && n ≤ arrs.length && match (if st = "none" then some none else (peers st).map some) with
          | some out => !wf || decide (AnnouncedOk cfg (readiesOf (arrs.take n)) arrivals out)
          | none => false
      | _, _, _ => false
    return ⟨m, ok, s!"initiate:{tag}:wf={wf}:excl={!excluded.isEmpty}:ticks={ticks}:arr={sizeTag arrs.length}"⟩
  | "retry2", [self, t, sid, ps, first, claimant, evs] => some <| Id.run do
    let some self := peerOf self | return bad
    let some t := t.toNat? | return bad
    let some sid := fromHex sid | return bad
    let some ps := peers ps | return bad
    let some claimant := (if claimant = "-" then some none else (peerOf claimant).map some) | return bad
    let some evs := (items evs ";").mapM parseEv2 | return bad
    let key := keyOf sid (keyTab sid (self :: ps ++ claimant.toList))
    match staticCoordinator key ps with
    | none => return ⟨"selfcoord", impl == "selfcoord", "retry2:selfcoord"⟩
    | some c =>
      if first.startsWith "silent" && c = self then return ⟨"selfcoord", impl == "selfcoord", "retry2:selfcoord"⟩
      -- the failure of the first attempt as handleError receives it, and whom it excludes (model of C11)
      let some e := firstErr first c | return bad
      let .retry ex := Sygma.C11.afterFailure true e | return bad
      let cands := Sygma.C11.nextCandidates ps ex
      let sel := toks (sortDesc key cands)
      let elected := Sygma.C11.bullyElectedListed key self cands claimant
      let fails := evs.any fun e => match e with | .inl (.fail _) => true | _ => false
      if elected = self then
        -- coordinates the second attempt: ready messages are collected, fail messages are read by a watcher that knows
        -- no coordinator and are all ignored
        let cos : List (CoEv String) := evs.filterMap fun e => match e with
          | .inr p => some (CoEv.ready p) | .inl (.fail f) => some (CoEv.fail f) | _ => none
        let readies := readiesCo cos
        let cfg : ICfg String := ⟨self, ps, t, ex⟩
        let wf := decide (self ∈ ps) && decide (self ∉ ex)
        let (ann, _) := runCoord key cfg none cos       -- the retry-phase watcher knows no coordinator
        let (m, tag) := match ann with
          | some (n, S) => (s!"mode=c;sel={sel};r=-;n={n};start={toks S};run=c:{toks S};res=ok", "announced")
          | none => (s!"mode=c;sel={sel};r=-;n={readies.length};start=none;run=-;res=ok", "never-ready")
        let ok := match field impl "start", field impl "run", field impl "res", (field impl "n").bind String.toNat? with
          | some st, some rn, some res, some n =>
            res == "ok" && n ≤ readies.length && (if st = "none" then rn == "-" else rn == "c:" ++ st) &&
            match (if st = "none" then some none else (peers st).map some) with
              | some out => !wf || decide (AnnouncedOk cfg (readies.take n) readies out)
              | none => false
          | _, _, _, _ => false
        return ⟨m, ok, s!"retry2:{if first.startsWith "silent" then "silent" else "failed-run"}:coordinates:{tag}:wf={wf}:fails={fails}"⟩
      else
        let tr := evs.filterMap fun e => match e with | .inl e => some e | _ => none
        let st := runWait2 (some elected) none tr
        let m := s!"mode=w;sel={sel};r={toks st.readies};n=0;start=none;run={joinOr (st.runs.map fun n => "w:p" ++ toString n) "/"};res={showRes st.res}"
        let ok := match field impl "r", field impl "run", field impl "res" with
          | some r, some rn, some res =>
            match peers r, (items rn "/").mapM (fun x => if x.startsWith "w:p" then (x.drop 3).toString.toNat? else none) with
            -- (retry_follower_obeys_only: obeys only the elected coordinator AND no fail message aborts the attempt: an
            --  `err` outcome can only be the undecodable start of the elected coordinator)
            | some rs, some runs => (parseResAny res).any fun x => x != .fail && decide (ObeysOnly elected tr rs runs x)
            | _, _ => false
          | _, _, _ => false
        return ⟨m, ok, s!"retry2:follows:res={showRes st.res}:ran={!st.runs.isEmpty}:fails={fails}"⟩
  | "coord1", [_kind, self, t, sid, holders, evs] => some <| Id.run do
    let some self := peerOf self | return bad
    let some t := t.toNat? | return bad
    let some sid := fromHex sid | return bad
    let some holders := peers holders | return bad
    let some cos := (items evs ";").mapM (fun e => match e.toList with
      | 'r' :: r => (peerOf (String.ofList r)).map CoEv.ready
      | 'f' :: r => (peerOf (String.ofList r)).map CoEv.fail
      | _ => none) | return bad
    let key := keyOf sid (keyTab sid (self :: holders))
    if staticCoordinator key holders != some self then return ⟨"notcoord", impl == "notcoord", "coord1:notcoord"⟩
    let cfg : ICfg String := ⟨self, holders, t, []⟩
    -- first attempt: Execute hands the elected coordinator — this relayer — to the fail watcher
    let (ann, aborted) := runCoord key cfg (some self) cos
    let readies := readiesCo cos
    let nAll := (cos.takeWhile fun e => e != CoEv.fail self).filter (fun e => match e with | .ready _ => true | _ => false) |>.length
    let res := if aborted then "err" else "ok"
    let m := match ann with
      | some (n, S) => s!"n={n};start={toks S};run={toks S};res={res}"
      | none => s!"n={nAll};start=none;run=-;res={res}"
    -- property: the announcement is justified by the consumed ready messages; the attempt is aborted only by a fail message
    -- authenticated as coming from the coordinator itself (coordinator_ignores_forged_fails)
    let ok := match field impl "start", field impl "run", field impl "res", (field impl "n").bind String.toNat? with
      | some st, some rn, some ires, some n =>
        (if st = "none" then rn == "-" else rn == st) && n ≤ readies.length &&
        (ires == "ok" || (ires == "err" && cos.contains (CoEv.fail self))) &&
        match (if st = "none" then some none else (peers st).map some) with
          | some out => (ires == "err" && st == "none") || decide (AnnouncedOk cfg (readies.take n) readies out)
          | none => false
      | _, _, _, _ => false
    return ⟨m, ok, s!"coord1:announced={ann.isSome}:aborted={aborted}:fails={cos.any fun e => match e with | .fail _ => true | _ => false}"⟩
  | "wait", [self, sid, ps, evs] => some <| Id.run do
    let some self := peerOf self | return bad
    let some sid := fromHex sid | return bad
    let some ps := peers ps | return bad
    let some evs := (items evs ";").mapM parseEv | return bad
    match staticCoordinator (keyOf sid (keyTab sid ps)) ps with
    | none => return ⟨"selfcoord", impl == "selfcoord", "wait:selfcoord"⟩
    | some c =>
      if c = self then return ⟨"selfcoord", impl == "selfcoord", "wait:selfcoord"⟩
      let s := runWait (some c) evs
      let ok := match field impl "r", field impl "run", field impl "res" with
        | some r, some rn, some res =>
          match peers r, parseRuns rn with
          | some rs, some runs => (parseResAny res).any fun x => decide (ObeysOnly c evs rs runs x)
          | _, _ => false
        | _, _, _ => false
      let forged := evs.any (fun e => e.src != c)
      return ⟨showWait s, ok, s!"wait:res={showRes s.res}:ran={!s.runs.isEmpty}:readies={sizeTag s.readies.length}:forged={forged}"⟩
  | _, _ => none

def handle (op : String) (args : List String) (impl : String) : Option Verdict :=
  match op, args with
  | "net", [self, sid, ps, evs] =>
    -- envelopes through the real receive path: the sender is the peer the connection is authenticated as; an origin the
    -- envelope claims is ignored (`attributeSender`), so the model is `wait` on the events with the claims taken out
    let stripped := (items evs ";").map stripClaim
    let forgedClaims := stripped.any (·.2)
    (handleCore "wait" [self, sid, ps, joinOr (stripped.map (·.1)) ";"] impl).map fun v =>
      { v with tag := "net:" ++ v.tag ++ s!":claims={forgedClaims}" }
  | _, _ => handleCore op args impl

end Sygma.Drv.C07
