/- Driver utilities: verdicts and wire-format parsing. Core only. -/
import SygmaModel.Base
namespace Sygma.Drv

/-- what the driver says about one line `op args => impl` -/
structure Verdict where
  model  : String   -- the model's canonical output for the same input
  propOk : Bool     -- the property predicate evaluated on the *implementation's* output
  tag    : String   -- which branch of the model the input reached (coverage histogram)

def natList (s : String) : Option (List Nat) :=
  if s = "-" then some [] else (s.splitOn ",").mapM String.toNat?

def intOf (s : String) : Option Int := s.toInt?

/-- items separated by `sep`, "-" = empty list -/
def items (s : String) (sep : String) : List String :=
  if s = "-" then [] else s.splitOn sep

def joinOr (xs : List String) (sep : String) : String :=
  if xs.isEmpty then "-" else sep.intercalate xs

def bad : Verdict := ⟨"BADARGS", false, "badargs"⟩

end Sygma.Drv
