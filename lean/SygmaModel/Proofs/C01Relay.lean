/-
  C01: explicit unfolding lemmas for the relay pipeline and the destination handlers on abstract payloads.
  They are stated once here, over variables, so that the property theorems rewrite with them instead of unfolding
  `relay` / `source` / `dest` / the handlers on large concrete terms (slow to elaborate, and the kernel may start unfolding
  the well-founded `natToBE` when it compares `Decidable` instances of `if`s that mention it).
-/
import SygmaModel.Proofs.C01Base
namespace Sygma.C01

theorem relay_ok {i : Input} {m : Msg} {p : Proposal} (hs : source i = .ok m) (hd : dest i.dk m = .ok p) :
    relay i = .ok p := by
  unfold relay; rw [hs]; simp only []; rw [hd]

theorem relay_errDst {i : Input} {m : Msg} (hs : source i = .ok m) (hd : dest i.dk m = .err) :
    relay i = .errDst := by
  unfold relay; rw [hs]; simp only []; rw [hd]

theorem source_erc20 (dk : DstKind) (id : Ident) (cd resp : Bytes) (n : Nat) :
    source ⟨.erc20, dk, id, cd, resp, n⟩ = erc20Deposit id cd resp := rfl
theorem source_erc721 (dk : DstKind) (id : Ident) (cd resp : Bytes) (n : Nat) :
    source ⟨.erc721, dk, id, cd, resp, n⟩ = erc721Deposit id cd := rfl
theorem source_erc1155 (dk : DstKind) (id : Ident) (cd resp : Bytes) (n : Nat) :
    source ⟨.erc1155, dk, id, cd, resp, n⟩ = erc1155Deposit id cd := rfl
theorem source_generic (dk : DstKind) (id : Ident) (cd resp : Bytes) (n : Nat) :
    source ⟨.generic, dk, id, cd, resp, n⟩ = genericDeposit id cd := rfl
theorem source_sub (dk : DstKind) (id : Ident) (cd resp : Bytes) (n : Nat) :
    source ⟨.sub, dk, id, cd, resp, n⟩ = subDeposit id cd n := rfl
theorem source_btc (dk : DstKind) (id : Ident) (cd resp : Bytes) (n : Nat) :
    source ⟨.btc, dk, id, cd, resp, n⟩ = btcDeposit id.src id.nonce id.rid n cd := rfl

theorem dest_evm (m : Msg) : dest .evm m = evmHandle m := rfl
theorem dest_sub (m : Msg) : dest .sub m = subHandle m := rfl
theorem dest_btc (m : Msg) : dest .btc m = btcHandle m := rfl

/-- Bitcoin destination: the rescaled amount when it fits uint64 -/
theorem btcHandle_ok (id : Ident) (a r : Bytes) (gas : Option Nat) (n : Nat) (hn : beToNat a / 10 ^ 10 = n)
    (hfit : n < 2 ^ 64) :
    btcHandle ⟨id, .fungible, [.bytes a, .bytes r], gas⟩ = .ok ⟨id, .btc n r, none⟩ := by
  subst hn
  show (if beToNat a / 10 ^ 10 < 2 ^ 64 then _ else _) = _
  rw [if_pos hfit]

/-- Bitcoin destination: refused when the rescaled amount does not fit uint64 -/
theorem btcHandle_big (id : Ident) (a r : Bytes) (gas : Option Nat) (hbig : ¬ beToNat a / 10 ^ 10 < 2 ^ 64) :
    btcHandle ⟨id, .fungible, [.bytes a, .bytes r], gas⟩ = .err := by
  show (if beToNat a / 10 ^ 10 < 2 ^ 64 then _ else _) = _
  rw [if_neg hbig]

theorem div_rescale (sat : Nat) : beToNat (natToBE (sat * 10 ^ 10)) / 10 ^ 10 = sat := by
  rw [beToNat_natToBE]; exact Nat.mul_div_cancel sat (Nat.pow_pos (by decide))

end Sygma.C01
