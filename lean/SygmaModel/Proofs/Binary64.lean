/-
  Binary64 exactness (DESIGN.md Appendix A, 5.15 d).  For the IEEE-754 *specification* of binary64 — `IsRN q v`:
  "v is a finite binary64 value nearest to the rational q", any tie-breaking rule — the repaired conversion
  `round( RN( RN(d / 10^8) · 10^8 ) )` returns `d` for every satoshi amount `d ≤ 21·10^14`.
  Assumed, not proved: that `strconv.ParseFloat` and the hardware multiplication implement that specification.
-/
import Mathlib.Data.Int.Log
import Mathlib.Algebra.Order.Round
import Mathlib.Data.Rat.Floor
import Mathlib.Tactic.Linarith
import Mathlib.Tactic.Positivity
import Mathlib.Tactic.NormNum
import Mathlib.Tactic.FieldSimp
import Mathlib.Tactic.Ring
import Mathlib.Data.Set.Finite.Lemmas
import Mathlib.Data.Finite.Prod
import Mathlib.Order.Interval.Finset.Defs
import Mathlib.Data.Int.Interval

namespace Sygma.Binary64

/-- finite binary64 values, as rationals -/
def IsF64 (v : ℚ) : Prop :=
  ∃ m e : ℤ, |m| < 2^53 ∧ -1074 ≤ e ∧ e ≤ 971 ∧ v = m * (2:ℚ)^e

/-- `v` is a binary64 value nearest to `q` (any tie-breaking rule) -/
def IsRN (q v : ℚ) : Prop := IsF64 v ∧ ∀ w, IsF64 w → |q - v| ≤ |q - w|

def u : ℚ := 1 / 2^53

theorem two_zpow_pos (e : ℤ) : (0:ℚ) < (2:ℚ)^e := zpow_pos (by norm_num) e

theorem exists_close (q : ℚ) (hlo : (2:ℚ)^(-100:ℤ) ≤ q) (hhi : q < (2:ℚ)^(100:ℤ)) :
    ∃ w, IsF64 w ∧ |q - w| ≤ q * u := by
  have hq : 0 < q := lt_of_lt_of_le (two_zpow_pos _) hlo
  obtain ⟨e0, h1, h2⟩ : ∃ e0 : ℤ, (2:ℚ)^e0 ≤ q ∧ q < (2:ℚ)^(e0+1) := by
    refine ⟨Int.log 2 q, ?_, ?_⟩
    · simpa using Int.zpow_log_le_self (b := 2) (by norm_num) hq
    · simpa using Int.lt_zpow_succ_log_self (b := 2) (by norm_num) q
  have he0hi : e0 < 100 := by
    have : (2:ℚ)^e0 < (2:ℚ)^(100:ℤ) := lt_of_le_of_lt h1 hhi
    exact (zpow_lt_zpow_iff_right₀ (by norm_num : (1:ℚ) < 2)).1 this
  have he0lo : -100 < e0 + 1 := by
    have : (2:ℚ)^(-100:ℤ) < (2:ℚ)^(e0+1) := lt_of_le_of_lt hlo h2
    exact (zpow_lt_zpow_iff_right₀ (by norm_num : (1:ℚ) < 2)).1 this
  set e : ℤ := e0 - 52 with he
  have hE : (0:ℚ) < (2:ℚ)^e := two_zpow_pos e
  have hsplit : (2:ℚ)^e0 = (2:ℚ)^e * 2^52 := by
    have : e0 = e + 52 := by omega
    rw [this, zpow_add₀ (by norm_num : (2:ℚ) ≠ 0)]; norm_num
  have hsplit1 : (2:ℚ)^(e0+1) = (2:ℚ)^e * 2^53 := by
    have : e0 + 1 = e + 53 := by omega
    rw [this, zpow_add₀ (by norm_num : (2:ℚ) ≠ 0)]; norm_num
  set t : ℚ := q / (2:ℚ)^e with ht
  have hqt : q = t * (2:ℚ)^e := by rw [ht]; field_simp
  have ht1 : (2:ℚ)^52 ≤ t := by
    rw [ht, le_div_iff₀ hE]; rw [hsplit] at h1; linarith
  have ht2 : t < (2:ℚ)^53 := by
    rw [ht, div_lt_iff₀ hE]; rw [hsplit1] at h2; linarith
  set m : ℤ := round t with hm
  have hr : |t - (m:ℚ)| ≤ 1/2 := abs_sub_round t
  have hr' := abs_le.1 hr
  have hmpos : (0:ℚ) < m := by norm_num at ht1; linarith [hr'.2]
  have hmle : (m:ℚ) < 2^53 + 1 := by norm_num at ht2 ⊢; linarith [hr'.1]
  have hmposZ : 0 < m := by exact_mod_cast hmpos
  have hmleZ : m ≤ 2^53 := by
    have : m < 2^53 + 1 := by exact_mod_cast hmle
    omega
  have herr : |q - (m:ℚ) * (2:ℚ)^e| ≤ q * u := by
    have : q - (m:ℚ) * (2:ℚ)^e = (t - m) * (2:ℚ)^e := by rw [hqt]; ring
    rw [this, abs_mul, abs_of_pos hE]
    have hqlow : (2:ℚ)^e * 2^52 ≤ q := by rw [← hsplit]; exact h1
    have : q * u ≥ (2:ℚ)^e * 2^52 * u := by
      apply mul_le_mul_of_nonneg_right hqlow; unfold u; positivity
    have hu : (2:ℚ)^e * 2^52 * u = (2:ℚ)^e / 2 := by unfold u; norm_num; ring
    calc |t - (m:ℚ)| * (2:ℚ)^e ≤ (1/2) * (2:ℚ)^e := by
            apply mul_le_mul_of_nonneg_right hr hE.le
      _ = (2:ℚ)^e / 2 := by ring
      _ ≤ q * u := by rw [← hu]; exact this
  by_cases hlt : m < 2^53
  · refine ⟨(m:ℚ) * (2:ℚ)^e, ⟨m, e, ?_, by omega, by omega, rfl⟩, herr⟩
    rw [abs_of_pos hmposZ]; exact hlt
  · have hmeq : m = 2^53 := by omega
    refine ⟨(m:ℚ) * (2:ℚ)^e, ⟨2^52, e+1, by norm_num, by omega, by omega, ?_⟩, herr⟩
    rw [hmeq, zpow_add₀ (by norm_num : (2:ℚ) ≠ 0)]; push_cast; ring

theorem rn_rel_err (q v : ℚ) (hlo : (2:ℚ)^(-100:ℤ) ≤ q) (hhi : q < (2:ℚ)^(100:ℤ))
    (h : IsRN q v) : |q - v| ≤ q * u := by
  obtain ⟨w, hw, hwe⟩ := exists_close q hlo hhi
  exact le_trans (h.2 w hw) hwe

/-- exactness of  round(parse(d / 10^8) * 10^8)  for every amount up to the 21e14-satoshi supply -/
theorem sat_exact (d : ℕ) (hd0 : 0 < d) (hd : d ≤ 21 * 10^14) (v p : ℚ)
    (hv : IsRN ((d:ℚ) / 10^8) v) (hp : IsRN (v * 10^8) p) : round p = (d:ℤ) := by
  have hdq : (1:ℚ) ≤ d := by exact_mod_cast hd0
  have hdq2 : (d:ℚ) ≤ 21 * 10^14 := by exact_mod_cast hd
  have hx_lo : (2:ℚ)^(-100:ℤ) ≤ (d:ℚ) / 10^8 := by
    have h1 : (2:ℚ)^(-100:ℤ) ≤ (2:ℚ)^(-27:ℤ) :=
      (zpow_le_zpow_iff_right₀ (by norm_num : (1:ℚ) < 2)).2 (by norm_num)
    have h2 : (2:ℚ)^(-27:ℤ) ≤ (d:ℚ) / 10^8 := by
      rw [le_div_iff₀ (by positivity)]
      have : (2:ℚ)^(-27:ℤ) * 10^8 ≤ 1 := by norm_num [zpow_neg]
      linarith
    exact le_trans h1 h2
  have hx_hi : (d:ℚ) / 10^8 < (2:ℚ)^(100:ℤ) := by
    have h1 : (2:ℚ)^(25:ℤ) ≤ (2:ℚ)^(100:ℤ) :=
      (zpow_le_zpow_iff_right₀ (by norm_num : (1:ℚ) < 2)).2 (by norm_num)
    have h2 : (d:ℚ) / 10^8 < (2:ℚ)^(25:ℤ) := by
      rw [div_lt_iff₀ (by positivity)]; norm_num; linarith
    exact lt_of_lt_of_le h2 h1
  have e1 := abs_le.1 (rn_rel_err _ _ hx_lo hx_hi hv)
  have hu : u = 1 / 2^53 := rfl
  -- y := v * 10^8 is within d(1±u)
  set x : ℚ := (d:ℚ) / 10^8 with hx
  have hxd : x * 10^8 = d := by rw [hx]; field_simp
  set y : ℚ := v * 10^8 with hy
  have hy1 : (d:ℚ) * (1 - u) ≤ y := by
    have : x * (1 - u) ≤ v := by linarith [e1.2]
    calc (d:ℚ) * (1 - u) = x * (1 - u) * 10^8 := by rw [← hxd]; ring
      _ ≤ v * 10^8 := by apply mul_le_mul_of_nonneg_right this (by positivity)
  have hy2 : y ≤ (d:ℚ) * (1 + u) := by
    have : v ≤ x * (1 + u) := by linarith [e1.1]
    calc y = v * 10^8 := rfl
      _ ≤ x * (1 + u) * 10^8 := by apply mul_le_mul_of_nonneg_right this (by positivity)
      _ = (d:ℚ) * (1 + u) := by rw [← hxd]; ring
  have hupos : (0:ℚ) < u := by unfold u; positivity
  have hu1 : u ≤ 1/2 := by unfold u; norm_num
  have hy_lo : (2:ℚ)^(-100:ℤ) ≤ y := by
    have h1 : (2:ℚ)^(-100:ℤ) ≤ (2:ℚ)^(-1:ℤ) :=
      (zpow_le_zpow_iff_right₀ (by norm_num : (1:ℚ) < 2)).2 (by norm_num)
    have h2 : (2:ℚ)^(-1:ℤ) = 1/2 := by norm_num
    have h3 : (1:ℚ)/2 ≤ (d:ℚ) * (1 - u) := by nlinarith
    exact le_trans h1 (le_trans (le_of_eq h2) (le_trans h3 hy1))
  have hy_hi : y < (2:ℚ)^(100:ℤ) := by
    have h1 : (2:ℚ)^(52:ℤ) ≤ (2:ℚ)^(100:ℤ) :=
      (zpow_le_zpow_iff_right₀ (by norm_num : (1:ℚ) < 2)).2 (by norm_num)
    have h2 : (d:ℚ) * (1 + u) < (2:ℚ)^(52:ℤ) := by norm_num; nlinarith
    exact lt_of_le_of_lt hy2 (lt_of_lt_of_le h2 h1)
  have e2 := abs_le.1 (rn_rel_err _ _ hy_lo hy_hi hp)
  -- |p - d| < 1/2
  have hbound : (d:ℚ) * u * (2 + u) < 1/2 := by
    have : (d:ℚ) * u * (2 + u) ≤ 21 * 10^14 * u * (2 + u) := by
      apply mul_le_mul_of_nonneg_right _ (by linarith)
      apply mul_le_mul_of_nonneg_right hdq2 hupos.le
    have h2 : (21:ℚ) * 10^14 * u * (2 + u) < 1/2 := by unfold u; norm_num
    linarith
  have hp1 : p - d < 1/2 := by nlinarith [e2.1, e2.2]
  have hp2 : -(1/2) < p - d := by nlinarith [e2.1, e2.2]
  rw [round_eq, Int.floor_eq_iff]
  constructor <;> push_cast <;> linarith


/-- zero is only approximated by zero -/
theorem rn_zero (v : ℚ) (h : IsRN 0 v) : v = 0 := by
  have h0 : IsF64 0 := ⟨0, 0, by norm_num, by norm_num, by norm_num, by norm_num⟩
  have := h.2 0 h0
  simp only [sub_self, abs_zero, zero_sub, abs_neg] at this
  exact abs_eq_zero.1 (le_antisymm this (abs_nonneg v))

/-- `sat_exact` including `d = 0` -/
theorem sat_exact' (d : ℕ) (hd : d ≤ 21 * 10^14) (v p : ℚ)
    (hv : IsRN ((d:ℚ) / 10^8) v) (hp : IsRN (v * 10^8) p) : round p = (d:ℤ) := by
  rcases Nat.eq_zero_or_pos d with h0 | hpos
  · subst h0
    have hv0 : v = 0 := rn_zero v (by simpa using hv)
    subst hv0
    have hp0 : p = 0 := rn_zero p (by simpa using hp)
    subst hp0
    simp
  · exact sat_exact d hpos hd v p hv hp

/-- there are finitely many finite binary64 values -/
theorem f64_finite : {v : ℚ | IsF64 v}.Finite := by
  have h : {v : ℚ | IsF64 v} ⊆ (fun p : ℤ × ℤ => (p.1 : ℚ) * (2:ℚ) ^ p.2) '' (Set.Icc (-(2^53 : ℤ)) (2^53) ×ˢ Set.Icc (-1074 : ℤ) 971) := by
    rintro v ⟨m, e, hm, he1, he2, rfl⟩
    refine ⟨(m, e), ⟨⟨?_, ?_⟩, ⟨he1, he2⟩⟩, rfl⟩
    · have := abs_lt.1 hm; omega
    · have := abs_lt.1 hm; omega
  exact (((Set.finite_Icc (-(2^53 : ℤ)) (2^53)).prod (Set.finite_Icc (-1074 : ℤ) 971)).image _).subset h

/-- every rational has a nearest binary64 value (the set of finite binary64 values is finite and non-empty) -/
theorem exists_rn (q : ℚ) : ∃ v, IsRN q v := by
  have hne : {v : ℚ | IsF64 v}.Nonempty := ⟨0, 0, 0, by norm_num, by norm_num, by norm_num, by norm_num⟩
  obtain ⟨v, hv, hmin⟩ := Set.exists_min_image _ (fun w => |q - w|) f64_finite hne
  exact ⟨v, hv, fun w hw => hmin w hw⟩

end Sygma.Binary64
