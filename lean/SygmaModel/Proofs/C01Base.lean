/-
  Helper lemmas for C01: fixed-width big-endian words, slicing of concatenations.
-/
import SygmaModel.Model.C01
namespace Sygma.C01

theorem take_app {a b : Bytes} {n : Nat} (h : a.length = n) : (a ++ b).take n = a := by
  subst h; simp

theorem drop_app {a b : Bytes} {n : Nat} (h : a.length = n) : (a ++ b).drop n = b := by
  subst h; simp

theorem drop_app_add {a b : Bytes} {n k : Nat} (h : a.length = n) : (a ++ b).drop (n + k) = b.drop k := by
  subst h; simp [List.drop_append]

/-- big-endian reading is injective on strings of equal length -/
theorem beToNat_inj : ∀ (a b : Bytes), a.length = b.length → beToNat a = beToNat b → a = b
  | [], [], _, _ => rfl
  | [], _ :: _, h, _ => by simp at h
  | _ :: _, [], h, _ => by simp at h
  | x :: xs, y :: ys, hl, hv => by
    have hl' : xs.length = ys.length := by simpa using hl
    rw [beToNat_cons, beToNat_cons, hl'] at hv
    have hx := beToNat_lt xs
    have hy := beToNat_lt ys
    rw [hl'] at hx
    have hK : 0 < 256 ^ ys.length := Nat.pow_pos (by decide)
    have e1 : (x.toNat * 256 ^ ys.length + beToNat xs) / 256 ^ ys.length = x.toNat := by
      rw [Nat.mul_comm, Nat.mul_add_div hK, Nat.div_eq_of_lt hx]; simp
    have e2 : (y.toNat * 256 ^ ys.length + beToNat ys) / 256 ^ ys.length = y.toNat := by
      rw [Nat.mul_comm, Nat.mul_add_div hK, Nat.div_eq_of_lt hy]; simp
    have hxy : x.toNat = y.toNat := by rw [← e1, ← e2, hv]
    have hxy' : x = y := UInt8.toNat_inj.1 hxy
    subst hxy'
    have : beToNat xs = beToNat ys := by omega
    rw [beToNat_inj xs ys hl' this]

theorem pow256_32 : (256 : Nat) ^ 32 = 2 ^ 256 := by decide

/-- a 32-byte string is the word of its value -/
theorem pad32_beToNat (b : Bytes) (h : b.length = 32) : pad32 (beToNat b) = b := by
  have hlt : beToNat b < 2 ^ 256 := by have := beToNat_lt b; rw [h, pow256_32] at this; exact this
  apply beToNat_inj
  · rw [pad32_length _ hlt, h]
  · exact beToNat_pad32 _

theorem leftPad_of_length {k : Nat} {b : Bytes} (h : k ≤ b.length) : leftPad k b = b := by
  simp [leftPad, Nat.sub_eq_zero_of_le h]

theorem int64Len_pad32 (n : Nat) (h : n < 2 ^ 63) : int64Len (pad32 n) = some n := by
  have : n % 2 ^ 64 = n := Nat.mod_eq_of_lt (by omega)
  simp [int64Len, beToNat_pad32, this, h]

theorem slice_eq {b : Bytes} {lo hi : Nat} (h1 : lo ≤ hi) (h2 : hi ≤ b.length) :
    slice b lo hi = some ((b.drop lo).take (hi - lo)) := by
  simp [slice, h1, h2]

end Sygma.C01
