/-
  C01 helper lemmas: the modelled geth ABI decoder inverts the encoder on `(uint256[], uint256[], bytes, bytes)`.
-/
import SygmaModel.Proofs.C01Base
namespace Sygma.C01

theorem word_lt (x : Nat) : x % 2 ^ 256 < 2 ^ 256 := Nat.mod_lt _ (by decide)

theorem words_length (xs : List Nat) : (xs.flatMap fun x => pad32 (x % 2 ^ 256)).length = 32 * xs.length := by
  induction xs with
  | nil => rfl
  | cons x xs ih => simp [List.flatMap_cons, pad32_length _ (word_lt x), ih]; omega

theorem words_decode (xs : List Nat) (rest : Bytes) :
    words xs.length ((xs.flatMap fun x => pad32 (x % 2 ^ 256)) ++ rest) = xs.map (· % 2 ^ 256) := by
  induction xs with
  | nil => rfl
  | cons x xs ih =>
    have hl : (pad32 (x % 2 ^ 256)).length = 32 := pad32_length _ (word_lt x)
    simp only [List.length_cons, words, List.flatMap_cons, List.append_assoc, List.map_cons]
    rw [take_app hl, drop_app hl, beToNat_pad32, ih]

theorem encUints_length (xs : List Nat) (h : xs.length < 2 ^ 256) : (encUints xs).length = 32 + 32 * xs.length := by
  have := words_length xs
  simp only [encUints, List.length_append, pad32_length _ h, this]

theorem ceil32_ge (n : Nat) : n ≤ ceil32 n := by unfold ceil32; omega

theorem encBytes_length (b : Bytes) (h : b.length < 2 ^ 256) : (encBytes b).length = 32 + ceil32 b.length := by
  have := ceil32_ge b.length
  simp [encBytes, pad32_length _ h, rightPad]; omega

/-- a dynamic head slot pointing at `pad32 n ++ body` -/
theorem abiLenPrefix_slot (cd pre body post : Bytes) (i off n : Nat)
    (hcd : cd = pre ++ (pad32 n ++ (body ++ post))) (hpre : pre.length = off) (hn : n < 2 ^ 256) (_hoff : off < 2 ^ 256)
    (hi : (cd.drop i).take 32 = pad32 off) (hil : i + 32 ≤ cd.length) (hfit : n ≤ body.length + post.length) :
    abiLenPrefix cd i = some (off + 32, n) ∧ cd.drop (off + 32) = body ++ post := by
  have hN : (pad32 n).length = 32 := pad32_length _ hn
  have hlen : cd.length = off + 32 + body.length + post.length := by
    rw [hcd]; simp [hN, hpre]; omega
  have hd : cd.drop off = pad32 n ++ (body ++ post) := by rw [hcd]; exact drop_app hpre
  have hd2 : cd.drop (off + 32) = body ++ post := by
    rw [← List.drop_drop, hd]; exact drop_app hN
  refine ⟨?_, hd2⟩
  unfold abiLenPrefix
  rw [if_neg (by omega)]
  simp only [hi, beToNat_pad32]
  rw [if_neg (by omega)]
  simp only [Nat.add_sub_cancel, hd, take_app hN, beToNat_pad32]
  rw [if_neg (by omega)]

theorem abiUints_slot (cd pre post : Bytes) (xs : List Nat) (i off : Nat)
    (hcd : cd = pre ++ (encUints xs ++ post)) (hpre : pre.length = off) (hn : xs.length < 2 ^ 256) (hoff : off < 2 ^ 256)
    (hi : (cd.drop i).take 32 = pad32 off) (hil : i + 32 ≤ cd.length) :
    abiUints cd i = some (xs.map (· % 2 ^ 256)) := by
  have hcd' : cd = pre ++ (pad32 xs.length ++ ((xs.flatMap fun x => pad32 (x % 2 ^ 256)) ++ post)) := by
    rw [hcd]; simp [encUints]
  have hw := words_length xs
  obtain ⟨h1, h2⟩ := abiLenPrefix_slot cd pre _ post i off xs.length hcd' hpre hn hoff hi hil (by rw [hw]; omega)
  unfold abiUints
  rw [h1]
  simp only [h2]
  rw [if_neg (by simp [hw])]
  rw [words_decode]

theorem abiBytes_slot (cd pre post b : Bytes) (i off : Nat)
    (hcd : cd = pre ++ (encBytes b ++ post)) (hpre : pre.length = off) (hn : b.length < 2 ^ 256) (hoff : off < 2 ^ 256)
    (hi : (cd.drop i).take 32 = pad32 off) (hil : i + 32 ≤ cd.length) :
    abiBytes cd i = some b := by
  have hcd' : cd = pre ++ (pad32 b.length ++ (rightPad (ceil32 b.length) b ++ post)) := by
    rw [hcd]; simp [encBytes]
  have hr : (rightPad (ceil32 b.length) b).length = ceil32 b.length := by
    have := ceil32_ge b.length
    simp [rightPad]; omega
  obtain ⟨h1, h2⟩ := abiLenPrefix_slot cd pre _ post i off b.length hcd' hpre hn hoff hi hil
    (by rw [hr]; have := ceil32_ge b.length; omega)
  unfold abiBytes
  rw [h1]
  simp only [h2, rightPad, List.append_assoc]
  rw [take_app rfl]

theorem map_mod_id (xs : List Nat) (h : ∀ x ∈ xs, x < 2 ^ 256) : xs.map (· % 2 ^ 256) = xs := by
  induction xs with
  | nil => rfl
  | cons x xs ih =>
    simp only [List.map_cons]
    rw [Nat.mod_eq_of_lt (h x (by simp)), ih (fun y hy => h y (by simp [hy]))]

/-- `UnpackValues ∘ PackValues = id` on well-formed ERC1155 tuples (model level) -/
theorem abiDecode_encode (v : Semi) (h : v.WF) : abiDecode1155 (abiEncode1155 v) = some v := by
  obtain ⟨hids, hams, hr, hl0, hl1, hl3⟩ := h
  have hL0 := encUints_length v.ids (by omega)
  have hL1 := encUints_length v.amounts (by omega)
  have hL2 := encBytes_length v.recipient (by omega)
  have hL3 := encBytes_length v.data (by omega)
  have hc2 : ceil32 v.recipient.length = 32 := by rw [hr]; decide
  have hc3 : ceil32 v.data.length < 2 ^ 64 := by unfold ceil32; omega
  generalize hp0 : encUints v.ids = p0 at *
  generalize hp1 : encUints v.amounts = p1 at *
  generalize hp2 : encBytes v.recipient = p2 at *
  generalize hp3 : encBytes v.data = p3 at *
  have hH0 : (pad32 128).length = 32 := pad32_length _ (by decide)
  have hH1 : (pad32 (128 + p0.length)).length = 32 := pad32_length _ (by omega)
  have hH2 : (pad32 (128 + p0.length + p1.length)).length = 32 := pad32_length _ (by omega)
  have hH3 : (pad32 (128 + p0.length + p1.length + p2.length)).length = 32 := pad32_length _ (by omega)
  have hcd : abiEncode1155 v = pad32 128 ++ (pad32 (128 + p0.length) ++ (pad32 (128 + p0.length + p1.length)
      ++ (pad32 (128 + p0.length + p1.length + p2.length) ++ (p0 ++ (p1 ++ (p2 ++ p3)))))) := by
    simp [abiEncode1155, hp0, hp1, hp2, hp3]
  generalize abiEncode1155 v = cd at hcd
  have hlen : cd.length = 128 + p0.length + p1.length + p2.length + p3.length := by
    rw [hcd]; simp [hH0, hH1, hH2, hH3]; omega
  have w0 : (cd.drop 0).take 32 = pad32 128 := by rw [hcd]; exact take_app hH0
  have d1 : cd.drop 32 = pad32 (128 + p0.length) ++ (pad32 (128 + p0.length + p1.length)
      ++ (pad32 (128 + p0.length + p1.length + p2.length) ++ (p0 ++ (p1 ++ (p2 ++ p3))))) := by
    rw [hcd]; exact drop_app hH0
  have w1 : (cd.drop 32).take 32 = pad32 (128 + p0.length) := by rw [d1]; exact take_app hH1
  have d2 : cd.drop 64 = pad32 (128 + p0.length + p1.length)
      ++ (pad32 (128 + p0.length + p1.length + p2.length) ++ (p0 ++ (p1 ++ (p2 ++ p3)))) := by
    have : cd.drop 64 = (cd.drop 32).drop 32 := by simp
    rw [this, d1]; exact drop_app hH1
  have w2 : (cd.drop 64).take 32 = pad32 (128 + p0.length + p1.length) := by rw [d2]; exact take_app hH2
  have d3 : cd.drop 96 = pad32 (128 + p0.length + p1.length + p2.length) ++ (p0 ++ (p1 ++ (p2 ++ p3))) := by
    have : cd.drop 96 = (cd.drop 64).drop 32 := by simp
    rw [this, d2]; exact drop_app hH2
  have w3 : (cd.drop 96).take 32 = pad32 (128 + p0.length + p1.length + p2.length) := by rw [d3]; exact take_app hH3
  let heads := pad32 128 ++ (pad32 (128 + p0.length) ++ (pad32 (128 + p0.length + p1.length)
      ++ pad32 (128 + p0.length + p1.length + p2.length)))
  have hheads : heads.length = 128 := by simp [heads, hH0, hH1, hH2, hH3]
  have e0 : abiUints cd 0 = some (v.ids.map (· % 2 ^ 256)) := by
    apply abiUints_slot cd heads (p1 ++ (p2 ++ p3)) v.ids 0 128
    · rw [hcd, hp0]; simp [heads]
    · exact hheads
    · omega
    · decide
    · exact w0
    · omega
  have e1 : abiUints cd 32 = some (v.amounts.map (· % 2 ^ 256)) := by
    apply abiUints_slot cd (heads ++ p0) (p2 ++ p3) v.amounts 32 (128 + p0.length)
    · rw [hcd, hp1]; simp [heads]
    · simp [hheads]
    · omega
    · omega
    · exact w1
    · omega
  have e2 : abiBytes cd 64 = some v.recipient := by
    apply abiBytes_slot cd (heads ++ p0 ++ p1) p3 v.recipient 64 (128 + p0.length + p1.length)
    · rw [hcd, hp2]; simp [heads]
    · simp [hheads]; omega
    · omega
    · omega
    · exact w2
    · omega
  have e3 : abiBytes cd 96 = some v.data := by
    apply abiBytes_slot cd (heads ++ p0 ++ p1 ++ p2) [] v.data 96 (128 + p0.length + p1.length + p2.length)
    · rw [hcd, hp3]; simp [heads]
    · simp [hheads]; omega
    · omega
    · omega
    · exact w3
    · omega
  unfold abiDecode1155
  rw [e0, e1, e2, e3, map_mod_id _ hids, map_mod_id _ hams]

end Sygma.C01
