import SygmaModel.Model.C20Dur
namespace Sygma.C20

theorem durGo_sum (ts : List (Nat × DUnit)) (d r : Nat) (h : durGo d ts = some r) (hfit : d + durTotal ts < 2 ^ 64) :
    r = d + durTotal ts := by
  induction ts generalizing d with
  | nil => simp [durGo] at h; simp [durTotal, h]
  | cons t ts ih =>
    obtain ⟨v, u⟩ := t
    simp only [durGo] at h
    split at h; · cases h
    split at h; · cases h
    simp only [durTotal] at hfit ⊢
    have hm : (d + v * u.nanos) % 2 ^ 64 = d + v * u.nanos := Nat.mod_eq_of_lt (by omega)
    rw [hm] at h
    split at h; · cases h
    have := ih (d + v * u.nanos) h (by omega)
    omega

end Sygma.C20
