import SygmaModel.Model.C20Dur
namespace Sygma.C20

theorem durGo_sum (ts : List (Nat × DUnit)) (d r : Nat) (h : durGo d ts = some r) (hfit : d + durTotal ts < 2 ^ 64) :
    r = d + durTotal ts := by
  induction ts generalizing d with
  | nil => simp [durGo] at h; simp [durTotal, h]
  | cons t ts ih =>
    obtain ⟨v, u⟩ := t
    simp only [durGo] at h
    split at h; · cases h
    split at h; · cases h
    simp only [durTotal] at hfit ⊢
    have hm : (d + v * u.nanos) % 2 ^ 64 = d + v * u.nanos := Nat.mod_eq_of_lt (by omega)
    rw [hm] at h
    split at h; · cases h
    have := ih (d + v * u.nanos) h (by omega)
    omega

theorem nanos_pos (u : DUnit) : 1 ≤ u.nanos := by cases u <;> decide

/-- acceptance: while the running total stays within 2^63 the loop never rejects and returns the exact total -/
theorem durGo_accepts (ts : List (Nat × DUnit)) (d : Nat) (h : d + durTotal ts ≤ 2 ^ 63) :
    durGo d ts = some (d + durTotal ts) := by
  induction ts generalizing d with
  | nil => simp [durGo, durTotal]
  | cons t ts ih =>
    obtain ⟨v, u⟩ := t
    simp only [durTotal] at h
    have hu := nanos_pos u
    have hv : v ≤ v * u.nanos := Nat.le_mul_of_pos_right v hu
    have h1 : ¬ v > 2 ^ 63 := by omega
    have h2 : ¬ v > 2 ^ 63 / u.nanos := by
      have : v ≤ 2 ^ 63 / u.nanos := (Nat.le_div_iff_mul_le hu).2 (by omega)
      omega
    have hm : (d + v * u.nanos) % 2 ^ 64 = d + v * u.nanos := Nat.mod_eq_of_lt (by omega)
    have h3 : ¬ (d + v * u.nanos > 2 ^ 63) := by omega
    simp only [durGo, h1, h2, if_false, hm, h3]
    rw [ih (d + v * u.nanos) (by omega)]
    simp only [durTotal]
    congr 1; omega

end Sygma.C20
