/-
  C16 — helper lemmas about the model (core Lean only): input selection yields a prefix and its exact sum,
  proposal outputs under the no-wrap bounds, the UTXO key order is a total order on distinct outpoints.
-/
import SygmaModel.Model.C16
namespace Sygma.C16

theorem M_val : M = 18446744073709551616 := by decide

theorem sumValues_cons (u : Utxo) (us : List Utxo) : sumValues (u :: us) = u.value + sumValues us := by
  simp [sumValues]

theorem sumAmounts_cons (p : Prp) (ps : List Prp) : sumAmounts (p :: ps) = p.amount + sumAmounts ps := by
  simp [sumAmounts]

theorem sumOuts_cons (o : TxOut) (os : List TxOut) : sumOuts (o :: os) = o.value + sumOuts os := by
  simp [sumOuts]

theorem sumOuts_append (a b : List TxOut) : sumOuts (a ++ b) = sumOuts a + sumOuts b := by
  simp [sumOuts]

theorem amount_le_sumAmounts (ps : List Prp) (p : Prp) (h : p ∈ ps) : p.amount ≤ sumAmounts ps := by
  induction ps with
  | nil => cases h
  | cons q qs ih =>
    rw [sumAmounts_cons]
    rcases List.mem_cons.1 h with rfl | h'
    · omega
    · have := ih h'; omega

theorem sumAmounts_le (ps : List Prp) (B : Nat) (h : ∀ p ∈ ps, p.amount ≤ B) : sumAmounts ps ≤ ps.length * B := by
  induction ps with
  | nil => simp [sumAmounts]
  | cons p ps ih =>
    have h1 := h p (by simp)
    have h2 := ih (fun q hq => h q (by simp [hq]))
    rw [sumAmounts_cons, List.length_cons, Nat.add_mul]; omega

/-- the selection loop without wrap: the UTXOs used are a prefix of the list, the total is their exact sum -/
theorem select_spec (target : Nat) (us : List Utxo) (acc a : Nat) (l : List Utxo)
    (hacc : acc ≤ target) (ht : target + 21 * 10 ^ 14 < M) (hv : ∀ u ∈ us, u.value ≤ 21 * 10 ^ 14)
    (h : select target us acc = some (a, l)) :
    l = us.take l.length ∧ a = acc + sumValues l ∧ a ≤ target + 21 * 10 ^ 14 := by
  induction us generalizing acc a l with
  | nil =>
    simp only [select, Option.some.injEq, Prod.mk.injEq] at h
    obtain ⟨rfl, rfl⟩ := h
    simp [sumValues]; omega
  | cons u us ih =>
    have hu := hv u (by simp)
    unfold select at h
    by_cases hval : validTxid u.txid = true
    · simp only [hval, Bool.not_true, Bool.false_eq_true, ↓reduceIte] at h
      have hmod : (acc + u.value) % M = acc + u.value := Nat.mod_eq_of_lt (by omega)
      rw [hmod] at h
      by_cases hgt : acc + u.value > target
      · simp only [hgt, ↓reduceIte, Option.some.injEq, Prod.mk.injEq] at h
        obtain ⟨rfl, rfl⟩ := h
        simp [sumValues]; omega
      · simp only [hgt, ↓reduceIte] at h
        cases hr : select target us (acc + u.value) with
        | none => simp [hr] at h
        | some r =>
          obtain ⟨a', l'⟩ := r
          simp only [hr, Option.map_some, Option.some.injEq, Prod.mk.injEq] at h
          obtain ⟨rfl, rfl⟩ := h
          have := ih (acc + u.value) a' l' (by omega) (fun x hx => hv x (by simp [hx])) hr
          obtain ⟨h1, h2, h3⟩ := this
          refine ⟨?_, ?_, h3⟩
          · simp only [List.length_cons, List.take_succ_cons]; rw [← h1]
          · rw [sumValues_cons]; omega
    · simp [hval] at h

theorem toInt64_small (n : Nat) (h : n < 2 ^ 63) : toInt64 n = (n : Int) := by
  have hM : n % M = n := Nat.mod_eq_of_lt (by rw [M_val]; omega)
  simp [toInt64, hM, h]

/-- under the amount bound every proposal output carries exactly the proposal's amount -/
theorem propOuts_eq (ps : List Prp) (h : ∀ p ∈ ps, p.amount ≤ 21 * 10 ^ 14) :
    propOuts ps = ps.mapM (fun p => p.script.map fun s => (⟨(p.amount : Int), s⟩ : TxOut)) := by
  induction ps with
  | nil => simp [propOuts]
  | cons p ps ih =>
    have hp := h p (by simp)
    have ih' := ih (fun q hq => h q (by simp [hq]))
    simp only [propOuts, List.mapM_cons]
    cases hs : p.script with
    | none => simp
    | some s =>
      rw [ih', toInt64_small p.amount (by omega)]
      cases ps.mapM (fun p => p.script.map fun s => (⟨(p.amount : Int), s⟩ : TxOut)) <;> simp

theorem propOuts_facts (ps : List Prp) (po : List TxOut) (h : ∀ p ∈ ps, p.amount ≤ 21 * 10 ^ 14)
    (hp : propOuts ps = some po) :
    po.length = ps.length ∧ sumOuts po = (sumAmounts ps : Int) ∧ ∀ o ∈ po, 0 ≤ o.value := by
  induction ps generalizing po with
  | nil =>
    simp only [propOuts, Option.some.injEq] at hp; subst hp
    simp [sumOuts, sumAmounts]
  | cons p ps ih =>
    have hpb := h p (by simp)
    simp only [propOuts] at hp
    cases hs : p.script with
    | none => simp [hs] at hp
    | some s =>
      simp only [hs] at hp
      cases hr : propOuts ps with
      | none => simp [hr] at hp
      | some po' =>
        simp only [hr, Option.map_some, Option.some.injEq] at hp
        subst hp
        obtain ⟨h1, h2, h3⟩ := ih po' (fun q hq => h q (by simp [hq])) hr
        have ht := toInt64_small p.amount (by omega)
        refine ⟨by simp [h1], ?_, ?_⟩
        · rw [sumOuts_cons, sumAmounts_cons, h2, ht]; push_cast; rfl
        · intro o ho
          rcases List.mem_cons.1 ho with rfl | ho
          · simp only [ht]; omega
          · exact h3 o ho

/-- the fee quote under the bounds: no wrap, and below 3·10^14 -/
theorem feeOf_bound (r k m : Nat) (hr : r ≤ 10 ^ 6) (hk : k ≤ 10 ^ 6) (hm : m ≤ 10 ^ 6 + 1) :
    feeOf r k m = (k * 180 + m * 34) * (r / 5 * 5 + 5) ∧ feeOf r k m < 3 * 10 ^ 14 := by
  have h1 : k * 180 + m * 34 ≤ 214000034 := by omega
  have h2 : r / 5 * 5 + 5 ≤ 1000005 := by omega
  have h3 : (k * 180 + m * 34) * (r / 5 * 5 + 5) ≤ 214000034 * 1000005 := Nat.mul_le_mul h1 h2
  have h4 : (k * 180 + m * 34) * (r / 5 * 5 + 5) < M := by rw [M_val]; omega
  unfold feeOf
  rw [Nat.mod_eq_of_lt h4]
  exact ⟨rfl, by omega⟩

/-! ### the key order -/

theorem natsLt_irrefl (a : List Nat) : natsLt a a = false := by
  induction a with
  | nil => rfl
  | cons x xs ih => simp [natsLt, ih]

theorem natsLt_trichotomy (a b : List Nat) : natsLt a b = true ∨ a = b ∨ natsLt b a = true := by
  induction a generalizing b with
  | nil => cases b <;> simp [natsLt]
  | cons x xs ih =>
    cases b with
    | nil => simp [natsLt]
    | cons y ys =>
      simp only [natsLt, Bool.or_eq_true, decide_eq_true_eq, Bool.and_eq_true, beq_iff_eq, List.cons.injEq]
      rcases Nat.lt_trichotomy x y with h | h | h
      · left; left; exact h
      · subst h
        rcases ih ys with h' | h' | h'
        · left; right; exact ⟨rfl, h'⟩
        · right; left; exact ⟨rfl, h'⟩
        · right; right; right; exact ⟨rfl, h'⟩
      · right; right; left; exact h

theorem natsLt_asymm (a b : List Nat) (h : natsLt a b = true) : natsLt b a = false := by
  induction a generalizing b with
  | nil => cases b <;> simp_all [natsLt]
  | cons x xs ih =>
    cases b with
    | nil => simp [natsLt] at h
    | cons y ys =>
      simp only [natsLt, Bool.or_eq_true, decide_eq_true_eq, Bool.and_eq_true, beq_iff_eq] at h
      simp only [natsLt, Bool.or_eq_false_iff, decide_eq_false_iff_not, Bool.and_eq_false_imp, beq_iff_eq]
      rcases h with h | ⟨rfl, h⟩
      · exact ⟨by omega, fun he => by omega⟩
      · exact ⟨by omega, fun _ => ih ys h⟩

theorem natsLt_trans (a b c : List Nat) (h1 : natsLt a b = true) (h2 : natsLt b c = true) : natsLt a c = true := by
  induction a generalizing b c with
  | nil =>
    cases b with
    | nil => simp [natsLt] at h1
    | cons y ys => cases c <;> simp_all [natsLt]
  | cons x xs ih =>
    cases b with
    | nil => simp [natsLt] at h1
    | cons y ys =>
      cases c with
      | nil => simp [natsLt] at h2
      | cons z zs =>
        simp only [natsLt, Bool.or_eq_true, decide_eq_true_eq, Bool.and_eq_true, beq_iff_eq] at h1 h2 ⊢
        rcases h1 with h1 | ⟨rfl, h1⟩
        · rcases h2 with h2 | ⟨rfl, h2⟩
          · left; omega
          · left; exact h1
        · rcases h2 with h2 | ⟨rfl, h2⟩
          · left; exact h2
          · right; exact ⟨rfl, ih ys zs h1 h2⟩

theorem keyLe_total (a b : Utxo) : (keyLe a b || keyLe b a) = true := by
  simp only [keyLe, Bool.or_eq_true, decide_eq_true_eq, Bool.and_eq_true, beq_iff_eq]
  rcases Nat.lt_trichotomy a.btime b.btime with h | h | h
  · left; left; exact h
  · rcases natsLt_trichotomy a.txid b.txid with h' | h' | h'
    · left; right; exact ⟨h, Or.inl h'⟩
    · rcases Nat.le_total a.vout b.vout with hv | hv
      · left; right; exact ⟨h, Or.inr ⟨h', hv⟩⟩
      · right; right; exact ⟨h.symm, Or.inr ⟨h'.symm, hv⟩⟩
    · right; right; exact ⟨h.symm, Or.inl h'⟩
  · right; left; exact h

theorem keyLe_trans (a b c : Utxo) (h1 : keyLe a b = true) (h2 : keyLe b c = true) : keyLe a c = true := by
  simp only [keyLe, Bool.or_eq_true, decide_eq_true_eq, Bool.and_eq_true, beq_iff_eq] at h1 h2 ⊢
  rcases h1 with h1 | ⟨e1, h1⟩
  · rcases h2 with h2 | ⟨e2, _⟩
    · left; omega
    · left; omega
  · rcases h2 with h2 | ⟨e2, h2⟩
    · left; omega
    · right
      refine ⟨by omega, ?_⟩
      rcases h1 with h1 | ⟨t1, v1⟩
      · rcases h2 with h2 | ⟨t2, _⟩
        · left; exact natsLt_trans _ _ _ h1 h2
        · left; rw [← t2]; exact h1
      · rcases h2 with h2 | ⟨t2, v2⟩
        · left; rw [t1]; exact h2
        · right; exact ⟨t1.trans t2, by omega⟩

/-- two entries each allowed before the other agree on block time, txid and vout -/
theorem keyLe_antisymm_key (a b : Utxo) (h1 : keyLe a b = true) (h2 : keyLe b a = true) :
    a.btime = b.btime ∧ a.txid = b.txid ∧ a.vout = b.vout := by
  simp only [keyLe, Bool.or_eq_true, decide_eq_true_eq, Bool.and_eq_true, beq_iff_eq] at h1 h2
  rcases h1 with h1 | ⟨e1, h1⟩
  · rcases h2 with h2 | ⟨e2, _⟩ <;> omega
  · rcases h2 with h2 | ⟨_, h2⟩
    · omega
    · rcases h1 with h1 | ⟨t1, v1⟩
      · rcases h2 with h2 | ⟨t2, _⟩
        · have := natsLt_asymm _ _ h1; simp [this] at h2
        · rw [t2, natsLt_irrefl] at h1; simp at h1
      · rcases h2 with h2 | ⟨_, v2⟩
        · rw [t1, natsLt_irrefl] at h2; simp at h2
        · exact ⟨e1, t1, by omega⟩

/-- the per-proposal outputs of `fixedOuts`: same length, and position `k` pays proposal `k`'s exact amount to its script -/
theorem payOuts_spec (ps : List Prp) (po : List TxOut)
    (h : ps.mapM (fun p => p.script.map fun s => (⟨(p.amount : Int), s⟩ : TxOut)) = some po) :
    po.length = ps.length ∧
    ∀ (k : Nat) (p : Prp), ps[k]? = some p → ∃ s, p.script = some s ∧ po[k]? = some (⟨(p.amount : Int), s⟩ : TxOut) := by
  induction ps generalizing po with
  | nil =>
    simp only [List.mapM_nil, Option.pure_def, Option.some.injEq] at h; subst h
    simp
  | cons q qs ih =>
    simp only [List.mapM_cons] at h
    cases hs : q.script with
    | none => simp [hs] at h
    | some s =>
      cases hr : qs.mapM (fun p => p.script.map fun s => (⟨(p.amount : Int), s⟩ : TxOut)) with
      | none => simp [hs, hr] at h
      | some po' =>
        simp [hs, hr] at h
        subst h
        obtain ⟨h1, h2⟩ := ih po' hr
        refine ⟨by simp [h1], ?_⟩
        intro k p hk
        cases k with
        | zero =>
          simp only [List.getElem?_cons_zero, Option.some.injEq] at hk; subst hk
          exact ⟨s, hs, by simp⟩
        | succ k =>
          simp only [List.getElem?_cons_succ] at hk ⊢
          exact h2 k p hk

theorem payOuts_none_of_invalid (ps : List Prp) (p : Prp) (hp : p ∈ ps) (hs : p.script = none) :
    ps.mapM (fun p => p.script.map fun s => (⟨(p.amount : Int), s⟩ : TxOut)) = none := by
  induction ps with
  | nil => cases hp
  | cons q qs ih =>
    simp only [List.mapM_cons]
    rcases List.mem_cons.1 hp with rfl | hq
    · simp [hs]
    · rw [ih hq]; cases q.script <;> simp

end Sygma.C16
