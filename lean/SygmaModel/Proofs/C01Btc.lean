/-
  C01 helper lemmas: the Bitcoin OP_RETURN text `0x<hex>_<dst>` through `BtcDepositHandler.HandleDeposit`.
-/
import SygmaModel.Proofs.C01Base
namespace Sygma.C01

theorem splitBy_of_not_mem (sep : UInt8) (b : Bytes) (h : sep ∉ b) : splitBy sep b = [b] := by
  induction b with
  | nil => rfl
  | cons x xs ih =>
    have hx : x ≠ sep := fun e => h (by simp [e])
    have hxs : sep ∉ xs := fun e => h (by simp [e])
    simp [splitBy, hx, ih hxs]

theorem splitBy_app (sep : UInt8) (a b : Bytes) (h : sep ∉ a) :
    splitBy sep (a ++ sep :: b) = a :: splitBy sep b := by
  induction a with
  | nil => simp [splitBy]
  | cons x xs ih =>
    have hx : x ≠ sep := fun e => h (by simp [e])
    have hxs : sep ∉ xs := fun e => h (by simp [e])
    simp [splitBy, hx, ih hxs]

theorem hexDigit_facts : ∀ n, n < 16 → hexNib (Src.hexDigit n) = some n ∧ Src.hexDigit n ≠ 95 := by decide

theorem byte_facts : ∀ n, n < 256 → UInt8.ofNat (n / 16 * 16 + n % 16) = UInt8.ofNat n := by
  intro n _
  congr 1
  omega

theorem hexLenient_hexBytes (b : Bytes) : hexLenient (Src.hexBytes b) = b := by
  induction b with
  | nil => rfl
  | cons x xs ih =>
    have h1 := (hexDigit_facts (x.toNat / 16) (by have := x.toNat_lt; omega)).1
    have h2 := (hexDigit_facts (x.toNat % 16) (by omega)).1
    simp only [Src.hexBytes, hexLenient, h1, h2, ih]
    rw [byte_facts _ x.toNat_lt]
    simp

theorem hexBytes_length (b : Bytes) : (Src.hexBytes b).length = 2 * b.length := by
  induction b with
  | nil => rfl
  | cons x xs ih => simp [Src.hexBytes, ih]; omega

theorem hexBytes_no_sep (b : Bytes) : (95 : UInt8) ∉ Src.hexBytes b := by
  induction b with
  | nil => simp [Src.hexBytes]
  | cons x xs ih =>
    have h1 := (hexDigit_facts (x.toNat / 16) (by have := x.toNat_lt; omega)).2
    have h2 := (hexDigit_facts (x.toNat % 16) (by omega)).2
    simp only [Src.hexBytes, List.mem_cons, not_or]
    exact ⟨fun e => h1 e.symm, fun e => h2 e.symm, ih⟩

set_option maxRecDepth 10000 in
theorem dec3_facts : ∀ d, d < 256 → parseUint8 (Src.dec3 d) = some d ∧ (95 : UInt8) ∉ Src.dec3 d := by decide

theorem fromHexGo_text (addr : Bytes) : fromHexGo ([48, 120] ++ Src.hexBytes addr) = addr := by
  have : (Src.hexBytes addr).length % 2 = 0 := by rw [hexBytes_length]; omega
  show hexLenient (if (Src.hexBytes addr).length % 2 = 1 then 48 :: Src.hexBytes addr else Src.hexBytes addr) = addr
  rw [if_neg (by omega), hexLenient_hexBytes]

theorem bytesToAddress_20 (addr : Bytes) (h : addr.length = 20) : bytesToAddress addr = addr := by
  simp [bytesToAddress, h, leftPad]

theorem btc_src (src nonce : Nat) (rid : Bytes) (sat : Nat) (addr : Bytes) (dst : Nat)
    (ha : addr.length = 20) (hd : dst < 256) :
    btcDeposit src nonce rid sat (Src.btcText addr dst) =
      .ok ⟨⟨src, dst, nonce, rid⟩, .fungible, [.bytes (natToBE (sat * 10 ^ 10)), .bytes addr], none⟩ := by
  have hsplit : splitBy 95 (Src.btcText addr dst) = [[48, 120] ++ Src.hexBytes addr, Src.dec3 dst] := by
    have hpre : (95 : UInt8) ∉ ([48, 120] ++ Src.hexBytes addr : Bytes) := by
      simp only [List.mem_append, not_or]
      exact ⟨by decide, hexBytes_no_sep addr⟩
    have : Src.btcText addr dst = ([48, 120] ++ Src.hexBytes addr) ++ 95 :: Src.dec3 dst := by
      simp [Src.btcText]
    rw [this, splitBy_app _ _ _ hpre, splitBy_of_not_mem _ _ (dec3_facts dst hd).2]
  unfold btcDeposit
  rw [hsplit]
  simp only [(dec3_facts dst hd).1, fromHexGo_text, bytesToAddress_20 addr ha]

end Sygma.C01

namespace Sygma.C01

theorem hexStrict_spec : ∀ (s b : Bytes), Src.hexStrict s = some b → hexLenient s = b ∧ s.length = 2 * b.length
  | [], b, h => by simp [Src.hexStrict] at h; subst h; simp [hexLenient]
  | [_], b, h => by simp [Src.hexStrict] at h
  | a :: c :: rest, b, h => by
    unfold Src.hexStrict at h
    cases hx : hexNib a with
    | none => simp [hx] at h
    | some x =>
      cases hy : hexNib c with
      | none => simp [hx, hy] at h
      | some y =>
        cases hr : Src.hexStrict rest with
        | none => simp [hx, hy, hr] at h
        | some r =>
          simp only [hx, hy, hr, Option.some.injEq] at h
          obtain ⟨ih1, ih2⟩ := hexStrict_spec rest r hr
          subst h
          constructor
          · simp [hexLenient, hx, hy, ih1]
          · simp [ih2]; omega

theorem fromHexGo_strip (p0 addr : Bytes) (h : Src.hexStrict (strip0x p0) = some addr) : fromHexGo p0 = addr := by
  obtain ⟨h1, h2⟩ := hexStrict_spec _ _ h
  have hev : (strip0x p0).length % 2 = 0 := by omega
  have : fromHexGo p0 = hexLenient (if (strip0x p0).length % 2 = 1 then 48 :: strip0x p0 else strip0x p0) := rfl
  rw [this, if_neg (by omega), h1]

/-- every text the relation `parseBtcText` accepts is read by the handler as exactly that address and destination -/
theorem btc_src_text (src nonce : Nat) (rid : Bytes) (sat : Nat) (text addr : Bytes) (dst : Nat)
    (h : Src.parseBtcText text = some (addr, dst)) :
    btcDeposit src nonce rid sat text =
      .ok ⟨⟨src, dst, nonce, rid⟩, .fungible, [.bytes (natToBE (sat * 10 ^ 10)), .bytes addr], none⟩ := by
  unfold Src.parseBtcText at h
  split at h
  · next p0 p1 hsp =>
    cases hhx : Src.hexStrict (strip0x p0) with
    | none => simp [hhx] at h
    | some a =>
      simp only [hhx] at h
      split at h
      · next hc =>
        obtain ⟨hlen, hne, hall, hlt⟩ := hc
        simp only [Option.some.injEq, Prod.mk.injEq] at h
        obtain ⟨rfl, rfl⟩ := h
        have hp : parseUint8 p1 = some (decValue p1) := by
          unfold parseUint8
          rw [if_pos ⟨hne, hall, hlt⟩]
        unfold btcDeposit
        rw [hsp]
        simp only [hp, fromHexGo_strip p0 a hhx, bytesToAddress_20 a hlen]
      · cases h
  · cases h

end Sygma.C01
