/-
  C01 helper lemmas: what each source handler yields on the reference encoding of a well-formed deposit.
-/
import SygmaModel.Proofs.C01Base
namespace Sygma.C01

/-- the amount word that travels: the handler-reported one when present -/
def amountWord (amount : Nat) (resp : Bytes) : Bytes := if resp = [] then pad32 amount else resp.take 32

theorem amountWord_eq (amount : Nat) (resp : Bytes) (hr : RespWF resp) :
    amountWord amount resp = pad32 (effAmount amount resp) := by
  unfold amountWord effAmount
  split
  · rfl
  · next hne =>
    rcases hr with h | h
    · exact absurd h hne
    · rw [pad32_beToNat]; simp; omega

theorem amountWord_length (amount : Nat) (resp : Bytes) (ha : amount < 2 ^ 256) (hr : RespWF resp) :
    (amountWord amount resp).length = 32 := by
  rw [amountWord_eq _ _ hr]
  apply pad32_length
  unfold effAmount
  split
  · exact ha
  · have := beToNat_lt (resp.take 32)
    have hl : (resp.take 32).length ≤ 32 := by simp; omega
    calc beToNat (resp.take 32) < 256 ^ (resp.take 32).length := this
      _ ≤ 256 ^ 32 := Nat.pow_le_pow_right (by decide) hl
      _ = 2 ^ 256 := pow256_32

theorem fungible_length (d : Fungible) (ha : d.amount < 2 ^ 256) (hr : d.recipient.length < 2 ^ 63) :
    (Src.fungible d).length = 64 + d.recipient.length + (Src.optTail d.opt).length := by
  have h2 : d.recipient.length < 2 ^ 256 := by omega
  simp [Src.fungible, pad32_length _ ha, pad32_length _ h2]; omega

theorem fungible_min (d : Fungible) (h : d.WF) : 84 ≤ (Src.fungible d).length := by
  obtain ⟨ha, hrl, hopt⟩ := h
  rw [fungible_length d ha hrl]
  cases hd : d.opt with
  | none => rw [hd] at hopt; simp [Src.optTail]; omega
  | some x =>
    obtain ⟨fee, rest⟩ := x
    rw [hd] at hopt
    have hF : (pad32 fee).length = 32 := pad32_length _ (by omega)
    simp [Src.optTail, hF]; omega

theorem erc20_src (id : Ident) (d : Fungible) (resp : Bytes) (h : d.WF) (hr : RespWF resp) :
    erc20Deposit id (Src.fungible d) resp =
      .ok ⟨id, .fungible,
        match d.opt with
        | none => [.bytes (amountWord d.amount resp), .bytes d.recipient]
        | some (fee, rest) => [.bytes (amountWord d.amount resp), .bytes d.recipient, .bytes (pad32 (fee + 100000) ++ rest)],
        gasOfOpt d.opt⟩ := by
  have hlen := fungible_min d h
  obtain ⟨ha, hrl, hopt⟩ := h
  have h2 : d.recipient.length < 2 ^ 256 := by omega
  have hL := fungible_length d ha hrl
  have hA : (pad32 d.amount).length = 32 := pad32_length _ ha
  have hN : (pad32 d.recipient.length).length = 32 := pad32_length _ h2
  have e1 : (Src.fungible d).take 32 = pad32 d.amount := by
    simp only [Src.fungible, List.append_assoc]; exact take_app hA
  have e2 : (Src.fungible d).drop 32 = pad32 d.recipient.length ++ (d.recipient ++ Src.optTail d.opt) := by
    simp only [Src.fungible, List.append_assoc]; exact drop_app hA
  have e3 : (Src.fungible d).drop 64 = d.recipient ++ Src.optTail d.opt := by
    have : (Src.fungible d).drop 64 = ((Src.fungible d).drop 32).drop 32 := by simp
    rw [this, e2]; exact drop_app hN
  have e4 : (Src.fungible d).drop (64 + d.recipient.length) = Src.optTail d.opt := by
    have : (Src.fungible d).drop (64 + d.recipient.length) = ((Src.fungible d).drop 64).drop d.recipient.length := by
      simp [Nat.add_comm]
    rw [this, e3]; exact drop_app rfl
  have hamt : (if 0 < resp.length then resp.take 32 else (Src.fungible d).take 32) = amountWord d.amount resp := by
    unfold amountWord
    by_cases hre : resp = []
    · simp [hre, e1]
    · have : 0 < resp.length := List.length_pos_iff.2 hre
      simp [hre, this]
  have hresp : ¬ (0 < resp.length ∧ resp.length < 32) := by
    rcases hr with h | h
    · simp [h]
    · omega
  unfold erc20Deposit
  rw [if_neg (by omega), if_neg hresp]
  simp only [hamt, e2, take_app hN, int64Len_pad32 _ hrl]
  rw [slice_eq (by omega) (by omega)]
  simp only [e3, Nat.add_sub_cancel_left, take_app rfl]
  rw [hL]
  cases hd : d.opt with
  | none => simp [Src.optTail, gasOfOpt]
  | some x =>
    obtain ⟨fee, rest⟩ := x
    rw [hd] at hopt
    obtain ⟨hfee, hrest, _⟩ := hopt
    have hF : (pad32 fee).length = 32 := pad32_length _ (by omega)
    have hF' : (pad32 (fee + 100000)).length = 32 := pad32_length _ hfee
    have hrl' : 0 < rest.length := List.length_pos_iff.2 hrest
    have hcond : 96 + d.recipient.length < 64 + d.recipient.length + (Src.optTail (some (fee, rest))).length := by
      simp [Src.optTail, hF]; omega
    rw [if_pos hcond]
    have e5 : (Src.fungible d).drop (96 + d.recipient.length) = rest := by
      have : 96 + d.recipient.length = (64 + d.recipient.length) + 32 := by omega
      rw [this, ← List.drop_drop, e4, hd]; exact drop_app hF
    rw [e4, e5, hd]
    simp only [Src.optTail, take_app hF, beToNat_pad32, optionalRevertGas]
    have hw : (leftPad 32 (natToBE (fee + 100000))).take 32 = pad32 (fee + 100000) := by
      show (pad32 (fee + 100000)).take 32 = _
      rw [← hF']; simp
    rw [hw]
    simp [gasOfOpt]

end Sygma.C01

namespace Sygma.C01

theorem sub_src (id : Ident) (d : Fungible) (h : d.WF) :
    subDeposit id (Src.fungible d) 0 = .ok ⟨id, .fungible, [.bytes (pad32 d.amount), .bytes d.recipient], none⟩ := by
  have hlen := fungible_min d h
  obtain ⟨ha, hrl, _⟩ := h
  have h2 : d.recipient.length < 2 ^ 256 := by omega
  have hL := fungible_length d ha hrl
  have hA : (pad32 d.amount).length = 32 := pad32_length _ ha
  have hN : (pad32 d.recipient.length).length = 32 := pad32_length _ h2
  have e1 : (Src.fungible d).take 32 = pad32 d.amount := by
    simp only [Src.fungible, List.append_assoc]; exact take_app hA
  have e2 : (Src.fungible d).drop 32 = pad32 d.recipient.length ++ (d.recipient ++ Src.optTail d.opt) := by
    simp only [Src.fungible, List.append_assoc]; exact drop_app hA
  have e3 : (Src.fungible d).drop 64 = d.recipient ++ Src.optTail d.opt := by
    have : (Src.fungible d).drop 64 = ((Src.fungible d).drop 32).drop 32 := by simp
    rw [this, e2]; exact drop_app hN
  unfold subDeposit
  rw [if_neg (by simp), if_neg (by omega)]
  simp only [e1, e2, take_app hN, int64Len_pad32 _ hrl]
  rw [slice_eq (by omega) (by omega)]
  simp only [e3, Nat.add_sub_cancel_left, take_app rfl]

theorem nft_src (id : Ident) (token : Nat) (r md : Bytes) (h : NftWF token r md) :
    erc721Deposit id (Src.nft token r md) = .ok ⟨id, .nonFungible, [.bytes (pad32 token), .bytes r, .bytes md], none⟩ := by
  obtain ⟨ht, hr, hm⟩ := h
  have hT : (pad32 token).length = 32 := pad32_length _ ht
  have hN : (pad32 r.length).length = 32 := pad32_length _ (by omega)
  have hM : (pad32 md.length).length = 32 := pad32_length _ (by omega)
  have hL : (Src.nft token r md).length = 96 + r.length + md.length := by
    simp [Src.nft, hT, hN, hM]; omega
  have e1 : (Src.nft token r md).take 32 = pad32 token := by
    simp only [Src.nft, List.append_assoc]; exact take_app hT
  have e2 : (Src.nft token r md).drop 32 = pad32 r.length ++ (r ++ (pad32 md.length ++ md)) := by
    simp only [Src.nft, List.append_assoc]; exact drop_app hT
  have e3 : (Src.nft token r md).drop 64 = r ++ (pad32 md.length ++ md) := by
    have : (Src.nft token r md).drop 64 = ((Src.nft token r md).drop 32).drop 32 := by simp
    rw [this, e2]; exact drop_app hN
  have e4 : (Src.nft token r md).drop (64 + r.length) = pad32 md.length ++ md := by
    rw [← List.drop_drop, e3]; exact drop_app rfl
  have e5 : (Src.nft token r md).drop (96 + r.length) = md := by
    have : 96 + r.length = (64 + r.length) + 32 := by omega
    rw [this, ← List.drop_drop, e4]; exact drop_app hM
  unfold erc721Deposit
  rw [if_neg (by omega)]
  simp only [e1, e2, take_app hN, int64Len_pad32 _ hr]
  rw [slice_eq (by omega) (by omega), slice_eq (by omega) (by omega)]
  have hsub : 96 + r.length - (64 + r.length) = 32 := by omega
  simp only [e3, e4, Nat.add_sub_cancel_left, take_app rfl, hsub, take_app hM, beToNat_pad32]
  by_cases hz : md.length = 0
  · have : md = [] := List.length_eq_zero_iff.1 hz
    simp [this]
  · rw [if_neg hz, int64Len_pad32 _ hm]
    simp only []
    rw [slice_eq (by omega) (by omega)]
    simp [e5]

theorem beToNat_two (n : Nat) (h : n < 65536) :
    beToNat [UInt8.ofNat (n / 256), UInt8.ofNat (n % 256)] = n := by
  have h1 : n / 256 < 256 := by omega
  simp [beToNat, UInt8.toNat_ofNat', Nat.mod_eq_of_lt h1]; omega

theorem beToNat_one (n : Nat) (h : n < 256) : beToNat [UInt8.ofNat n] = n := by
  simp [beToNat, UInt8.toNat_ofNat', Nat.mod_eq_of_lt h]

theorem leftPad2 (n : Nat) (h : n < 65536) :
    leftPad 2 (natToBE n) = [UInt8.ofNat (n / 256), UInt8.ofNat (n % 256)] := by
  apply beToNat_inj
  · have := natToBE_length_le n 2 (by simpa using h)
    rw [leftPad_length]; simp; omega
  · rw [beToNat_leftPad, beToNat_natToBE, beToNat_two n h]

theorem generic_src (id : Ident) (fee : Nat) (fs ca dep ex : Bytes) (h : GenericWF fee fs ca dep ex) :
    genericDeposit id (Src.generic fee fs ca dep ex) =
      .ok ⟨id, .permissionlessGeneric, [.bytes fs, .bytes ca, .bytes (pad32 fee), .bytes dep, .bytes ex], some (fee % 2 ^ 64)⟩ := by
  obtain ⟨hf, hfs, hca, hdep, hlen⟩ := h
  have hF : (pad32 fee).length = 32 := pad32_length _ hf
  generalize hcd : Src.generic fee fs ca dep ex = cd
  have hL : cd.length = 36 + fs.length + ca.length + dep.length + ex.length := by
    rw [← hcd]; simp [Src.generic, hF]; omega
  have e1 : cd.take 32 = pad32 fee := by
    rw [← hcd]; simp only [Src.generic, List.append_assoc]; exact take_app hF
  have e2 : cd.drop 32 = [UInt8.ofNat (fs.length / 256), UInt8.ofNat (fs.length % 256)] ++ (fs ++ ([UInt8.ofNat ca.length] ++ (ca ++ ([UInt8.ofNat dep.length] ++ (dep ++ ex))))) := by
    rw [← hcd]; simp only [Src.generic, List.append_assoc]; exact drop_app hF
  have e3 : cd.drop 34 = fs ++ ([UInt8.ofNat ca.length] ++ (ca ++ ([UInt8.ofNat dep.length] ++ (dep ++ ex)))) := by
    have : cd.drop 34 = (cd.drop 32).drop 2 := by simp
    rw [this, e2]; exact drop_app rfl
  have e4 : cd.drop (34 + fs.length) = [UInt8.ofNat ca.length] ++ (ca ++ ([UInt8.ofNat dep.length] ++ (dep ++ ex))) := by
    rw [← List.drop_drop, e3]; exact drop_app rfl
  have e5 : cd.drop (34 + fs.length + 1) = ca ++ ([UInt8.ofNat dep.length] ++ (dep ++ ex)) := by
    rw [← List.drop_drop, e4]; exact drop_app rfl
  have e6 : cd.drop (34 + fs.length + 1 + ca.length) = [UInt8.ofNat dep.length] ++ (dep ++ ex) := by
    rw [← List.drop_drop, e5]; exact drop_app rfl
  have e7 : cd.drop (34 + fs.length + 1 + ca.length + 1) = dep ++ ex := by
    rw [← List.drop_drop, e6]; exact drop_app rfl
  have e8 : cd.drop (34 + fs.length + 1 + ca.length + 1 + dep.length) = ex := by
    rw [← List.drop_drop, e7]; exact drop_app rfl
  unfold genericDeposit
  rw [if_neg (by omega)]
  have t2 : (cd.drop 32).take 2 = [UInt8.ofNat (fs.length / 256), UInt8.ofNat (fs.length % 256)] := by
    rw [e2]; exact take_app rfl
  simp only [t2, beToNat_two _ hfs, e1]
  rw [slice_eq (by omega) (by omega), slice_eq (by omega) (by omega)]
  simp only [e3, e4, Nat.add_sub_cancel_left, take_app rfl]
  have t1 : ([UInt8.ofNat ca.length] ++ (ca ++ ([UInt8.ofNat dep.length] ++ (dep ++ ex)))).take 1 = [UInt8.ofNat ca.length] := take_app rfl
  simp only [t1, beToNat_one _ hca]
  rw [slice_eq (by omega) (by omega), slice_eq (by omega) (by omega)]
  simp only [e5, e6, Nat.add_sub_cancel_left, take_app rfl]
  have t1' : ([UInt8.ofNat dep.length] ++ (dep ++ ex)).take 1 = [UInt8.ofNat dep.length] := take_app rfl
  simp only [t1', beToNat_one _ hdep]
  rw [slice_eq (by omega) (by omega)]
  simp only [e7, e8, Nat.add_sub_cancel_left, take_app rfl, beToNat_pad32]

end Sygma.C01

namespace Sygma.C01

/-- ERC20 deposit data followed by a tail too short for an optional message (≤ 32 bytes): the tail is ignored -/
theorem erc20_src_tail (id : Ident) (d0 : Fungible) (t resp : Bytes) (h : ShortTailWF d0 t) (hr : RespWF resp) :
    erc20Deposit id (Src.fungible d0 ++ t) resp =
      .ok ⟨id, .fungible, [.bytes (amountWord d0.amount resp), .bytes d0.recipient], none⟩ := by
  obtain ⟨ha, hrl, ho, _, ht32, hmin⟩ := h
  have h2 : d0.recipient.length < 2 ^ 256 := by omega
  have hA : (pad32 d0.amount).length = 32 := pad32_length _ ha
  have hN : (pad32 d0.recipient.length).length = 32 := pad32_length _ h2
  generalize hcd : Src.fungible d0 ++ t = cd
  have hshape : cd = pad32 d0.amount ++ (pad32 d0.recipient.length ++ (d0.recipient ++ t)) := by
    rw [← hcd]; simp [Src.fungible, ho, Src.optTail]
  have hL : cd.length = 64 + d0.recipient.length + t.length := by
    rw [hshape]; simp [hA, hN]; omega
  have e1 : cd.take 32 = pad32 d0.amount := by rw [hshape]; exact take_app hA
  have e2 : cd.drop 32 = pad32 d0.recipient.length ++ (d0.recipient ++ t) := by rw [hshape]; exact drop_app hA
  have e3 : cd.drop 64 = d0.recipient ++ t := by
    have : cd.drop 64 = (cd.drop 32).drop 32 := by simp
    rw [this, e2]; exact drop_app hN
  have hamt : (if 0 < resp.length then resp.take 32 else cd.take 32) = amountWord d0.amount resp := by
    unfold amountWord
    by_cases hre : resp = []
    · simp [hre, e1]
    · have : 0 < resp.length := List.length_pos_iff.2 hre
      simp [hre, this]
  have hresp : ¬ (0 < resp.length ∧ resp.length < 32) := by
    rcases hr with h | h
    · simp [h]
    · omega
  unfold erc20Deposit
  rw [if_neg (by omega), if_neg hresp]
  simp only [hamt, e2, take_app hN, int64Len_pad32 _ hrl]
  rw [slice_eq (by omega) (by omega)]
  simp only [e3, Nat.add_sub_cancel_left, take_app rfl]
  rw [if_neg (by omega)]

end Sygma.C01

namespace Sygma.C01

/-- Substrate deposit data followed by any trailing bytes: the recipient is what the length word delimits -/
theorem sub_src_tail (id : Ident) (d0 : Fungible) (t : Bytes) (h : TailWF d0 t) :
    subDeposit id (Src.fungible d0 ++ t) 0 = .ok ⟨id, .fungible, [.bytes (pad32 d0.amount), .bytes d0.recipient], none⟩ := by
  obtain ⟨ha, hrl, ho, hmin⟩ := h
  have h2 : d0.recipient.length < 2 ^ 256 := by omega
  have hA : (pad32 d0.amount).length = 32 := pad32_length _ ha
  have hN : (pad32 d0.recipient.length).length = 32 := pad32_length _ h2
  generalize hcd : Src.fungible d0 ++ t = cd
  have hshape : cd = pad32 d0.amount ++ (pad32 d0.recipient.length ++ (d0.recipient ++ t)) := by
    rw [← hcd]; simp [Src.fungible, ho, Src.optTail]
  have hL : cd.length = 64 + d0.recipient.length + t.length := by
    rw [hshape]; simp [hA, hN]; omega
  have e1 : cd.take 32 = pad32 d0.amount := by rw [hshape]; exact take_app hA
  have e2 : cd.drop 32 = pad32 d0.recipient.length ++ (d0.recipient ++ t) := by rw [hshape]; exact drop_app hA
  have e3 : cd.drop 64 = d0.recipient ++ t := by
    have : cd.drop 64 = (cd.drop 32).drop 32 := by simp
    rw [this, e2]; exact drop_app hN
  unfold subDeposit
  rw [if_neg (by simp), if_neg (by omega)]
  simp only [e1, e2, take_app hN, int64Len_pad32 _ hrl]
  rw [slice_eq (by omega) (by omega)]
  simp only [e3, Nat.add_sub_cancel_left, take_app rfl]

/-- ERC721 deposit data followed by any trailing bytes -/
theorem nft_src_tail (id : Ident) (token : Nat) (r md t : Bytes) (h : NftWF token r md) :
    erc721Deposit id (Src.nft token r md ++ t) = .ok ⟨id, .nonFungible, [.bytes (pad32 token), .bytes r, .bytes md], none⟩ := by
  obtain ⟨ht, hr, hm⟩ := h
  have hT : (pad32 token).length = 32 := pad32_length _ ht
  have hN : (pad32 r.length).length = 32 := pad32_length _ (by omega)
  have hM : (pad32 md.length).length = 32 := pad32_length _ (by omega)
  generalize hcd : Src.nft token r md ++ t = cd
  have hshape : cd = pad32 token ++ (pad32 r.length ++ (r ++ (pad32 md.length ++ (md ++ t)))) := by
    rw [← hcd]; simp [Src.nft]
  have hL : cd.length = 96 + r.length + md.length + t.length := by
    rw [hshape]; simp [hT, hN, hM]; omega
  have e1 : cd.take 32 = pad32 token := by rw [hshape]; exact take_app hT
  have e2 : cd.drop 32 = pad32 r.length ++ (r ++ (pad32 md.length ++ (md ++ t))) := by rw [hshape]; exact drop_app hT
  have e3 : cd.drop 64 = r ++ (pad32 md.length ++ (md ++ t)) := by
    have : cd.drop 64 = (cd.drop 32).drop 32 := by simp
    rw [this, e2]; exact drop_app hN
  have e4 : cd.drop (64 + r.length) = pad32 md.length ++ (md ++ t) := by
    rw [← List.drop_drop, e3]; exact drop_app rfl
  have e5 : cd.drop (96 + r.length) = md ++ t := by
    have : 96 + r.length = (64 + r.length) + 32 := by omega
    rw [this, ← List.drop_drop, e4]; exact drop_app hM
  unfold erc721Deposit
  rw [if_neg (by omega)]
  simp only [e1, e2, take_app hN, int64Len_pad32 _ hr]
  rw [slice_eq (by omega) (by omega), slice_eq (by omega) (by omega)]
  have hsub : 96 + r.length - (64 + r.length) = 32 := by omega
  simp only [e3, e4, Nat.add_sub_cancel_left, take_app rfl, hsub, take_app hM, beToNat_pad32]
  by_cases hz : md.length = 0
  · have : md = [] := List.length_eq_zero_iff.1 hz
    simp [this]
  · rw [if_neg hz, int64Len_pad32 _ hm]
    simp only []
    rw [slice_eq (by omega) (by omega)]
    simp only [e5, Nat.add_sub_cancel_left, take_app rfl]

end Sygma.C01
