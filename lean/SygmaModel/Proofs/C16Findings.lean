/-
  C16 — the code AS FOUND (before fix: commits 9005b49 and 93e8971 in the repository), with witnesses that it violates P16.
  Kept so that the repaired defects stay documented as theorems; the same inputs are corpus lines run on the real code.
-/
import SygmaModel.Model.C16
namespace Sygma.C16.AsFound

/-- `rawTx` as found: only `inputAmount < outputAmount` is tested before the unsigned subtraction -/
def rawTx (i : Inp) : Option Tx :=
  match propOuts i.props, i.cid.bind nullData with
  | some pouts, some nd =>
    let n := i.props.length
    let outAmt := sumAmounts i.props % M
    match i.rate1, i.utxos with
    | some r1, some us =>
      match select ((outAmt + feeOf r1 n n) % M) us 0 with
      | none => none
      | some (inAmt, used) =>
        if inAmt < outAmt then none
        else match i.rate2 with
          | none => none
          | some r2 =>
            let fee := feeOf r2 used.length (n + 1)
            let ret := (inAmt + 2 * M - fee - outAmt) % M
            let change := if ret > 0 then [⟨toInt64 ret, i.bridge⟩] else []
            some ⟨used, pouts ++ [⟨0, nd⟩] ++ change⟩
    | _, _ => none
  | _, _ => none

/-- one 10 000-sat proposal, fee quote 1 240, a single 10 000-sat UTXO: within all bounds, and the transaction built carries
    a change output of −1 240 satoshi -/
theorem negative_change_witness :
    let i : Inp := ⟨some 1, some 1, some [], [0x51], [⟨10000, some [0]⟩], some [⟨[97], 0, 10000, 1000, true⟩]⟩
    WF i ∧ (rawTx i).map (·.outs.map (·.value)) = some [10000, 0, -1240] ∧ ¬ P16 i (rawTx i) := by
  refine ⟨by decide, by decide, by decide⟩

/-- sufficient funds do not help: selection stops at amount + estimate(1 input), three inputs cost more -/
theorem negative_change_with_sufficient_funds :
    let i : Inp := ⟨some 1, some 1, some [], [0x51], [⟨10000, some [0]⟩],
      some [⟨[97], 0, 5000, 1000, true⟩, ⟨[97], 1, 5000, 1000, true⟩, ⟨[98], 0, 1100, 1001, true⟩, ⟨[98], 1, 50000, 1002, true⟩]⟩
    WF i ∧ ¬ P16 i (rawTx i) := by
  refine ⟨by decide, by decide⟩

/-- `rawTx` as found before the amount cap (fix dd1410a): both sufficiency tests, but the proposal amounts are summed in
    uint64 and cast to int64 unchecked -/
def rawTxNoCap (i : Inp) : Option Tx :=
  match propOuts i.props, i.cid.bind nullData with
  | some pouts, some nd =>
    let n := i.props.length
    let outAmt := sumAmounts i.props % M
    match i.rate1, i.utxos with
    | some r1, some us =>
      match select ((outAmt + feeOf r1 n n) % M) us 0 with
      | none => none
      | some (inAmt, used) =>
        if inAmt < outAmt then none
        else match i.rate2 with
          | none => none
          | some r2 =>
            let fee := feeOf r2 used.length (n + 1)
            if inAmt < (outAmt + fee) % M then none
            else
              let ret := (inAmt + 2 * M - fee - outAmt) % M
              let change := if ret > 0 then [⟨toInt64 ret, i.bridge⟩] else []
              some ⟨used, pouts ++ [⟨0, nd⟩] ++ change⟩
    | _, _ => none
  | _, _ => none

/-- a batch of 2^64−1 and 2 satoshi (sum wraps to 1) against one 50 000-sat UTXO: a transaction whose first payment output
    is −1 satoshi; likewise twice 2^63 -/
theorem negative_payment_witness :
    let i (a b : Nat) : Inp := ⟨some 1, some 1, some [], [0x51], [⟨a, some [0]⟩, ⟨b, some [1]⟩], some [⟨[97], 0, 50000, 1000, true⟩]⟩
    (rawTxNoCap (i (2 ^ 64 - 1) 2)).map (·.outs.map (·.value)) = some [-1, 2, 0, 48589] ∧
    (rawTxNoCap (i (2 ^ 63) (2 ^ 63))).map (·.outs.map (·.value)) = some [-(2 ^ 63 : Int), -(2 ^ 63 : Int), 0, 48590] ∧
    ¬ P16 (i (2 ^ 64 - 1) 2) (rawTxNoCap (i (2 ^ 64 - 1) 2)) := by
  refine ⟨by decide, by decide, by decide⟩

end Sygma.C16.AsFound
