/-
  C15 — helper lemmas about the model (core Lean only): the decoding loop computes the declarative sums,
  `strings.Split` on one byte vs. takeWhile/dropWhile.
-/
import SygmaModel.Model.C15
namespace Sygma.C15

theorem taprootSum_cons (b : Nat) (v : Vout) (vs : List Vout) :
    taprootSum b (v :: vs) = (if v.addr = b ∧ v.ty = .taproot then v.sats else 0) + taprootSum b vs := by
  unfold taprootSum
  by_cases h : v.addr = b ∧ v.ty = .taproot <;> simp [h]

theorem feeSum_cons (f : Nat) (v : Vout) (vs : List Vout) :
    feeSum f (v :: vs) = (if v.addr = f then v.sats else 0) + feeSum f vs := by
  unfold feeSum
  by_cases h : v.addr = f <;> simp [h]

theorem paysBridge_cons (b : Nat) (v : Vout) (vs : List Vout) :
    paysBridge b (v :: vs) = (decide (v.addr = b) || paysBridge b vs) := by
  simp [paysBridge]

/-- a well-formed output never aborts, and updates the four accumulators as the declarative sums prescribe -/
theorem step_wf (b f : Nat) (s : St) (v : Vout) (h : wellFormed v = true) :
    step b f s v = .ok
      ⟨s.amount + (if v.addr = b ∧ v.ty = .taproot then v.sats else 0),
       s.fee + (if v.addr = f then v.sats else 0),
       s.bridge || decide (v.addr = b),
       if v.ty = .nulldata then (v.hex.getD []).drop 2 else s.data⟩ := by
  unfold step
  by_cases hn : v.ty = .nulldata
  · -- OP_RETURN output: hex decodes to at least two bytes
    simp only [wellFormed, hn, ne_eq, not_true_eq_false, decide_false, Bool.false_or] at h
    cases hx : v.hex with
    | none => simp [hx] at h
    | some hb =>
      simp only [hx, decide_eq_true_eq] at h
      have hlt : ¬ hb.length < 2 := by omega
      simp only [hn, ↓reduceIte, hlt, Option.getD_some]
      have ht : ¬ (VType.nulldata = VType.taproot) := by decide
      by_cases hb' : v.addr = b
      · subst hb'
        by_cases hf : v.addr = f
        · subst hf; simp [ht]
        · simp [hf, ht]
      · by_cases hf : v.addr = f
        · subst hf; simp [hb', ht]
        · simp [hb', hf, ht]
  · simp only [hn, ↓reduceIte]
    by_cases ht : v.ty = .taproot <;>
    (by_cases hb' : v.addr = b
     · subst hb'
       by_cases hf : v.addr = f
       · subst hf; simp [ht]
       · simp [hf, ht]
     · by_cases hf : v.addr = f
       · subst hf; simp [hb', ht]
       · simp [hb', hf, ht])

/-- an ill-formed output aborts with `err` or `panic` -/
theorem step_illformed (b f : Nat) (s : St) (v : Vout) (h : wellFormed v = false) :
    step b f s v = .error .err ∨ step b f s v = .error .panic := by
  unfold step
  have hn : v.ty = .nulldata := by
    by_cases hn : v.ty = .nulldata
    · exact hn
    · simp [wellFormed, hn] at h
  simp only [wellFormed, hn, ne_eq, not_true_eq_false, decide_false, Bool.false_or] at h
  cases hx : v.hex with
  | none => left; simp [hn]
  | some hb =>
    simp only [hx, decide_eq_false_iff_not] at h
    have : hb.length < 2 := by omega
    right; simp [hn, this]

/-- the loop over well-formed outputs computes the declarative sums -/
theorem run_wf (b f : Nat) (vs : List Vout) (s : St) (h : WF vs = true) :
    run b f s vs = .ok ⟨s.amount + taprootSum b vs, s.fee + feeSum f vs, s.bridge || paysBridge b vs, dataFrom s.data vs⟩ := by
  induction vs generalizing s with
  | nil => simp [run, taprootSum, feeSum, paysBridge, dataFrom]
  | cons v vs ih =>
    simp only [WF, List.all_cons, Bool.and_eq_true] at h
    have ih' := fun s => ih s (by simpa [WF] using h.2)
    simp only [run, step_wf b f s v h.1, ih']
    simp only [taprootSum_cons, feeSum_cons, paysBridge_cons, dataFrom, List.foldl_cons]
    congr 2 <;> first | omega | simp [Bool.or_assoc]

/-- a transaction with an ill-formed OP_RETURN output aborts -/
theorem run_illformed (b f : Nat) (vs : List Vout) (s : St) (h : WF vs = false) :
    run b f s vs = .error .err ∨ run b f s vs = .error .panic := by
  induction vs generalizing s with
  | nil => simp [WF] at h
  | cons v vs ih =>
    by_cases hv : wellFormed v = true
    · have hrest : WF vs = false := by
        simp only [WF, List.all_cons, hv, Bool.true_and] at h; simpa [WF] using h
      simp only [run, step_wf b f s v hv]
      exact ih _ hrest
    · have hv' : wellFormed v = false := by simpa using hv
      rcases step_illformed b f s v hv' with h1 | h1 <;> simp [run, h1]

/-! ### `strings.Split` on one byte -/

theorem splitOn_ne_nil (sep : UInt8) (l : Bytes) : splitOn sep l ≠ [] := by
  cases l with
  | nil => simp [splitOn]
  | cons x xs =>
    unfold splitOn
    split
    · simp
    · split <;> simp

/-- first field = bytes before the first separator; remaining fields = split of what follows it (none if there is no separator) -/
theorem splitOn_spec (sep : UInt8) (l : Bytes) :
    splitOn sep l = l.takeWhile (· ≠ sep) ::
      (if l.any (· = sep) then splitOn sep ((l.dropWhile (· ≠ sep)).drop 1) else []) := by
  induction l with
  | nil => simp [splitOn]
  | cons x xs ih =>
    by_cases hx : x = sep
    · subst hx; simp [splitOn]
    · have hx' : (x != sep) = true := by simpa using hx
      rw [splitOn]
      simp only [hx, ↓reduceIte]
      rw [ih]
      simp [hx]

theorem splitOn_head (sep : UInt8) (l : Bytes) : ∃ rest, splitOn sep l = l.takeWhile (· ≠ sep) :: rest :=
  ⟨_, splitOn_spec sep l⟩

end Sygma.C15
