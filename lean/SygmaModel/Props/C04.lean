/-
  C04 — only sufficiently confirmed source events are relayed (DESIGN.md 5.4).

  What is proved, for ALL heads, blocks, confirmation depths, intervals, handler counts and ALL environment
  traces (head histories — monotone or not —, RPC failures, handler failures, store failures):
    * guard level: whenever a scan loop's guard lets a range through, its LAST block is confirmed
      (`ready_confirmed`); whenever the last block is one confirmation deeper than required the guard lets
      it through (`deep_ready`); exact characterisations `btc_ready_iff`, `evm_ready_iff`, `sub_ready_iff`;
    * loop level: in every round of every run, every handler call is on a block confirmed w.r.t. the head
      observed in that round (`every_call_confirmed`), and a range that is deep enough is handed to the first
      handler in the same round, no extra waiting (`run_traceOk`, which is the predicate the driver evaluates
      on the real listeners' output);
    * the five retry paths: guard passes ⇒ confirmed (`retry_confirmed`, `subRetryMsg_confirmed`,
      `subRetryEvent_confirmed`, with exact iff forms).
  Assumed / not modelled: the int64/uint32 conversions of heights (identity on real heights); that a "round"
  of the model is one iteration of the Go loop (tied by running the real listeners on scripted chains);
  the guard expressions themselves are re-extracted from the source on every run (Oblig/C04.lean).
-/
import SygmaModel.Model.C04
namespace Sygma.C04

section Helpers

theorem callsUpTo_mem (cfg : Cfg) (c : Int) (n : Nat) (x : Call) (h : x ∈ callsUpTo cfg c n) :
    x.s = c ∧ x.e = cfg.last c := by
  unfold callsUpTo at h
  rcases List.mem_map.1 h with ⟨i, _, rfl⟩
  exact ⟨rfl, rfl⟩

theorem callsUpTo_head (cfg : Cfg) (c : Int) (n : Nat) (hn : 0 < n) :
    (callsUpTo cfg c n).head? = some ⟨0, c, cfg.last c⟩ := by
  cases n with
  | zero => omega
  | succ n => simp [callsUpTo, List.range_succ_eq_map]

end Helpers

section Property

/-- **guard ⇒ confirmed.** If the loop's guard lets the range starting at `c` through, the last block of the
    range is buried under ≥ `conf` confirmations (Substrate: not above the finalized head). -/
theorem ready_confirmed (cfg : Cfg) (h c : Int) (hr : ready cfg h c = true) : confirmed cfg h (cfg.last c) := by
  unfold ready at hr; unfold confirmed Cfg.last Cfg.stride
  cases hk : cfg.kind <;> simp [hk] at hr ⊢ <;> omega

/-- **no further waiting.** One confirmation more than required on the last block of the range ⇒ the guard passes. -/
theorem deep_ready (cfg : Cfg) (h c : Int) (hd : deep cfg h (cfg.last c)) : ready cfg h c = true := by
  unfold deep Cfg.last Cfg.stride at hd; unfold ready
  cases hk : cfg.kind <;> simp [hk] at hd ⊢ <;> omega

/-- BTC: the guard is exactly "the block has `conf` confirmations" -/
theorem btc_ready_iff (cfg : Cfg) (hk : cfg.kind = .btc) (h c : Int) :
    ready cfg h c = true ↔ cfg.conf ≤ h - c := by
  unfold ready; simp [hk]

/-- EVM (sygma-core): the guard is exactly "the last block of the range has `conf + 1` confirmations" -/
theorem evm_ready_iff (cfg : Cfg) (hk : cfg.kind = .evm) (h c : Int) :
    ready cfg h c = true ↔ cfg.conf + 1 ≤ h - cfg.last c := by
  unfold ready Cfg.last Cfg.stride; simp [hk]; omega

/-- Substrate (sygma-core): the guard is exactly "the last block of the range is below the finalized head" -/
theorem sub_ready_iff (cfg : Cfg) (hk : cfg.kind = .sub) (h c : Int) :
    ready cfg h c = true ↔ cfg.last c + 1 ≤ h := by
  unfold ready Cfg.last Cfg.stride; simp [hk]

/-- the three shapes of an iteration that read head `h` -/
theorem stepAt_cases (cfg : Cfg) (h c : Int) (r : Round) :
    (ready cfg h c = true ∧ completes cfg r = true ∧
      stepAt cfg h c r = (some (c + cfg.stride), ⟨some h, callsUpTo cfg c cfg.nh, some (cfg.storeVal c, r.storeOk)⟩)) ∨
    (ready cfg h c = true ∧ 0 < nCalls cfg r ∧
      stepAt cfg h c r = (some c, ⟨some h, callsUpTo cfg c (nCalls cfg r), none⟩)) ∨
    (ready cfg h c = false ∧ stepAt cfg h c r = (some c, ⟨some h, [], none⟩)) := by
  unfold stepAt
  cases hr : ready cfg h c with
  | false => simp
  | true =>
    cases hc : completes cfg r with
    | true => simp
    | false =>
      right; left
      refine ⟨rfl, ?_, by simp⟩
      unfold completes at hc; unfold nCalls
      cases hf : r.fail with
      | none => simp [hf] at hc
      | some i => simp [hf] at hc; simp [hc]

/-- every handler call of one loop iteration is on a confirmed block -/
theorem step_safe (cfg : Cfg) (cur : Option Int) (r : Round) : roundSafeB cfg (step cfg cur r).2 = true := by
  unfold step
  cases hh : r.head with
  | none => simp [roundSafeB]
  | some h =>
    simp only
    have key : ∀ n, ready cfg h (curAt cur h) = true →
        roundSafeB cfg ⟨some h, callsUpTo cfg (curAt cur h) n, none⟩ = true ∧
        ∀ st, roundSafeB cfg ⟨some h, callsUpTo cfg (curAt cur h) n, st⟩ = true := by
      intro n hr
      have hc := ready_confirmed cfg h _ hr
      have : ∀ st, roundSafeB cfg ⟨some h, callsUpTo cfg (curAt cur h) n, st⟩ = true := by
        intro st
        simp only [roundSafeB, List.all_eq_true]
        intro x hx
        rw [(callsUpTo_mem cfg _ _ x hx).2]; simpa using hc
      exact ⟨this _, this⟩
    rcases stepAt_cases cfg h (curAt cur h) r with ⟨hr, _, he⟩ | ⟨hr, _, he⟩ | ⟨_, he⟩
    · rw [he]; exact (key _ hr).2 _
    · rw [he]; exact (key _ hr).1
    · rw [he]; simp [roundSafeB]

/-- a range that is deep enough is handed to handler 0 in the same round -/
theorem step_prompt (cfg : Cfg) (cur : Option Int) (r : Round) : roundPromptB cfg cur (step cfg cur r).2 = true := by
  unfold step
  cases hh : r.head with
  | none => simp [roundPromptB]
  | some h =>
    simp only
    rcases stepAt_cases cfg h (curAt cur h) r with ⟨_, _, he⟩ | ⟨_, hn, he⟩ | ⟨hr, he⟩
    · rw [he]; simp only [roundPromptB]
      split
      · next hd => simp [callsUpTo_head cfg _ cfg.nh hd.2]
      · rfl
    · rw [he]; simp only [roundPromptB]
      split
      · simp [callsUpTo_head cfg _ _ hn]
      · rfl
    · rw [he]; simp only [roundPromptB]
      split
      · next hd =>
        have := deep_ready cfg h _ (by simpa using hd.1)
        rw [hr] at this; cases this
      · rfl

/-- the cursor reconstructed from the observation is the loop's cursor -/
theorem step_advance (cfg : Cfg) (cur : Option Int) (r : Round) :
    advance cfg cur (step cfg cur r).2 = (step cfg cur r).1 := by
  unfold step
  cases hh : r.head with
  | none => simp [advance]
  | some h =>
    simp only
    rcases stepAt_cases cfg h (curAt cur h) r with ⟨_, _, he⟩ | ⟨_, _, he⟩ | ⟨_, he⟩ <;> rw [he] <;> simp [advance]

/-- the observation carries the head that was scripted -/
theorem step_head (cfg : Cfg) (cur : Option Int) (r : Round) : (step cfg cur r).2.head = r.head := by
  unfold step
  cases hh : r.head with
  | none => rfl
  | some h =>
    simp only
    rcases stepAt_cases cfg h (curAt cur h) r with ⟨_, _, he⟩ | ⟨_, _, he⟩ | ⟨_, he⟩ <;> rw [he]

/-- **C04 (loop level, the driver's predicate).** For every configuration, start (incl. the nil start) and
    environment trace, the run of the scan loop satisfies `traceOk`: every handler call is on a confirmed
    block w.r.t. the head of its round, and deep-enough ranges are processed without further waiting. -/
theorem run_traceOk (cfg : Cfg) (cur : Option Int) (rs : List Round) :
    traceOk cfg cur rs (run cfg cur rs) = true := by
  induction rs generalizing cur with
  | nil => simp [run, traceOk]
  | cons r rs ih =>
    simp only [run, traceOk, Bool.and_eq_true]
    refine ⟨⟨⟨?_, step_safe cfg cur r⟩, step_prompt cfg cur r⟩, ?_⟩
    · rw [step_head]; simp
    · rw [step_advance]; exact ih _

/-- **C04 (loop level, stated directly).** In every run, every handler invocation `HandleEvents(s, e)` happens
    in a round whose observed head `h` satisfies `h − e ≥ conf` (Substrate: `e ≤ finalized`). -/
theorem every_call_confirmed (cfg : Cfg) (cur : Option Int) (rs : List Round) :
    ∀ o ∈ run cfg cur rs, roundSafe cfg o := by
  induction rs generalizing cur with
  | nil => intro o ho; simp [run] at ho
  | cons r rs ih =>
    intro o ho
    simp only [run, List.mem_cons] at ho
    rcases ho with rfl | ho
    · intro c hc
      have hs := step_safe cfg cur r
      unfold roundSafeB at hs
      have := (List.all_eq_true.1 hs) c hc
      cases hh : (step cfg cur r).2.head with
      | none => simp [hh] at this
      | some h => exact ⟨h, rfl, by simpa [hh] using this⟩
    · exact ih _ o ho

/-- confirmation is downward closed in the block: everything below a confirmed block is confirmed -/
theorem confirmed_mono (cfg : Cfg) (h b b' : Int) (hb : b' ≤ b) (hc : confirmed cfg h b) : confirmed cfg h b' := by
  unfold confirmed at hc ⊢
  cases hk : cfg.kind <;> simp [hk] at hc ⊢ <;> omega

/-- **every block of a handled range is confirmed**, not only its last one. For an interval `k ≤ 0` (EVM/Substrate;
    rejected by the chain configs, property C20) the range `[c, last c]` is empty or inverted and this says nothing —
    `range_nonempty` is the companion for `k ≥ 1`. -/
theorem range_confirmed (cfg : Cfg) (h c : Int) (hr : ready cfg h c = true) :
    ∀ b, c ≤ b → b ≤ cfg.last c → confirmed cfg h b :=
  fun b _ hb => confirmed_mono cfg h _ b hb (ready_confirmed cfg h c hr)

theorem range_nonempty (cfg : Cfg) (hk : 0 < cfg.stride) (c : Int) : c ≤ cfg.last c := by
  unfold Cfg.last; omega

/-- loop level: every block of every range handed to a handler is confirmed w.r.t. the head read in that round -/
theorem every_block_confirmed (cfg : Cfg) (cur : Option Int) (rs : List Round) :
    ∀ o ∈ run cfg cur rs, ∀ c ∈ o.calls, ∀ b, b ≤ c.e → ∃ h, o.head = some h ∧ confirmed cfg h b := by
  intro o ho c hc b hb
  obtain ⟨h, hh, hconf⟩ := every_call_confirmed cfg cur rs o ho c hc
  exact ⟨h, hh, confirmed_mono cfg h _ b hb hconf⟩

/-- **sequences on shared objects.** Whatever retries (by height, by transaction) and scan iterations are handled, in
    whatever order, by the objects that share the confirmations value, every one of them is judged with the ORIGINAL
    value: in the model no step writes the shared state (a frame property, immediate by induction — the substance is
    that the real handlers behave like this machine, which the `seq` and `retrypair` ops check). -/
theorem seqRun_original_conf (kind : Kind) (k conf : Int) (xs : List SeqStep) :
    seqRun kind k ⟨conf⟩ xs = xs.map (seqGuard kind k conf) := by
  induction xs with
  | nil => rfl
  | cons x xs ih =>
    have hst : (seqStep kind k ⟨conf⟩ x).1 = ⟨conf⟩ := by cases x <;> rfl
    have hout : (seqStep kind k ⟨conf⟩ x).2 = seqGuard kind k conf x := by cases x <;> rfl
    simp only [seqRun, List.map_cons, hst, hout, ih]

/-- retry by tx hash (EVM) and retry by height (EVM, BTC): the guard implies `conf` confirmations
    (in fact `conf + 1`: `retry_ready_iff`) -/
theorem retry_confirmed (latest h conf : Int) (hr : retryReady latest h conf = true) : conf ≤ latest - h := by
  unfold retryReady at hr; simp at hr; omega

/-- … hence every accepted retry of a sequence is confirmed w.r.t. the configured confirmations -/
theorem seqRun_retry_confirmed (kind : Kind) (k conf : Int) (xs : List SeqStep) (i : Nat) (l h : Int)
    (hx : xs[i]? = some (.retry l h)) (hacc : (seqRun kind k ⟨conf⟩ xs)[i]? = some true) : conf ≤ l - h := by
  rw [seqRun_original_conf] at hacc
  simp only [List.getElem?_map, hx, Option.map_some, Option.some.injEq] at hacc
  exact retry_confirmed l h conf hacc

theorem retry_ready_iff (latest h conf : Int) : retryReady latest h conf = true ↔ conf + 1 ≤ latest - h := by
  unfold retryReady; simp; omega

/-- Substrate retry by height: passes only for a block strictly below the finalized head -/
theorem subRetryMsg_confirmed (fin h : Int) (hr : subRetryMsgReady fin h = true) : h ≤ fin := by
  unfold subRetryMsgReady at hr; simp at hr; omega

theorem subRetryMsg_ready_iff (fin h : Int) : subRetryMsgReady fin h = true ↔ h + 1 ≤ fin := by
  unfold subRetryMsgReady; simp; omega

/-- Substrate retry event: processed exactly when the deposit block is not above the finalized head -/
theorem subRetryEvent_confirmed (fin h : Int) : subRetryEventReady fin h = true ↔ h ≤ fin := by
  unfold subRetryEventReady; simp

/-- non-vacuity: a BTC run with a non-monotone head history, a nil start, a handler failure and a store failure;
    block 5 is handled only once the head reaches 7 (conf 2), re-handled after handler 1 failed, then block 6 waits -/
example :
    run ⟨.btc, 1, 2, 2⟩ none [⟨some 5, none, true⟩, ⟨some 6, none, true⟩, ⟨none, none, true⟩, ⟨some 7, some 1, true⟩,
      ⟨some 4, none, true⟩, ⟨some 7, none, false⟩, ⟨some 7, none, true⟩]
    = [⟨some 5, [], none⟩, ⟨some 6, [], none⟩, ⟨none, [], none⟩, ⟨some 7, [⟨0, 5, 5⟩, ⟨1, 5, 5⟩], none⟩,
       ⟨some 4, [], none⟩, ⟨some 7, [⟨0, 5, 5⟩, ⟨1, 5, 5⟩], some (5, false)⟩, ⟨some 7, [], none⟩] := by decide

/-- non-vacuity: EVM, interval 5, conf 2: range [10,14] waits at head 16 (only 2 confirmations on block 14)
    and goes through at head 17 -/
example :
    run ⟨.evm, 5, 2, 1⟩ (some 10) [⟨some 16, none, true⟩, ⟨some 17, none, true⟩]
    = [⟨some 16, [], none⟩, ⟨some 17, [⟨0, 10, 14⟩], some (15, true)⟩] := by decide

example : retryReady 13 10 2 = true ∧ retryReady 12 10 2 = false ∧ subRetryMsgReady 10 10 = false ∧
    subRetryEventReady 10 10 = true ∧ subRetryEventReady 9 10 = false := by decide

end Property
end Sygma.C04
