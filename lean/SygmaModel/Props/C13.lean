/-
  C13 — only topology members are admitted, and only an announced topology is adopted.

  WHAT IS MODELLED (Model/C13.lean): the five `ConnectionGater` hooks over `IsAllowedPeer`; `ProcessMessagesFromStream`
  (decode each line, overwrite `From` with the connection's remote peer, stop at the first undecodable line);
  `TopologyProvider.NetworkTopology` (trim one "\n", hex-decode, SHA-256 vs announced hash, `Decrypt`'s 16-byte precondition,
  parse, threshold ≥ 1), `RefreshEventHandler.HandleEvents` (listener error, no event, LAST event's hash, empty hash refused,
  provider, store, `SetTopology`, `LoadPeers`), sequences of such calls.
  WHAT IS PROVED, for ALL hash functions, decrypters and parsers (`Env` is universally quantified), all states, all events:
    * `gate_membership` (DEFINITIONAL), `conn_only_members`   a connection in either direction passes the gater iff the peer is in the topology;
    * `attribution` (DEFINITIONAL), `stream_attribution`, `stream_no_invention`   every delivered message carries the authenticated remote peer
                                  as sender, whatever the payload; delivered contents are decodings of received lines;
    * `refresh_eq` (relates two hand-written definitions by case analysis), `refresh_ok`, `refresh_adopts_only_announced`, `refresh_panic_unchanged`   the state changes only by adopting
                                  the topology whose ciphertext hashes to the (non-empty) hash of the last announced event and
                                  which decrypts/parses with threshold ≥ 1 and could be stored; otherwise nothing changes;
    * `run_last_accepted`, `run_in_announced`, `consistent_run`, `admission_after_run`, `admission_is_gate`   over any sequence of refresh calls the state is that of the
                                  last accepted one, the admission list and the dial targets are exactly the stored topology's peers.
    * `interleaved_components_announced`, `admission_interleaved`, `run_is_sequential_writes`, `refresh_is_writes`   one handler exists per
                                  EVM chain, sharing store, gate and host: for EVERY interleaving of the three writes of any number of
                                  calls each component is initial or announced, admitted peers belong to the initial or an announced
                                  topology; agreement of the three components (`Consistent`) is a SEQUENTIAL-history theorem only — an
                                  `example` (replayed on two real handlers, op `refresh2`) shows an interleaving that loses it;
    * `bootstrap_consistent`      the start-up hypothesis `Consistent` of the sequential theorems holds for the modelled start-up.
  ASSUMED / NOT PROVED: the Go memory model (the gate's topology pointer is written and read without a lock; each write is
  treated as atomic); libp2p consults `InterceptSecured` for every connection and `Conn().RemotePeer()` is the
  noise-authenticated peer (exercised with two real hosts in the thorough tier); `json:"-"` keeps `encoding/json` from
  populating `From` (exercised with smuggling payloads on the real code); the Lean SHA-256 equals Go's (validated on every run);
  AES-CTR and the JSON/multiaddr/ParseInt parser are parameters (their results are fed to the model by the harness from the real
  functions); a write error AFTER the topology file was truncated is C18's subject — here a store failure is a failure to open.
  Start-up bootstrap (`NetworkTopology("")` when no topology file exists) skips the hash check by design; it is modelled
  (`provider` with hash "") but is not a "replacement of the current topology", so no theorem constrains it.
-/
import SygmaModel.Model.C13
namespace Sygma.C13

section Helpers

theorem mem_insertU (x y : PeerId) (l : List PeerId) : y ∈ insertU x l ↔ y = x ∨ y ∈ l := by
  induction l with
  | nil => simp [insertU]
  | cons z zs ih =>
    unfold insertU
    split
    · simp
    · split
      · next h => subst h; simp
      · simp [ih]; constructor
        · rintro (h | h | h) <;> simp [h]
        · rintro (h | h | h) <;> simp [h]

theorem mem_canon (y : PeerId) (l : List PeerId) : y ∈ canon l ↔ y ∈ l := by
  induction l with
  | nil => simp [canon]
  | cons x xs ih =>
    have : canon (x :: xs) = insertU x (canon xs) := rfl
    rw [this, mem_insertU, ih]; simp

/-- the decision of one refresh call, in closed form -/
theorem refresh_state (e : Env) (st : St) (ev : Ev) :
    (refresh e st ev).1 = match adoptable e ev with | some t => adopt t | none => st := by
  unfold refresh adoptable provider
  cases hh : ev.hashes with
  | none => simp
  | some hs =>
    cases hl : hs.getLast? with
    | none => cases hf : ev.fetched <;> simp [hl]
    | some hash =>
      cases hf : ev.fetched with
      | error => by_cases h0 : hash = "" <;> simp [h0, hl]
      | body b =>
        cases hx : hexBody (trimNl b) with
        | none => by_cases h0 : hash = "" <;> simp [h0, hl, hx]
        | some ct =>
          by_cases h0 : hash = ""
          · simp [h0, hl, hx]
          · by_cases h1 : toHex (e.H ct) = hash
            · by_cases h2 : ct.length < 16
              · have : ¬ 16 ≤ ct.length := by omega
                simp [h0, h1, h2, this, hl, hx]
              · have h2' : 16 ≤ ct.length := by omega
                cases hp : e.parse (e.decrypt ct) with
                | none => simp [h0, h1, h2, hp, hl, hx]
                | some pt =>
                  obtain ⟨peers, thr⟩ := pt
                  by_cases h3 : thr < 1
                  · have : ¬ 1 ≤ thr := by omega
                    cases hs' : ev.storeOk <;> simp [h0, h1, h2, h2', hp, h3, this, hl, hx]
                  · have h3' : 1 ≤ thr := by omega
                    cases hs' : ev.storeOk <;> simp [h0, h1, h2, h2', hp, h3, h3', hl, hx]
            · simp [h0, h1, hl, hx]

theorem refresh_panic (e : Env) (st : St) (ev : Ev) (h : (refresh e st ev).2 = .panic) :
    (refresh e st ev).1 = st := by
  unfold refresh at *
  repeat' split at h
  all_goals first | rfl | simp_all

theorem interleaving_mem {ls : List (List Write)} {ws : List Write} (h : Interleaving ls ws) :
    ∀ w ∈ ws, ∃ l ∈ ls, w ∈ l := by
  induction h with
  | done ls _ => intro w hw; cases hw
  | step pre w l post ws _ ih =>
    intro x hx
    rcases List.mem_cons.1 hx with rfl | hx
    · exact ⟨x :: l, by simp, by simp⟩
    · obtain ⟨l', hl', hx'⟩ := ih x hx
      rcases List.mem_append.1 hl' with h1 | h1
      · exact ⟨l', by simp [h1], hx'⟩
      · rcases List.mem_cons.1 h1 with rfl | h1
        · exact ⟨w :: l', by simp, by simp [hx']⟩
        · exact ⟨l', by simp [h1], hx'⟩

/-- each component of a state reached by writes drawn from a set of topologies is the initial one or comes from the set -/
theorem applyWrites_components (A : Topo → Prop) (st : St) (ws : List Write) (h : ∀ w ∈ ws, A w.topo) :
    let st' := applyWrites st ws
    (st'.stored = st.stored ∨ ∃ t, A t ∧ st'.stored = some t) ∧
    (st'.gate = st.gate ∨ ∃ t, A t ∧ st'.gate = canon t.peers) ∧
    (st'.pstore = st.pstore ∨ ∃ t, A t ∧ st'.pstore = canon t.peers) := by
  induction ws generalizing st with
  | nil => simp [applyWrites]
  | cons w ws ih =>
    have hw := h w (by simp)
    have ih' := ih (applyWrite st w) (fun x hx => h x (by simp [hx]))
    simp only [applyWrites, List.foldl_cons] at ih' ⊢
    obtain ⟨i1, i2, i3⟩ := ih'
    cases w with
    | store t =>
      refine ⟨?_, i2, i3⟩
      rcases i1 with e | e
      · exact Or.inr ⟨t, hw, by rw [e]; rfl⟩
      · exact Or.inr e
    | gate t =>
      refine ⟨i1, ?_, i3⟩
      rcases i2 with e | e
      · exact Or.inr ⟨t, hw, by rw [e]; rfl⟩
      · exact Or.inr e
    | peers t =>
      refine ⟨i1, i2, ?_⟩
      rcases i3 with e | e
      · exact Or.inr ⟨t, hw, by rw [e]; rfl⟩
      · exact Or.inr e

theorem writesOf_topo (e : Env) (ev : Ev) (w : Write) (h : w ∈ writesOf e ev) : adoptable e ev = some w.topo := by
  unfold writesOf at h
  cases ha : adoptable e ev with
  | none => simp [ha] at h
  | some t => simp [ha] at h; rcases h with rfl | rfl | rfl <;> rfl

end Helpers

section Property

/-- **C13-a (gate).** The two hooks that see the peer decide by topology membership, and nothing else does -/
theorem gate_membership (t : Topo) (p : PeerId) :
    gate t .peerDial p = decide (p ∈ t.peers) ∧ gate t .securedIn p = decide (p ∈ t.peers) ∧
    gate t .securedOut p = decide (p ∈ t.peers) := by
  simp [gate, Topo.allows]

/-- a connection, inbound or outbound, passes all the hooks libp2p consults iff the peer is in the current topology -/
theorem conn_only_members (t : Topo) (d : Dir) (p : PeerId) : connAllowed t d p = true ↔ p ∈ t.peers := by
  cases d <;> simp [connAllowed, hooksOf, gate, Topo.allows]

/-- **C13-b (attribution).** Whatever the line contains and whatever the decoder makes of it, a delivered message is
    attributed to the connection's authenticated remote peer -/
theorem attribution (decode : Bytes → Option Wire) (remote : PeerId) (line : Bytes) (m : Msg)
    (h : attributeMsg decode remote line = some m) : m.sender = remote := by
  unfold attributeMsg at h
  cases hd : decode line with
  | none => simp [hd] at h
  | some w => simp [hd] at h; rw [← h]

theorem stream_attribution (decode : Bytes → Option Wire) (remote : PeerId) (lines : List Bytes) :
    ∀ m ∈ processStream decode remote lines, m.sender = remote := by
  induction lines with
  | nil => simp [processStream]
  | cons l ls ih =>
    unfold processStream
    cases ha : attributeMsg decode remote l with
    | none => simp
    | some m0 =>
      intro m hm
      simp at hm
      rcases hm with rfl | hm
      · exact attribution decode remote l _ ha
      · exact ih m hm

/-- nothing is invented: the content of every delivered message is the decoding of one of the received lines -/
theorem stream_no_invention (decode : Bytes → Option Wire) (remote : PeerId) (lines : List Bytes) :
    ∀ m ∈ processStream decode remote lines, ∃ l ∈ lines, decode l = some m.wire := by
  induction lines with
  | nil => simp [processStream]
  | cons l ls ih =>
    unfold processStream
    cases ha : attributeMsg decode remote l with
    | none => simp
    | some m0 =>
      intro m hm
      simp at hm
      rcases hm with rfl | hm
      · refine ⟨l, by simp, ?_⟩
        unfold attributeMsg at ha
        cases hd : decode l with
        | none => simp [hd] at ha
        | some w => simp [hd] at ha; rw [← ha]
      · obtain ⟨l', hl', hd⟩ := ih m hm
        exact ⟨l', by simp [hl'], hd⟩

/-- **C13-c (refresh, closed form).** One refresh call adopts the announced topology if there is one, and otherwise leaves
    the stored topology, the admission list and the dial targets exactly as they were. -/
theorem refresh_eq (e : Env) (st : St) (ev : Ev) :
    (refresh e st ev).1 = match adoptable e ev with | some t => adopt t | none => st :=
  refresh_state e st ev

/-- `model_satisfies`: the predicate the driver evaluates on the implementation's output holds of the model -/
theorem refresh_ok (e : Env) (st : St) (ev : Ev) : RefreshOk e st ev (refresh e st ev).1 := by
  rw [refresh_eq]
  unfold RefreshOk
  cases h : adoptable e ev with
  | none => exact Or.inl rfl
  | some t => exact Or.inr ⟨t, rfl, rfl⟩

/-- the same, spelled out: if anything changed, then an event was found, the LAST event's hash is non-empty, the fetched body
    hex-decodes to a ciphertext whose SHA-256 (hex, lower case) IS that hash, it is long enough to decrypt, it decrypts and
    parses to a topology with threshold ≥ 1, the store worked — and the new state is the adoption of exactly that topology. -/
theorem refresh_adopts_only_announced (e : Env) (st : St) (ev : Ev) (hne : (refresh e st ev).1 ≠ st) :
    ∃ hs hash b ct peers thr,
      ev.hashes = some hs ∧ hs.getLast? = some hash ∧ hash ≠ "" ∧ ev.fetched = .body b ∧
      hexBody (trimNl b) = some ct ∧ toHex (e.H ct) = hash ∧ 16 ≤ ct.length ∧
      e.parse (e.decrypt ct) = some (peers, thr) ∧ 1 ≤ thr ∧ ev.storeOk = true ∧
      (refresh e st ev).1 = adopt ⟨peers, thr.toNat⟩ := by
  rw [refresh_eq] at hne ⊢
  cases ha : adoptable e ev with
  | none => simp [ha] at hne
  | some t =>
    simp only []
    unfold adoptable at ha
    cases hh : ev.hashes with
    | none => simp [hh] at ha
    | some hs =>
      cases hf : ev.fetched with
      | error => simp [hh, hf] at ha
      | body b =>
        cases hl : hs.getLast? with
        | none => simp [hh, hf, hl] at ha
        | some hash =>
          cases hx : hexBody (trimNl b) with
          | none => simp [hh, hf, hl, hx] at ha
          | some ct =>
            simp only [hh, hf, hl, hx] at ha
            split at ha
            · next hc =>
              obtain ⟨c1, c2, c3, c4⟩ := hc
              cases hp : e.parse (e.decrypt ct) with
              | none => simp [hp] at ha
              | some pt =>
                obtain ⟨peers, thr⟩ := pt
                simp only [hp] at ha
                split at ha
                · next ht =>
                  simp at ha
                  exact ⟨hs, hash, b, ct, peers, thr, rfl, hl, c1, rfl, hx, c2, c3, hp, ht, c4, by rw [← ha]⟩
                · simp at ha
            · simp at ha

/-- a panic (ciphertext shorter than the AES block although its hash was announced) changes nothing -/
theorem refresh_panic_unchanged (e : Env) (st : St) (ev : Ev) (h : (refresh e st ev).2 = .panic) :
    (refresh e st ev).1 = st := refresh_panic e st ev h

/-- **C13-d (sequences).** After any sequence of refresh calls the state is the initial one (nothing was acceptable) or the
    adoption of the topology of the LAST acceptable call. -/
theorem run_last_accepted (e : Env) (st : St) (evs : List Ev) :
    run e st evs = match evs.reverse.findSome? (adoptable e) with | some t => adopt t | none => st := by
  induction evs generalizing st with
  | nil => rfl
  | cons ev evs ih =>
    have : run e st (ev :: evs) = run e (refresh e st ev).1 evs := rfl
    rw [this, ih, refresh_eq, List.reverse_cons, List.findSome?_append]
    cases h1 : evs.reverse.findSome? (adoptable e) with
    | some t => simp
    | none => cases h2 : adoptable e ev <;> simp [h2]

/-- the weaker form the driver evaluates on the implementation's final state after a sequence (op `refreshseq`):
    unchanged, or the adoption of a topology that one of the calls was entitled to adopt -/
theorem run_in_announced (e : Env) (st : St) (evs : List Ev) :
    run e st evs = st ∨ ∃ ev ∈ evs, ∃ t, adoptable e ev = some t ∧ run e st evs = adopt t := by
  induction evs generalizing st with
  | nil => exact Or.inl rfl
  | cons ev evs ih =>
    have hrun : run e st (ev :: evs) = run e (refresh e st ev).1 evs := rfl
    rw [hrun]
    rcases ih (refresh e st ev).1 with h | ⟨ev', hm, t, ha, hr⟩
    · rw [h, refresh_eq]
      cases ha : adoptable e ev with
      | none => exact Or.inl rfl
      | some t => exact Or.inr ⟨ev, by simp, t, ha, rfl⟩
    · exact Or.inr ⟨ev', by simp [hm], t, ha, hr⟩

/-- the three components never drift apart: file, admission list and dial targets describe one topology -/
def Consistent (st : St) : Prop := ∃ t, st.stored = some t ∧ st.gate = canon t.peers ∧ st.pstore = canon t.peers

theorem consistent_run (e : Env) (st : St) (evs : List Ev) (h : Consistent st) : Consistent (run e st evs) := by
  rw [run_last_accepted]
  cases evs.reverse.findSome? (adoptable e) with
  | none => exact h
  | some t => exact ⟨t, rfl, rfl, rfl⟩

/-- at every point of every history, a peer is admitted iff it is a peer of the stored (= last adopted) topology -/
theorem admission_after_run (e : Env) (st : St) (evs : List Ev) (h : Consistent st) (p : PeerId) :
    ∃ t, (run e st evs).stored = some t ∧ ((run e st evs).admits p = true ↔ p ∈ t.peers) := by
  obtain ⟨t, h1, h2, _⟩ := consistent_run e st evs h
  refine ⟨t, h1, ?_⟩
  simp [St.admits, h2, mem_canon]

/-- … and that admission is what the gater's hooks compute from the stored topology, in both directions -/
theorem admission_is_gate (e : Env) (st : St) (evs : List Ev) (h : Consistent st) (p : PeerId) (d : Dir) :
    ∃ t, (run e st evs).stored = some t ∧ ((run e st evs).admits p = connAllowed t d p) := by
  obtain ⟨t, h1, h2⟩ := admission_after_run e st evs h p
  refine ⟨t, h1, ?_⟩
  have hc := conn_only_members t d p
  cases ha : (run e st evs).admits p <;> cases hb : connAllowed t d p <;> simp_all

/-- the topologies some call of `evs` was entitled to adopt -/
def Announced (e : Env) (evs : List Ev) (t : Topo) : Prop := ∃ ev ∈ evs, adoptable e ev = some t

/-- **C13-e (several handlers).** One `RefreshEventHandler` exists per EVM chain; they share the file, the gate and the
    peerstore and run in different goroutines, and the three writes of an accepted refresh are separate steps. For EVERY
    interleaving of the writes of any number of handler calls (each call's own writes in program order), each of the three
    components ends up as it was initially or as written by a call that was entitled to adopt (announced hash matched,
    decrypts, parses, threshold ≥ 1, store worked). What does NOT survive interleaving is their agreement with each other
    (see the `example` below and op `refresh2`, which replays such a schedule on the real handlers). -/
theorem interleaved_components_announced (e : Env) (st : St) (evs : List Ev) (ws : List Write)
    (h : Interleaving (evs.map (writesOf e)) ws) :
    let st' := applyWrites st ws
    (st'.stored = st.stored ∨ ∃ t, Announced e evs t ∧ st'.stored = some t) ∧
    (st'.gate = st.gate ∨ ∃ t, Announced e evs t ∧ st'.gate = canon t.peers) ∧
    (st'.pstore = st.pstore ∨ ∃ t, Announced e evs t ∧ st'.pstore = canon t.peers) := by
  apply applyWrites_components (Announced e evs) st ws
  intro w hw
  obtain ⟨l, hl, hwl⟩ := interleaving_mem h w hw
  obtain ⟨ev, hev, rfl⟩ := List.mem_map.1 hl
  exact ⟨ev, hev, writesOf_topo e ev w hwl⟩

/-- one call is its writes applied in order, and a sequential history is the interleaving that concatenates them -/
theorem refresh_is_writes (e : Env) (st : St) (ev : Ev) : (refresh e st ev).1 = applyWrites st (writesOf e ev) := by
  rw [refresh_eq]
  unfold writesOf
  cases adoptable e ev with
  | none => rfl
  | some t => rfl

theorem run_is_sequential_writes (e : Env) (st : St) (evs : List Ev) :
    run e st evs = applyWrites st (evs.flatMap (writesOf e)) := by
  induction evs generalizing st with
  | nil => rfl
  | cons ev evs ih =>
    have : run e st (ev :: evs) = run e (refresh e st ev).1 evs := rfl
    rw [this, ih, refresh_is_writes]
    simp [applyWrites, List.foldl_append]

/-- admission under any interleaving: a peer the gate admits is a peer of the initial topology or of an announced one -/
theorem admission_interleaved (e : Env) (st : St) (evs : List Ev) (ws : List Write)
    (h : Interleaving (evs.map (writesOf e)) ws) (p : PeerId) (hp : (applyWrites st ws).admits p = true) :
    st.admits p = true ∨ ∃ t, Announced e evs t ∧ p ∈ t.peers := by
  obtain ⟨_, hg, _⟩ := interleaved_components_announced e st evs ws h
  rcases hg with e1 | ⟨t, ht, e1⟩
  · left; simpa [St.admits, e1] using hp
  · right; exact ⟨t, ht, by simpa [St.admits, e1, mem_canon] using hp⟩

/-- the interleaving that `refresh2` replays on the real code: handler 1 has stored and gated its topology and is about
    to load the peerstore when handler 2 runs completely; the file and the gate end at topology 2, the dial targets at
    topology 1 — `Consistent` is lost (it is a theorem for sequential histories only, `consistent_run`) -/
example :
    let t1 : Topo := ⟨[1, 2], 1⟩
    let t2 : Topo := ⟨[2, 3], 1⟩
    Interleaving [[.store t1, .gate t1, .peers t1], [.store t2, .gate t2, .peers t2]]
      [.store t1, .gate t1, .store t2, .gate t2, .peers t2, .peers t1] ∧
    applyWrites (adopt ⟨[9], 1⟩) [.store t1, .gate t1, .store t2, .gate t2, .peers t2, .peers t1] = ⟨some t2, [2, 3], [1, 2]⟩ ∧
    ¬ Consistent (applyWrites (adopt ⟨[9], 1⟩) [.store t1, .gate t1, .store t2, .gate t2, .peers t2, .peers t1]) := by
  intro t1 t2
  refine ⟨?_, by decide, ?_⟩
  · exact .step [] _ _ [[.store t2, .gate t2, .peers t2]] _ <|
      .step [] _ _ [[.store t2, .gate t2, .peers t2]] _ <|
      .step [[.peers t1]] _ _ [] _ <| .step [[.peers t1]] _ _ [] _ <| .step [[.peers t1]] _ _ [] _ <|
      .step [] _ _ [[]] _ <| .done _ (by simp)
  · rintro ⟨t, h1, h2, h3⟩
    have e1 : t = t2 := by simpa [applyWrites, applyWrite, adopt] using h1.symm
    subst e1
    revert h3; decide

/-- start-up establishes `Consistent` (the hypothesis of `consistent_run` / `admission_after_run`): whatever topology
    `app.Run` ends up with — the stored one or, if there is none, the one fetched without a hash check — gate and peerstore
    are built from it. (The wiring of `app.Run` itself is read, not executed; the harness ops build their initial state
    with the same three calls: `StoreTopology`, `NewConnectionGate`, `LoadPeers`.) -/
theorem bootstrap_consistent (e : Env) (file : Option Topo) (f : Fetched) (ok : Bool) (st : St)
    (h : bootstrap e file f ok = some st) : Consistent st := by
  unfold bootstrap at h
  cases file with
  | some t => simp at h; subst h; exact ⟨t, rfl, rfl, rfl⟩
  | none =>
    simp only [] at h
    cases hp : provider e "" f with
    | err => simp [hp] at h
    | panic => simp [hp] at h
    | ok t =>
      simp only [hp] at h
      cases ok with
      | false => simp at h
      | true => simp at h; subst h; exact ⟨t, rfl, rfl, rfl⟩


/-! ### non-vacuity -/

/-- a concrete acceptable event (toy hash/parse) is adopted, and a wrong hash leaves the state alone -/
example :
    let e : Env := ⟨fun _ => [0xab], id, fun _ => some ([1, 2], 2)⟩
    let body : Bytes := (List.replicate 32 48)   -- "000…0": 16 zero bytes of ciphertext
    let st0 := adopt ⟨[5], 1⟩
    (refresh e st0 ⟨some ["zz", "ab"], .body body, true⟩).1 = adopt ⟨[1, 2], 2⟩ ∧
    (refresh e st0 ⟨some ["ab", "zz"], .body body, true⟩).1 = st0 ∧
    (refresh e st0 ⟨some ["ab"], .body (body.take 30), true⟩) = (st0, .panic) := by
  decide

example : connAllowed ⟨[1, 2, 3], 2⟩ .inbound 2 = true ∧ connAllowed ⟨[1, 2, 3], 2⟩ .inbound 4 = false ∧
    connAllowed ⟨[1, 2, 3], 2⟩ .outbound 4 = false := by decide

example : Consistent (adopt ⟨[3, 1, 3], 2⟩) := ⟨_, rfl, rfl, rfl⟩

end Property
end Sygma.C13
