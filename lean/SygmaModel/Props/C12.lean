/-
  C12 — property theorems (DESIGN.md 5.12).

  What is modelled: `NewSubscriptionID` / `Unwrap` / the accessors on byte strings (with `%d` and
  `strconv.ParseInt(·,10,8)` written out), `SubscribeTo` / `UnSubscribeFrom` / `GetSubscribers` on a flat association
  list, histories of subscribe / unsubscribe / deliver / CloseSession (a delivery has no size in the model: messages of
  every size are run through the real stream reader by the harness and must reach the same channels). A delivery is "send to every channel GetSubscribers returns"
  (the goroutine fan-out of ProcessMessagesFromStream is tied by the correspondence runs, not modelled).
  Hypotheses of `refines` (all decidable, see `wf` = `wfIn` ∧ `fresh`): message types are the declared ones
  (≤ Unknown = 13) and only ids handed out by Subscribe are cancelled — properties of the INPUT (`wfIn`); and the
  identifiers handed out are fresh — a property of the implementation's OUTPUT (`fresh`; in the real code the suffix is
  uint32(UnixNano)), which is therefore part of the predicate `PFull` the driver evaluates on every run, not an
  assumption about the code. What is lost without it: `repeated_suffix_loses`, `stale_id_cancels_newer`,
  `bucket_size_numbering_point`, `same_suffix_point`. Other excluded points: `beyond_enum_point`, `respelled_id_point`.
  Mutual exclusion is ASSUMED, not checked: every manager method takes the one mutex for its whole body (read off
  the source by hand; no regenerated fact), so a concurrent execution is one of the sequential histories quantified
  over here. Data-race freedom is not examined.
-/
import SygmaModel.Model.C12
namespace Sygma.C12

section Helpers

theorem digit_toNat (d : Nat) (h : d < 10) : (digit d).toNat = 48 + d := by
  simp [digit, UInt8.toNat_ofNat']; omega

theorem digit_isDigit (d : Nat) (h : d < 10) : isDigit (digit d) = true := by
  simp [isDigit, digit_toNat d h]; omega

theorem digit_ne_dash (d : Nat) (h : d < 10) : digit d ≠ dash := by
  intro e
  have := congrArg UInt8.toNat e
  rw [digit_toNat d h] at this
  simp [dash] at this
  omega

theorem dash_not_mem_decAux (f n : Nat) : dash ∉ decAux f n := by
  induction f generalizing n with
  | zero =>
    simp only [decAux, List.mem_singleton]
    exact fun e => digit_ne_dash (n % 10) (by omega) e.symm
  | succ f ih =>
    simp only [decAux]
    split
    · next h =>
      simp only [List.mem_singleton]
      exact fun e => digit_ne_dash n h e.symm
    · next h =>
      simp only [List.mem_append, List.mem_singleton, not_or]
      exact ⟨ih (n / 10), fun e => digit_ne_dash (n % 10) (by omega) e.symm⟩

theorem dash_not_mem_dec (n : Nat) : dash ∉ dec n := dash_not_mem_decAux n n

theorem decAux_ne_nil (f n : Nat) : decAux f n ≠ [] := by
  cases f with
  | zero => simp [decAux]
  | succ f => simp only [decAux]; split <;> simp

theorem dec_ne_nil (n : Nat) : dec n ≠ [] := decAux_ne_nil n n

theorem parseDigitsAux_append (acc : Nat) (a b : Str) :
    parseDigitsAux acc (a ++ b) = (parseDigitsAux acc a).bind fun x => parseDigitsAux x b := by
  induction a generalizing acc with
  | nil => simp [parseDigitsAux]
  | cons c cs ih =>
    simp only [List.cons_append, parseDigitsAux]
    split
    · exact ih _
    · simp

theorem parseDigitsAux_decAux (f n : Nat) (h : n ≤ f) : parseDigitsAux 0 (decAux f n) = some n := by
  induction f generalizing n with
  | zero =>
    have : n = 0 := by omega
    subst this
    simp [decAux, parseDigitsAux, digit_isDigit 0 (by omega), digit_toNat 0 (by omega)]
  | succ f ih =>
    simp only [decAux]
    split
    · next h => simp [parseDigitsAux, digit_isDigit n h, digit_toNat n h]
    · next h' =>
      rw [parseDigitsAux_append, ih (n / 10) (by omega)]
      simp [parseDigitsAux, digit_isDigit (n % 10) (by omega), digit_toNat (n % 10) (by omega)]
      omega

theorem parseDigitsAux_dec (n : Nat) : parseDigitsAux 0 (dec n) = some n :=
  parseDigitsAux_decAux n n (Nat.le_refl n)

theorem parseDigits_dec (n : Nat) : parseDigits (dec n) = some n := by
  simp [parseDigits, dec_ne_nil, parseDigitsAux_dec]

/-- `ParseInt(Sprintf("%d", t), 10, 8)` gives `t` back for every t ≤ 127 -/
theorem parseInt8_dec (t : Nat) (h : t ≤ 127) : parseInt8 (dec t) = some (t : Int) := by
  have hd := parseDigits_dec t
  cases hc : dec t with
  | nil => exact absurd hc (dec_ne_nil t)
  | cons c r =>
    have h43 : c ≠ 43 := by
      intro e; subst e
      have : isDigit 43 = true := by
        have := parseDigitsAux_dec t
        rw [hc] at this
        simp only [parseDigitsAux] at this
        split at this
        · assumption
        · simp at this
      simp [isDigit] at this
    have h45 : c ≠ 45 := by
      intro e; subst e
      have := dash_not_mem_dec t
      rw [hc] at this
      simp [dash] at this
    rw [hc] at hd
    simp [parseInt8, h43, h45, hd, h]

theorem splitLast_none (c : UInt8) (b : Str) (h : c ∉ b) : splitLast c b = none := by
  induction b with
  | nil => rfl
  | cons x xs ih =>
    simp only [List.mem_cons, not_or] at h
    simp [splitLast, ih h.2, Ne.symm h.1]

/-- splitting at the LAST separator: a tail without separator comes back whole, whatever the head contains -/
theorem splitLast_append (c : UInt8) (a b : Str) (h : c ∉ b) :
    splitLast c (a ++ c :: b) = some (a, b) := by
  induction a with
  | nil => simp [splitLast, splitLast_none c b h]
  | cons x xs ih => simp [splitLast, ih]

theorem dec_inj (a b : Nat) (h : dec a = dec b) : a = b := by
  have := parseDigits_dec a
  rw [h, parseDigits_dec] at this
  exact (Option.some.inj this).symm

end Helpers

section Property

/-- **Ids parse back, for every session string.** Whatever bytes the session id contains — any number of `-`
    included — the id made for (session, declared type, suffix) unwraps to exactly that session, that type and the
    suffix's text. -/
theorem unwrap_newId (s : Str) (t u : Nat) (ht : t ≤ unknownType) :
    unwrap (newId s t u) = some (s, t, dec u) := by
  have ht' : t ≤ 13 := ht
  unfold unwrap newId
  rw [show s ++ dash :: (dec t ++ dash :: dec u) = (s ++ dash :: dec t) ++ dash :: dec u by simp]
  rw [splitLast_append dash _ _ (dash_not_mem_dec u)]
  simp only
  rw [splitLast_append dash _ _ (dash_not_mem_dec t)]
  simp only
  rw [parseInt8_dec t (by omega)]
  have : ¬ ((t : Int) > (unknownType : Int)) := by simp [unknownType]; omega
  simp only [this, if_false]
  congr 3
  omega

/-- non-vacuity: the production-style id `1-2-100-104-0`, type TssFailMsg (4) -/
example : unwrap (newId (str "1-2-100-104-0") 4 305419896) = some (str "1-2-100-104-0", 4, str "305419896") := by
  decide

end Property

section Helpers
/-! #### the simulation between the manager model and the reference semantics -/

/-- ghost record of a live subscription: handle, session, type, suffix -/
structure G where
  h : Nat
  sess : Str
  ty : Nat
  u : Nat

def G.entry (g : G) : Entry := ⟨g.sess, g.ty, dec g.u, g.h⟩
def G.live (g : G) : Live := ⟨g.h, g.sess, g.ty⟩

def idOf (x : Str × Nat × Nat) : Str := newId x.1 x.2.1 x.2.2

structure Sim (r : Run) (sr : SRun) (issued : List (Str × Nat × Nat)) (gs : List G) : Prop where
  st    : r.st = gs.map G.entry
  live  : sr.live = gs.map G.live
  ids   : r.ids = issued.map idOf
  n     : sr.n = issued.length
  look  : ∀ g ∈ gs, issued[g.h]? = some (g.sess, g.ty, g.u)
  nodup : issued.Nodup
  tys   : ∀ x ∈ issued, x.2.1 ≤ unknownType
  out   : deliveries r.out = sr.out

theorem deliveries_append (a b : List Res) : deliveries (a ++ b) = deliveries a ++ deliveries b := by
  induction a with
  | nil => rfl
  | cons x xs ih => cases x <;> simp [deliveries, ih]

theorem sim_init : Sim ⟨[], [], []⟩ ⟨[], 0, []⟩ [] [] := by
  constructor <;> simp [deliveries]

theorem entry_at_iff (g : G) (s : Str) (t u : Nat) :
    (g.entry.at s t (dec u) = true) ↔ (g.sess, g.ty, g.u) = (s, t, u) := by
  simp [Entry.at, G.entry]
  constructor
  · rintro ⟨⟨h1, h2⟩, h3⟩
    exact ⟨of_decide_eq_true h1, of_decide_eq_true h2, dec_inj _ _ (of_decide_eq_true h3)⟩
  · rintro ⟨h1, h2, h3⟩; subst h3
    exact ⟨⟨decide_eq_true h1, decide_eq_true h2⟩, decide_eq_true rfl⟩

theorem sim_step (r : Run) (sr : SRun) (issued : List (Str × Nat × Nat)) (gs : List G) (op : Op) (ops : List Op)
    (h : Sim r sr issued gs) (hw : wfFrom issued (op :: ops) = true) :
    ∃ issued' gs', Sim (step r op) (sstep sr op) issued' gs' ∧ wfFrom issued' ops = true := by
  cases op with
  | sub s t u =>
    simp only [wfFrom, Bool.and_eq_true, decide_eq_true_eq, Bool.not_eq_true', List.contains_eq_mem,
      decide_eq_false_iff_not] at hw
    obtain ⟨⟨ht, hfresh⟩, hrest⟩ := hw
    refine ⟨issued ++ [(s, t, u)], gs ++ [⟨issued.length, s, t, u⟩], ?_, hrest⟩
    have hkey : keyOf (newId s t u) = dec u := by simp [keyOf, unwrap_newId s t u ht]
    have hkeep : (gs.map G.entry).filter (fun e => !e.at s t (dec u)) = gs.map G.entry := by
      rw [List.filter_eq_self]
      intro e he
      obtain ⟨g, hg, rfl⟩ := List.mem_map.1 he
      cases hat : g.entry.at s t (dec u) with
      | false => rfl
      | true =>
        have := (entry_at_iff g s t u).1 hat
        have hm := List.mem_of_getElem? (h.look g hg)
        rw [this] at hm
        exact absurd hm hfresh
    constructor
    · simp [step, subscribe, hkey, h.st, hkeep, G.entry, h.ids]
    · simp [sstep, h.live, h.n, G.live]
    · simp [step, subscribe, h.ids, idOf]
    · simp [sstep, h.n]
    · intro g hg
      rcases List.mem_append.1 hg with hg | hg
      · have := h.look g hg
        have hlt : g.h < issued.length := by
          rcases Nat.lt_or_ge g.h issued.length with hl | hl
          · exact hl
          · rw [List.getElem?_eq_none hl] at this; cases this
        rw [List.getElem?_append_left hlt]; exact this
      · simp at hg; subst hg; simp
    · rw [List.nodup_append]
      refine ⟨h.nodup, by simp, ?_⟩
      intro a ha b hb
      simp at hb; subst hb
      intro e; subst e; exact hfresh ha
    · intro x hx
      rcases List.mem_append.1 hx with hx | hx
      · exact h.tys x hx
      · simp at hx; subst hx; exact ht
    · simp [step, sstep, deliveries_append, deliveries, h.out]
  | unsub k =>
    simp only [wfFrom] at hw
    refine ⟨issued, gs.filter (fun g => g.h != k), ?_, hw⟩
    have hids : r.ids[k]? = (issued[k]?).map idOf := by rw [h.ids, List.getElem?_map]
    cases hk : issued[k]? with
    | none =>
      have hall : gs.filter (fun g => g.h != k) = gs := by
        rw [List.filter_eq_self]
        intro g hg
        have := h.look g hg
        have : g.h ≠ k := by intro e; rw [e, hk] at this; cases this
        simpa using this
      rw [hall]
      have hl : sr.live.filter (fun l => l.h != k) = sr.live := by
        rw [h.live, List.filter_map]
        show (gs.filter (fun g => g.h != k)).map G.live = _
        rw [hall]
      constructor
      · simp [step, hids, hk, h.st]
      · simp only [sstep]; rw [hl]; exact h.live
      · simp [step, hk, h.ids]
      · simp [sstep, h.n]
      · exact h.look
      · exact h.nodup
      · exact h.tys
      · simp [step, hids, hk, sstep, deliveries_append, deliveries, h.out]
    | some x =>
      obtain ⟨s, t, u⟩ := x
      have ht : t ≤ unknownType := h.tys (s, t, u) (List.mem_of_getElem? hk)
      have hun : unwrap (idOf (s, t, u)) = some (s, t, dec u) := unwrap_newId s t u ht
      have hpred : ∀ g ∈ gs, (!g.entry.at s t (dec u)) = (g.h != k) := by
        intro g hg
        have hl := h.look g hg
        cases hat : g.entry.at s t (dec u) with
        | true =>
          have e := (entry_at_iff g s t u).1 hat
          rw [e, ← hk] at hl
          have hlt : g.h < issued.length := by
            rcases Nat.lt_or_ge g.h issued.length with hl' | hl'
            · exact hl'
            · rw [List.getElem?_eq_none hl', hk] at hl; cases hl
          have := (List.getElem?_inj hlt h.nodup).1 hl
          simp [this]
        | false =>
          have : g.h ≠ k := by
            intro e
            rw [e, hk] at hl
            have := (entry_at_iff g s t u).2 (Option.some.inj hl).symm
            rw [hat] at this; cases this
          simp [this]
      have hfil : (gs.map G.entry).filter (fun e => !e.at s t (dec u)) = (gs.filter (fun g => g.h != k)).map G.entry := by
        rw [List.filter_map]
        congr 1
        apply List.filter_congr
        intro g hg
        exact hpred g hg
      constructor
      · simp [step, hids, hk, unsubscribe, hun, h.st, hfil]
      · simp only [sstep]; rw [h.live, List.filter_map]; rfl
      · simp [step, hk, h.ids]
      · simp [sstep, h.n]
      · intro g hg; exact h.look g (List.mem_filter.1 hg).1
      · exact h.nodup
      · exact h.tys
      · simp [step, hids, hk, sstep, deliveries_append, deliveries, h.out]
  | unsubRaw id => simp [wfFrom] at hw
  | deliver s t =>
    simp only [wfFrom] at hw
    refine ⟨issued, gs, ?_, hw⟩
    constructor
    · simp [step, h.st]
    · simp [sstep, h.live]
    · simp [step, h.ids]
    · simp [sstep, h.n]
    · exact h.look
    · exact h.nodup
    · exact h.tys
    · simp only [step, sstep, deliveries_append, deliveries, h.out, subscribers, h.st, h.live]
      congr 2
      simp only [List.filter_map, List.map_map]
      rfl

  | close s =>
    simp only [wfFrom] at hw
    refine ⟨issued, gs, ?_, hw⟩
    constructor
    · simp [step, h.st]
    · simp [sstep, h.live]
    · simp [step, h.ids]
    · simp [sstep, h.n]
    · exact h.look
    · exact h.nodup
    · exact h.tys
    · simp [step, sstep, deliveries_append, deliveries, h.out]

theorem sim_fold (ops : List Op) (r : Run) (sr : SRun) (issued : List (Str × Nat × Nat)) (gs : List G)
    (h : Sim r sr issued gs) (hw : wfFrom issued ops = true) :
    ∃ issued' gs', Sim (ops.foldl step r) (ops.foldl sstep sr) issued' gs' := by
  induction ops generalizing r sr issued gs with
  | nil => exact ⟨issued, gs, h⟩
  | cons op ops ih =>
    obtain ⟨i', g', h', hw'⟩ := sim_step r sr issued gs op ops h hw
    exact ih _ _ _ _ h' hw'

theorem spec_cancelled (k : Nat) (post : List Op) (sr : SRun) (h1 : k < sr.n) (h2 : k ∉ sr.live.map (·.h)) :
    k ∉ (post.foldl sstep sr).live.map (·.h) := by
  induction post generalizing sr with
  | nil => exact h2
  | cons op ops ih =>
    simp only [List.foldl_cons]
    cases op with
    | sub s t u =>
      apply ih
      · simp [sstep]; omega
      · simp only [sstep, List.map_append, List.mem_append, not_or]
        exact ⟨h2, by simp; omega⟩
    | unsub j =>
      apply ih
      · exact h1
      · simp only [sstep]
        intro hm
        obtain ⟨l, hl, e⟩ := List.mem_map.1 hm
        exact h2 (List.mem_map.2 ⟨l, (List.mem_filter.1 hl).1, e⟩)
    | unsubRaw id => exact ih sr h1 h2
    | deliver s t => exact ih _ h1 h2
    | close s => exact ih sr h1 h2

theorem subscribers_sub (st : St) (s : Str) (t : Nat) : ∀ c ∈ subscribers st s t, c ∈ (retained st).map (·.h) := by
  intro c hc
  obtain ⟨e, he, rfl⟩ := List.mem_map.1 hc
  exact List.mem_map.2 ⟨⟨e.ch, e.sess, e.ty⟩, List.mem_map.2 ⟨e, (List.mem_filter.1 he).1, rfl⟩, rfl⟩

end Helpers

section Property

/-- **C12 (main, refinement).** For every well-formed history — any session strings (any number of `-`), the declared
    message types, any interleaving of subscribe / cancel / deliver over any number of sessions, suffixes not repeated
    within a (session, type) — every delivery of the modelled manager reaches exactly the currently live subscribers
    of the message's (session, type), and at the end exactly the live subscriptions are retained: a cancelled
    subscription is gone from the state, not merely unreachable. -/
theorem refines (ops : List Op) (hw : wf ops = true) :
    P12 ops (deliveries (run ops).out) (retained (run ops).st) = true := by
  obtain ⟨issued, gs, h⟩ := sim_fold ops _ _ [] [] sim_init hw
  simp only [P12, run, srun, Bool.and_eq_true, beq_iff_eq]
  refine ⟨h.out, ?_⟩
  rw [h.st, h.live]
  simp [retained, G.entry, G.live]

/-- non-vacuity: two subscribers of `1-2-100-104-0`/TssFailMsg coexist and both receive; after the first cancels only
    the second receives; a subscriber of another session with a confusable name (`1-2-100-104`, type 0) is never reached -/
example :
    let s := str "1-2-100-104-0"
    let ops := [Op.sub s 4 111, .sub s 4 222, .sub (str "1-2-100-104") 0 111, .deliver s 4, .unsub 0, .deliver s 4,
                .unsub 0, .unsub 7, .deliver (str "1-2-100-104") 0]
    wf ops = true ∧ deliveries (run ops).out = [[0, 1], [1], [2]] ∧ (retained (run ops).st).map (·.h) = [1, 2] := by
  decide

/-- **Cancelled means gone.** Once the k-th subscription (already issued: `k < (srun pre).n`, the number of
    subscriptions made in `pre`) is cancelled, then after ANY well-formed continuation it is not retained in the
    manager's state and no delivery, of any session and type, reaches it. -/
theorem cancelled_never_again (pre post : List Op) (k : Nat)
    (hw : wf (pre ++ Op.unsub k :: post) = true) (hk : k < (srun pre).n) :
    k ∉ (retained (run (pre ++ Op.unsub k :: post)).st).map (·.h) ∧
    ∀ s t, k ∉ subscribers (run (pre ++ Op.unsub k :: post)).st s t := by
  have hr := refines _ hw
  simp only [P12, Bool.and_eq_true, beq_iff_eq] at hr
  have hgone : k ∉ (retained (run (pre ++ Op.unsub k :: post)).st).map (·.h) := by
    rw [hr.2]
    have e : (srun (pre ++ Op.unsub k :: post)).live = (post.foldl sstep (sstep (srun pre) (Op.unsub k))).live := by
      simp [srun, List.foldl_append]
    rw [e]
    apply spec_cancelled k post (sstep (srun pre) (Op.unsub k)) hk
    simp [sstep]
  exact ⟨hgone, fun s t hm => hgone (subscribers_sub _ s t k hm)⟩

/-- non-vacuity of `cancelled_never_again`: pre = two subscriptions, k = 0, post re-subscribes and delivers -/
example :
    let s := str "keygen-17"
    wf ([Op.sub s 0 5, .sub s 0 6] ++ Op.unsub 0 :: [.sub s 0 7, .deliver s 0]) = true ∧
    0 < (srun [Op.sub s 0 5, .sub s 0 6]).n ∧
    deliveries (run ([Op.sub s 0 5, .sub s 0 6] ++ Op.unsub 0 :: [.sub s 0 7, .deliver s 0])).out = [[1, 2]] := by
  decide

/-! #### the excluded points of `wf`, stated rather than hidden (each is also a corpus line run on the real code) -/

/-- a message type beyond the enumeration (14 > Unknown): the id does not parse back, both subscribers share the key
    "" (the second replaces the first) and neither can be cancelled — the property does NOT hold there -/
theorem beyond_enum_point :
    let s := str "1"
    let ops := [Op.sub s 14 111, .sub s 14 222, .deliver s 14, .unsub 0, .unsub 1, .deliver s 14]
    wf ops = false ∧ deliveries (run ops).out = [[1], [1]] ∧ (retained (run ops).st).map (·.h) = [1] ∧
    P12 ops (deliveries (run ops).out) (retained (run ops).st) = false := by
  decide

/-- the clock repeating a suffix within one (session, type): the second subscriber silently replaces the first -/
theorem same_suffix_point :
    let s := str "1"
    let ops := [Op.sub s 4 111, .sub s 4 111, .deliver s 4]
    wf ops = false ∧ deliveries (run ops).out = [[1]] ∧
    P12 ops (deliveries (run ops).out) (retained (run ops).st) = false := by
  decide

/-- ids are not canonical text: `1-+4-111` cancels the subscription issued as `1-4-111` (ParseInt accepts a sign) -/
theorem respelled_id_point :
    let ops := [Op.sub (str "1") 4 111, .unsubRaw (str "1-+4-111"), .deliver (str "1") 4]
    wf ops = false ∧ deliveries (run ops).out = [[]] := by
  decide

/-! #### identifiers must be fresh -/

/-- `wf` = the input half ∧ the freshness of the identifiers handed out -/
theorem wfFrom_split (seen : List (Str × Nat × Nat)) (ops : List Op) :
    wfFrom seen ops = (wfIn ops && freshFrom seen ops) := by
  induction ops generalizing seen with
  | nil => rfl
  | cons op ops ih =>
    cases op with
    | sub s t u =>
      simp only [wfFrom, wfIn, freshFrom, ih]
      cases decide (t ≤ unknownType) <;> cases (seen.contains (s, t, u)) <;> cases wfIn ops <;> simp
    | unsub k => simp only [wfFrom, wfIn, freshFrom, ih]
    | unsubRaw id => simp [wfFrom, wfIn]
    | deliver s t => simp only [wfFrom, wfIn, freshFrom, ih]
    | close s => simp only [wfFrom, wfIn, freshFrom, ih]

/-- **C12 (complete predicate).** For every history of declared types in which only handed-out ids are cancelled: IF
    the identifiers handed out are fresh, the full predicate the driver evaluates holds of the model. Freshness itself
    is a property of the implementation's output (the suffix is clock-derived in the real code), evaluated on every run. -/
theorem refines_full (ops : List Op) (hin : wfIn ops = true) (hf : fresh ops = true) :
    PFull ops (deliveries (run ops).out) (retained (run ops).st) = true := by
  have hw : wf ops = true := by unfold wf; rw [wfFrom_split]; simp [hin]; exact hf
  simp [PFull, hf, refines ops hw]

/-- **Why freshness is part of the property: a repeated identifier loses a live subscriber.** In ANY manager state,
    if channel `h` is subscribed to (s, t) under suffix `u` and a new subscription to (s, t) is handed the same
    suffix, then `h` is no longer among the subscribers of (s, t) although it was never cancelled — and it is gone
    from the state. -/
theorem repeated_suffix_loses (st : St) (s : Str) (t u h ch : Nat) (ht : t ≤ unknownType) (hne : ch ≠ h)
    (_hlive : (⟨s, t, dec u, h⟩ : Entry) ∈ st) (hkeys : ∀ e ∈ st, e.ch = h → e = ⟨s, t, dec u, h⟩) :
    h ∉ subscribers (subscribe st s t u ch).1 s t ∧ h ∉ (retained (subscribe st s t u ch).1).map (·.h) := by
  have hkey : keyOf (newId s t u) = dec u := by simp [keyOf, unwrap_newId s t u ht]
  have hgone : h ∉ (retained (subscribe st s t u ch).1).map (·.h) := by
    simp only [subscribe, hkey, retained, List.map_append, List.map_map, List.mem_append, List.mem_map,
      List.mem_filter, not_or]
    refine ⟨?_, ?_⟩
    · rintro ⟨e, ⟨he, hat⟩, hh⟩
      have := hkeys e he hh
      subst this
      simp [Entry.at] at hat
    · simp; exact fun e => hne e
  exact ⟨fun hm => hgone (subscribers_sub _ s t h hm), hgone⟩

/-- … and the stale identifier then cancels the NEWER subscription (both share one id) -/
theorem stale_id_cancels_newer :
    let s := str "1"
    let ops := [Op.sub s 4 0, .unsub 0, .sub s 4 0, .unsub 0, .deliver s 4]
    wfIn ops = true ∧ fresh ops = false ∧ deliveries (run ops).out = [[]] ∧ (srun ops).out = [[1]] ∧
    PFull ops (deliveries (run ops).out) (retained (run ops).st) = false := by
  decide

/-- the bucket-size numbering (identifier = current size of the (session, type) bucket) repeats suffix 1:
    subscribe A, B, cancel A, subscribe C — B is dropped although never cancelled -/
theorem bucket_size_numbering_point :
    let s := str "1-2-100-104-0"
    let ops := [Op.sub s 4 0, .sub s 4 1, .unsub 0, .sub s 4 1, .deliver s 4]
    wfIn ops = true ∧ fresh ops = false ∧ deliveries (run ops).out = [[2]] ∧ (srun ops).out = [[1, 2]] := by
  decide

/-! #### CloseSession is not a cancellation; message size is irrelevant -/

/-- closing a session leaves every subscription where it is (it concerns the session's outbound streams only), so by
    `refines` the subscribers of that session that were never cancelled keep receiving -/
theorem close_keeps_subscriptions (r : Run) (s : Str) : (step r (.close s)).st = r.st ∧ (step r (.close s)).ids = r.ids :=
  ⟨rfl, rfl⟩

/-- non-vacuity: A and B subscribe to one session, A cancels and the session is closed, B still receives -/
example :
    let s := str "1-2-100-104-0"
    let ops := [Op.sub s 4 7, .sub s 4 8, .unsub 0, .close s, .deliver s 4]
    wf ops = true ∧ deliveries (run ops).out = [[1]] ∧ (retained (run ops).st).map (·.h) = [1] := by decide

/-! #### prefixes -/

/-- `wf` is prefix-closed -/
theorem wfFrom_prefix (seen : List (Str × Nat × Nat)) (a b : List Op) (h : wfFrom seen (a ++ b) = true) :
    wfFrom seen a = true := by
  induction a generalizing seen with
  | nil => rfl
  | cons op ops ih =>
    cases op with
    | sub s t u =>
      simp only [List.cons_append, wfFrom, Bool.and_eq_true] at h ⊢
      exact ⟨h.1, ih _ h.2⟩
    | unsub k => simp only [List.cons_append, wfFrom] at h ⊢; exact ih _ h
    | unsubRaw id => simp [wfFrom] at h
    | deliver s t => simp only [List.cons_append, wfFrom] at h ⊢; exact ih _ h
    | close s => simp only [List.cons_append, wfFrom] at h ⊢; exact ih _ h

theorem wf_prefix (a b : List Op) (h : wf (a ++ b) = true) : wf a = true := wfFrom_prefix [] a b h

/-- **Cancelled means gone, at every later moment.** With the k-th subscription issued in `pre` and then cancelled:
    after EVERY prefix `post₁` of any well-formed continuation `post₁ ++ post₂` the handle is not retained and no
    delivery of any (session, type) made at that moment reaches it. -/
theorem cancelled_never_again_prefix (pre post₁ post₂ : List Op) (k : Nat)
    (hw : wf (pre ++ Op.unsub k :: (post₁ ++ post₂)) = true) (hk : k < (srun pre).n) :
    k ∉ (retained (run (pre ++ Op.unsub k :: post₁)).st).map (·.h) ∧
    ∀ s t, k ∉ subscribers (run (pre ++ Op.unsub k :: post₁)).st s t := by
  apply cancelled_never_again pre post₁ k _ hk
  apply wf_prefix _ post₂
  simpa using hw

/-- the outputs of a run only grow -/
theorem foldl_step_out (ops : List Op) (r : Run) : ∃ t, (ops.foldl step r).out = r.out ++ t := by
  induction ops generalizing r with
  | nil => exact ⟨[], by simp⟩
  | cons op ops ih =>
    obtain ⟨t, ht⟩ := ih (step r op)
    have : ∃ x, (step r op).out = r.out ++ [x] := by
      cases op with
      | sub s t u => exact ⟨_, rfl⟩
      | unsub k => simp only [step]; split <;> exact ⟨_, rfl⟩
      | unsubRaw id => exact ⟨_, rfl⟩
      | deliver s t => exact ⟨_, rfl⟩
      | close s => exact ⟨_, rfl⟩
    obtain ⟨x, hx⟩ := this
    exact ⟨x :: t, by simp only [List.foldl_cons]; rw [ht, hx]; simp⟩

theorem wfIn_wfPrefix (ops : List Op) : wfIn (wfPrefix ops) = true := by
  induction ops with
  | nil => rfl
  | cons op ops ih =>
    unfold wfPrefix at ih ⊢
    simp only [List.takeWhile_cons]
    cases op with
    | sub s t u =>
      by_cases h : t ≤ unknownType
      · simp [Op.okIn, h, wfIn, ih]
      · simp [Op.okIn, h, wfIn]
    | unsub k => simpa [Op.okIn, wfIn] using ih
    | unsubRaw id => simp [Op.okIn, wfIn]
    | deliver s t => simpa [Op.okIn, wfIn] using ih
    | close s => simpa [Op.okIn, wfIn] using ih

/-- **C12 on arbitrary histories (what the driver evaluates).** For EVERY history — foreign id strings and undeclared
    types included — if the identifiers handed out before the first such operation are fresh, then up to that
    operation every delivery of the modelled manager reached exactly the live subscribers. -/
theorem refines_prefix (ops : List Op) (hf : fresh (wfPrefix ops) = true) :
    (deliveries (run ops).out).take (srun (wfPrefix ops)).out.length = (srun (wfPrefix ops)).out := by
  have hsplit : ops = wfPrefix ops ++ ops.dropWhile Op.okIn := by
    unfold wfPrefix; exact (List.takeWhile_append_dropWhile).symm
  have hw : wf (wfPrefix ops) = true := by
    unfold wf; rw [wfFrom_split, wfIn_wfPrefix]; simpa [fresh] using hf
  have hr := refines _ hw
  simp only [P12, Bool.and_eq_true, beq_iff_eq] at hr
  obtain ⟨t, ht⟩ := foldl_step_out (ops.dropWhile Op.okIn) (run (wfPrefix ops))
  have hrun : (run ops).out = (run (wfPrefix ops)).out ++ t := by
    conv => lhs; rw [hsplit]
    unfold run at ht ⊢
    rw [List.foldl_append]; exact ht
  rw [hrun, deliveries_append, hr.1]
  simp

end Property
end Sygma.C12
