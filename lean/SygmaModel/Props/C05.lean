/-
  C05 — every finalized source block is scanned despite faults and restarts (DESIGN.md 5.5).

  Proved (`runAll_P05`), for ALL configurations with interval ≥ 1 (EVM/Substrate) and ≥ 1 handler, all start
  configurations (configured start, `latest`/`fresh` flags, boot head, initial content of the block store) and
  ALL histories — any number of process lifetimes, each an arbitrary sequence of rounds with arbitrary heads
  (monotone or not), RPC failures, handler failures (any handler, any round), block-store write failures, and a
  process death after any number of externally visible actions of a round:
  the history produced by the model is accepted by the checker `P05` (Model/C05.lean), i.e.
    * every range handed to a handler starts at or below the frontier of blocks already handled by all handlers
      (contiguous ranges, nothing skipped inside a lifetime or across a restart),
    * `StoreBlock(v)` happens only in a round in which every handler was invoked and returned nil, and `v` is
      never beyond that frontier; a failed handler / unreadable node leaves cursor and store where they were,
    * every lifetime not configured with `latest` starts at or below the frontier; the frontier is initially the
      relayer's starting point `gsb` (stored / configured start block), so this binds the FIRST lifetime too.
  `P05` is the predicate the driver evaluates on the history produced by the REAL listeners, block store and chain
  objects. With the `latest` flag a lifetime starts at the head by configuration; the checker re-anchors the
  frontier there (stated in `chkStart`), so nothing is claimed about blocks before that head.

  `runAll_histPrompt`: before a lifetime's first process death a deep-enough range is handled in the same round.
  Full liveness ("every block is eventually handed over") is a consequence only under fairness of the environment
  (the head grows, failures are not permanent); what is proved is the safety half: no block can be passed over.
  Assumed: one model round = one iteration of the Go loops; `GetStartBlock`/`CalculateStartingBlock`/`New*Chain`
  are composed by `app.Run` as in `startOf` (generated fact, Oblig/C05.lean); handler-level: a failed fetch makes
  `HandleEvents` return an error (checked differentially per handler, op `hfetch`).
-/
import SygmaModel.Model.C05
import SygmaModel.Props.C04
namespace Sygma.C05
open Sygma.C04

section Helpers

/-- well-formed configuration: interval ≥ 1 where it is used, at least one handler -/
def WF (cfg : Cfg) : Prop := (cfg.kind ≠ .btc → 0 < cfg.k) ∧ 0 < cfg.nh

theorem callsUpTo_length (cfg : Cfg) (c : Int) (n : Nat) : (callsUpTo cfg c n).length = n := by
  simp [callsUpTo]

theorem callsUpTo_zero (cfg : Cfg) (c : Int) : callsUpTo cfg c 0 = [] := by simp [callsUpTo]

theorem callsUpTo_take (cfg : Cfg) (c : Int) (n m : Nat) :
    (callsUpTo cfg c n).take m = callsUpTo cfg c (min m n) := by
  simp [callsUpTo, ← List.map_take, List.take_range]

theorem align_eq (s k : Int) : align s k = k * (s / k) := by
  unfold align; rw [Int.emod_def]; omega

theorem align_le (s k : Int) (hk : 0 < k) : align s k ≤ s := by
  unfold align; have := Int.emod_nonneg s (show k ≠ 0 by omega); omega

theorem align_mono (a b k : Int) (hk : 0 < k) (h : a ≤ b) : align a k ≤ align b k := by
  rw [align_eq, align_eq]
  exact Int.mul_le_mul_of_nonneg_left (Int.ediv_le_ediv hk h) (by omega)

/-- what `app.Run` does to the block it got from `GetStartBlock` -/
def post (cfg : Cfg) (x : Int) : Int := match cfg.kind with | .btc => x | _ => align x cfg.k

theorem getStartBlock_some (w : Wiring) (stored : Option Int) (hl : w.latest = false) :
    getStartBlock w stored = some (gsb w stored) := by
  unfold getStartBlock gsb
  cases hf : w.fresh <;> simp [hl]
  split <;> rfl

theorem startOf_some (cfg : Cfg) (w : Wiring) (stored : Option Int) (hl : w.latest = false) :
    startOf cfg w stored = some (post cfg (gsb w stored)) := by
  unfold startOf post
  rw [getStartBlock_some w stored hl]
  cases cfg.kind <;> rfl

theorem post_le (cfg : Cfg) (hwf : WF cfg) (x : Int) : post cfg x ≤ x := by
  unfold post
  cases hk : cfg.kind <;> simp
  · exact align_le _ _ (hwf.1 (by simp [hk]))
  · exact align_le _ _ (hwf.1 (by simp [hk]))

theorem post_mono (cfg : Cfg) (hwf : WF cfg) (a b : Int) (h : a ≤ b) : post cfg a ≤ post cfg b := by
  unfold post
  cases hk : cfg.kind <;> simp
  · exact h
  · exact align_mono _ _ _ (hwf.1 (by simp [hk])) h
  · exact align_mono _ _ _ (hwf.1 (by simp [hk])) h

theorem cfgStart_le_gsb (w : Wiring) (stored : Option Int) : w.cfgStart ≤ gsb w stored := by
  unfold gsb; split
  · omega
  · split <;> omega

/-- after a successful `StoreBlock(v)` the next start is below any bound that dominates `v` and the old start -/
theorem post_gsb_store (cfg : Cfg) (hwf : WF cfg) (w : Wiring) (stored : Option Int) (v H : Int)
    (hv : v ≤ H) (hold : post cfg (gsb w stored) ≤ H) : post cfg (gsb w (some v)) ≤ H := by
  have h0 := post_mono cfg hwf _ _ (cfgStart_le_gsb w stored)
  unfold gsb
  split
  · omega
  · rw [show lastStored (some v) = v from rfl]
    by_cases hgt : v > w.cfgStart
    · rw [if_pos hgt]; have := post_le cfg hwf v; omega
    · rw [if_neg hgt]; omega

theorem imax_ge_left (a b : Int) : a ≤ imax a b := by unfold imax; split <;> omega
theorem imax_ge_right (a b : Int) : b ≤ imax a b := by unfold imax; split <;> omega

theorem storeVal_le (cfg : Cfg) (_hwf : WF cfg) (c : Int) : cfg.storeVal c ≤ c + cfg.stride := by
  unfold Cfg.storeVal Cfg.stride
  cases hk : cfg.kind <;> simp <;> omega

/-- invariant tying the checker's frontier to the persisted cursor -/
def Inv (cfg : Cfg) (w : Wiring) (hi stored : Option Int) : Prop :=
  w.latest = false → ∃ H, hi = some H ∧ post cfg (gsb w stored) ≤ H

/-- invariant tying the checker's frontier to the in-memory cursor -/
def InvC (hi cur : Option Int) : Prop := ∀ H, hi = some H → ∃ c, cur = some c ∧ c ≤ H

/-- every observation of the model, cut short by a process death or not, is handlers `0..m-1` on the range at
    the cursor, plus the store attempt only if all handlers ran without failure -/
theorem chkRound_shape (cfg : Cfg) (hwf : WF cfg) (w : Wiring) (hi stored : Option Int) (r : Round)
    (hd : Option Int) (c : Int) (m : Nat) (st : Option (Int × Bool))
    (hc : ∀ H, hi = some H → c ≤ H)
    (hst : st = none ∨ (m = cfg.nh ∧ completes cfg r = true ∧ ∃ ok, st = some (cfg.storeVal c, ok)))
    (hinv : Inv cfg w hi stored) :
    ∃ hi', chkRound cfg hi r ⟨hd, callsUpTo cfg c m, st⟩ = some hi' ∧
      Inv cfg w hi' (storeUpd stored ⟨hd, callsUpTo cfg c m, st⟩) ∧
      (∀ H, hi' = some H → c ≤ H ∧ (st.isSome = true → c + cfg.stride ≤ H)) ∧
      (m = 0 → hi' = hi) := by
  cases m with
  | zero =>
    have hst' : st = none := by
      rcases hst with h | ⟨h, _, _⟩
      · exact h
      · have := hwf.2; omega
    subst hst'
    refine ⟨hi, ?_, ?_, ?_, fun _ => rfl⟩
    · simp [chkRound, callsUpTo_zero]
    · simpa [storeUpd] using hinv
    · intro H hH; exact ⟨hc H hH, by simp⟩
  | succ m =>
    have hhead := callsUpTo_head cfg c (m + 1) (by omega)
    -- the frontier before the round
    obtain ⟨H, hH, hcH⟩ : ∃ H, anchor hi c = H ∧ c ≤ H := by
      cases hi with
      | none => exact ⟨c, rfl, by omega⟩
      | some H => exact ⟨H, rfl, hc H rfl⟩
    have hlast : cfg.last c + 1 = c + cfg.stride := by unfold Cfg.last; omega
    rcases hst with hst | ⟨hm, hcomp, ok, hst⟩
    · subst hst
      refine ⟨some (if fully cfg r ⟨hd, callsUpTo cfg c (m + 1), none⟩ then imax H (cfg.last c + 1) else H), ?_, ?_, ?_, ?_⟩
      · simp only [chkRound, hhead, callsUpTo_length, hH]
        simp [show ¬ H < c by omega]
      · intro hl
        obtain ⟨H0, hH0, hp⟩ := hinv hl
        subst hH0
        simp only [anchor] at hH; subst hH
        refine ⟨_, rfl, ?_⟩
        simp only [storeUpd]
        split
        · have := imax_ge_left H0 (cfg.last c + 1); omega
        · exact hp
      · intro H1 hH1
        simp only [Option.some.injEq] at hH1
        subst hH1
        refine ⟨?_, by simp⟩
        split
        · have := imax_ge_left H (cfg.last c + 1); omega
        · exact hcH
      · intro h; omega
    · subst hst
      have hfull : fully cfg r ⟨hd, callsUpTo cfg c (m + 1), some (cfg.storeVal c, ok)⟩ = true := by
        simp [fully, hcomp, callsUpTo_length, hm]
      have hv : cfg.storeVal c ≤ imax H (cfg.last c + 1) := by
        have := storeVal_le cfg hwf c
        have := imax_ge_right H (cfg.last c + 1); omega
      refine ⟨some (imax H (cfg.last c + 1)), ?_, ?_, ?_, ?_⟩
      · simp only [chkRound, hhead, callsUpTo_length, hH, hfull]
        simp [show ¬ H < c by omega, hv]
      · intro hl
        obtain ⟨H0, hH0, hp⟩ := hinv hl
        subst hH0
        simp only [anchor] at hH; subst hH
        refine ⟨_, rfl, ?_⟩
        have hge := imax_ge_left H0 (cfg.last c + 1)
        cases ok with
        | false => simp only [storeUpd]; omega
        | true =>
          simp only [storeUpd]
          exact post_gsb_store cfg hwf w stored _ _ hv (by omega)
      · intro H1 hH1
        simp only [Option.some.injEq] at hH1
        subst hH1
        have h1 := imax_ge_left H (cfg.last c + 1)
        have h2 := imax_ge_right H (cfg.last c + 1)
        exact ⟨by omega, fun _ => by omega⟩
      · intro h; omega

/-- shape of the model's observation in one round -/
theorem step_shape (cfg : Cfg) (cur : Option Int) (r : Round) :
    ∃ (c : Int) (m : Nat) (st : Option (Int × Bool)),
      (step cfg cur r).2 = ⟨r.head, callsUpTo cfg c m, st⟩ ∧
      (∀ c0, cur = some c0 → c = c0) ∧
      (st = none ∨ (m = cfg.nh ∧ completes cfg r = true ∧ ∃ ok, st = some (cfg.storeVal c, ok))) ∧
      ((step cfg cur r).1 = (if st.isSome then some (c + cfg.stride) else if r.head.isSome then some c else cur)) ∧
      (r.head = none → m = 0) := by
  unfold step
  cases hh : r.head with
  | none =>
    refine ⟨(match cur with | some c0 => c0 | none => 0), 0, none, by simp [callsUpTo_zero], ?_, Or.inl rfl, by simp, fun _ => rfl⟩
    intro c0 h; subst h; rfl
  | some h =>
    simp only
    have hcur : ∀ c0, cur = some c0 → curAt cur h = c0 := by intro c0 h0; subst h0; rfl
    rcases stepAt_cases cfg h (curAt cur h) r with ⟨_, hcomp, he⟩ | ⟨_, _, he⟩ | ⟨_, he⟩
    · exact ⟨curAt cur h, cfg.nh, some (cfg.storeVal (curAt cur h), r.storeOk), by rw [he], hcur,
        Or.inr ⟨rfl, hcomp, _, rfl⟩, by rw [he]; simp, by simp⟩
    · exact ⟨curAt cur h, nCalls cfg r, none, by rw [he], hcur, Or.inl rfl, by rw [he]; simp, by simp⟩
    · exact ⟨curAt cur h, 0, none, by rw [he]; simp [callsUpTo_zero], hcur, Or.inl rfl, by rw [he]; simp, by simp⟩

/-- one round of the model, complete or cut short, keeps the checker happy and the invariants true -/
theorem round_ok (cfg : Cfg) (hwf : WF cfg) (w : Wiring) (hi stored cur : Option Int) (r : Round)
    (hinv : Inv cfg w hi stored) (hcur : InvC hi cur) :
    (∃ hi', chkRound cfg hi r (step cfg cur r).2 = some hi' ∧
        Inv cfg w hi' (storeUpd stored (step cfg cur r).2) ∧ InvC hi' (step cfg cur r).1) ∧
    (∀ n, ∃ hi', chkRound cfg hi r (truncate n (step cfg cur r).2) = some hi' ∧
        Inv cfg w hi' (storeUpd stored (truncate n (step cfg cur r).2))) := by
  obtain ⟨c, m, st, hobs, hc0, hst, hnext, hnone⟩ := step_shape cfg cur r
  have hc : ∀ H, hi = some H → c ≤ H := by
    intro H hH
    obtain ⟨c0, h0, hle⟩ := hcur H hH
    rw [hc0 c0 h0]; exact hle
  constructor
  · obtain ⟨hi', h1, h2, h3, h4⟩ := chkRound_shape cfg hwf w hi stored r r.head c m st hc hst hinv
    refine ⟨hi', by rw [hobs]; exact h1, by rw [hobs]; exact h2, ?_⟩
    intro H hH
    rw [hnext]
    cases hs : st.isSome with
    | true => simp; exact (h3 H hH).2 hs
    | false =>
      simp
      cases hh : r.head with
      | some h => simp; exact (h3 H hH).1
      | none =>
        simp
        have := h4 (hnone hh); subst this
        exact hcur H hH
  · intro n
    have htr : truncate n (step cfg cur r).2 = ⟨r.head, callsUpTo cfg c (min n m), if m < n then st else none⟩ := by
      rw [hobs]; simp [truncate, callsUpTo_take, callsUpTo_length]
    have hst' : (if m < n then st else none) = none ∨
        (min n m = cfg.nh ∧ completes cfg r = true ∧ ∃ ok, (if m < n then st else none) = some (cfg.storeVal c, ok)) := by
      split
      · next hlt =>
        rcases hst with h | ⟨h1, h2, h3⟩
        · exact Or.inl h
        · exact Or.inr ⟨by omega, h2, h3⟩
      · exact Or.inl rfl
    obtain ⟨hi', h1, h2, _, _⟩ := chkRound_shape cfg hwf w hi stored r r.head c (min n m) _ hc hst' hinv
    exact ⟨hi', by rw [htr]; exact h1, by rw [htr]; exact h2⟩

theorem runLife_ok (cfg : Cfg) (hwf : WF cfg) (w : Wiring) (l : List SRound) :
    ∀ (hi cur stored : Option Int), Inv cfg w hi stored → InvC hi cur →
      ∃ hi', chkLife cfg hi l (runLife cfg cur stored l).1 = some hi' ∧ Inv cfg w hi' (runLife cfg cur stored l).2 := by
  induction l with
  | nil => intro hi cur stored hinv _; exact ⟨hi, by simp [runLife, chkLife], by simpa [runLife] using hinv⟩
  | cons x rs ih =>
    intro hi cur stored hinv hcur
    obtain ⟨r, crash⟩ := x
    obtain ⟨⟨hi1, h1, h2, h3⟩, htr⟩ := round_ok cfg hwf w hi stored cur r hinv hcur
    cases crash with
    | some n =>
      obtain ⟨hi', h1', h2'⟩ := htr n
      exact ⟨hi', by simp [runLife, chkLife, h1'], by simpa [runLife] using h2'⟩
    | none =>
      obtain ⟨hi', h4, h5⟩ := ih hi1 _ _ h2 h3
      exact ⟨hi', by simp [runLife, chkLife, h1, h4], by simpa [runLife] using h5⟩

/-- between lifetimes only the persisted part of the invariant survives -/
def InvPre (cfg : Cfg) (w : Wiring) (hi stored : Option Int) : Prop :=
  w.latest = false → ∀ H, hi = some H → post cfg (gsb w stored) ≤ H

theorem runAll_ok (cfg : Cfg) (hwf : WF cfg) (w : Wiring) (lifes : List (List SRound)) :
    ∀ (hi stored : Option Int), InvPre cfg w hi stored →
      ∃ hi', chkAll cfg w hi lifes (runAll cfg w stored lifes) = some hi' := by
  induction lifes with
  | nil => intro hi stored _; exact ⟨hi, by simp [runAll, chkAll]⟩
  | cons l ls ih =>
    intro hi stored hpre
    -- the start check
    obtain ⟨hi1, hs1, hinv1, hc1⟩ : ∃ hi1, chkStart w hi (startOf cfg w stored) = some hi1 ∧
        Inv cfg w hi1 stored ∧ InvC hi1 (startOf cfg w stored) := by
      cases hl : w.latest with
      | true =>
        refine ⟨startOf cfg w stored, ?_, ?_, ?_⟩
        · simp [chkStart, hl]
        · intro h; rw [hl] at h; cases h
        · intro H hH; exact ⟨H, hH, by omega⟩
      | false =>
        rw [startOf_some cfg w stored hl]
        cases hi with
        | none =>
          refine ⟨some (post cfg (gsb w stored)), by simp [chkStart, hl], fun _ => ⟨_, rfl, by omega⟩, ?_⟩
          intro H hH; exact ⟨_, rfl, by simp at hH; omega⟩
        | some H =>
          have := hpre hl H rfl
          refine ⟨some H, by simp [chkStart, hl, this], fun _ => ⟨_, rfl, this⟩, ?_⟩
          intro H' hH'; simp at hH'; subst hH'; exact ⟨_, rfl, this⟩
    obtain ⟨hi2, h2, hinv2⟩ := runLife_ok cfg hwf w l hi1 (startOf cfg w stored) stored hinv1 hc1
    have hpre2 : InvPre cfg w hi2 (runLife cfg (startOf cfg w stored) stored l).2 := by
      intro hl H hH
      obtain ⟨H', hH', hp⟩ := hinv2 hl
      rw [hH] at hH'; simp at hH'; subst hH'; exact hp
    obtain ⟨hi', h3⟩ := ih hi2 _ hpre2
    exact ⟨hi', by simp [runAll, chkAll, hs1, h2, h3]⟩

/-! #### soundness of the checker w.r.t. the declarative statement -/

theorem Handled_mono_left (cfg : Cfg) (xs ys : List (Round × Obs)) (b : Int) (h : Handled cfg xs b) :
    Handled cfg (xs ++ ys) b := by
  obtain ⟨p, hp, hh⟩ := h; exact ⟨p, List.mem_append_left _ hp, hh⟩

theorem Handled_mono_right (cfg : Cfg) (xs ys : List (Round × Obs)) (b : Int) (h : Handled cfg ys b) :
    Handled cfg (xs ++ ys) b := by
  obtain ⟨p, hp, hh⟩ := h; exact ⟨p, List.mem_append_right _ hp, hh⟩

/-- one accepted round: the frontier only grows, every block it grows over was handled by all handlers in this very
    round, and a store attempt is never beyond the new frontier -/
theorem chkRound_sound (cfg : Cfg) (H : Int) (r : Round) (o : Obs) (hi' : Option Int)
    (h : chkRound cfg (some H) r o = some hi') :
    ∃ H', hi' = some H' ∧ H ≤ H' ∧ (∀ b, H ≤ b → b < H' → HandledIn cfg (r, o) b) ∧
      (∀ v w, o.store = some (v, w) → v ≤ H') := by
  unfold chkRound at h
  cases hh : o.calls.head? with
  | none =>
    simp only [hh] at h
    split at h
    · cases h
    · next hs =>
      simp only [Option.some.injEq] at h; subst h
      refine ⟨H, rfl, by omega, fun b h1 h2 => by omega, ?_⟩
      intro v w hv; simp [hv] at hs
  | some c =>
    simp only [hh] at h
    rw [show anchor (some H) c.s = H from rfl] at h
    split at h
    · cases h
    · next hshape =>
      have hshape : o.calls = callsUpTo cfg c.s o.calls.length := by simpa using hshape
      by_cases hlt : H < c.s
      · rw [if_pos hlt] at h; cases h
      · rw [if_neg hlt] at h
        have hle : ¬ H < c.s := hlt
        have hpos : 0 < o.calls.length := by
          cases hc : o.calls with
          | nil => simp [hc] at hh
          | cons _ _ => simp
        have hce : c.e = cfg.last c.s := by
          have h1 := callsUpTo_head cfg c.s o.calls.length hpos
          rw [← hshape, hh] at h1
          simp only [Option.some.injEq] at h1
          rw [h1]
        -- what the new frontier covers
        have key : ∀ (H' : Int), H' = (if fully cfg r o = true then imax H (c.e + 1) else H) →
            H ≤ H' ∧ ∀ b, H ≤ b → b < H' → HandledIn cfg (r, o) b := by
          intro H' hH'
          by_cases hf : fully cfg r o = true
          · rw [if_pos hf] at hH'
            have hge := imax_ge_left H (c.e + 1)
            refine ⟨by omega, ?_⟩
            intro b hb1 hb2
            have hf' := hf
            simp only [fully, Bool.and_eq_true, beq_iff_eq] at hf'
            refine ⟨hf'.1, c.s, by rw [← hf'.2]; exact hshape, by omega, ?_⟩
            have : b < c.e + 1 := by
              unfold imax at hH'; split at hH' <;> omega
            omega
          · rw [if_neg hf] at hH'
            exact ⟨by omega, fun b h1 h2 => by omega⟩
        cases hst : o.store with
        | none =>
          simp only [hst, Option.some.injEq] at h
          obtain ⟨k1, k2⟩ := key _ rfl
          exact ⟨_, h.symm, k1, k2, by intro v w hv; cases hv⟩
        | some vw =>
          obtain ⟨v, w⟩ := vw
          simp only [hst] at h
          by_cases hok : fully cfg r o = true ∧ v ≤ (if fully cfg r o = true then imax H (c.e + 1) else H)
          · rw [if_pos hok] at h
            simp only [Option.some.injEq] at h
            obtain ⟨k1, k2⟩ := key _ rfl
            refine ⟨_, h.symm, k1, k2, ?_⟩
            intro v' w' hv
            simp only [Option.some.injEq, Prod.mk.injEq] at hv
            rw [← hv.1]; exact hok.2
          · rw [if_neg hok] at h; cases h

theorem chkLife_sound (cfg : Cfg) : ∀ (l : List SRound) (os : List Obs) (H : Int) (hi' : Option Int),
    chkLife cfg (some H) l os = some hi' →
    ∃ H', hi' = some H' ∧ H ≤ H' ∧ (∀ b, H ≤ b → b < H' → Handled cfg ((l.map (·.1)).zip os) b) ∧
      (∀ v, StoredIn ((l.map (·.1)).zip os) v → v ≤ H') := by
  intro l
  induction l with
  | nil =>
    intro os H hi' h
    cases os with
    | nil =>
      simp only [chkLife, Option.some.injEq] at h
      exact ⟨H, h.symm, by omega, fun b h1 h2 => by omega, by intro v ⟨p, hp, _⟩; simp at hp⟩
    | cons o os => simp [chkLife] at h
  | cons x rs ih =>
    intro os H hi' h
    obtain ⟨r, cr⟩ := x
    cases os with
    | nil =>
      simp only [chkLife, Option.some.injEq] at h
      exact ⟨H, h.symm, by omega, fun b h1 h2 => by omega, by intro v ⟨p, hp, _⟩; simp at hp⟩
    | cons o os =>
      simp only [chkLife] at h
      cases hr : chkRound cfg (some H) r o with
      | none => simp [hr] at h
      | some hi1 =>
        simp only [hr] at h
        obtain ⟨H1, rfl, hle1, hcov1, hst1⟩ := chkRound_sound cfg H r o hi1 hr
        obtain ⟨H2, rfl, hle2, hcov2, hst2⟩ := ih os H1 hi' h
        refine ⟨H2, rfl, by omega, ?_, ?_⟩
        · intro b hb1 hb2
          simp only [List.map_cons, List.zip_cons_cons]
          by_cases hb : b < H1
          · exact ⟨(r, o), by simp, hcov1 b hb1 hb⟩
          · obtain ⟨p, hp, hh⟩ := hcov2 b (by omega) hb2
            exact ⟨p, List.mem_cons_of_mem _ hp, hh⟩
        · intro v ⟨p, hp, w, hw⟩
          simp only [List.map_cons, List.zip_cons_cons, List.mem_cons] at hp
          rcases hp with rfl | hp
          · have := hst1 v w hw; omega
          · exact hst2 v ⟨p, hp, w, hw⟩

theorem chkAll_sound (cfg : Cfg) (w : Wiring) (hl : w.latest = false) :
    ∀ (lifes : List (List SRound)) (hist : List (Option Int × List Obs)) (H : Int) (hi' : Option Int),
    chkAll cfg w (some H) lifes hist = some hi' →
    ∃ H', hi' = some H' ∧ H ≤ H' ∧ (∀ b, H ≤ b → b < H' → Handled cfg (pairsOf lifes hist) b) ∧
      (∀ v, StoredIn (pairsOf lifes hist) v → v ≤ H') := by
  intro lifes
  induction lifes with
  | nil =>
    intro hist H hi' h
    cases hist with
    | nil =>
      simp only [chkAll, Option.some.injEq] at h
      exact ⟨H, h.symm, by omega, fun b h1 h2 => by omega, by intro v ⟨p, hp, _⟩; simp [pairsOf] at hp⟩
    | cons x xs => simp [chkAll] at h
  | cons l ls ih =>
    intro hist H hi' h
    cases hist with
    | nil => simp [chkAll] at h
    | cons x rest =>
      obtain ⟨s, os⟩ := x
      simp only [chkAll] at h
      -- the start check keeps the frontier
      have hstart : ∀ hi1, chkStart w (some H) s = some hi1 → hi1 = some H := by
        intro hi1 hs
        unfold chkStart at hs
        simp only [hl] at hs
        cases s with
        | none => simp at hs
        | some s0 =>
          simp only [Bool.false_eq_true, if_false] at hs
          split at hs
          · simp at hs; exact hs.symm
          · cases hs
      cases hs : chkStart w (some H) s with
      | none => simp [hs] at h
      | some hi1 =>
        simp only [hs] at h
        have := hstart hi1 hs; subst this
        cases hlf : chkLife cfg (some H) l os with
        | none => simp [hlf] at h
        | some hi2 =>
          simp only [hlf] at h
          obtain ⟨H1, rfl, hle1, hcov1, hst1⟩ := chkLife_sound cfg l os H hi2 hlf
          obtain ⟨H2, rfl, hle2, hcov2, hst2⟩ := ih rest H1 hi' h
          refine ⟨H2, rfl, by omega, ?_, ?_⟩
          · intro b hb1 hb2
            simp only [pairsOf]
            by_cases hb : b < H1
            · exact Handled_mono_left cfg _ _ b (hcov1 b hb1 hb)
            · exact Handled_mono_right cfg _ _ b (hcov2 b (by omega) hb2)
          · intro v ⟨p, hp, w', hw⟩
            simp only [pairsOf, List.mem_append] at hp
            rcases hp with hp | hp
            · have := hst1 v ⟨p, hp, w', hw⟩; omega
            · exact hst2 v ⟨p, hp, w', hw⟩

end Helpers

section Property

/-- **The checker is sound for the declarative statement of C05.** For ANY history (of the model or of the real
    code) that `P05` accepts, without the `latest` flag: every block from the relayer's starting point `gsb`
    (stored / configured start) up to — not including — ANY value ever handed to `StoreBlock` was, in some round of
    the history, handed to every handler on one range containing it, with none of the handlers failing. So the
    persisted cursor never runs ahead of blocks that were not fully handled, across all faults and restarts. -/
theorem P05_sound (cfg : Cfg) (w : Wiring) (stored0 : Option Int) (lifes : List (List SRound))
    (hist : List (Option Int × List Obs)) (hl : w.latest = false)
    (hok : P05 cfg w stored0 lifes hist = true) :
    ∀ v, StoredIn (pairsOf lifes hist) v → ∀ b, gsb w stored0 ≤ b → b < v → Handled cfg (pairsOf lifes hist) b := by
  unfold P05 at hok
  simp only [hl, Bool.false_eq_true, if_false] at hok
  cases hc : chkAll cfg w (some (gsb w stored0)) lifes hist with
  | none => simp [hc] at hok
  | some hi' =>
    obtain ⟨H', _, _, hcov, hst⟩ := chkAll_sound cfg w hl lifes hist _ hi' hc
    intro v hv b hb1 hb2
    exact hcov b hb1 (by have := hst v hv; omega)

/-- **C05.** Every history the model can produce — any configuration with interval ≥ 1 and ≥ 1 handler, any start
    wiring, any initial store content, any number of lifetimes with arbitrary heads, RPC / handler / store
    failures and process deaths at any visible step — is accepted by the no-skip checker `P05`. -/
theorem runAll_P05 (cfg : Cfg) (hwf : WF cfg) (w : Wiring) (stored0 : Option Int) (lifes : List (List SRound)) :
    P05 cfg w stored0 lifes (runAll cfg w stored0 lifes) = true := by
  obtain ⟨hi', h⟩ := runAll_ok cfg hwf w lifes (if w.latest then none else some (gsb w stored0)) stored0 (by
    intro hl H hH
    simp [hl] at hH; subst hH
    exact post_le cfg hwf _)
  simp [P05, h]

/-- … hence for the model: every history it can produce has the declarative property -/
theorem runAll_declarative (cfg : Cfg) (hwf : WF cfg) (w : Wiring) (stored0 : Option Int) (lifes : List (List SRound))
    (hl : w.latest = false) :
    ∀ v, StoredIn (pairsOf lifes (runAll cfg w stored0 lifes)) v → ∀ b, gsb w stored0 ≤ b → b < v →
      Handled cfg (pairsOf lifes (runAll cfg w stored0 lifes)) b :=
  P05_sound cfg w stored0 lifes _ hl (runAll_P05 cfg hwf w stored0 lifes)


/-- before the first process death a lifetime is a run of the scan loop of C04 -/
theorem runLife_alive (cfg : Cfg) (l : List SRound) :
    ∀ (cur stored : Option Int),
      (runLife cfg cur stored l).1.take (alivePrefix l).length = run cfg cur (alivePrefix l) := by
  induction l with
  | nil => intro cur stored; simp [runLife, alivePrefix, run]
  | cons x rs ih =>
    intro cur stored
    obtain ⟨r, crash⟩ := x
    cases crash with
    | some n => simp [runLife, alivePrefix, run]
    | none =>
      have := ih (step cfg cur r).1 (storeUpd stored (step cfg cur r).2)
      simp only [alivePrefix, List.length_map] at this ⊢
      simp [runLife, run, this]

/-- **C05 (progress half that does not need fairness).** In every lifetime, before its first process death, a range
    that is one confirmation deeper than required is handed to the first handler in the same round — so a relayer
    whose scan stalls although the chain has moved on (e.g. because a retry changed a shared configuration value) is
    not a behaviour of the model. `histPrompt` is evaluated on the real stacks' histories together with `P05`. -/
theorem runAll_histPrompt (cfg : Cfg) (w : Wiring) (lifes : List (List SRound)) :
    ∀ (stored : Option Int), histPrompt cfg lifes (runAll cfg w stored lifes) = true := by
  induction lifes with
  | nil => intro stored; simp [histPrompt, runAll]
  | cons l ls ih =>
    intro stored
    have h := ih (runLife cfg (startOf cfg w stored) stored l).2
    simp only [histPrompt, Bool.and_eq_true, beq_iff_eq, List.all_eq_true] at h ⊢
    refine ⟨by simp [runAll, h.1], ?_⟩
    intro x hx
    simp only [runAll, List.zip_cons_cons, List.mem_cons] at hx
    rcases hx with rfl | hx
    · simp only [lifePrompt]
      rw [runLife_alive]; exact run_traceOk cfg _ _
    · exact h.2 x hx

/-- the excluded point `latest = true`, stated: the lifetime starts at the head (BTC: nil start; EVM/Substrate: the
    aligned boot head) whatever the store holds -/
theorem latest_starts_at_head (cfg : Cfg) (w : Wiring) (stored : Option Int) (hl : w.latest = true) :
    startOf cfg w stored = match cfg.kind with | .btc => none | _ => some (align w.boot cfg.k) := by
  unfold startOf getStartBlock; cases cfg.kind <;> simp [hl]

/-- the checker is not vacuous: the history of the unrepaired BTC wiring (every lifetime starts at the head,
    blocks 7..11 skipped) is rejected, as is a cursor persisted past a range whose second handler failed -/
example :
    P05 ⟨.btc, 1, 1, 1⟩ ⟨3, false, false, 0⟩ none
      [[(⟨some 5, none, true⟩, none), (⟨some 6, none, true⟩, none)], [(⟨some 12, none, true⟩, none), (⟨some 13, none, true⟩, none)]]
      [(some 3, [⟨some 5, [⟨0, 3, 3⟩], some (3, true)⟩, ⟨some 6, [⟨0, 4, 4⟩], some (4, true)⟩]),
       (some 12, [⟨some 12, [], none⟩, ⟨some 13, [⟨0, 12, 12⟩], some (12, true)⟩])] = false ∧
    P05 ⟨.evm, 2, 1, 2⟩ ⟨2, false, false, 0⟩ none [[(⟨some 9, some 1, true⟩, none)]]
      [(some 2, [⟨some 9, [⟨0, 2, 3⟩, ⟨1, 2, 3⟩], some (4, true)⟩])] = false ∧
    -- a first lifetime that begins one block above the configured start (block 3 never handled)
    P05 ⟨.btc, 1, 1, 1⟩ ⟨3, false, false, 0⟩ none [[(⟨some 9, none, true⟩, none)]]
      [(some 4, [⟨some 9, [⟨0, 4, 4⟩], some (4, true)⟩])] = false := by decide

/-- non-vacuity of the theorem: two lifetimes, a handler failure, a store failure, a death after the handlers ran
    but before the store write; the restart re-scans from the persisted cursor 4 -/
example :
    runAll ⟨.evm, 2, 1, 2⟩ ⟨3, false, false, 0⟩ none
      [[(⟨some 9, none, true⟩, none), (⟨some 9, some 1, true⟩, none), (⟨some 9, none, false⟩, none), (⟨some 9, none, true⟩, some 2)],
       [(⟨some 19, none, true⟩, none)]]
    = [(some 2, [⟨some 9, [⟨0, 2, 3⟩, ⟨1, 2, 3⟩], some (4, true)⟩, ⟨some 9, [⟨0, 4, 5⟩, ⟨1, 4, 5⟩], none⟩,
                 ⟨some 9, [⟨0, 4, 5⟩, ⟨1, 4, 5⟩], some (6, false)⟩, ⟨some 9, [⟨0, 6, 7⟩, ⟨1, 6, 7⟩], none⟩]),
       (some 4, [⟨some 19, [⟨0, 4, 5⟩, ⟨1, 4, 5⟩], some (6, true)⟩])] ∧ WF ⟨.evm, 2, 1, 2⟩ := by
  refine ⟨by decide, by unfold WF; decide⟩

end Property
end Sygma.C05
