import SygmaModel.Model.C05
namespace Sygma.C05
end Sygma.C05
