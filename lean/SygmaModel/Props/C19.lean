/-
  C19 — independent relayers derive identical identifiers for the same chain data (DESIGN.md 5.19).

  Proved, for ALL start configurations (configured start, `latest`/`fresh`, boot head, initial store content),
  ALL histories (any number of lifetimes, heads, RPC/handler/store failures, process deaths) and any interval k ≥ 1:
    (a) `runAll_aligned`: every range handed to a handler is a cell `[k·q, k·q + k − 1]` of the partition fixed by
        the interval alone (BTC: a single block); `two_relayers_same_range`: two relayers — whatever their
        configurations and histories — that both scan a block scan it in the SAME range, hence derive the same
        message id (`same_message_id`) and the same session ids (`same_session_id`); `runAll_rangesOk` is the
        predicate the driver evaluates on two real listener stacks;
    (b) `groupLoop_lookup`: the append-to-map loop of `ProcessDeposits` yields, per destination, exactly the
        surviving deposits to that destination in log order — a function of the chain data alone;
    (c) `credit_order_independent`: with resources tried in resource-id order (the repaired code) the credited
        resource does not depend on the order in which the map hands out the resources (any permutation).
  Assumed / partial: the Bitcoin nonce is a function of (height, tx hash) only — checked on the real code by
  comparing differently configured handlers with an independent computation (op `btcnonce`), SHA-256 itself is not
  modelled; `sort.Slice` is modelled as "some sorting function" (`List.mergeSort`), the theorem only uses that its
  result is a sorted permutation; Go's `%d` printing is tied by the differential runs.
-/
import SygmaModel.Model.C19
import SygmaModel.Props.C14
import SygmaModel.Props.C05
namespace Sygma.C19
open Sygma.C04 Sygma.C05

section Helpers

theorem align_mod (s k : Int) : align s k % k = 0 := by
  rw [align_eq]; exact Int.mul_emod_right k (s / k)

/-- a block lies in at most one cell -/
theorem cell_unique (k s1 s2 b : Int) (_hk : 0 < k) (h1 : s1 % k = 0) (h2 : s2 % k = 0)
    (l1 : s1 ≤ b) (u1 : b < s1 + k) (l2 : s2 ≤ b) (u2 : b < s2 + k) : s1 = s2 := by
  obtain ⟨q1, rfl⟩ := Int.dvd_of_emod_eq_zero h1
  obtain ⟨q2, rfl⟩ := Int.dvd_of_emod_eq_zero h2
  have e1 : b % k = b - k * q1 := by
    have : b = (b - k * q1) + k * q1 := by omega
    rw [this, Int.add_mul_emod_self_left]
    rw [Int.emod_eq_of_lt (by omega) (by omega)]; omega
  have e2 : b % k = b - k * q2 := by
    have : b = (b - k * q2) + k * q2 := by omega
    rw [this, Int.add_mul_emod_self_left]
    rw [Int.emod_eq_of_lt (by omega) (by omega)]; omega
  omega

/-- the cursor of an EVM/Substrate loop is a multiple of the interval -/
def CurAligned (cfg : Cfg) (cur : Option Int) : Prop :=
  cfg.kind ≠ .btc → ∃ c, cur = some c ∧ c % cfg.k = 0

def AlignedObs (cfg : Cfg) (o : Obs) : Prop := ∀ x ∈ o.calls, alignedCall cfg x

theorem callsUpTo_aligned (cfg : Cfg) (c : Int) (m : Nat) (hc : cfg.kind ≠ .btc → c % cfg.k = 0) :
    ∀ x ∈ callsUpTo cfg c m, alignedCall cfg x := by
  intro x hx
  obtain ⟨hs, he⟩ := callsUpTo_mem cfg c m x hx
  unfold alignedCall
  cases hk : cfg.kind
  · simp [hs, he, Cfg.last, Cfg.stride, hk]
  · simp only; rw [hs, he]; exact ⟨hc (by simp [hk]), by simp [Cfg.last, Cfg.stride, hk]⟩
  · simp only; rw [hs, he]; exact ⟨hc (by simp [hk]), by simp [Cfg.last, Cfg.stride, hk]⟩

theorem step_aligned (cfg : Cfg) (cur : Option Int) (r : Round) (hcur : CurAligned cfg cur) :
    AlignedObs cfg (step cfg cur r).2 ∧ (∀ n, AlignedObs cfg (truncate n (step cfg cur r).2)) ∧
    CurAligned cfg (step cfg cur r).1 := by
  obtain ⟨c, m, st, hobs, hc0, _, hnext, _⟩ := step_shape cfg cur r
  have hc : cfg.kind ≠ .btc → c % cfg.k = 0 := by
    intro hk
    obtain ⟨c0, h0, hm⟩ := hcur hk
    rw [hc0 c0 h0]; exact hm
  have hal := callsUpTo_aligned cfg c m hc
  refine ⟨by intro x hx; rw [hobs] at hx; exact hal x hx, ?_, ?_⟩
  · intro n x hx
    rw [hobs] at hx
    exact hal x (List.mem_of_mem_take hx)
  · intro hk
    rw [hnext]
    have hstride : cfg.stride = cfg.k := by unfold Cfg.stride; cases h : cfg.kind <;> simp_all
    split
    · exact ⟨_, rfl, by rw [hstride, Int.add_emod_right]; exact hc hk⟩
    · split
      · exact ⟨_, rfl, hc hk⟩
      · exact hcur hk

theorem runLife_aligned (cfg : Cfg) (l : List SRound) :
    ∀ (cur stored : Option Int), CurAligned cfg cur → ∀ o ∈ (runLife cfg cur stored l).1, AlignedObs cfg o := by
  induction l with
  | nil => intro cur stored _ o ho; simp [runLife] at ho
  | cons x rs ih =>
    intro cur stored hcur o ho
    obtain ⟨r, crash⟩ := x
    obtain ⟨h1, h2, h3⟩ := step_aligned cfg cur r hcur
    cases crash with
    | some n =>
      simp only [runLife, List.mem_singleton] at ho
      subst ho; exact h2 n
    | none =>
      simp only [runLife, List.mem_cons] at ho
      rcases ho with rfl | ho
      · exact h1
      · exact ih _ _ h3 o ho

theorem startOf_aligned (cfg : Cfg) (w : Wiring) (stored : Option Int) : CurAligned cfg (startOf cfg w stored) := by
  intro hk
  unfold startOf
  cases h : cfg.kind
  · exact absurd h hk
  · exact ⟨_, rfl, align_mod _ _⟩
  · exact ⟨_, rfl, align_mod _ _⟩

theorem mem_histCalls (h : List (Option Int × List Obs)) (x : Call) :
    x ∈ histCalls h ↔ ∃ l ∈ h, ∃ o ∈ l.2, x ∈ o.calls := by
  simp [histCalls, List.mem_flatMap]

theorem appendAt_lookup (m : List (Nat × List (Nat × String))) (d d' : Nat) (x : Nat × String) :
    lookupD (appendAt m d x) d' = if d' = d then lookupD m d ++ [x] else lookupD m d' := by
  induction m with
  | nil =>
    by_cases h : d' = d
    · subst h; simp [appendAt, lookupD]
    · have : ¬ d = d' := fun e => h e.symm
      simp [appendAt, lookupD, h, this]
  | cons kv rest ih =>
    obtain ⟨k, v⟩ := kv
    by_cases hk : k = d
    · subst hk
      by_cases h : d' = k
      · subst h; simp [appendAt, lookupD]
      · have h' : ¬ k = d' := fun e => h e.symm
        simp [appendAt, lookupD, h, h']
    · by_cases h : d' = d
      · subst h
        have : ¬ k = d' := hk
        simp [appendAt, lookupD, this, ih]
      · by_cases hk' : k = d'
        · simp [appendAt, lookupD, hk, hk', h]
        · simp [appendAt, lookupD, hk, hk', h, ih]

end Helpers

section Property

/-- **(a) ranges are cells.** Every range handed to a handler, in any lifetime of any history under any wiring,
    starts at a multiple of the interval and spans exactly one interval (BTC: one block). -/
theorem runAll_aligned (cfg : Cfg) (w : Wiring) (lifes : List (List SRound)) :
    ∀ (stored : Option Int), ∀ x ∈ histCalls (runAll cfg w stored lifes), alignedCall cfg x := by
  induction lifes with
  | nil => intro stored x hx; simp [runAll, histCalls] at hx
  | cons l ls ih =>
    intro stored x hx
    rw [mem_histCalls] at hx
    obtain ⟨lf, hlf, o, ho, hxo⟩ := hx
    simp only [runAll, List.mem_cons] at hlf
    rcases hlf with rfl | hlf
    · exact runLife_aligned cfg l _ _ (startOf_aligned cfg w stored) o ho x hxo
    · exact ih _ x ((mem_histCalls _ _).2 ⟨lf, hlf, o, ho, hxo⟩)

/-- two cells of the same partition that share a block coincide -/
theorem same_cell (cfg : Cfg) (hk : cfg.kind ≠ .btc → 0 < cfg.k) (c1 c2 : Call)
    (a1 : alignedCall cfg c1) (a2 : alignedCall cfg c2) (b : Int)
    (h1 : c1.s ≤ b ∧ b ≤ c1.e) (h2 : c2.s ≤ b ∧ b ≤ c2.e) : c1.s = c2.s ∧ c1.e = c2.e := by
  unfold alignedCall at a1 a2
  cases hkind : cfg.kind
  · simp [hkind] at a1 a2; omega
  all_goals
    simp [hkind] at a1 a2
    have hk' := hk (by simp [hkind])
    have := cell_unique cfg.k c1.s c2.s b hk' a1.1 a2.1 (by omega) (by omega) (by omega) (by omega)
    omega

/-- **(a) two relayers.** Relayers A and B run the same kind of chain with the same interval `k ≥ 1`; everything
    else (confirmations, handlers, configured start, flags, boot head, store content, lifetimes, faults) is
    arbitrary and independent. If both hand a block `b` to a handler, they do so in the same range. -/
theorem two_relayers_same_range (cfgA cfgB : Cfg) (hkind : cfgA.kind = cfgB.kind) (hk : cfgA.k = cfgB.k)
    (hpos : cfgA.kind ≠ .btc → 0 < cfgA.k)
    (wA wB : Wiring) (stA stB : Option Int) (lsA lsB : List (List SRound))
    (c1 c2 : Call) (h1 : c1 ∈ histCalls (runAll cfgA wA stA lsA)) (h2 : c2 ∈ histCalls (runAll cfgB wB stB lsB))
    (b : Int) (hb1 : c1.s ≤ b ∧ b ≤ c1.e) (hb2 : c2.s ≤ b ∧ b ≤ c2.e) : c1.s = c2.s ∧ c1.e = c2.e := by
  have a1 := runAll_aligned cfgA wA lsA stA c1 h1
  have a2 := runAll_aligned cfgB wB lsB stB c2 h2
  have a2' : alignedCall cfgA c2 := by
    unfold alignedCall at a2 ⊢; rw [hkind, hk]; exact a2
  exact same_cell cfgA hpos c1 c2 a1 a2' b hb1 hb2

/-- hence the same message id for any deposit in that block (the id is a function of source, destination, range) -/
theorem same_message_id (cfgA cfgB : Cfg) (hkind : cfgA.kind = cfgB.kind) (hk : cfgA.k = cfgB.k)
    (hpos : cfgA.kind ≠ .btc → 0 < cfgA.k)
    (wA wB : Wiring) (stA stB : Option Int) (lsA lsB : List (List SRound))
    (c1 c2 : Call) (h1 : c1 ∈ histCalls (runAll cfgA wA stA lsA)) (h2 : c2 ∈ histCalls (runAll cfgB wB stB lsB))
    (b : Int) (hb1 : c1.s ≤ b ∧ b ≤ c1.e) (hb2 : c2.s ≤ b ∧ b ≤ c2.e) (src dest : Nat) :
    msgId src dest c1.s c1.e = msgId src dest c2.s c2.e ∧
    retryMsgId src dest c1.s c1.e = retryMsgId src dest c2.s c2.e := by
  obtain ⟨e1, e2⟩ := two_relayers_same_range cfgA cfgB hkind hk hpos wA wB stA stB lsA lsB c1 c2 h1 h2 b hb1 hb2
  rw [e1, e2]; exact ⟨rfl, rfl⟩

/-- the retry ids are the deposit ids under a constant prefix — the same function of (source, destination, range) -/
theorem retryMsgId_eq (src dest : Nat) (s e : Int) : retryMsgId src dest s e = "retry-" ++ msgId src dest s e := by
  simp [retryMsgId, msgId, String.append_assoc]; rfl

/-- DEFINITIONAL (each conjunct holds by `rfl` once equal inputs are substituted; the first is `x = x`): recorded only
    to display the argument lists of the formatters.
    RetryV2 ids, Substrate session ids and BTC per-input session ids have no argument a relayer could disagree on:
    they are functions of the retry event / the delivery's message id / the input's sighash alone. Two relayers that
    see the same event, derive the same message id (`same_message_id`) or build the same transaction therefore
    derive the same identifiers. -/
theorem same_derived_ids (src dest : Nat) (m1 m2 h1 h2 : String) (hm : m1 = m2) (hh : h1 = h2) :
    retryV2MsgId src dest = retryV2MsgId src dest ∧ subSessionId m1 = subSessionId m2 ∧
    btcInputSessionId h1 = btcInputSessionId h2 ∧ (∀ r, btcSessionId m1 r = btcSessionId m2 r) := by
  subst hm; subst hh; exact ⟨rfl, rfl, rfl, fun _ => rfl⟩

/-- Substrate: two relayers that both scan block `b` sign the resulting delivery under the same session id -/
theorem same_sub_session_id (cfgA cfgB : Cfg) (hkind : cfgA.kind = cfgB.kind) (hk : cfgA.k = cfgB.k)
    (hpos : cfgA.kind ≠ .btc → 0 < cfgA.k)
    (wA wB : Wiring) (stA stB : Option Int) (lsA lsB : List (List SRound))
    (c1 c2 : Call) (h1 : c1 ∈ histCalls (runAll cfgA wA stA lsA)) (h2 : c2 ∈ histCalls (runAll cfgB wB stB lsB))
    (b : Int) (hb1 : c1.s ≤ b ∧ b ≤ c1.e) (hb2 : c2.s ≤ b ∧ b ≤ c2.e) (src dest : Nat) :
    subSessionId (msgId src dest c1.s c1.e) = subSessionId (msgId src dest c2.s c2.e) := by
  rw [(same_message_id cfgA cfgB hkind hk hpos wA wB stA stB lsA lsB c1 c2 h1 h2 b hb1 hb2 src dest).1]

/-- DEFINITIONAL (congruence of the formatters): … and the same signing session ids (batch index / resource id appended to
    the message id). NOTE for the EVM executor: the batch index of a proposal — hence its session id — also depends on
    the relayer's OWN `IsProposalExecuted` answers and on its gas configuration (cap, transfer gas); two relayers agree
    on session ids only if those agree (see `evm_session_ids_agree`, which assumes them equal). -/
theorem same_session_id (m1 m2 : String) (h : m1 = m2) (i : Nat) (r : String) :
    evmSessionId m1 i = evmSessionId m2 i ∧ btcSessionId m1 r = btcSessionId m2 r := by
  subst h; exact ⟨rfl, rfl⟩

/-- the driver's predicate on two relayers' histories holds for the model -/
theorem runAll_rangesOk (cfgA cfgB : Cfg) (hkind : cfgA.kind = cfgB.kind) (hk : cfgA.k = cfgB.k)
    (hpos : cfgA.kind ≠ .btc → 0 < cfgA.k)
    (wA wB : Wiring) (stA stB : Option Int) (lsA lsB : List (List SRound)) :
    rangesOk cfgA (runAll cfgA wA stA lsA) (runAll cfgB wB stB lsB) = true := by
  have hB : ∀ x ∈ histCalls (runAll cfgB wB stB lsB), alignedCall cfgA x := by
    intro x hx
    have := runAll_aligned cfgB wB lsB stB x hx
    unfold alignedCall at this ⊢; rw [hkind, hk]; exact this
  unfold rangesOk
  simp only [Bool.and_eq_true, List.all_eq_true, List.mem_append, decide_eq_true_eq]
  refine ⟨?_, ?_⟩
  · intro x hx
    rcases hx with hx | hx
    · exact runAll_aligned cfgA wA lsA stA x hx
    · exact hB x hx
  · intro c1 h1 c2 h2
    unfold agree
    split
    · next hov =>
      have hov := of_decide_eq_true hov
      have a1 := runAll_aligned cfgA wA lsA stA c1 h1
      have a2 := hB c2 h2
      -- a common block: the larger of the two starts
      have hs1 : c1.s ≤ c1.e := by
        unfold alignedCall at a1; cases hkd : cfgA.kind <;> simp [hkd] at a1 <;> have := hpos <;> simp [hkd] at this <;> omega
      have hs2 : c2.s ≤ c2.e := by
        unfold alignedCall at a2; cases hkd : cfgA.kind <;> simp [hkd] at a2 <;> have := hpos <;> simp [hkd] at this <;> omega
      by_cases hle : c1.s ≤ c2.s
      · exact decide_eq_true (same_cell cfgA hpos c1 c2 a1 a2 c2.s ⟨hle, hov.2⟩ ⟨by omega, hs2⟩)
      · exact decide_eq_true (same_cell cfgA hpos c1 c2 a1 a2 c1.s ⟨by omega, hs1⟩ ⟨by omega, hov.1⟩)
    · rfl

/-- **(b) grouping.** The append-to-map loop yields per destination exactly the surviving deposits to that
    destination, in log order, each under the range's message id. -/
theorem groupLoop_lookup (src : Nat) (s e : Int) (ds : List Dep) (d : Nat) :
    lookupD (groupLoop src s e ds) d = groupOf src s e ds d := by
  unfold groupLoop groupOf
  suffices h : ∀ (m : List (Nat × List (Nat × String))),
      lookupD (ds.foldl (fun m x => if x.fails then m else appendAt m x.dest (x.nonce, msgId src x.dest s e)) m) d
        = lookupD m d ++ (ds.filter fun x => !x.fails && x.dest == d).map fun x => (x.nonce, msgId src d s e) by
    simpa [lookupD] using h []
  induction ds with
  | nil => intro m; simp
  | cons x xs ih =>
    intro m
    simp only [List.foldl_cons]
    rw [ih]
    cases hf : x.fails
    · simp only [Bool.false_eq_true, if_false, appendAt_lookup]
      by_cases hd : d = x.dest
      · subst hd; simp [List.filter_cons, hf]
      · have : (x.dest == d) = false := by simp; exact fun e => hd e.symm
        simp [List.filter_cons, hf, hd, this]
    · simp [List.filter_cons, hf]

/-- sorting by resource id erases the order in which the map handed out the resources -/
theorem sortRes_perm (rs1 rs2 : List Res) (hp : rs1.Perm rs2)
    (hid : ∀ a ∈ rs1, ∀ b ∈ rs1, a.id = b.id → a = b) : sortRes rs1 = sortRes rs2 := by
  unfold sortRes
  have htrans : ∀ a b c : Res, resLe a b = true → resLe b c = true → resLe a c = true := by
    intro a b c h1 h2; simp [resLe] at *; omega
  have htotal : ∀ a b : Res, (resLe a b || resLe b a) = true := by
    intro a b; simp [resLe]; omega
  apply List.Perm.eq_of_pairwise (le := fun a b => resLe a b = true)
  · intro a b ha hb h1 h2
    have ha' : a ∈ rs1 := (List.mergeSort_perm rs1 resLe).mem_iff.1 ha
    have hb' : b ∈ rs1 := hp.mem_iff.2 ((List.mergeSort_perm rs2 resLe).mem_iff.1 hb)
    simp [resLe] at h1 h2
    exact hid a ha' b hb' (by omega)
  · exact List.pairwise_mergeSort htrans htotal rs1
  · exact List.pairwise_mergeSort htrans htotal rs2
  · exact (List.mergeSort_perm rs1 resLe).trans (hp.trans (List.mergeSort_perm rs2 resLe).symm)

/-- **(c) credit.** Whatever order the resources map is iterated in (any permutation of the configured resources,
    whose ids are distinct map keys), a transaction is credited to the same resource with the same amount, and a
    block yields the same messages. -/
theorem credit_order_independent (feeAddr : Nat) (rs1 rs2 : List Res) (hp : rs1.Perm rs2)
    (hid : ∀ a ∈ rs1, ∀ b ∈ rs1, a.id = b.id → a = b) (tx : Tx) (src : Nat) (block : Int) (txs : List Tx) :
    credit feeAddr (sortRes rs1) tx = credit feeAddr (sortRes rs2) tx ∧
    btcBlock src block feeAddr rs1 txs = btcBlock src block feeAddr rs2 txs := by
  unfold btcBlock
  rw [sortRes_perm rs1 rs2 hp hid]; exact ⟨rfl, rfl⟩

/-- the excluded point, stated: WITHOUT the sort (the code as found) the order matters — a transaction paying the
    addresses of two resources is credited to whichever comes first -/
theorem unsorted_order_matters :
    credit 5 [⟨1, 0, 1⟩, ⟨2, 1, 1⟩] ⟨.dest 3, [⟨0, 2, true⟩, ⟨1, 3, true⟩, ⟨5, 1, true⟩]⟩ ≠
    credit 5 [⟨2, 1, 1⟩, ⟨1, 0, 1⟩] ⟨.dest 3, [⟨0, 2, true⟩, ⟨1, 3, true⟩, ⟨5, 1, true⟩]⟩ := by decide

/-- non-vacuity: two differently configured relayers (starts 3 and 11, the second restarted after a crash) overlap
    on range [10,14] -/
example :
    histCalls (runAll ⟨.evm, 5, 1, 1⟩ ⟨3, false, false, 0⟩ none [[(⟨some 30, none, true⟩, none), (⟨some 30, none, true⟩, none), (⟨some 30, none, true⟩, none)]])
      = [⟨0, 0, 4⟩, ⟨0, 5, 9⟩, ⟨0, 10, 14⟩] ∧
    histCalls (runAll ⟨.evm, 5, 2, 1⟩ ⟨11, false, false, 0⟩ none [[(⟨some 30, none, true⟩, some 1)], [(⟨some 30, none, true⟩, none)]])
      = [⟨0, 10, 14⟩, ⟨0, 10, 14⟩] := by decide

example : groupLoop 1 10 14 [⟨2, 0, false⟩, ⟨3, 1, false⟩, ⟨2, 2, true⟩, ⟨2, 3, false⟩]
    = [(2, [(0, "1-2-10-14"), (3, "1-2-10-14")]), (3, [(1, "1-3-10-14")])] := by decide

/-- **session ids of the EVM executor.** The first conjunct (`a = b`) is DEFINITIONAL — both sides are the same term: it
    only records that `signed` has no other inputs; the content is the distinctness and partition conjuncts (from C14).
    Two relayers that are handed the same delivery (same message id, same
    proposals, same executed answers, same gas configuration) sign the same batches under the same session ids:
    `signed` is a function of exactly these inputs, its ids are pairwise distinct and positional (C14). What ties the
    real `Execute` to this function — in particular that the id is built from the batch's OWN index and not from shared
    loop state — is the `evmsession` correspondence op. -/
theorem evm_session_ids_agree (m : String) (cap tg : Nat) (ps : List Sygma.C14.PIn)
    (hno : Sygma.C14.NoOverflow (Sygma.C14.pending tg ps)) :
    let a := Sygma.C14.signed m (Sygma.C14.batches cap tg ps)   -- relayer A
    let b := Sygma.C14.signed m (Sygma.C14.batches cap tg ps)   -- relayer B, same delivery
    a = b ∧ (a.map (·.1)).Nodup ∧ (a.map (·.2)).flatten = (Sygma.C14.pending tg ps).map (·.1) := by
  refine ⟨rfl, Sygma.C14.signed_sids_nodup _ _, ?_⟩
  exact (Sygma.C14.signed_partition cap tg ps m hno).1

end Property
end Sygma.C19
