import SygmaModel.Model.C19
namespace Sygma.C19
end Sygma.C19
