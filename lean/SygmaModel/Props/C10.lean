/-
  C10 — property theorems (DESIGN.md 5.10).

  What is modelled: the lock-relevant events of constructor / Run / Stop of the six MPC process kinds (a table that
  Oblig/C10.lean proves equal to the one REGENERATED from the Go sources on every run), every path through each of
  them (any conditional return may be taken), and which of them the coordinator performs for each session outcome.
  What is assumed: `sync.Mutex` semantics as modelled (unlock at 0 fatal, lock at 1 blocks); the coordinator calls
  constructor → Execute → (Run)? → Stop exactly as modelled in C09 (tied by running the real Coordinator.Execute with
  real process objects for every cell); other relayers' sessions do not share this relayer's store.
  Retry rounds: `handleError` is not recursive, so a session makes at most two attempts (`retried_balanced`).
  Partial: a cancellation that races with `Party.Start()` can leave `Run` blocked on its out channel for ever (then
  neither the deferred unlock nor Stop is reached) — recorded as a known finding, outside this table model.
-/
import SygmaModel.Model.C10
namespace Sygma.C10

section Property

/-- **C10 (table).** For every process kind and every session outcome, on EVERY path (whichever conditional return
    the constructor, Run or Stop takes), starting with the lock free: the lock is free again at the end, it was
    released exactly as often as taken, never released while free (fatal), never taken while held (self-deadlock),
    and the share was never accessed without it. -/
theorem table_balanced (k : Kind) (o : Outcome) : ∀ d ∈ sessionFrom true (table k) o 0, Balanced d := by
  cases k <;> cases o <;> decide

/-- key generation and resharing hold the lock while the protocol runs; signing has released it by then (it reads
    the share under the lock inside its constructor only) -/
theorem runs_under_lock (k : Kind) : ∀ d ∈ sessionFrom true (table k) .ran 0, RunsUnderLock k d := by
  cases k <;> decide

/-- signing reads the share, and reads it under the lock -/
theorem signing_reads_under_lock (k : Kind) (hk : k.exclusive = false) (o : Outcome) :
    ∀ d ∈ sessionFrom true (table k) o 0, d.accL = 1 ∧ d.accU = 0 := by
  cases k <;> simp [Kind.exclusive] at hk <;> cases o <;> decide

/-- non-vacuity of the table theorem: every cell that can occur has at least one path (the constructor can refuse
    only for the signing kinds) -/
theorem cells_inhabited (k : Kind) (o : Outcome) :
    sessionFrom true (table k) o 0 ≠ [] ∨ (o = .ctorerr ∧ k.exclusive = true) := by
  cases k <;> cases o <;> decide

/-- **C10 (constructor failed).** Whichever error exit a constructor takes after it took the lock (share unreadable;
    for FROST signing also: tweak not hex, not a scalar, derivation fails), the lock is balanced at that point - no
    process object exists afterwards, so nothing would ever release it later. -/
theorem constructor_failure_balanced (k : Kind) :
    ∀ p ∈ pathsOf (table k).ctor .ctorErr, Balanced (activation p (Delta.start 0)) := by
  cases k <;> decide

/-- non-vacuity: the error exits the table knows - one in ECDSA signing, four in FROST signing, none elsewhere -/
example : (Kind.all.map fun k => (pathsOf (table k).ctor .ctorErr).length) = [0, 0, 0, 0, 1, 4] := by decide

/-- the class re-derived: with an explicit release instead of the deferred one, an error exit that precedes it
    leaves the lock held (the table itself is regenerated from the source, so such an edit also breaks `gen_table`) -/
theorem missed_exit_leaks :
    ∃ p ∈ pathsOf [.L, .G, .rete, .U, .fin] .ctorErr, (activation p (Delta.start 0)).held = 1 := by decide

/-- **C10 (lock busy).** If somebody else holds the lock when a session wants it - whatever the session's outcome,
    cancellation while it waits included - the session takes it after the holder's release and the store ends
    balanced; nobody is left queued for the lock. -/
theorem busy_balanced (k : Kind) (o : Outcome) : ∀ d ∈ busyFrom (table k) o, Balanced d := by
  cases k <;> cases o <;> decide

/-- the class re-derived: a lock acquisition that outlives its `Run` (taken in a helper goroutine whose owner has
    already returned on ctx.Done) is never paired with a release -/
theorem orphan_acquisition_leaks : (holder.add (activation [.L] (Delta.start 0))).held = 1 := by decide

/-- **C10 (entry points).** The event handlers add nothing to the session they start: for every kind and outcome the
    store is balanced after `HandleEvents`; the seeded variant that stops a failed process once more releases twice. -/
theorem handlers_balanced (k : Kind) (o : Outcome) : ∀ d ∈ handlerFrom false (table k) o 0, Balanced d := by
  cases k <;> cases o <;> decide

theorem extra_stop_double_release : ∃ d ∈ handlerFrom true (table .fkeygen) .never 0, d.fatal = 1 := by decide

/-- a session that `Execute` leaves without stopping its processes (e.g. on an early return for an already cancelled
    context) keeps what the constructor took -/
theorem unstopped_constructor_leaks :
    ∃ d ∈ andThen [Delta.start 0] (pathsOf (table .eresharing).ctor .full), d.held = 1 := by decide

/-- **C10 (retried sessions).** With the retry rounds reachable through `Execute` (handleError classifies joined
    errors): constructor, TWO activations of `Run` on the same object - each leaving at any conditional return or
    running the protocol - and one `Stop`, on every combination of paths and for every kind (only the signing kinds
    are retryable in the repository; the statement does not need that): the lock is balanced. -/
theorem retried_balanced (k : Kind) : ∀ d ∈ retriedFrom (table k) 0, Balanced d := by
  cases k <;> decide

/-- non-vacuity: 36 path combinations for ECDSA signing, 16 for FROST signing -/
example : (retriedFrom (table .esigning) 0).length = 36 ∧ (retriedFrom (table .fsigning) 0).length = 16 := by decide

/-- **C10 (sequences).** Any sequence of sessions of any kinds with any outcomes on one store, every path: the
    accumulated effect is balanced — so no later session finds the lock leaked, and the relayer never aborts. -/
theorem sequences_balanced (seq : List (Kind × Outcome)) :
    ∀ d ∈ sequenceFrom table true seq 0, Balanced d := by
  induction seq with
  | nil => intro d hd; simp [sequenceFrom] at hd; subst hd; decide
  | cons x xs ih =>
    obtain ⟨k, o⟩ := x
    intro d hd
    simp only [sequenceFrom, List.mem_flatMap, List.mem_map] at hd
    obtain ⟨d1, h1, e, he, rfl⟩ := hd
    have b1 := table_balanced k o d1 h1
    rw [b1.1] at he
    have b2 := ih e he
    obtain ⟨a1, a2, a3, a4, a5, a6⟩ := b1
    obtain ⟨c1, c2, c3, c4, c5, c6⟩ := b2
    refine ⟨c1, ?_, ?_, ?_, ?_, ?_⟩ <;> simp [Delta.add, *]

/-- the two defects the table model re-derives (both repaired; their cells are corpus lines):
    as found, an ECDSA keygen that never started ended in an unlock of an unlocked mutex … -/
theorem asfound_keygen_fatal : ∃ d ∈ sessionFrom true asFoundEkeygen .never 0, d.fatal = 1 := by decide

/-- … and a refused duplicate of a constructor-locking kind kept the lock for ever -/
theorem asfound_refusal_leaks : ∃ d ∈ sessionFrom false (table .fkeygen) .refused 0, d.held = 1 := by decide

/-- non-vacuity: a resharing that ran, a refused FROST keygen, a signing whose start parameters were rejected and an
    ECDSA keygen that never started, in a row: 3 locks, 3 unlocks -/
example : (sequenceFrom table true [(.eresharing, .ran), (.fkeygen, .refused), (.esigning, .rejected), (.ekeygen, .never)] 0).all
    (fun d => d.locks = 3 ∧ d.unlocks = 3 ∧ d.held = 0) = true := by decide

end Property
end Sygma.C10
