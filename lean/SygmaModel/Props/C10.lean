/-
  C10 — property theorems (DESIGN.md 5.10).

  What is modelled: the lock-relevant events of constructor / Run / Stop of the six MPC process kinds (a table that
  Oblig/C10.lean proves equal to the one REGENERATED from the Go sources on every run), every path through each of
  them (any conditional return may be taken), and which of them the coordinator performs for each session outcome.
  What is assumed: `sync.Mutex` semantics as modelled (unlock at 0 fatal, lock at 1 blocks); the coordinator calls
  constructor → Execute → (Run)? → Stop exactly as modelled in C09 (tied by running the real Coordinator.Execute with
  real process objects for every cell); other relayers' sessions do not share this relayer's store.
  Retry rounds: `handleError` is not recursive, so a session makes at most two attempts (`retried_balanced`).
  Partial: a cancellation that races with `Party.Start()` can leave `Run` blocked on its out channel for ever (then
  neither the deferred unlock nor Stop is reached) — recorded as a known finding, outside this table model.
-/
import SygmaModel.Model.C10
namespace Sygma.C10

section Property

/-- **C10 (table).** For every process kind and every session outcome, on EVERY path (whichever conditional return
    the constructor, Run or Stop takes), starting with the lock free: the lock is free again at the end, it was
    released exactly as often as taken, never released while free (fatal), never taken while held (self-deadlock),
    and the share was never accessed without it. -/
theorem table_balanced (k : Kind) (o : Outcome) : ∀ d ∈ sessionFrom true (table k) o 0, Balanced d := by
  cases k <;> cases o <;> decide

/-- key generation and resharing hold the lock while the protocol runs; signing has released it by then (it reads
    the share under the lock inside its constructor only) -/
theorem runs_under_lock (k : Kind) : ∀ d ∈ sessionFrom true (table k) .ran 0, RunsUnderLock k d := by
  cases k <;> decide

/-- signing reads the share, and reads it under the lock -/
theorem signing_reads_under_lock (k : Kind) (hk : k.exclusive = false) (o : Outcome) :
    ∀ d ∈ sessionFrom true (table k) o 0, d.accL = 1 ∧ d.accU = 0 := by
  cases k <;> simp [Kind.exclusive] at hk <;> cases o <;> decide

/-- non-vacuity of the table theorem: every cell that can occur has at least one path (the constructor can refuse
    only for the signing kinds) -/
theorem cells_inhabited (k : Kind) (o : Outcome) :
    sessionFrom true (table k) o 0 ≠ [] ∨ (o = .ctorerr ∧ k.exclusive = true) := by
  cases k <;> cases o <;> decide

/-- **C10 (constructor failed).** Whichever error exit a constructor takes after it took the lock (share unreadable;
    for FROST signing also: tweak not hex, not a scalar, derivation fails), the lock is balanced at that point - no
    process object exists afterwards, so nothing would ever release it later. -/
theorem constructor_failure_balanced (k : Kind) :
    ∀ p ∈ pathsOf (table k).ctor .ctorErr, Balanced (activation p (Delta.start 0)) := by
  cases k <;> decide

/-- non-vacuity: the error exits the table knows - one in ECDSA signing, four in FROST signing, none elsewhere -/
example : (Kind.all.map fun k => (pathsOf (table k).ctor .ctorErr).length) = [0, 0, 0, 0, 1, 4] := by decide

/-- the class re-derived: with an explicit release instead of the deferred one, an error exit that precedes it
    leaves the lock held (the table itself is regenerated from the source, so such an edit also breaks `gen_table`) -/
theorem missed_exit_leaks :
    ∃ p ∈ pathsOf [.L, .G, .rete, .U, .fin] .ctorErr, (activation p (Delta.start 0)).held = 1 := by decide

/-- **C10 (lock held by somebody else).** The session begins while another holder has the lock. Where the session
    asks for it (constructor, or `Run` for ECDSA keygen) it finds it taken and waits - `LockKeyshare` ignores
    cancellation - until the holder releases (assumed to happen). For every kind, outcome and path taken after the
    wait: the store ends balanced, the holder has released, and the session waited at most once. -/
theorem contended_balanced (k : Kind) (o : Outcome) :
    ∀ c ∈ contendedFrom (table k) o, Balanced c.d ∧ c.hHolds = false ∧ c.waited ≤ 1 := by
  cases k <;> cases o <;> decide

/-- non-vacuity: the model really meets the held lock - every kind whose constructor locks waits exactly once, ECDSA
    keygen waits once in `Run` and not at all when it never runs -/
example :
    (contendedFrom (table .fkeygen) .never).all (·.waited = 1) = true ∧
    (contendedFrom (table .esigning) .refused).all (·.waited = 1) = true ∧
    (contendedFrom (table .ekeygen) .rejected).all (·.waited = 1) = true ∧
    (contendedFrom (table .ekeygen) .never).all (·.waited = 0) = true := by decide

/-- the class re-derived: an acquisition that is still queued when its `Run` has already returned (taken in a helper
    goroutine, `Run` left on ctx.Done) completes after the holder's release and is never paired with a release -/
theorem orphan_acquisition_leaks :
    (evStepC (CState.init, 0) .L).1.d.held = 1 ∧ (evStepC (CState.init, 0) .L).1.d.locks = 2 ∧
    (evStepC (CState.init, 0) .L).1.d.unlocks = 1 := by decide

/-- **C10 (exclusive while running, as far as the table sees).** For key generation and resharing no release occurs
    between the start of the protocol (`Wait`) and the end of `Run`; the lock is given back only by a deferred
    unlock at `Run`'s exit or by `Stop`. -/
theorem no_release_while_running (k : Kind) (hk : k.exclusive = true) :
    ∀ p ∈ pathsOf (table k).run .full, noReleaseAfterW p = true := by
  cases k <;> simp [Kind.exclusive] at hk <;> decide

/-- **C10 (entry points).** Oblig/C10 `gen_handlers` establishes from the source that each event handler is
    "constructor, then Execute, nothing in between that can return, no Stop afterwards"; under that fact a handler's
    session IS the session of `table_balanced` (`handlerFrom false` unfolds to `sessionFrom`), so this is a corollary,
    not a new result. The seeded variant that stops a failed process once more releases twice. -/
theorem handlers_balanced (k : Kind) (o : Outcome) : ∀ d ∈ handlerFrom false (table k) o 0, Balanced d :=
  table_balanced k o

theorem extra_stop_double_release : ∃ d ∈ handlerFrom true (table .fkeygen) .never 0, d.fatal = 1 := by decide

/-- a session that `Execute` leaves without stopping its processes (e.g. on an early return for an already cancelled
    context) keeps what the constructor took -/
theorem unstopped_constructor_leaks :
    ∃ d ∈ andThen [Delta.start 0] (pathsOf (table .eresharing).ctor .full), d.held = 1 := by decide

/-- **C10 (sessions of several processes).** A session of any number of processes of any kinds, each on its own store,
    with any outcome after the constructors: every store ends balanced when every process is stopped exactly once. -/
theorem multi_balanced (ks : List Kind) (o : Outcome) :
    ∀ ds ∈ multiFrom table ks o (fun _ _ => 1), ∀ d ∈ ds, Balanced d := by
  have key : ∀ (k : Kind), ∀ d ∈ andThen (afterRun (table k).pset o) (table k).pset.stop, Balanced d := by
    intro k
    cases k <;> cases o <;> decide
  intro ds hds d hd
  simp only [multiFrom, List.mem_map] at hds
  obtain ⟨⟨k, i⟩, _, rfl⟩ := hds
  have h1 : stopTimes (table k).pset 1 (afterRun (table k).pset o) =
      andThen (afterRun (table k).pset o) (table k).pset.stop := by
    simp [stopTimes, List.range_succ]
  rw [h1] at hd
  exact key k d hd

/-- the class re-derived (deferred closures that all capture one loop variable): with two processes the last one is
    stopped twice - a release of a free lock - and the first one never - its lock stays held -/
theorem loop_variable_capture_breaks :
    let r := multiFrom table [.fkeygen, .eresharing] .never (fun i n => if i + 1 = n then n else 0)
    r.map (fun ds => ds.map fun d => (d.held, d.fatal)) = [[(1, 0)], [(0, 1)]] := by decide

/-- **C10 (retried sessions).** With the retry rounds reachable through `Execute` (handleError classifies joined
    errors): constructor, TWO activations of `Run` on the same object - each leaving at any conditional return or
    running the protocol - and one `Stop`, on every combination of paths and for every kind (only the signing kinds
    are retryable in the repository; the statement does not need that): the lock is balanced. -/
theorem retried_balanced (k : Kind) : ∀ d ∈ retriedFrom (table k) 0, Balanced d := by
  cases k <;> decide

/-- non-vacuity: 36 path combinations for ECDSA signing, 16 for FROST signing -/
example : (retriedFrom (table .esigning) 0).length = 36 ∧ (retriedFrom (table .fsigning) 0).length = 16 := by decide

/-- **C10 (sequences).** Any sequence of sessions of any kinds with any outcomes on one store, every path: the
    accumulated effect is balanced — so no later session finds the lock leaked, and the relayer never aborts. -/
theorem sequences_balanced (seq : List (Kind × Outcome)) :
    ∀ d ∈ sequenceFrom table true seq 0, Balanced d := by
  induction seq with
  | nil => intro d hd; simp [sequenceFrom] at hd; subst hd; decide
  | cons x xs ih =>
    obtain ⟨k, o⟩ := x
    intro d hd
    simp only [sequenceFrom, List.mem_flatMap, List.mem_map] at hd
    obtain ⟨d1, h1, e, he, rfl⟩ := hd
    have b1 := table_balanced k o d1 h1
    rw [b1.1] at he
    have b2 := ih e he
    obtain ⟨a1, a2, a3, a4, a5, a6⟩ := b1
    obtain ⟨c1, c2, c3, c4, c5, c6⟩ := b2
    refine ⟨c1, ?_, ?_, ?_, ?_, ?_⟩ <;> simp [Delta.add, *]

/-- the two defects the table model re-derives (both repaired; their cells are corpus lines):
    as found, an ECDSA keygen that never started ended in an unlock of an unlocked mutex … -/
theorem asfound_keygen_fatal : ∃ d ∈ sessionFrom true asFoundEkeygen .never 0, d.fatal = 1 := by decide

/-- … and a refused duplicate of a constructor-locking kind kept the lock for ever -/
theorem asfound_refusal_leaks : ∃ d ∈ sessionFrom false (table .fkeygen) .refused 0, d.held = 1 := by decide

/-- non-vacuity: a resharing that ran, a refused FROST keygen, a signing whose start parameters were rejected and an
    ECDSA keygen that never started, in a row: 3 locks, 3 unlocks -/
example : (sequenceFrom table true [(.eresharing, .ran), (.fkeygen, .refused), (.esigning, .rejected), (.ekeygen, .never)] 0).all
    (fun d => d.locks = 3 ∧ d.unlocks = 3 ∧ d.held = 0) = true := by decide

end Property
end Sygma.C10
