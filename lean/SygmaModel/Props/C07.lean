/-
  C07 — property theorems (DESIGN.md 5.7) about the model in Model/C07.lean.

  Proved, for ALL inputs of the model (any peer type with decidable equality, any key function):
   1. `election_order_agreement` / `coordinator_agreement`: the election order and the static coordinator do not depend
      on the order in which the peers are listed, provided the keys of the listed peers are pairwise distinct
      (excluded point: `key_collision_point` — with two equal keys the listing order decides; for the real key,
      the first 8 bytes of a Keccak-256, that is a 2^-64 event and is an ASSUMPTION, not proved).
   2. `announced_subset_ok`: for every arrival sequence of ready messages (duplicates, non-holders, excluded peers,
      any order) whatever subset `initiate` announces has exactly t+1 distinct members, all key holders that are the
      coordinator itself or reported ready, contains the coordinator and no excluded peer — under `self ∈ holders`,
      `self ∉ excluded` (what the election guarantees: the coordinator is elected among the non-excluded key holders);
      excluded points: `self_excluded_point`, `self_not_holder_point`.
      `announces_when_enough` (liveness side): with t ≥ 1, once t distinct non-excluded key holders other than the
      coordinator are among the ready senders a subset IS announced (excluded point `threshold_zero_point`).
   3. `obeys_only_coordinator`: for every message trace, a relayer with known coordinator `c` sends ready only to `c`
      and at most once per initiate from `c`, runs at most one process and only with the params of a start message
      from `c`, aborts only on a fail / malformed start from `c`; `forged_messages_change_nothing`: deleting every
      message whose sender is not `c` leaves the whole behaviour unchanged (non-interference).
   4. `ticks_change_nothing` / `announced_subset_ok_with_ticks`: re-broadcast ticks of the InitiatePeriod ticker between
      the ready messages change nothing. `retry_follower_obeys_only`: in a retried attempt (waitForStart knows the
      bully-elected coordinator, handleError's fail watcher knows none) the relayer obeys only that coordinator and no
      fail message from anyone aborts it.
  Not modelled here: timers other than the re-broadcast tick (coordinator time-out, TSS time-out — C11), the p2p layer's sender authentication
  (`From` is the noise-authenticated remote peer: trusted, DESIGN 7), peer-id base58 rendering.
-/
import SygmaModel.Model.C07
namespace Sygma.C07

section Helpers
variable {α : Type}

theorem insDesc_perm (key : α → Nat) (a : α) (l : List α) : (insDesc key a l).Perm (a :: l) := by
  induction l with
  | nil => simp [insDesc]
  | cons b l ih =>
    simp only [insDesc]
    split
    · exact List.Perm.refl _
    · exact (List.Perm.cons b ih).trans (List.Perm.swap a b l)

theorem insDesc_sorted (key : α → Nat) (a : α) (l : List α) (h : l.Pairwise (fun x y => key y ≤ key x)) :
    (insDesc key a l).Pairwise (fun x y => key y ≤ key x) := by
  induction l with
  | nil => simp [insDesc]
  | cons b l ih =>
    simp only [insDesc]
    have hb := List.pairwise_cons.1 h
    split
    · next hle =>
      refine List.pairwise_cons.2 ⟨?_, h⟩
      intro y hy
      rcases List.mem_cons.1 hy with rfl | hy
      · exact hle
      · have := hb.1 y hy; omega
    · next hlt =>
      refine List.pairwise_cons.2 ⟨?_, ih hb.2⟩
      intro y hy
      rcases List.mem_cons.1 ((insDesc_perm key a l).mem_iff.1 hy) with rfl | hy
      · omega
      · exact hb.1 y hy

theorem sortDesc_perm (key : α → Nat) (l : List α) : (sortDesc key l).Perm l := by
  induction l with
  | nil => simp [sortDesc]
  | cons a l ih => exact (insDesc_perm key a _).trans (List.Perm.cons a ih)

theorem sortDesc_sorted (key : α → Nat) (l : List α) :
    (sortDesc key l).Pairwise (fun a b => key b ≤ key a) := by
  induction l with
  | nil => simp [sortDesc]
  | cons a l ih => exact insDesc_sorted key a _ ih

variable [DecidableEq α]

theorem mem_readyParticipants {holders rs : List α} {p : α} :
    p ∈ readyParticipants holders rs ↔ p ∈ rs ∧ p ∈ holders := by
  simp [readyParticipants]

theorem readyParticipants_append (holders a b : List α) :
    readyParticipants holders (a ++ b) = readyParticipants holders a ++ readyParticipants holders b := by
  simp [readyParticipants]

/-- invariant of the ready set kept by the loop of `initiate` -/
structure RInv (cfg : ICfg α) (seen rs : List α) : Prop where
  nodup : rs.Nodup
  self  : cfg.self ∈ rs
  src   : ∀ p ∈ rs, p = cfg.self ∨ p ∈ seen
  excl  : ∀ p ∈ rs, p = cfg.self ∨ p ∉ cfg.excluded

omit [DecidableEq α] in
theorem rinv_init (cfg : ICfg α) : RInv cfg [] [cfg.self] := by
  constructor <;> simp

theorem rinv_step (cfg : ICfg α) (seen rs : List α) (p : α) (h : RInv cfg seen rs) :
    RInv cfg (seen ++ [p]) (addReady cfg rs p) := by
  unfold addReady
  split
  · next hc =>
    constructor
    · exact List.nodup_append.2 ⟨h.nodup, by simp, by intro a ha b hb; simp at hb; subst hb; intro e; exact hc.2 (e ▸ ha)⟩
    · simp [h.self]
    · intro q hq
      rcases List.mem_append.1 hq with hq | hq
      · rcases h.src q hq with e | e
        · exact Or.inl e
        · exact Or.inr (List.mem_append.2 (Or.inl e))
      · simp at hq; subst hq; exact Or.inr (by simp)
    · intro q hq
      rcases List.mem_append.1 hq with hq | hq
      · exact h.excl q hq
      · simp at hq; subst hq; exact Or.inr hc.1
  · exact ⟨h.nodup, h.self, fun q hq => (h.src q hq).imp id (fun e => List.mem_append.2 (Or.inl e)), h.excl⟩

/-- whatever `startParams` yields on a ready set satisfying the invariant and `isReady` -/
theorem startParams_ok (key : α → Nat) (cfg : ICfg α) (seen rs : List α) (h : RInv cfg seen rs)
    (hself : cfg.self ∈ cfg.holders) (hex : cfg.self ∉ cfg.excluded) (hr : isReady cfg rs = true) :
    SubsetOk cfg seen (startParams key cfg rs) := by
  have hlen : (readyParticipants cfg.holders rs).length = cfg.t + 1 := by simpa [isReady] using hr
  have hperm := sortDesc_perm key (readyParticipants cfg.holders rs)
  have htake : startParams key cfg rs = sortDesc key (readyParticipants cfg.holders rs) := by
    unfold startParams
    exact List.take_of_length_le (by rw [hperm.length_eq, hlen]; exact Nat.le_refl _)
  have hmem : ∀ p, p ∈ startParams key cfg rs ↔ p ∈ rs ∧ p ∈ cfg.holders := by
    intro p; rw [htake, hperm.mem_iff, mem_readyParticipants]
  refine ⟨?_, ?_, ?_, ?_, ?_, ?_⟩
  · rw [htake, hperm.length_eq, hlen]
  · rw [htake]; exact hperm.nodup_iff.2 (h.nodup.filter _)
  · intro p hp; exact ((hmem p).1 hp).2
  · intro p hp; exact h.src p ((hmem p).1 hp).1
  · exact (hmem _).2 ⟨h.self, hself⟩
  · intro p hp
    rcases h.excl p ((hmem p).1 hp).1 with e | e
    · exact e ▸ hex
    · exact e

omit [DecidableEq α] in
theorem SubsetOk_mono (cfg : ICfg α) (a b S : List α) (hab : ∀ p ∈ a, p ∈ b) (h : SubsetOk cfg a S) :
    SubsetOk cfg b S := by
  obtain ⟨h1, h2, h3, h4, h5, h6⟩ := h
  exact ⟨h1, h2, h3, fun q hq => (h4 q hq).imp id (hab q), h5, h6⟩

theorem initiateFrom_ok (key : α → Nat) (cfg : ICfg α) (hself : cfg.self ∈ cfg.holders) (hex : cfg.self ∉ cfg.excluded)
    (arr seen rs : List α) (n : Nat) (h : RInv cfg seen rs) (m : Nat) (S : List α)
    (hres : initiateFrom key cfg rs arr n = some (m, S)) :
    ∃ k, k ≤ arr.length ∧ m = n + k ∧ SubsetOk cfg (seen ++ arr.take k) S := by
  induction arr generalizing seen rs n with
  | nil => simp [initiateFrom] at hres
  | cons p ps ih =>
    simp only [initiateFrom] at hres
    have hstep := rinv_step cfg seen rs p h
    split at hres
    · next hr =>
      simp only [Option.some.injEq, Prod.mk.injEq] at hres
      have := startParams_ok key cfg (seen ++ [p]) _ hstep hself hex hr
      rw [hres.2] at this
      exact ⟨1, by simp, hres.1.symm, by simpa using this⟩
    · obtain ⟨k, hk, hm, hS⟩ := ih (seen ++ [p]) _ (n + 1) hstep hres
      exact ⟨k + 1, by simp; omega, by omega, by simpa using hS⟩

theorem initiateTFrom_ok (key : α → Nat) (cfg : ICfg α) (hself : cfg.self ∈ cfg.holders) (hex : cfg.self ∉ cfg.excluded)
    (evs : List (Arr α)) (seen rs : List α) (n : Nat) (h : RInv cfg seen rs) (m : Nat) (S : List α)
    (hres : initiateTFrom key cfg rs evs n = some (m, S)) :
    ∃ k, k ≤ evs.length ∧ m = n + k ∧ SubsetOk cfg (seen ++ readiesOf (evs.take k)) S := by
  induction evs generalizing seen rs n with
  | nil => simp [initiateTFrom] at hres
  | cons e es ih =>
    cases e with
    | tick =>
      simp only [initiateTFrom] at hres
      obtain ⟨k, hk, hm, hS⟩ := ih seen rs (n + 1) h hres
      exact ⟨k + 1, by simp; omega, by omega, by simpa [readiesOf] using hS⟩
    | ready p =>
      simp only [initiateTFrom] at hres
      have hstep := rinv_step cfg seen rs p h
      split at hres
      · next hr =>
        simp only [Option.some.injEq, Prod.mk.injEq] at hres
        have := startParams_ok key cfg (seen ++ [p]) _ hstep hself hex hr
        rw [hres.2] at this
        exact ⟨1, by simp, hres.1.symm, by simpa [readiesOf] using this⟩
      · obtain ⟨k, hk, hm, hS⟩ := ih (seen ++ [p]) _ (n + 1) hstep hres
        exact ⟨k + 1, by simp; omega, by omega, by simpa [readiesOf] using hS⟩

/-- number of ready key holders -/
def rpLen (cfg : ICfg α) (rs : List α) : Nat := (readyParticipants cfg.holders rs).length

theorem rpLen_append (cfg : ICfg α) (rs : List α) (p : α) :
    rpLen cfg (rs ++ [p]) = rpLen cfg rs + (if p ∈ cfg.holders then 1 else 0) := by
  unfold rpLen
  rw [readyParticipants_append]
  by_cases h : p ∈ cfg.holders <;> simp [readyParticipants, h]

theorem initiateFrom_live (key : α → Nat) (cfg : ICfg α) (arr : List α) :
    ∀ (rs E : List α) (n : Nat), rpLen cfg rs ≤ cfg.t → E.Nodup →
      (∀ q ∈ E, q ∈ arr ∧ q ∈ cfg.holders ∧ q ∉ cfg.excluded ∧ q ∉ rs) →
      cfg.t + 1 ≤ rpLen cfg rs + E.length → (initiateFrom key cfg rs arr n).isSome = true := by
  induction arr with
  | nil =>
    intro rs E n hc _ hE hsum
    cases E with
    | nil => simp at hsum; omega
    | cons q qs => have := (hE q (by simp)).1; simp at this
  | cons p ps ih =>
    intro rs E n hc hnd hE hsum
    simp only [initiateFrom]
    split
    · rfl
    · next hnr =>
      have hnr' : rpLen cfg (addReady cfg rs p) ≠ cfg.t + 1 := by
        intro h; apply hnr; simp [isReady]; exact h
      by_cases hpE : p ∈ E
      · obtain ⟨_, hph, hpx, hprs⟩ := hE p hpE
        have hadd : addReady cfg rs p = rs ++ [p] := by simp [addReady, hpx, hprs]
        rw [hadd] at hnr' ⊢
        have hlen : rpLen cfg (rs ++ [p]) = rpLen cfg rs + 1 := by rw [rpLen_append]; simp [hph]
        apply ih (rs ++ [p]) (E.erase p) (n + 1)
        · omega
        · exact hnd.erase p
        · intro q hq
          have hqE : q ∈ E := List.mem_of_mem_erase hq
          have hqp : q ≠ p := by
            intro e; subst e; exact (List.Nodup.not_mem_erase hnd) hq
          obtain ⟨hqa, hqh, hqx, hqrs⟩ := hE q hqE
          refine ⟨?_, hqh, hqx, ?_⟩
          · rcases List.mem_cons.1 hqa with e | e
            · exact absurd e hqp
            · exact e
          · simp [hqrs, hqp]
        · rw [List.length_erase_of_mem hpE, hlen]
          have : 0 < E.length := List.length_pos_of_mem hpE
          omega
      · have hle : rpLen cfg rs ≤ rpLen cfg (addReady cfg rs p) := by
          unfold addReady; split
          · rw [rpLen_append]; omega
          · exact Nat.le_refl _
        have hle2 : rpLen cfg (addReady cfg rs p) ≤ rpLen cfg rs + 1 := by
          unfold addReady; split
          · rw [rpLen_append]; split <;> omega
          · omega
        apply ih (addReady cfg rs p) E (n + 1)
        · omega
        · exact hnd
        · intro q hq
          obtain ⟨hqa, hqh, hqx, hqrs⟩ := hE q hq
          have hqp : q ≠ p := fun e => hpE (e ▸ hq)
          refine ⟨?_, hqh, hqx, ?_⟩
          · rcases List.mem_cons.1 hqa with e | e
            · exact absurd e hqp
            · exact e
          · unfold addReady; split
            · simp [hqrs, hqp]
            · exact hqrs
        · omega

theorem stepWait_finished (c : Option α) (s : WSt α) (r : Res) (h : s.phase = .finished r) (e : Ev α) :
    stepWait c s e = s := by
  unfold stepWait; rw [h]

/-- invariant of the waiting relayer over the messages seen so far -/
structure WInv (c : α) (seen : List (Ev α)) (s : WSt α) : Prop where
  rd   : ∀ r ∈ s.readies, r = c
  rdn  : s.readies.length ≤ (seen.filter (· = Ev.init c)).length
  rn   : ∀ n ∈ s.runs, Ev.start c (some n) ∈ seen
  rn1  : s.runs.length ≤ 1
  rnw  : s.phase = .waiting → s.runs = []
  fl   : s.phase = .finished .fail → Ev.fail c ∈ seen
  bs   : s.phase = .finished .badStart → Ev.start c none ∈ seen
  nok  : s.phase ≠ .finished .ok

theorem winv_mono (c : α) (seen : List (Ev α)) (s : WSt α) (e : Ev α) (h : WInv c seen s) :
    WInv c (seen ++ [e]) s := by
  refine ⟨h.rd, ?_, fun n hn => List.mem_append.2 (Or.inl (h.rn n hn)), h.rn1, h.rnw,
    fun x => List.mem_append.2 (Or.inl (h.fl x)), fun x => List.mem_append.2 (Or.inl (h.bs x)), h.nok⟩
  have := h.rdn
  simp only [List.filter_append, List.length_append]; omega

theorem winv_step (c : α) (seen : List (Ev α)) (s : WSt α) (e : Ev α) (h : WInv c seen s) :
    WInv c (seen ++ [e]) (stepWait (some c) s e) := by
  have hm := winv_mono c seen s e h
  unfold stepWait
  split
  · exact hm
  · next hw =>
    cases e with
    | init f =>
      by_cases hf : f = c
      · simp only [accepts, hf, decide_true, if_true]
        subst hf
        refine ⟨?_, ?_, hm.rn, hm.rn1, ?_, ?_, ?_, ?_⟩
        · intro r hr; rcases List.mem_append.1 hr with hr | hr
          · exact h.rd r hr
          · simpa using hr
        · have := h.rdn; simp [List.filter_append]; omega
        · intro _; exact h.rnw hw
        · intro x; simp [hw] at x
        · intro x; simp [hw] at x
        · simp [hw]
      · simpa [accepts, failFrom, hf] using hm
    | start f p =>
      by_cases hf : f = c
      · simp only [accepts, hf, decide_true, if_true]
        subst hf
        cases p with
        | none =>
          refine ⟨hm.rd, hm.rdn, hm.rn, hm.rn1, ?_, ?_, ?_, ?_⟩
          · intro x; simp at x
          · intro x; simp at x
          · intro _; simp
          · simp
        | some n =>
          have hr0 := h.rnw hw
          refine ⟨hm.rd, hm.rdn, ?_, ?_, ?_, ?_, ?_, ?_⟩
          · intro k hk; simp [hr0] at hk; subst hk; simp
          · simp [hr0]
          · intro x; simp at x
          · intro x; simp at x
          · intro x; simp at x
          · simp
      · simpa [accepts, failFrom, hf] using hm
    | fail f =>
      by_cases hf : f = c
      · simp only [failFrom, hf, decide_true, if_true]
        subst hf
        refine ⟨hm.rd, hm.rdn, hm.rn, hm.rn1, ?_, ?_, ?_, ?_⟩
        · intro x; simp at x
        · intro _; simp
        · intro x; simp at x
        · simp
      · simpa [accepts, failFrom, hf] using hm
  · next hw =>
    cases e with
    | init f => exact hm
    | start f p => exact hm
    | fail f =>
      by_cases hf : f = c
      · simp only [failFrom, hf, decide_true, if_true]
        subst hf
        refine ⟨hm.rd, hm.rdn, hm.rn, hm.rn1, ?_, ?_, ?_, ?_⟩
        · intro x; simp at x
        · intro _; simp
        · intro x; simp at x
        · simp
      · simpa [accepts, failFrom, hf] using hm

theorem winv_foldl (c : α) (tr seen : List (Ev α)) (s : WSt α) (h : WInv c seen s) :
    WInv c (seen ++ tr) (tr.foldl (stepWait (some c)) s) := by
  induction tr generalizing seen s with
  | nil => simpa using h
  | cons e es ih =>
    have := ih (seen ++ [e]) _ (winv_step c seen s e h)
    simpa using this

/-- a message from anyone but the coordinator is a no-op of the step function -/
theorem stepWait_forged (c : α) (s : WSt α) (e : Ev α) (h : e.src ≠ c) : stepWait (some c) s e = s := by
  unfold stepWait
  cases e with
  | init f => have : ¬ f = c := h; split <;> simp [accepts, this]
  | start f p => have : ¬ f = c := h; split <;> simp [accepts, this]
  | fail f => have : ¬ f = c := h; split <;> simp [failFrom, this]


theorem dedup_mem (l : List α) (x : α) : x ∈ dedup l ↔ x ∈ l := by
  induction l with
  | nil => simp [dedup]
  | cons y ys ih =>
    simp only [dedup]
    split
    · next h => rw [ih]; constructor
                · intro hx; exact List.mem_cons_of_mem _ hx
                · intro hx; rcases List.mem_cons.1 hx with rfl | hx
                  · exact ih.1 h
                  · exact hx
    · simp [ih]

theorem dedup_nodup (l : List α) : (dedup l).Nodup := by
  induction l with
  | nil => simp [dedup]
  | cons y ys ih =>
    simp only [dedup]
    split
    · exact ih
    · next h => exact List.nodup_cons.2 ⟨h, ih⟩

theorem initiateT_snd (key : α → Nat) (cfg : ICfg α) (evs : List (Arr α)) :
    ∀ (rs : List α) (n m : Nat), (initiateTFrom key cfg rs evs n).map Prod.snd =
      (initiateFrom key cfg rs (readiesOf evs) m).map Prod.snd := by
  induction evs with
  | nil => intro rs n m; simp [initiateTFrom, initiateFrom, readiesOf]
  | cons e es ih =>
    intro rs n m
    cases e with
    | tick => simp only [initiateTFrom, readiesOf]; exact ih rs (n + 1) m
    | ready p =>
      simp only [initiateTFrom, readiesOf, initiateFrom]
      split
      · simp
      · exact ih _ (n + 1) (m + 1)

/-- fail messages are the only events on which the two-sender step differs from the one-sender step -/
def notFail : Ev α → Bool
  | .fail _ => false
  | _ => true

theorem stepWait2_same (c : Option α) (s : WSt α) (e : Ev α) : stepWait2 c c s e = stepWait c s e := by
  cases e with
  | fail f => unfold stepWait2 stepWait; cases s.phase <;> rfl
  | init f => rfl
  | start f p => rfl

theorem stepWait2_nowatch (cw : Option α) (s : WSt α) (e : Ev α) :
    stepWait2 cw none s e = if notFail e then stepWait cw s e else s := by
  cases e with
  | fail f => simp only [stepWait2, failFrom, notFail]; cases s.phase <;> simp
  | init f => rfl
  | start f p => rfl

theorem runWait2_nowatch (cw : Option α) (tr : List (Ev α)) :
    runWait2 cw none tr = runWait cw (tr.filter notFail) := by
  unfold runWait2 runWait
  generalize (initW : WSt α) = s
  induction tr generalizing s with
  | nil => rfl
  | cons e es ih =>
    simp only [List.foldl_cons, List.filter_cons, stepWait2_nowatch]
    cases h : notFail e
    · simpa using ih s
    · simpa using ih _

end Helpers

section Property
variable {α : Type}

/-- **C07-1 (election order).** Two listings of the same peers (any permutation) with pairwise distinct keys are put
    into the same election order. -/
theorem election_order_agreement (key : α → Nat) (l₁ l₂ : List α) (hp : l₁.Perm l₂)
    (hinj : ∀ a ∈ l₁, ∀ b ∈ l₁, key a = key b → a = b) : sortDesc key l₁ = sortDesc key l₂ := by
  have p1 := sortDesc_perm key l₁
  have p2 := sortDesc_perm key l₂
  refine List.Perm.eq_of_pairwise (le := fun a b => key b ≤ key a) ?_ (sortDesc_sorted key l₁) (sortDesc_sorted key l₂)
    (p1.trans (hp.trans p2.symm))
  intro a b ha hb h1 h2
  exact hinj a (p1.mem_iff.1 ha) b (hp.mem_iff.2 (p2.mem_iff.1 hb)) (by omega)

/-- **C07-1 (coordinator).** Every relayer computes the same static coordinator whatever the listing order. -/
theorem coordinator_agreement (key : α → Nat) (l₁ l₂ : List α) (hp : l₁.Perm l₂)
    (hinj : ∀ a ∈ l₁, ∀ b ∈ l₁, key a = key b → a = b) :
    staticCoordinator key l₁ = staticCoordinator key l₂ := by
  unfold staticCoordinator; rw [election_order_agreement key l₁ l₂ hp hinj]

/-- the coordinator is a listed peer with the maximal key -/
theorem coordinator_is_max (key : α → Nat) (l : List α) (c : α) (h : staticCoordinator key l = some c) :
    c ∈ l ∧ ∀ p ∈ l, key p ≤ key c := by
  unfold staticCoordinator at h
  have hs := sortDesc_sorted key l
  have hp := sortDesc_perm key l
  cases hl : sortDesc key l with
  | nil => rw [hl] at h; simp at h
  | cons x xs =>
    rw [hl] at h hs; simp at h; subst h
    refine ⟨hp.mem_iff.1 (by rw [hl]; simp), ?_⟩
    intro p hp'
    have : p ∈ x :: xs := by rw [← hl]; exact hp.mem_iff.2 hp'
    rcases List.mem_cons.1 this with rfl | hx
    · exact Nat.le_refl _
    · exact List.rel_of_pairwise_cons hs hx

/-- **C07-1 (local view)** — DEFINITIONAL: `validCoordinators` ignores its peerstore argument, so this is
    `coordinator_agreement`; it records the modelling decision that op `newsigning` checks against the real constructors.
    Two relayers holding the same key share elect the same coordinator whatever peers their
    own libp2p peerstores happen to contain (and in whatever order they list the holders). -/
theorem election_ignores_local_view (key : α → Nat) (h₁ h₂ ps₁ ps₂ : List α) (hp : h₁.Perm h₂)
    (hinj : ∀ a ∈ h₁, ∀ b ∈ h₁, key a = key b → a = b) :
    staticCoordinator key (validCoordinators h₁ ps₁) = staticCoordinator key (validCoordinators h₂ ps₂) :=
  coordinator_agreement key h₁ h₂ hp hinj

example : sortDesc (fun n : Nat => n) [3, 1, 2] = sortDesc (fun n : Nat => n) [2, 3, 1] ∧
    staticCoordinator (fun n : Nat => n) [3, 1, 2] = some 3 := by decide

/-- the excluded point of C07-1: with a key collision the listing order decides who coordinates -/
theorem key_collision_point :
    staticCoordinator (fun _ : Nat => 0) [1, 2] ≠ staticCoordinator (fun _ : Nat => 0) [2, 1] := by decide

variable [DecidableEq α]

/-- **C07-2 (announced subset).** For every arrival sequence of ready messages, if `initiate` announces a subset after
    consuming `n` of them then it has exactly t+1 distinct members, all key holders, each the coordinator itself or a peer
    whose ready message is among THOSE `n` (not one that arrives later), it contains the coordinator and no excluded
    peer. -/
theorem announced_subset_ok_prefix (key : α → Nat) (cfg : ICfg α) (hself : cfg.self ∈ cfg.holders)
    (hex : cfg.self ∉ cfg.excluded) (arrivals : List α) (n : Nat) (S : List α)
    (h : initiate key cfg arrivals = some (n, S)) : n ≤ arrivals.length ∧ SubsetOk cfg (arrivals.take n) S := by
  obtain ⟨k, hk, hm, hS⟩ := initiateFrom_ok key cfg hself hex arrivals [] [cfg.self] 0 (rinv_init cfg) n S h
  have : n = k := by omega
  subst this
  exact ⟨hk, by simpa using hS⟩

/-- (corollary: w.r.t. all arrivals, the weaker form used where the number of consumed messages is not observed) -/
theorem announced_subset_ok (key : α → Nat) (cfg : ICfg α) (hself : cfg.self ∈ cfg.holders)
    (hex : cfg.self ∉ cfg.excluded) (arrivals : List α) (n : Nat) (S : List α)
    (h : initiate key cfg arrivals = some (n, S)) : SubsetOk cfg arrivals S :=
  SubsetOk_mono cfg _ _ S (fun _ hp => List.mem_of_mem_take hp)
    (announced_subset_ok_prefix key cfg hself hex arrivals n S h).2

example : initiate (fun n : Nat => n) ⟨0, [0, 1, 2, 3, 4], 2, [4]⟩ [7, 4, 1, 1, 0, 3, 2] = some (6, [3, 1, 0]) ∧
    (0 : Nat) ∈ [0, 1, 2, 3, 4] ∧ (0 : Nat) ∉ [4] := by decide

/-- **C07-2 (liveness side).** If t ≥ 1 and t distinct peers that hold a key share, are not excluded and are not the
    coordinator itself occur among the ready senders, the coordinator (a key holder) does announce a subset. -/
theorem announces_when_enough (key : α → Nat) (cfg : ICfg α) (hself : cfg.self ∈ cfg.holders) (ht : 1 ≤ cfg.t)
    (arrivals E : List α) (hnd : E.Nodup) (hlen : E.length = cfg.t)
    (hE : ∀ q ∈ E, q ∈ arrivals ∧ q ∈ cfg.holders ∧ q ∉ cfg.excluded ∧ q ≠ cfg.self) :
    (initiate key cfg arrivals).isSome = true := by
  apply initiateFrom_live key cfg arrivals [cfg.self] E 0
  · simp [rpLen, readyParticipants, hself]; exact ht
  · exact hnd
  · intro q hq; obtain ⟨a, b, c, d⟩ := hE q hq; exact ⟨a, b, c, by simpa using d⟩
  · simp [rpLen, readyParticipants, hself]; omega

/-- **C07-2 (Ready / StartParams on any ready list).** The model's answer meets `SubsetSpec`, the predicate the driver
    evaluates on the answers of both real Signing types. -/
theorem startParams_spec (key : α → Nat) (cfg : ICfg α) (ready : List α) :
    SubsetSpec key cfg.holders cfg.t ready (isReady cfg ready) (startParams key cfg ready) := by
  have hperm := sortDesc_perm key (readyParticipants cfg.holders ready)
  have hsort := sortDesc_sorted key (readyParticipants cfg.holders ready)
  have hsplit := List.take_append_drop (cfg.t + 1) (sortDesc key (readyParticipants cfg.holders ready))
  refine ⟨by simp [isReady], ?_, ?_, ?_, ?_⟩
  · simp [startParams, List.length_take, hperm.length_eq]
  · intro p _
    have h1 : (startParams key cfg ready).count p ≤ (sortDesc key (readyParticipants cfg.holders ready)).count p :=
      (List.take_sublist _ _).count_le p
    rw [hperm.count_eq] at h1
    exact h1
  · exact hsort.sublist (List.take_sublist _ _)
  · intro p _ q hq hlt
    have hcount : (sortDesc key (readyParticipants cfg.holders ready)).count p =
        (startParams key cfg ready).count p +
          ((sortDesc key (readyParticipants cfg.holders ready)).drop (cfg.t + 1)).count p := by
      have := congrArg (List.count p) hsplit
      rw [List.count_append] at this
      simpa [startParams] using this.symm
    rw [hperm.count_eq] at hcount
    have hdrop : p ∈ (sortDesc key (readyParticipants cfg.holders ready)).drop (cfg.t + 1) := by
      apply List.count_pos_iff.1; omega
    rw [← hsplit] at hsort
    exact (List.pairwise_append.1 hsort).2.2 q hq p hdrop

example : SubsetSpec (fun n : Nat => n) [0, 1, 2, 3] 1 [1, 7, 3, 1, 2] false [3, 2] := by decide

/-- **C07-2 (the announcement as a whole).** Whatever the collecting loop does satisfies `AnnouncedOk`: a subset that is
    announced meets the C07 clause, and nothing is announced only if fewer than t distinct eligible key holders reported
    ready (or the threshold is 0). This is the predicate the driver evaluates on the implementation's outcome. -/
theorem initiate_announcedOk (key : α → Nat) (cfg : ICfg α) (hself : cfg.self ∈ cfg.holders)
    (hex : cfg.self ∉ cfg.excluded) (arrivals : List α) :
    AnnouncedOk cfg (arrivals.take (((initiate key cfg arrivals).map Prod.fst).getD 0)) arrivals
      ((initiate key cfg arrivals).map Prod.snd) := by
  cases h : initiate key cfg arrivals with
  | some r =>
    obtain ⟨n, S⟩ := r
    exact (announced_subset_ok_prefix key cfg hself hex arrivals n S h).2
  | none =>
    show enoughReady cfg arrivals = false
    cases he : enoughReady cfg arrivals with
    | false => rfl
    | true =>
      exfalso
      simp only [enoughReady, Bool.and_eq_true, decide_eq_true_eq] at he
      have hnd := dedup_nodup (arrivals.filter fun p =>
        decide (p ∈ cfg.holders) && decide (p ∉ cfg.excluded) && decide (p ≠ cfg.self))
      have hlive := announces_when_enough key cfg hself he.1 arrivals ((eligibleReporters cfg arrivals).take cfg.t)
        (List.Nodup.sublist (List.take_sublist _ _) hnd)
        (by rw [List.length_take]; exact Nat.min_eq_left he.2)
        (by
          intro q hq
          have hq' := (dedup_mem _ q).1 (List.mem_of_mem_take hq)
          simp only [List.mem_filter, Bool.and_eq_true, decide_eq_true_eq] at hq'
          exact ⟨hq'.1, hq'.2.1.1, hq'.2.1.2, hq'.2.2⟩)
      rw [h] at hlive
      simp at hlive

example : ([1, 2] : List Nat).Nodup ∧ (∀ q ∈ ([1, 2] : List Nat), q ∈ [7, 4, 1, 1, 0, 3, 2] ∧ q ∈ [0, 1, 2, 3, 4] ∧ q ∉ [4] ∧ q ≠ 0) := by
  decide

/-- excluded point of the liveness side: with threshold 0 the subset (the coordinator alone) is announced only when a
    ready message from a peer WITHOUT a key share arrives; key holders' messages overshoot the `== t+1` test -/
theorem threshold_zero_point :
    initiate (fun n : Nat => n) ⟨0, [0, 1, 2], 0, []⟩ [1, 2] = none ∧
    initiate (fun n : Nat => n) ⟨0, [0, 1, 2], 0, []⟩ [7] = some (1, [0]) := by decide


/-- **C07-2 with the re-broadcast ticker.** Ticks of the `InitiatePeriod` ticker, anywhere between the ready messages,
    change nothing: the announced subset is the one announced for the ready messages alone … -/
theorem ticks_change_nothing (key : α → Nat) (cfg : ICfg α) (evs : List (Arr α)) :
    (initiateT key cfg evs).map Prod.snd = (initiate key cfg (readiesOf evs)).map Prod.snd :=
  initiateT_snd key cfg evs [cfg.self] 0 0

/-- … and therefore satisfies the C07 clause — in particular it still contains the coordinator, however many times the
    initiate message was re-broadcast before the quorum was reached. -/
theorem announced_subset_ok_with_ticks (key : α → Nat) (cfg : ICfg α) (hself : cfg.self ∈ cfg.holders)
    (hex : cfg.self ∉ cfg.excluded) (evs : List (Arr α)) (n : Nat) (S : List α)
    (h : initiateT key cfg evs = some (n, S)) : n ≤ evs.length ∧ SubsetOk cfg (readiesOf (evs.take n)) S := by
  obtain ⟨k, hk, hm, hS⟩ := initiateTFrom_ok key cfg hself hex evs [] [cfg.self] 0 (rinv_init cfg) n S h
  have : n = k := by omega
  subst this
  exact ⟨hk, by simpa using hS⟩

theorem initiateT_announcedOk (key : α → Nat) (cfg : ICfg α) (hself : cfg.self ∈ cfg.holders)
    (hex : cfg.self ∉ cfg.excluded) (evs : List (Arr α)) :
    AnnouncedOk cfg (readiesOf (evs.take (((initiateT key cfg evs).map Prod.fst).getD 0))) (readiesOf evs)
      ((initiateT key cfg evs).map Prod.snd) := by
  cases h : initiateT key cfg evs with
  | some r =>
    obtain ⟨n, S⟩ := r
    exact (announced_subset_ok_with_ticks key cfg hself hex evs n S h).2
  | none =>
    have h1 := ticks_change_nothing key cfg evs
    rw [h] at h1
    have h2 := initiate_announcedOk key cfg hself hex (readiesOf evs)
    cases hi : initiate key cfg (readiesOf evs) with
    | some r => rw [hi] at h1; simp at h1
    | none => rw [hi] at h2; exact h2

example : initiateT (fun n : Nat => n) ⟨0, [0, 1, 2, 3], 2, []⟩ [.ready 1, .tick, .tick, .ready 3, .ready 2] = some (4, [3, 1, 0]) := by
  decide

/-- excluded point: a coordinator that is itself on the excluded list still puts itself into the subset -/
theorem self_excluded_point :
    initiate (fun n : Nat => n) ⟨0, [0, 1, 2], 1, [0]⟩ [1] = some (1, [1, 0]) := by decide

/-- excluded point: a coordinator without a key share announces a subset that does not contain it -/
theorem self_not_holder_point :
    initiate (fun n : Nat => n) ⟨9, [0, 1, 2], 1, []⟩ [1, 2] = some (2, [2, 1]) := by decide

/-- **C07-3 (only the coordinator is obeyed).** For every trace of initiate / start / fail messages from arbitrary
    senders, a relayer whose coordinator is `c` answers ready only to `c` (at most once per initiate from `c`), runs at
    most one process and only with the params of a start message from `c`, and aborts only on a fail message or an
    undecodable start message from `c`. -/
theorem obeys_only_coordinator (c : α) (tr : List (Ev α)) :
    ObeysOnly c tr (runWait (some c) tr).readies (runWait (some c) tr).runs (runWait (some c) tr).res := by
  have h0 : WInv c [] (initW : WSt α) := by
    constructor <;> simp [initW]
  have h := winv_foldl c tr [] initW h0
  simp only [List.nil_append] at h
  unfold runWait
  generalize tr.foldl (stepWait (some c)) initW = s at h
  refine ⟨h.rd, h.rdn, h.rn, h.rn1, ?_, ?_⟩
  · intro hr; apply h.fl
    unfold WSt.res at hr
    split at hr
    · next r hp => rw [hp, hr]
    · cases hr
  · intro hr; apply h.bs
    unfold WSt.res at hr
    split at hr
    · next r hp => rw [hp, hr]
    · cases hr

/-- **C07-3 (non-interference).** Deleting every message that does not come from the coordinator — forged initiate,
    start and fail messages from committee members or outsiders, anywhere in the trace — changes nothing. -/
theorem forged_messages_change_nothing (c : α) (tr : List (Ev α)) :
    runWait (some c) tr = runWait (some c) (tr.filter (fun e => decide (e.src = c))) := by
  unfold runWait
  generalize (initW : WSt α) = s
  induction tr generalizing s with
  | nil => rfl
  | cons e es ih =>
    simp only [List.foldl_cons, List.filter_cons]
    by_cases h : e.src = c
    · simp only [h, decide_true, if_true, List.foldl_cons]; exact ih _
    · simp only [h, decide_false]
      rw [stepWait_forged c s e h]; exact ih s

example : (runWait (some 2) [Ev.init 0, Ev.init 2, Ev.start 0 (some 8), Ev.fail 1, Ev.start 2 (some 7), Ev.fail 0]).readies = [2] ∧
    (runWait (some 2) [Ev.init 0, Ev.init 2, Ev.start 0 (some 8), Ev.fail 1, Ev.start 2 (some 7), Ev.fail 0]).runs = [7] ∧
    (runWait (some 2) [Ev.init 0, Ev.init 2, Ev.start 0 (some 8), Ev.fail 1, Ev.start 2 (some 7), Ev.fail 2]).res = .fail := by
  decide

/-- **C07-3 (authenticated sender)** — DEFINITIONAL: `attributeSender` ignores the claimed origin; the statement records
    the modelling decision that op `net` checks against the real receive path. What a relayer does depends on the envelopes it receives only through the peers
    their connections are authenticated as: rewriting the origin the envelopes CLAIM — e.g. a committee member naming the
    coordinator — changes nothing; together with `obeys_only_coordinator` it is the coordinator's own connection that is
    obeyed. -/
theorem claimed_origin_is_ignored (c : α) (envs : List (Envelope α)) (claim : Envelope α → Option α) :
    runWait (some c) (envs.map attributeSender) =
      runWait (some c) ((envs.map fun e => { e with claimed := claim e }).map attributeSender) := by
  congr 1
  rw [List.map_map]
  apply List.map_congr_left
  intro e _
  rfl

/-- **C07-3 (the coordinator's own fail watcher).** While a relayer coordinates an attempt, fail messages that its
    watcher does not accept — in the first attempt: from anyone but the relayer itself, which no authenticated peer can
    be; in a retried attempt (`cf = none`): from anyone at all — change nothing: the announcement is the one `initiate`
    makes on the ready messages alone, and the attempt is not aborted. -/
theorem coordinator_ignores_forged_fails (key : α → Nat) (cfg : ICfg α) (cf : Option α) (tr : List (CoEv α))
    (h : ∀ f, CoEv.fail f ∈ tr → failFrom cf f = false) :
    runCoord key cfg cf tr = (initiate key cfg (readiesCo tr), false) := by
  unfold runCoord initiate
  generalize [cfg.self] = rs
  generalize (0 : Nat) = n
  induction tr generalizing rs n with
  | nil => simp [coordFrom, readiesCo, initiateFrom]
  | cons e es ih =>
    have hes : ∀ f, CoEv.fail f ∈ es → failFrom cf f = false := fun f hf => h f (List.mem_cons_of_mem _ hf)
    cases e with
    | fail f =>
      simp only [coordFrom, readiesCo, h f List.mem_cons_self]
      exact ih hes rs n
    | ready p =>
      simp only [coordFrom, readiesCo, initiateFrom]
      split
      · have : abortedBy cf es = false := by
          simp only [abortedBy, List.any_eq_false]
          intro e he
          cases e with
          | ready q => simp
          | fail f => simpa using hes f he
        simp [this]
      · exact ih hes _ _

/-- in a retried attempt the hypothesis is vacuous: no fail message whatsoever aborts a coordinating relayer -/
theorem retry_coordinator_ignores_all_fails (key : α → Nat) (cfg : ICfg α) (tr : List (CoEv α)) :
    runCoord key cfg none tr = (initiate key cfg (readiesCo tr), false) :=
  coordinator_ignores_forged_fails key cfg none tr (fun _ _ => rfl)

example : runCoord (fun n : Nat => n) ⟨0, [0, 1, 2, 3], 1, []⟩ (some 0) [.fail 2, .ready 7, .fail 1, .ready 2, .fail 3] =
      (some (2, [2, 0]), false) ∧
    runCoord (fun n : Nat => n) ⟨0, [0, 1, 2, 3], 1, []⟩ (some 0) [.fail 2, .fail 0, .ready 2] = (none, true) := by
  decide

/-- genuine messages ARE obeyed (the predicate above is not met by doing nothing): first initiate answered,
    first well-formed start run, fail aborts -/
theorem genuine_messages_obeyed (c : α) (n : Nat) :
    (runWait (some c) [Ev.init c]).readies = [c] ∧ (runWait (some c) [Ev.start c (some n)]).runs = [n] ∧
    (runWait (some c) [Ev.fail c]).res = .fail ∧ (runWait (some c) [Ev.start c (some n), Ev.fail c]).res = .fail := by
  simp [runWait, stepWait, initW, accepts, failFrom, WSt.res]


/-- the two-sender machine with both senders equal is the one-sender machine (first attempt) -/
theorem runWait2_same (c : Option α) (tr : List (Ev α)) : runWait2 c c tr = runWait c tr := by
  unfold runWait2 runWait
  congr 1
  funext s e
  exact stepWait2_same c s e

/-- **C07-3 in a retried attempt.** The relayer follows the bully-elected coordinator `r` (known to waitForStart) while
    the fail watcher started by handleError knows no coordinator: for every trace it still answers and starts only on
    `r`'s messages, and NO fail message — from `r`, from a committee member, from anyone — aborts the attempt. -/
theorem retry_follower_obeys_only (r : α) (tr : List (Ev α)) :
    ObeysOnly r tr (runWait2 (some r) none tr).readies (runWait2 (some r) none tr).runs (runWait2 (some r) none tr).res ∧
    (runWait2 (some r) none tr).res ≠ .fail := by
  rw [runWait2_nowatch]
  have h := obeys_only_coordinator r (tr.filter notFail)
  obtain ⟨h1, h2, h3, h4, h5, h6⟩ := h
  have hnf : (runWait (some r) (tr.filter notFail)).res ≠ .fail := by
    intro hf
    have := h5 hf
    simp [notFail] at this
  refine ⟨⟨h1, ?_, ?_, h4, ?_, ?_⟩, hnf⟩
  · refine Nat.le_trans h2 ?_
    exact (List.Sublist.filter _ List.filter_sublist).length_le
  · intro n hn; exact (List.mem_filter.1 (h3 n hn)).1
  · intro hf; exact absurd hf hnf
  · intro hb; exact (List.mem_filter.1 (h6 hb)).1

example : (runWait2 (some 2) none [Ev.init 2, Ev.fail 0, Ev.fail 2, Ev.start 2 (some 7), Ev.fail 1, Ev.fail 2]).runs = [7] ∧
    (runWait2 (some 2) none [Ev.init 2, Ev.fail 0, Ev.fail 2, Ev.start 2 (some 7), Ev.fail 1, Ev.fail 2]).res = .ok := by
  decide

end Property
end Sygma.C07
