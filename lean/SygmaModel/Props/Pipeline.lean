/-
  Pipeline — composition theorems (C01 ∘ C14 ∘ C02) for an EVM destination. They add no assumption of their own:
  each is derived from the property theorems of the stages.

  * `committed_is_pending`  : the digests handed to signing commit, batch after batch and in order, to exactly the
                              not-yet-executed proposals of the delivery — nothing else, nothing twice.
  * `well_formed_deposits_relayed_canonically` : a range of well-formed deposits is delivered as exactly their
                              canonical proposals (C01), in order.
  * `end_to_end`            : hence what is signed for a range of well-formed deposits is the canonical payload of
                              exactly the pending ones.
  * `signed_digest_binds`   : and each signed digest determines its batch, chain id and bridge address, unless a hash
                              collision is exhibited (C02).
-/
import SygmaModel.Model.Pipeline
import SygmaModel.Props.C01
import SygmaModel.Props.C02
import SygmaModel.Props.C14
import SygmaModel.Props.C03
namespace Sygma.Pipeline
open Sygma

section Helpers

theorem pick_pending (tg : Nat) (pre ds : List Delivered) :
    pick (pre ++ ds) ((C14.pendingFrom tg pre.length (pins ds)).map (·.1))
      = (ds.filter (fun d => !d.executed)).map (fun d => toProp' d.prop) := by
  induction ds generalizing pre with
  | nil => simp [pins, C14.pendingFrom, pick]
  | cons d ds ih =>
    have h := ih (pre ++ [d])
    simp only [List.append_assoc, List.singleton_append, List.length_append, List.length_cons, List.length_nil] at h
    simp only [pins, List.map_cons, C14.pendingFrom] at h ⊢
    cases hd : d.executed with
    | true => simpa [hd, pins] using h
    | false =>
      simp only [hd, Bool.false_eq_true, if_false, List.map_cons, List.filter_cons, Bool.not_false, if_true]
      unfold pick at h ⊢
      simp only [List.filterMap_cons]
      have hget : (pre ++ d :: ds)[pre.length]? = some d := by simp
      rw [hget]
      simpa [pins] using h

theorem pick_flatten (ds : List Delivered) (xs : List (List Nat)) :
    (xs.map (pick ds)).flatten = pick ds xs.flatten := by
  unfold pick
  rw [List.filterMap_flatten]

/-- the pallet's answer for one delivered proposal -/
def subAns (x : C01.Proposal × Option Bool) : C03.Ans :=
  match x.2 with | none => .err | some true => .exec | some false => .notExec

theorem subDelivery_eq (ds : List (C01.Proposal × Option Bool)) :
    subDelivery ds = ds.zipIdx.map fun x => (x.2, subAns x.1) := by
  unfold subDelivery subAns; rfl

theorem zip_hasErr (ds : List (C01.Proposal × Option Bool)) (k : Nat) :
    ((ds.zipIdx k).map fun x => (x.2, subAns x.1)).any (·.2 = C03.Ans.err) = ds.any (·.2 = none) := by
  induction ds generalizing k with
  | nil => simp
  | cons d ds ih =>
    simp only [List.zipIdx_cons, List.map_cons, List.any_cons, ih (k+1)]
    rcases d with ⟨p, _ | b⟩
    · simp [subAns]
    · cases b <;> simp [subAns]

theorem subDelivery_hasErr (ds : List (C01.Proposal × Option Bool)) :
    C03.hasErr (subDelivery ds) = ds.any (·.2 = none) := by
  rw [subDelivery_eq]; exact zip_hasErr ds 0

theorem subDelivery_wanted (pre ds : List (C01.Proposal × Option Bool)) :
    ((((ds.zipIdx pre.length).map fun x => (x.2, subAns x.1)).filter (·.2 = C03.Ans.notExec)).map (·.1)).filterMap
        (fun i => ((pre ++ ds)[i]?).map fun d => toProp' d.1)
      = (ds.filter (·.2 = some false)).map (fun d => toProp' d.1) := by
  induction ds generalizing pre with
  | nil => simp
  | cons d ds ih =>
    have h' := ih (pre ++ [d])
    simp only [List.append_assoc, List.singleton_append, List.length_append, List.length_cons, List.length_nil] at h'
    simp only [List.zipIdx_cons, List.map_cons, List.filter_cons]
    rcases d with ⟨p, _ | b⟩
    · simpa [subAns] using h'
    · cases b
      · have hget : (pre ++ (p, some false) :: ds)[pre.length]? = some (p, some false) := by simp
        simp only [subAns, decide_true, if_true, List.map_cons, List.filterMap_cons, hget, Option.map_some]
        simpa [subAns] using h'
      · simpa [subAns] using h'

end Helpers

section Property

/-- **What is signed commits to exactly the pending proposals.** For every delivery (no uint64 gas wrap), the
    proposals covered by the signed digests, batch after batch, are the not-yet-executed proposals in their original
    order; executed ones are in no signed batch. -/
theorem committed_is_pending (cap tg : Nat) (msgId : String) (ds : List Delivered)
    (hno : C14.NoOverflow (C14.pending tg (pins ds))) :
    (committed cap tg msgId ds).flatten = (ds.filter (fun d => !d.executed)).map (fun d => toProp' d.prop) := by
  unfold committed
  have h1 : ((C14.signed msgId (C14.batches cap tg (pins ds))).map fun s => pick ds s.2)
      = ((C14.signed msgId (C14.batches cap tg (pins ds))).map (·.2)).map (pick ds) := by
    simp [List.map_map, Function.comp_def]
  rw [h1, pick_flatten, (C14.signed_partition cap tg (pins ds) msgId hno).1]
  have := pick_pending tg [] ds
  simpa [C14.pending] using this

/-- **A range of well-formed deposits is delivered as exactly their canonical proposals, in order** (C01 lifted to
    lists): if every deposit of the range is well-formed for its pair and C01's reference says it yields a proposal. -/
theorem well_formed_deposits_relayed_canonically (ins : List (C01.Input × Bool))
    (hwf : ∀ x ∈ ins, (canon x.1).isSome) :
    (deliver ins).map (fun d => (d.prop, d.executed)) = ins.filterMap (fun x => (canon x.1).map (fun e => (e, x.2))) := by
  induction ins with
  | nil => simp [deliver]
  | cons x xs ih =>
    have hx := hwf x (by simp)
    have ih' := ih (fun y hy => hwf y (by simp [hy]))
    unfold canon at hx
    cases he : C01.expected x.1 with
    | none => simp [he] at hx
    | some o =>
      cases o with
      | ok e =>
        have hr : C01.relay x.1 = .ok e := C01.expected_sound x.1 _ he
        have hc : canon x.1 = some e := by simp [canon, he]
        unfold deliver at ih' ⊢
        simp only [List.filterMap_cons, hr, List.map_cons, hc, Option.map_some]
        rw [ih']
      | errSrc => simp [he] at hx
      | panicSrc => simp [he] at hx
      | errDst => simp [he] at hx
      | panicDst => simp [he] at hx

/-- **End to end.** For a range of well-formed deposits relayed to an EVM destination, the digests handed to
    signing commit, in order, to the canonical proposals of exactly those deposits the destination has not executed. -/
theorem end_to_end (cap tg : Nat) (msgId : String) (ins : List (C01.Input × Bool))
    (hwf : ∀ x ∈ ins, (canon x.1).isSome)
    (hno : C14.NoOverflow (C14.pending tg (pins (deliver ins)))) :
    (committed cap tg msgId (deliver ins)).flatten
      = (ins.filter (fun x => !x.2)).filterMap (fun x => (canon x.1).map toProp') := by
  rw [committed_is_pending cap tg msgId (deliver ins) hno]
  have h := well_formed_deposits_relayed_canonically ins hwf
  -- push the filter and the projection through the pairing
  have e1 : (List.filter (fun d => !d.executed) (deliver ins)).map (fun d => toProp' d.prop)
      = (((deliver ins).map (fun d => (d.prop, d.executed))).filter (fun y => !y.2)).map (fun y => toProp' y.1) := by
    simp [List.filter_map, Function.comp_def, List.map_map]
  rw [e1, h]
  clear h e1 hno
  induction ins with
  | nil => simp
  | cons x xs ih =>
    have hx := hwf x (by simp)
    have ih' := ih (fun y hy => hwf y (by simp [hy]))
    obtain ⟨e, he⟩ := Option.isSome_iff_exists.1 hx
    cases hx2 : x.2 <;> simp [List.filterMap_cons, he, hx2, List.filter_cons, ih']

/-- **Each signed digest binds its batch.** Two deliveries (possibly on different chains / bridge addresses) for
    which some signed digest coincides carry the same chain id, the same bridge address and the same batch — or the
    proof exhibits a collision of the hash function. `H` is arbitrary. -/
theorem signed_digest_binds (H : C02.Hash) (hlen : ∀ x, (H x).length = 32)
    (c c' : Nat) (a a' : Bytes) (b b' : List C02.Prop')
    (hb : C02.BatchWF c a b) (hb' : C02.BatchWF c' a' b')
    (h : C02.Spec.digest H c a b = C02.Spec.digest H c' a' b') :
    (c = c' ∧ a = a' ∧ b = b') ∨ C02.Collision H :=
  C02.digest_binding H hlen C02.Spec.version c c' a a' b b' hb hb' h

/-- **Substrate destination.** If no executed-lookup fails, the (at most one) digest handed to signing commits, in
    order, to exactly the proposals the pallet reports as not executed; if a lookup fails nothing is signed. -/
theorem sub_committed_is_pending (ds : List (C01.Proposal × Option Bool)) :
    (if ds.any (·.2 = none) then subCommitted ds = []
     else (subCommitted ds).flatten = (ds.filter (·.2 = some false)).map (fun d => toProp' d.1)) := by
  have hP := C03.sub_P03 (subDelivery ds)
  unfold C03.P03ord at hP
  rw [subDelivery_hasErr] at hP
  split
  · next h => rw [if_pos h] at hP; simp [subCommitted, hP]
  · next h =>
    rw [if_neg h] at hP
    obtain ⟨hflat, _⟩ := hP
    unfold subCommitted
    rw [← List.filterMap_flatten, hflat]
    have := subDelivery_wanted [] ds
    rw [subDelivery_eq]
    simpa [C03.wanted] using this

/-- non-vacuity: a delivery of three proposals, the middle one executed, cap reached after each — two signed
    batches committing to the first and the third -/
example :
    let p : Nat → C01.Proposal := fun n => ⟨⟨1, 2, n, List.replicate 32 0⟩, .evm [UInt8.ofNat n], none⟩
    committed 100 60 "1-2-5-9" [⟨p 7, false⟩, ⟨p 8, true⟩, ⟨p 9, false⟩]
      = [[⟨1, 7, List.replicate 32 0, [7]⟩], [⟨1, 9, List.replicate 32 0, [9]⟩]] := by
  decide

end Property
end Sygma.Pipeline
