/-
  Pipeline — composition theorems (C01 ∘ C14 ∘ C02) for an EVM destination. They add no assumption of their own:
  each is derived from the property theorems of the stages.

  * `committed_is_pending`  : the digests handed to signing commit, batch after batch and in order, to exactly the
                              not-yet-executed proposals of the delivery — nothing else, nothing twice.
  * `well_formed_deposits_relayed_canonically` : a range of well-formed deposits is delivered as exactly their
                              canonical proposals (C01), in order.
  * `end_to_end`            : hence what is signed for a range of well-formed deposits is the canonical payload of
                              exactly the pending ones.
  * `signed_digest_binds`   : and each signed digest determines its batch, chain id and bridge address, unless two
                              different pre-images with the same hash are exhibited among those of the two computations (C02).
-/
import SygmaModel.Model.Pipeline
import SygmaModel.Props.C01
import SygmaModel.Props.C02
import SygmaModel.Props.C14
import SygmaModel.Props.C03
import SygmaModel.Props.C16
namespace Sygma.Pipeline
open Sygma

section Helpers

theorem pick_pending (tg : Nat) (pre ds : List Delivered) :
    pick (pre ++ ds) ((C14.pendingFrom tg pre.length (pins ds)).map (·.1))
      = (ds.filter (fun d => !d.executed)).map (fun d => toProp' d.prop) := by
  induction ds generalizing pre with
  | nil => simp [pins, C14.pendingFrom, pick]
  | cons d ds ih =>
    have h := ih (pre ++ [d])
    simp only [List.append_assoc, List.singleton_append, List.length_append, List.length_cons, List.length_nil] at h
    simp only [pins, List.map_cons, C14.pendingFrom] at h ⊢
    cases hd : d.executed with
    | true => simpa [hd, pins] using h
    | false =>
      simp only [hd, Bool.false_eq_true, if_false, List.map_cons, List.filter_cons, Bool.not_false, if_true]
      unfold pick at h ⊢
      simp only [List.filterMap_cons]
      have hget : (pre ++ d :: ds)[pre.length]? = some d := by simp
      rw [hget]
      simpa [pins] using h

theorem pick_flatten (ds : List Delivered) (xs : List (List Nat)) :
    (xs.map (pick ds)).flatten = pick ds xs.flatten := by
  unfold pick
  rw [List.filterMap_flatten]

/-- the pallet's answer for one delivered proposal -/
def subAns (x : C01.Proposal × Option Bool) : C03.Ans :=
  match x.2 with | none => .err | some true => .exec | some false => .notExec

theorem subDelivery_eq (ds : List (C01.Proposal × Option Bool)) :
    subDelivery ds = ds.zipIdx.map fun x => (x.2, subAns x.1) := by
  unfold subDelivery subAns; rfl

theorem zip_hasErr (ds : List (C01.Proposal × Option Bool)) (k : Nat) :
    ((ds.zipIdx k).map fun x => (x.2, subAns x.1)).any (·.2 = C03.Ans.err) = ds.any (·.2 = none) := by
  induction ds generalizing k with
  | nil => simp
  | cons d ds ih =>
    simp only [List.zipIdx_cons, List.map_cons, List.any_cons, ih (k+1)]
    rcases d with ⟨p, _ | b⟩
    · simp [subAns]
    · cases b <;> simp [subAns]

theorem subDelivery_hasErr (ds : List (C01.Proposal × Option Bool)) :
    C03.hasErr (subDelivery ds) = ds.any (·.2 = none) := by
  rw [subDelivery_eq]; exact zip_hasErr ds 0

theorem subDelivery_wanted (pre ds : List (C01.Proposal × Option Bool)) :
    ((((ds.zipIdx pre.length).map fun x => (x.2, subAns x.1)).filter (·.2 = C03.Ans.notExec)).map (·.1)).filterMap
        (fun i => ((pre ++ ds)[i]?).map fun d => toProp' d.1)
      = (ds.filter (·.2 = some false)).map (fun d => toProp' d.1) := by
  induction ds generalizing pre with
  | nil => simp
  | cons d ds ih =>
    have h' := ih (pre ++ [d])
    simp only [List.append_assoc, List.singleton_append, List.length_append, List.length_cons, List.length_nil] at h'
    simp only [List.zipIdx_cons, List.map_cons, List.filter_cons]
    rcases d with ⟨p, _ | b⟩
    · simpa [subAns] using h'
    · cases b
      · have hget : (pre ++ (p, some false) :: ds)[pre.length]? = some (p, some false) := by simp
        simp only [subAns, decide_true, if_true, List.map_cons, List.filterMap_cons, hget, Option.map_some]
        simpa [subAns] using h'
      · simpa [subAns] using h'

end Helpers

section Property

/-- **What is signed commits to exactly the pending proposals.** For every delivery (no uint64 gas wrap), the
    proposals covered by the signed digests, batch after batch, are the not-yet-executed proposals in their original
    order; executed ones are in no signed batch. -/
theorem committed_is_pending (cap tg : Nat) (msgId : String) (ds : List Delivered)
    (hno : C14.NoOverflow (C14.pending tg (pins ds))) :
    (committed cap tg msgId ds).flatten = (ds.filter (fun d => !d.executed)).map (fun d => toProp' d.prop) := by
  unfold committed
  have h1 : ((C14.signed msgId (C14.batches cap tg (pins ds))).map fun s => pick ds s.2)
      = ((C14.signed msgId (C14.batches cap tg (pins ds))).map (·.2)).map (pick ds) := by
    simp [List.map_map, Function.comp_def]
  rw [h1, pick_flatten, (C14.signed_partition cap tg (pins ds) msgId hno).1]
  have := pick_pending tg [] ds
  simpa [C14.pending] using this

/-- **A range of well-formed deposits is delivered as exactly their canonical proposals, in order** (C01 lifted to
    lists): if every deposit of the range is well-formed for its pair and C01's reference says it yields a proposal. -/
theorem well_formed_deposits_relayed_canonically (ins : List (C01.Input × Bool))
    (hwf : ∀ x ∈ ins, (canon x.1).isSome) :
    (deliver ins).map (fun d => (d.prop, d.executed)) = ins.filterMap (fun x => (canon x.1).map (fun e => (e, x.2))) := by
  induction ins with
  | nil => simp [deliver]
  | cons x xs ih =>
    have hx := hwf x (by simp)
    have ih' := ih (fun y hy => hwf y (by simp [hy]))
    unfold canon at hx
    cases he : C01.expected x.1 with
    | none => simp [he] at hx
    | some o =>
      cases o with
      | ok e =>
        have hr : C01.relay x.1 = .ok e := C01.expected_sound x.1 _ he
        have hc : canon x.1 = some e := by simp [canon, he]
        unfold deliver at ih' ⊢
        simp only [List.filterMap_cons, hr, List.map_cons, hc, Option.map_some]
        rw [ih']
      | errSrc => simp [he] at hx
      | panicSrc => simp [he] at hx
      | errDst => simp [he] at hx
      | panicDst => simp [he] at hx

/-- **End to end.** For a range of well-formed deposits relayed to an EVM destination, the digests handed to
    signing commit, in order, to the canonical proposals of exactly those deposits the destination has not executed. -/
theorem end_to_end (cap tg : Nat) (msgId : String) (ins : List (C01.Input × Bool))
    (hwf : ∀ x ∈ ins, (canon x.1).isSome)
    (hno : C14.NoOverflow (C14.pending tg (pins (deliver ins)))) :
    (committed cap tg msgId (deliver ins)).flatten
      = (ins.filter (fun x => !x.2)).filterMap (fun x => (canon x.1).map toProp') := by
  rw [committed_is_pending cap tg msgId (deliver ins) hno]
  have h := well_formed_deposits_relayed_canonically ins hwf
  -- push the filter and the projection through the pairing
  have e1 : (List.filter (fun d => !d.executed) (deliver ins)).map (fun d => toProp' d.prop)
      = (((deliver ins).map (fun d => (d.prop, d.executed))).filter (fun y => !y.2)).map (fun y => toProp' y.1) := by
    simp [List.filter_map, Function.comp_def, List.map_map]
  rw [e1, h]
  clear h e1 hno
  induction ins with
  | nil => simp
  | cons x xs ih =>
    have hx := hwf x (by simp)
    have ih' := ih (fun y hy => hwf y (by simp [hy]))
    obtain ⟨e, he⟩ := Option.isSome_iff_exists.1 hx
    cases hx2 : x.2 <;> simp [List.filterMap_cons, he, hx2, List.filter_cons, ih']

/-- **Each signed digest binds its batch.** Two deliveries (possibly on different chains / bridge addresses) for
    which some signed digest coincides carry the same chain id, the same bridge address and the same batch — or two
    DIFFERENT byte strings with the same hash are exhibited among the pre-images the two digest computations hand to
    `H` (`C02.hashedBy`, explicitly computable). `H` is an arbitrary function with 32-byte outputs. -/
theorem signed_digest_binds (H : C02.Hash) (hlen : ∀ x, (H x).length = 32)
    (c c' : Nat) (a a' : Bytes) (b b' : List C02.Prop')
    (hb : C02.BatchWF c a b) (hb' : C02.BatchWF c' a' b')
    (h : C02.Spec.digest H c a b = C02.Spec.digest H c' a' b') :
    (c = c' ∧ a = a' ∧ b = b') ∨
      C02.ExCollision H (C02.hashedBy H C02.Spec.version c a b) (C02.hashedBy H C02.Spec.version c' a' b') :=
  C02.digest_binding H hlen C02.Spec.version c c' a a' b b' hb hb' h

/-- **Substrate destination.** If no executed-lookup fails, the (at most one) digest handed to signing commits, in
    order, to exactly the proposals the pallet reports as not executed; if a lookup fails nothing is signed. -/
theorem sub_committed_is_pending (ds : List (C01.Proposal × Option Bool)) :
    (if ds.any (·.2 = none) then subCommitted ds = []
     else (subCommitted ds).flatten = (ds.filter (·.2 = some false)).map (fun d => toProp' d.1)) := by
  have hP := C03.sub_P03 (subDelivery ds)
  unfold C03.P03ord at hP
  rw [subDelivery_hasErr] at hP
  split
  · next h => rw [if_pos h] at hP; simp [subCommitted, hP]
  · next h =>
    rw [if_neg h] at hP
    obtain ⟨hflat, _⟩ := hP
    unfold subCommitted
    rw [← List.filterMap_flatten, hflat]
    have := subDelivery_wanted [] ds
    rw [subDelivery_eq]
    simpa [C03.wanted] using this

/-- **Bitcoin destination.** Whatever the address decoder, fee quotes, UTXO listing and metadata upload: if the
    executor builds a withdrawal transaction for a delivery (within the no-wrap bounds of C16), then for every
    position k of the delivery the k-th output pays exactly the relayed amount to the script of the relayed recipient —
    and for a well-formed fungible deposit (C01) that amount is the canonical one (deposit amount ÷ 10^10 for an
    EVM/Substrate source, the satoshi value itself for a Bitcoin source). -/
theorem btc_withdrawal_pays_relayed (dec : Bytes → Option Bytes) (i : C16.Inp) (ps : List C01.Proposal)
    (hps : i.props = btcPrps dec ps) (hwf : C16.WF i) (tx : C16.Tx) (htx : C16.rawTx i = some tx)
    (k : Nat) (p : C01.Proposal) (a : Nat) (r : Bytes) (hk : ps[k]? = some p) (hd : p.data = .btc a r) :
    ∃ s, dec r = some s ∧ tx.outs[k]? = some ⟨(a : Int), s⟩ := by
  have hP : C16.P16 i (some tx) := by
    have := C16.rawTx_P16 i hwf
    rwa [htx] at this
  have hkp : i.props[k]? = some ⟨a, dec r⟩ := by
    rw [hps]; simp [btcPrps, hk, hd]
  obtain ⟨s, hs, ho⟩ := C16.each_proposal_paid_once i tx hP k ⟨a, dec r⟩ hkp
  exact ⟨s, hs, ho⟩

/-- … and composed with C01: the k-th deposit of a well-formed range relayed to a Bitcoin destination is paid its
    canonical amount at output k. -/
theorem btc_end_to_end (dec : Bytes → Option Bytes) (i : C16.Inp) (ins : List C01.Input)
    (es : List C01.Proposal) (hcan : ins.map canon = es.map some)
    (hps : i.props = btcPrps dec es) (hwf : C16.WF i) (tx : C16.Tx) (htx : C16.rawTx i = some tx)
    (k : Nat) (inp : C01.Input) (a : Nat) (r : Bytes) (hk : ins[k]? = some inp)
    (hd : ∀ e, canon inp = some e → e.data = .btc a r) :
    C01.relay inp = .ok (es[k]?.getD ⟨inp.id, .btc a r, none⟩) ∧
    ∃ s, dec r = some s ∧ tx.outs[k]? = some ⟨(a : Int), s⟩ := by
  have hlen : ins.length = es.length := by simpa using congrArg List.length hcan
  have hkl : k < ins.length := by
    rcases List.getElem?_eq_some_iff.1 hk with ⟨h, _⟩; exact h
  have hke : k < es.length := by omega
  have hce : canon inp = some es[k] := by
    have h1 := congrArg (fun l => l[k]?) hcan
    simp only [List.getElem?_map, hk, Option.map_some, List.getElem?_eq_getElem hke] at h1
    exact Option.some.inj h1
  have hdata := hd _ hce
  constructor
  · have hexp : C01.expected inp = some (.ok es[k]) := by
      unfold canon at hce
      cases he : C01.expected inp with
      | none => simp [he] at hce
      | some o => cases o <;> simp_all
    have := C01.expected_sound inp _ hexp
    simpa [List.getElem?_eq_getElem hke] using this
  · exact btc_withdrawal_pays_relayed dec i es hps hwf tx htx k es[k] a r (List.getElem?_eq_getElem hke) hdata

/-- non-vacuity: a delivery of three proposals, the middle one executed, cap reached after each — two signed
    batches committing to the first and the third -/
example :
    let p : Nat → C01.Proposal := fun n => ⟨⟨1, 2, n, List.replicate 32 0⟩, .evm [UInt8.ofNat n], none⟩
    committed 100 60 "1-2-5-9" [⟨p 7, false⟩, ⟨p 8, true⟩, ⟨p 9, false⟩]
      = [[⟨1, 7, List.replicate 32 0, [7]⟩], [⟨1, 9, List.replicate 32 0, [9]⟩]] := by
  decide

end Property
end Sygma.Pipeline
